#!/usr/bin/env python3
"""Run /repo's test suite (guard OFF: no -tags) and compare the set of passing
tests with the pinned stable_pass list of /root/.vp/BASELINE.json.
Exit 0 iff every stable_pass test passes."""
import json, os, subprocess, sys
repo = sys.argv[1] if len(sys.argv) > 1 else "/repo"
env = dict(os.environ, GOFLAGS="-mod=mod", GOPROXY="off", GOSUMDB="off", GOTOOLCHAIN="local")
base = json.load(open("/root/.vp/BASELINE.json"))
want = set(base["stable_pass"])
p = subprocess.run(["go", "test", "-json", "-vet=off", "-count=1", "-timeout", "25m", "./..."],
                   cwd=repo, env=env, capture_output=True, text=True)
passed, failed = set(), set()
for line in p.stdout.splitlines():
    try:
        ev = json.loads(line)
    except Exception:
        continue
    if ev.get("Test") and ev.get("Action") in ("pass", "fail"):
        k = ev["Package"] + "::" + ev["Test"]
        (passed if ev["Action"] == "pass" else failed).add(k)
missing = sorted(want - passed)
print("stable_pass=%d passed_now=%d failed_now=%d missing_from_pass=%d new_pass=%d" %
      (len(want), len(passed), len(failed), len(missing), len(passed - want)))
for m in missing[:40]:
    print("  NOT PASSING:", m)
sys.exit(1 if missing else 0)
