#!/usr/bin/env python3
"""addknown.py <property> <rule> <construct> <what> <status> <fails>  - append an entry to known_findings.json"""
import json, sys
p='/verif/known_findings.json'
d=json.load(open(p))
prop, rule, construct, what, status, fails = sys.argv[1:7]
e={"property":prop,"rule":rule,"construct":construct,"what":what,"status":status,"fails":fails}
for x in d["findings"]:
    if all(x[k]==e[k] for k in ("property","rule","construct","what")):
        x.update(e); break
else:
    d["findings"].append(e)
with open(p,'w') as f:
    f.write('{\n "comment": %s,\n "findings": [\n' % json.dumps(d["comment"]))
    f.write(",\n".join("  "+json.dumps(x) for x in d["findings"]))
    f.write("\n ]\n}\n")
