#!/bin/bash
# seedall.sh <out-file> <seed-root>... : evaluate every seed under the given roots (FAST honoured), 5 at a time.
OUT=$1; shift
: > $OUT
for R in "$@"; do ls -d $(realpath $R)/[ACRSTUVWXYZ][0-9]*; done | xargs -P ${PAR:-5} -I{} bash -c 'r=$(basename $(dirname {})); bash /verif/tools/seedeval.sh {} 2>/dev/null | grep -v "^WARNING" | sed "s|^|$r |"' >> $OUT
sort -o $OUT $OUT
