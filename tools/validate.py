#!/usr/bin/env python3
import json, glob, sys
import jsonschema
ms = json.load(open('/root/.vp/MANIFEST.schema.json'))
es = json.load(open('/root/.vp/EVIDENCE.schema.json'))
m = json.load(open('/verif/MANIFEST.json'))
jsonschema.validate(m, ms)
ids = [c['property_id'] for c in m['checks']]
for i in ids:
    jsonschema.validate(json.load(open('/verif/evidence/%s.json' % i)), es)
na = [x['property_id'] for x in m.get('not_applicable', [])]
allp = [json.loads(l)['id'] for l in open('/verif/properties.jsonl')]
assert sorted(ids + na) == sorted(allp), (sorted(ids+na))
print('valid: claimed', ids, 'n/a', len(na))
