#!/bin/bash
# seedeval.sh <seed-dir> [props...] : confirm a seeded change (applies, builds, baseline passes, demo fails with / passes without)
# (FAST=1 skips the demo/baseline confirmation: for re-evaluating already confirmed seeds)
# and run the given checks (default: all claimed) against it. Prints one summary line. Scratch worktree is removed afterwards.
export GOFLAGS=-mod=mod GOPROXY=off GOSUMDB=off GOTOOLCHAIN=local
S=$1; shift
ID=$(basename $S)
WT=/tmp/seedwt.$ID.$$
VV=/tmp/seedvv.$ID.$$
DM=/tmp/seeddemo.$ID.$$
git -C /repo worktree add -q --detach $WT ${REPO_REV:-HEAD} || exit 2
ERRLINT=${ERRLINT:-/verif/bin/errlint}
trap 'git -C /repo worktree remove --force $WT; rm -rf $VV $DM' EXIT
mkdir -p $VV $DM; cp /verif/known_findings.json $VV/
cp $S/demo_test.go $DM/ 2>/dev/null; cp $S/*_test.go $DM/ 2>/dev/null
for d in $S/*/; do [ -d "$d" ] && cp -r "$d" $DM/; done
cat > $DM/go.mod <<EOF
module demo
go 1.19
require github.com/cockroachdb/errors v0.0.0
replace github.com/cockroachdb/errors => $WT
EOF
cp $WT/go.sum $DM/
RACE=""; grep -qi 'race' $S/meta.json && RACE="-race"
if [ -n "$FAST" ]; then CLEAN=skip; else (cd $DM && go mod tidy >/dev/null 2>&1; go test $RACE -count=1 ./... >$VV/demo_clean.log 2>&1); CLEAN=$?; fi
PATCH=$S/patch.diff
# a seed whose patch no longer applies to HEAD (a later fix: commit rewrote the same lines) carries a hand-rebased patch_head.diff
[ -z "$REPO_REV" ] && [ -f $S/patch_head.diff ] && PATCH=$S/patch_head.diff
if ! git -C $WT apply $PATCH 2>$VV/apply.log; then
  # the tree moved on since the seed was made (a later fix: commit touched the same file): try a 3-way merge
  if ! git -C $WT apply --3way $PATCH 2>>$VV/apply.log || grep -rq "^<<<<<<<" $(git -C $WT diff --name-only | sed "s|^|$WT/|") 2>/dev/null; then echo "$ID APPLY-FAILED $(head -1 $VV/apply.log)"; exit 1; fi
fi
(cd $WT && go build ./... >$VV/build.log 2>&1) || { echo "$ID BUILD-FAILED"; exit 1; }
if [ -n "$FAST" ]; then MUT=skip; BASE=skip; else (cd $DM && go test $RACE -count=1 ./... >$VV/demo_mut.log 2>&1); MUT=$?
python3 /verif/tools/baseline.py $WT >$VV/base.log 2>&1; BASE=$?; fi
PROPS="$@"; [ -z "$PROPS" ] && PROPS=$(python3 -c "import json;print(' '.join(c['property_id'] for c in json.load(open('/verif/MANIFEST.json'))['checks']))")
DET=""
if [ $# -eq 0 ] && [ -z "$PERPROP" ]; then  # PERPROP=1: one process per property (binaries older than the ALL mode)
  # one load for all properties (same rules, shared analysis caches)
  $ERRLINT -repo $WT -verif $VV -prop ALL >$VV/ALL.log 2>&1
  DET=$(python3 - "$VV/ALL.log" <<'PYEOF'
import re,sys
rules=set(); viol=False; out=[]
for l in open(sys.argv[1]):
    if l.startswith('KNOWN-FINDING') or l.startswith('WARNING'): continue
    m=re.match(r'^(C\d\d) quick:',l)
    if m:
        if viol: out.append('%s[%s]'%(m.group(1),','.join(sorted(rules))))
        rules=set(); viol=False; continue
    if l.startswith('VIOLATION'): viol=True; continue
    rules.update(x.strip('[]') for x in re.findall(r'\[R-[A-Za-z0-9/-]*\]',l))
print(' '+' '.join(out) if out else '')
PYEOF
)
  PROPS=""
fi
for P in $PROPS; do
  $ERRLINT -repo $WT -verif $VV -prop $P >$VV/$P.log 2>&1
  if grep -q '^VIOLATION' $VV/$P.log; then DET="$DET $P[$(grep -v '^KNOWN-FINDING' $VV/$P.log | grep -o '\[R-[A-Z/a-z0-9-]*\]' | sort -u | tr -d '[]' | tr '\n' ',' | sed 's/,$//')]"; fi
done
echo "$ID demo_clean=$CLEAN demo_mut=$MUT baseline=$BASE detected_by:${DET:- NONE}"
