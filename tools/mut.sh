#!/bin/bash
# mut.sh <file> <python-regex-old> <new> -- <props...> : apply one substitution to a scratch worktree of /repo HEAD and run the given checks against it.
set -e
WT=/tmp/mutwt.$$
git -C /repo worktree add -q --detach $WT HEAD
trap 'git -C /repo worktree remove --force $WT; rm -rf /tmp/mutvv.$$' EXIT
mkdir -p /tmp/mutvv.$$; cp /verif/known_findings.json /tmp/mutvv.$$/
F=$1; OLD=$2; NEW=$3; shift 3; [ "$1" = "--" ] && shift
python3 - "$WT/$F" "$OLD" "$NEW" <<'PY'
import sys,re
p,old,new=sys.argv[1:4]
s=open(p).read()
n=len(re.findall(old,s,flags=re.S))
assert n==1, "pattern matches %d times"%n
open(p,'w').write(re.sub(old,new.replace('\\','\\\\') if False else new,s,count=1,flags=re.S))
PY
(cd $WT && GOFLAGS=-mod=mod GOPROXY=off go build ./... 2>&1 | grep -v '^WARNING' | head -5)
for P in "$@"; do /verif/bin/errlint -repo $WT -verif /tmp/mutvv.$$ -prop $P | grep -E 'VIOLATION|^[a-z_/]+.*\[R-|quick:' | grep -v '^VIOLATION' | cut -c1-260; done
