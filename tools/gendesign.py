#!/usr/bin/env python3
"""Assemble /verif/DESIGN.md from the hand-written parts in /verif/design and the tables generated from the
checker (`errlint -dump props`) and from the stored seed evaluations."""
import collections, glob, json, os, re, subprocess

V = '/verif'

def parse_eval(path):
    out = {}
    if not os.path.exists(path):
        return out
    for l in open(path):
        l = l.strip()
        m = re.match(r'(?:\S+ )?([A-Z]\d\d-\d) .*detected_by:(.*)$', l)
        if m:
            out[m.group(1)] = m.group(2).strip()
            continue
        m = re.match(r'(?:\S+ )?([A-Z]\d\d-\d) (APPLY|BUILD)', l)
        if m:
            out[m.group(1)] = 'n/a'
    return out

rounds = [
    (1, 'seeded', 'EVAL-round1.txt', 'EVAL-round1-on-head.txt'),
    (2, 'seeded2', 'EVAL-round2-before-improvements.txt', 'EVAL-round2-on-head.txt'),
    (3, 'seeded3', 'EVAL-round3-first-contact.txt', 'EVAL-round3-on-head.txt'),
    (4, 'seeded4', 'EVAL-round4-first-contact.txt', 'EVAL-round4-on-head.txt'),
    (5, 'seeded5', 'EVAL-round5-first-contact.txt', 'EVAL-round5-on-head.txt'),
    (6, 'seeded6', 'EVAL-round6-first-contact.txt', 'EVAL-round6-on-head.txt'),
    (7, 'seeded7', 'EVAL-round7-first-contact.txt', 'EVAL-round7-on-head.txt'),
    (8, 'seeded8', 'EVAL-round8-first-contact.txt', 'EVAL-round8-on-head.txt'),
    (9, 'seeded9', 'EVAL-round9-first-contact.txt', 'EVAL-round9-on-head.txt'),
    (10, 'seeded10', 'EVAL-round10-first-contact.txt', 'EVAL-round10-on-head.txt'),
    (11, 'seeded11', 'EVAL-round11-first-contact.txt', 'EVAL-round11-on-head.txt'),
    (12, 'seeded12', 'EVAL-round12-first-contact.txt', 'EVAL-round12-on-head.txt'),
]
rows, summary = [], []
for rnd, d, first, after in rounds:
    a, b = parse_eval(f'{V}/{d}/{first}'), parse_eval(f'{V}/{d}/{after}')
    cf, ch = collections.Counter(), collections.Counter()
    for sid in sorted(b):
        try:
            meta = json.load(open(f'{V}/{d}/{sid}/meta.json'))
        except Exception:
            meta = {}
        summ = meta.get('summary') or meta.get('change') or meta.get('what') or ''
        if isinstance(summ, list):
            summ = ' '.join(map(str, summ))
        summ = str(summ).replace('\n', ' ').replace('|', '/')
        if len(summ) > 150:
            summ = summ[:147] + '…'
        own = 'C' + sid[1:3]
        def cls(s):
            if s in ('NONE', '?', ''):
                return 'missed'
            if s == 'n/a':
                return 'n/a'
            return 'own' if re.search(r'\b%s\[' % own, s) else 'other'
        fa, bb = a.get(sid, '?'), b[sid]
        cf[cls(fa)] += 1
        ch[cls(bb)] += 1
        m = re.search(r'%s\[([^\]]*)\]' % own, bb)
        ownrules = m.group(1).replace(',', ', ') if m else '—'
        others = ' '.join(x for x in re.findall(r'(C\d\d)\[', bb) if x != own)
        note = meta.get('status_on_head')
        if note:
            ownrules = '(silent: ' + note.split(':')[0] + ')'
        rows.append(f'| {rnd} | {sid} | {summ} | {cls(fa)} | {ownrules} | {others} |')
    summary.append(f'| {rnd} | {len(b)} | {cf["own"]} / {cf["other"]} / {cf["missed"]} | {ch["own"]} / {ch["other"]} / {ch["missed"]} |')

def refac_first(path):
    rf = parse_eval(path)
    alarmed = sorted(k for k, v in rf.items() if v not in ('NONE', 'n/a'))
    return (f'{len(alarmed)} of {len(rf)} raised an alarm in some property' + (f' ({", ".join(alarmed)})' if alarmed else '')) if rf else 'not recorded'
refac_first1 = refac_first(f'{V}/refactorings/EVAL-first-contact.txt')
refac_first2 = refac_first(f'{V}/refactorings/EVAL-round2-first-contact.txt')
refac_first3 = refac_first(f'{V}/refactorings/EVAL-round3-first-contact.txt')
refac_first4 = refac_first(f'{V}/refactorings/EVAL-round4-first-contact.txt')
refac_first5 = refac_first(f'{V}/refactorings/EVAL-round5-first-contact.txt')
refac_first6 = refac_first(f'{V}/refactorings/EVAL-round6-first-contact.txt')
refac_first7 = refac_first(f'{V}/refactorings/EVAL-round7-first-contact.txt')
refac_first8 = refac_first(f'{V}/refactorings/EVAL-round8-first-contact.txt')
refac_first9 = refac_first(f'{V}/refactorings/EVAL-round9-first-contact.txt')
refac_first10 = refac_first(f'{V}/refactorings/EVAL-round10-first-contact.txt')
rh = parse_eval(f'{V}/refactorings/EVAL-on-head.txt')
alarm_head = sorted(k for k, v in rh.items() if v not in ('NONE', 'n/a'))
refac_head = (f'all {len(rh)} are silent for all 20 properties' if rh and not alarm_head else (f'{len(alarm_head)} of {len(rh)} still alarm: {", ".join(alarm_head)}' if rh else 'not recorded'))

env = dict(os.environ, GOFLAGS='-mod=mod', GOPROXY='off', GOSUMDB='off', GOTOOLCHAIN='local')
cat = subprocess.run([f'{V}/bin/errlint', '-dump', 'props'], capture_output=True, text=True, env=env).stdout
cat = '\n'.join(l for l in cat.splitlines() if not l.startswith('WARNING'))

parts = []
parts.append(open(f'{V}/design/part1_head.md').read().rstrip() + '\n\n')
parts.append(cat.rstrip() + '\n\n')
parts.append(open(f'{V}/design/part2.md').read().rstrip() + '\n\n')
p4 = open(f'{V}/design/part4_seeds_head.md').read()
p4 = p4.replace('@SUMMARY@', '\n'.join(summary)).replace('@TABLE@', '\n'.join(rows)).replace('@REFAC_FIRST1@', refac_first1).replace('@REFAC_FIRST2@', refac_first2).replace('@REFAC_FIRST3@', refac_first3).replace('@REFAC_FIRST4@', refac_first4).replace('@REFAC_FIRST5@', refac_first5).replace('@REFAC_FIRST6@', refac_first6).replace('@REFAC_FIRST7@', refac_first7).replace('@REFAC_FIRST8@', refac_first8).replace('@REFAC_FIRST9@', refac_first9).replace('@REFAC_FIRST10@', refac_first10).replace('@REFAC_HEAD@', refac_head)
parts.append(p4.rstrip() + '\n\n')
parts.append(open(f'{V}/design/part3_falsealarms.md').read().rstrip() + '\n')
open(f'{V}/DESIGN.md', 'w').write(''.join(parts))
print('DESIGN.md written:', sum(len(p) for p in parts), 'bytes;', len(rows), 'seed rows')
