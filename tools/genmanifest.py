#!/usr/bin/env python3
"""Regenerate MANIFEST.json from tools/manifest_src.json (claimed checks and
not_applicable entries) so it always validates."""
import json
src = json.load(open('/verif/tools/manifest_src.json'))
checks = []
for pid, c in sorted(src['claimed'].items()):
    checks.append({
        "property_id": pid,
        "quick_cmd": "/verif/bin/errlint -prop %s -tier quick" % pid,
        "thorough_cmd": "/verif/bin/errlint -prop %s -tier thorough" % pid,
        "evidence_file": "/verif/evidence/%s.json" % pid,
        "replay_cmd_template": "/verif/bin/errlint -prop %s -tier quick  # re-analyses /repo; the finding recorded in {path} names rule, construct and position" % pid,
        "engine": "errlint",
        "level_claimed": {"category": "other", "text": c["text"], "design_ref": c.get("design_ref", "DESIGN.md §5 " + pid)},
        "level_note": c["note"],
        "technique": c["technique"],
    })
m = {
    "version": 1,
    "setup_cmd": "sh /verif/tools/setup.sh",
    "hooks": {
        "guard": "verif",
        "enable": "no hooks or instrumentation exist: the checks analyse /repo's source statically (loaded with -tags=verif so that guarded files, if ever added, are analysed too)",
        "baseline_off_cmd": "python3 /verif/tools/baseline.py /repo",
        "source_commits": [],
        "add_only": True,
    },
    "engines": [{
        "name": "errlint",
        "path": "/verif/checker",
        "serves_properties": sorted(src['claimed'].keys()),
        "kind_free_text": "repository-specific static analyser over go/packages + go/types + go/ssa + go/cfg (x/tools v0.29.0, vendored): census, origin/dataflow, dominance guards, nilness and affine-depth abstract interpretation, call-graph effects. Never executes library code.",
    }],
    "checks": checks,
    "notes": src.get("notes", ""),
    "not_applicable": [{"property_id": k, "reason": v} for k, v in sorted(src["not_applicable"].items())],
}
json.dump(m, open('/verif/MANIFEST.json', 'w'), indent=1)
print("claimed", len(checks), "not_applicable", len(m["not_applicable"]))
