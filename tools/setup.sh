#!/bin/sh
# Build the checker from files on disk only (vendored x/tools; no network).
set -e
cd /verif/checker
export GOFLAGS=-mod=vendor GOPROXY=off GOSUMDB=off GOTOOLCHAIN=local GOWORK=off
mkdir -p /verif/bin /verif/evidence
go build -o /verif/bin/errlint ./cmd/errlint
