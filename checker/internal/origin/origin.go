// Package origin implements E-ORIGIN: a field-sensitive, context-sensitive
// (bounded call strings) backward data-dependence analysis over go/ssa.
// Given a value it returns the set of origin descriptors the value may be
// computed from. It never executes code.
package origin

import (
	"fmt"
	"go/token"
	"go/types"
	"sort"
	"strings"

	"golang.org/x/tools/go/callgraph"
	"golang.org/x/tools/go/ssa"

	"verif/checker/internal/load"
	"verif/checker/internal/sx"
)

// Kind of an origin descriptor.
type Kind int

const (
	Const Kind = iota
	Numeric
	TypeName
	Stack
	Sanitized    // result of RedactableString/Bytes.Redact()
	Redactable   // built by redact.Sprint/Sprintf/HelperForErrorf: Safe/Unsafe portions
	SafeContract // result of SafeDetails()/SafeMessage() of an implementation (interface contract)
	EncDetails   // result #1 of a dynamically called registered encoder
	EncMsg       // result #0 of a dynamically called registered encoder
	EncPayload   // result #2
	Wire         // decoder parameter or protobuf-unmarshalled field
	APIParam     // parameter of an exported function / interface method
	ForeignField // field of a type outside the module
	ForeignGlobal
	ErrText // X.Error()
	Fresh   // freshly allocated object (no content of interest)
	Recv    // method receiver / encoder argument object itself
	Unknown
)

var kindNames = [...]string{"CONST", "NUMERIC", "TYPE-NAME", "STACK", "SANITIZED", "REDACTABLE", "SAFE-CONTRACT", "ENCODER-DETAILS", "ENCODER-MSG", "ENCODER-PAYLOAD",
	"WIRE", "APIPARAM", "FOREIGNFIELD", "FOREIGNGLOBAL", "ERRTEXT", "FRESH", "RECV", "UNKNOWN"}

func (k Kind) String() string { return kindNames[k] }

// Origin is one descriptor.
type Origin struct {
	Kind Kind
	Desc string // canonical text, e.g. "hintdetail.WithHint.msg", "decodeWithHint:PAYLOAD.Msg"
	Pos  token.Pos
	// Wire details
	Decoder *ssa.Function // for Wire origins from a decoder parameter
	Slot    string        // MSG, DETAILS, PAYLOAD, CAUSE, CAUSES; for protobuf fields "PB:<Msg>.<Field>"
	Sub     []string      // field path below the slot (payload member)
	// API parameter
	Fn    *ssa.Function
	Param int
	// ErrText / ForeignField
	Type  types.Type
	Field *types.Var
	// Redactable / Sanitized structure
	Safe, Unsafe []*Origin
	Of           []*Origin
	key          string
}

// Key is the canonical identity of an origin (cheap: nested portions of
// redactable / sanitized origins are not part of it; Set.Add merges them).
func (o *Origin) Key() string {
	if o.key == "" {
		s := o.Kind.String() + "(" + o.Desc
		if len(o.Sub) > 0 {
			s += "." + strings.Join(o.Sub, ".")
		}
		o.key = s + ")"
	}
	return o.key
}

// String renders the origin with its nested portions (bounded).
func (o *Origin) String() string {
	s := o.Key()
	if o.Kind == Redactable {
		s += "{safe:" + keys(o.Safe) + ";unsafe:" + keys(o.Unsafe) + "}"
	}
	if o.Kind == Sanitized && len(o.Of) > 0 {
		s += "[of " + keys(o.Of) + "]"
	}
	return s
}

func keys(os []*Origin) string {
	var s []string
	for i, o := range os {
		if i >= 6 {
			s = append(s, "…")
			break
		}
		s = append(s, o.Key())
	}
	return strings.Join(s, ",")
}

// Set is a de-duplicated origin set.
type Set struct {
	m map[string]*Origin
}

func NewSet() *Set { return &Set{m: map[string]*Origin{}} }

func (s *Set) Add(o *Origin) {
	if o == nil {
		return
	}
	k := o.Key()
	old, ok := s.m[k]
	if !ok || old == o {
		s.m[k] = o
		return
	}
	if len(o.Safe)+len(o.Unsafe)+len(o.Of) == 0 {
		return
	}
	// same site reached through different contexts: merge the nested portions
	m := *old
	m.Safe, m.Unsafe, m.Of = mergeOrigins(old.Safe, o.Safe), mergeOrigins(old.Unsafe, o.Unsafe), mergeOrigins(old.Of, o.Of)
	s.m[k] = &m
}

func mergeOrigins(a, b []*Origin) []*Origin {
	if len(b) == 0 {
		return a
	}
	seen := map[string]bool{}
	var out []*Origin
	for _, l := range [][]*Origin{a, b} {
		for _, o := range l {
			if !seen[o.Key()] {
				seen[o.Key()] = true
				out = append(out, o)
			}
		}
	}
	return out
}

func (s *Set) AddAll(t *Set) {
	if t == nil {
		return
	}
	for _, o := range t.m {
		s.Add(o)
	}
}

func (s *Set) List() []*Origin {
	var ks []string
	for k := range s.m {
		ks = append(ks, k)
	}
	sort.Strings(ks)
	out := make([]*Origin, 0, len(ks))
	for _, k := range ks {
		out = append(out, s.m[k])
	}
	return out
}

func (s *Set) Len() int { return len(s.m) }

func (s *Set) String() string {
	var ks []string
	for _, o := range s.List() {
		ks = append(ks, o.String())
	}
	return strings.Join(ks, ", ")
}

// DecoderInfo tells the engine which functions are registered decoders /
// encoders and how their parameters map to wire slots.
type DecoderInfo struct {
	Kind string // leaf-dec, wrap-dec, multi-dec
}

// Engine holds the program-wide state.
type Engine struct {
	P        *load.Program
	Decoders map[*ssa.Function]string // fn -> kind
	Encoders map[*ssa.Function]string
	cg       *callgraph.Graph

	fieldStores map[*types.Var][]*ssa.Store    // direct stores to a field, module-wide
	structStore map[string][]ssa.Value         // whole-struct values stored/boxed anywhere, by struct type string
	globalStore map[*ssa.Global][]*ssa.Store   // stores to package-level variables
	callers     map[*ssa.Function][]callerSite // static + resolved dynamic call sites in module code
	fieldMemo   map[*types.Var]*Set
	fieldBusy   map[*types.Var]bool
	MaxDepth    int
}

type callerSite struct {
	site ssa.CallInstruction
	fn   *ssa.Function
}

// New builds the engine indexes.
func New(p *load.Program, decoders, encoders map[*ssa.Function]string) *Engine {
	e := &Engine{P: p, Decoders: decoders, Encoders: encoders, fieldStores: map[*types.Var][]*ssa.Store{}, structStore: map[string][]ssa.Value{},
		globalStore: map[*ssa.Global][]*ssa.Store{}, callers: map[*ssa.Function][]callerSite{}, fieldMemo: map[*types.Var]*Set{}, fieldBusy: map[*types.Var]bool{}, MaxDepth: 7}
	for _, fn := range p.ModFuncs() {
		sx.EachInstr(fn, func(in ssa.Instruction) {
			switch x := in.(type) {
			case *ssa.Store:
				if fa, ok := x.Addr.(*ssa.FieldAddr); ok {
					f := sx.FieldOf(fa)
					e.fieldStores[f] = append(e.fieldStores[f], x)
				}
				if g, ok := x.Addr.(*ssa.Global); ok {
					e.globalStore[g] = append(e.globalStore[g], x)
				}
				if _, ok := types.Unalias(x.Val.Type()).Underlying().(*types.Struct); ok {
					// whole-struct stores into heap aggregates (a field or an element);
					// copies into plain locals (spilled parameters) flow nowhere by themselves
					switch x.Addr.(type) {
					case *ssa.FieldAddr, *ssa.IndexAddr:
						k := types.TypeString(x.Val.Type(), nil)
						e.structStore[k] = append(e.structStore[k], x.Val)
					}
				}
			case ssa.CallInstruction:
				if callee := sx.Callee(x); callee != nil {
					e.callers[callee] = append(e.callers[callee], callerSite{x, fn})
				}
			}
		})
	}
	return e
}

func (e *Engine) graph() *callgraph.Graph {
	if e.cg == nil {
		e.cg = e.P.CallGraph()
	}
	return e.cg
}

// frame is one element of the call string.
type frame struct {
	site ssa.CallInstruction
	fn   *ssa.Function // caller
}

type tracer struct {
	e       *Engine
	visited map[string]bool
	budget  int
	// recvTerminal: a field load whose base is (a type assertion of) a
	// parameter yields the terminal RECV(T).f instead of the module-wide field
	// summary ("which fields of the object at hand does this depend on")
	recvTerminal bool
	// throughNumeric: keep tracing numeric values (slot-agreement queries need
	// to know which wire member an int came from)
	throughNumeric bool
}

// TraceRecv is Trace in receiver-terminal mode (slot-agreement queries).
func (e *Engine) TraceRecv(v ssa.Value, proj []string) *Set {
	t := &tracer{e: e, visited: map[string]bool{}, budget: 20000, recvTerminal: true, throughNumeric: true}
	return t.trace(v, nil, proj)
}

// TraceWire is TraceField that keeps tracing through numeric conversions.
func (e *Engine) TraceWire(v ssa.Value, proj []string) *Set {
	t := &tracer{e: e, visited: map[string]bool{}, budget: 20000, throughNumeric: true}
	return t.trace(v, nil, proj)
}

// rootOf follows type assertions, spills and (through the call string)
// parameters to the value a field base ultimately denotes.
func (t *tracer) rootOf(base ssa.Value, ctx []frame) (ssa.Value, []frame) {
	for i := 0; i < 12; i++ {
		switch b := base.(type) {
		case *ssa.Extract:
			if ta, ok := b.Tuple.(*ssa.TypeAssert); ok && b.Index == 0 {
				base = ta.X
				continue
			}
		case *ssa.TypeAssert:
			base = b.X
			continue
		case *ssa.ChangeInterface:
			base = b.X
			continue
		case *ssa.MakeInterface:
			base = b.X
			continue
		case *ssa.UnOp:
			if b.Op == token.MUL {
				u := sx.Unspill(b)
				if u != ssa.Value(b) {
					base = u
					continue
				}
			}
		case *ssa.Parameter:
			if len(ctx) == 0 {
				return b, ctx
			}
			top := ctx[len(ctx)-1]
			fn := b.Parent()
			idx := -1
			for k, q := range fn.Params {
				if q == b {
					idx = k
				}
			}
			cc := top.site.Common()
			if cc.IsInvoke() {
				if idx == 0 {
					base, ctx = cc.Value, ctx[:len(ctx)-1]
					continue
				}
				idx--
			}
			if idx >= 0 && idx < len(cc.Args) {
				base, ctx = cc.Args[idx], ctx[:len(ctx)-1]
				continue
			}
		}
		break
	}
	return base, ctx
}

// Trace returns the origins of v (a value inside fn).
func (e *Engine) Trace(v ssa.Value) *Set {
	t := &tracer{e: e, visited: map[string]bool{}, budget: 20000}
	return t.trace(v, nil, nil)
}

// TraceField returns the origins of field path of a struct-typed value.
func (e *Engine) TraceField(v ssa.Value, path []string) *Set {
	t := &tracer{e: e, visited: map[string]bool{}, budget: 20000}
	return t.trace(v, nil, path)
}

func ctxKey(ctx []frame) string {
	var sb strings.Builder
	for _, f := range ctx {
		fmt.Fprintf(&sb, "%p;", f.site)
	}
	return sb.String()
}

func isNumericType(t types.Type) bool {
	b, ok := types.Unalias(t).Underlying().(*types.Basic)
	if !ok {
		return false
	}
	return b.Info()&(types.IsNumeric|types.IsBoolean) != 0
}

// isStackType: values of these types are captured program counters / frames.
func isStackType(t types.Type) bool {
	n := sx.NamedOf(t)
	if n == nil || n.Obj().Pkg() == nil {
		return false
	}
	switch n.Obj().Pkg().Path() + "." + n.Obj().Name() {
	case "github.com/pkg/errors.StackTrace", "github.com/pkg/errors.Frame", load.ModPath + "/withstack.stack",
		"github.com/getsentry/sentry-go.Stacktrace", "github.com/getsentry/sentry-go.Frame":
		return true
	}
	return false
}

func isStructType(t types.Type) bool {
	_, ok := types.Unalias(t).Underlying().(*types.Struct)
	return ok
}

func fnShort(fn *ssa.Function) string { return load.FnName(fn) }

// trace computes origins of v in call-string context ctx; proj is the
// pending field projection (v is a struct value or pointer to struct whose
// field path proj is wanted).
func (t *tracer) trace(v ssa.Value, ctx []frame, proj []string) *Set {
	out := NewSet()
	if v == nil {
		return out
	}
	t.budget--
	if t.budget < 0 {
		out.Add(&Origin{Kind: Unknown, Desc: "analysis budget exhausted"})
		return out
	}
	// normalise the projection: consecutive element selectors collapse (the
	// engine does not distinguish slices of slices), and the path is bounded
	if len(proj) >= 2 && isIdx(proj[0]) && isIdx(proj[1]) {
		proj = append([]string{"[*]"}, proj[2:]...)
	}
	if len(proj) > 8 {
		out.Add(&Origin{Kind: Unknown, Desc: "projection path too deep"})
		return out
	}
	key := fmt.Sprintf("%p|%s|%s", v, ctxKey(ctx), strings.Join(proj, "."))
	if t.visited[key] {
		return out
	}
	t.visited[key] = true

	if len(proj) == 0 && isNumericType(v.Type()) && !t.throughNumeric {
		out.Add(&Origin{Kind: Numeric, Desc: types.TypeString(v.Type(), nil)})
		return out
	}
	if isStackType(v.Type()) {
		out.Add(&Origin{Kind: Stack, Desc: load.TypeName(v.Type())})
		return out
	}

	switch x := v.(type) {
	case *ssa.Const:
		if x.Value != nil {
			out.Add(&Origin{Kind: Const, Desc: trunc(x.Value.ExactString())})
		} else {
			out.Add(&Origin{Kind: Const, Desc: "zero"})
		}
	case *ssa.Parameter:
		out.AddAll(t.param(x, ctx, proj))
	case *ssa.FreeVar:
		out.AddAll(t.freeVar(x, ctx, proj))
	case *ssa.Phi:
		for _, ed := range x.Edges {
			out.AddAll(t.trace(ed, ctx, proj))
		}
	case *ssa.MakeInterface:
		out.AddAll(t.trace(x.X, ctx, proj))
	case *ssa.ChangeInterface:
		out.AddAll(t.trace(x.X, ctx, proj))
	case *ssa.ChangeType:
		out.AddAll(t.trace(x.X, ctx, proj))
	case *ssa.Convert:
		out.AddAll(t.trace(x.X, ctx, proj))
	case *ssa.TypeAssert:
		out.AddAll(t.trace(x.X, ctx, proj))
	case *ssa.Slice:
		out.AddAll(t.trace(x.X, ctx, proj))
	case *ssa.BinOp:
		out.AddAll(t.trace(x.X, ctx, proj))
		out.AddAll(t.trace(x.Y, ctx, proj))
	case *ssa.Extract:
		switch tup := x.Tuple.(type) {
		case *ssa.Call:
			out.AddAll(t.call(tup, x.Index, ctx, proj))
		case *ssa.TypeAssert:
			if x.Index == 0 {
				out.AddAll(t.trace(tup.X, ctx, proj))
			}
		case *ssa.Next:
			out.AddAll(t.trace(tup.Iter.(*ssa.Range).X, ctx, proj))
		case *ssa.Lookup:
			out.AddAll(t.trace(tup.X, ctx, proj))
		default:
			out.Add(&Origin{Kind: Unknown, Desc: "extract of " + tup.Name()})
		}
	case *ssa.Call:
		out.AddAll(t.call(x, 0, ctx, proj))
	case *ssa.Lookup:
		out.AddAll(t.trace(x.X, ctx, proj))
	case *ssa.Index:
		out.AddAll(t.trace(x.X, ctx, append([]string{idxProj(x.Index)}, proj...)))
	case *ssa.Field:
		f := sx.FieldOf(x)
		out.AddAll(t.trace(x.X, ctx, append([]string{f.Name()}, proj...)))
	case *ssa.UnOp:
		if x.Op != token.MUL {
			out.AddAll(t.trace(x.X, ctx, proj))
			break
		}
		out.AddAll(t.load(x.X, ctx, proj))
	case *ssa.Alloc:
		// the address of a local: contents of interest (arrays/slices, structs)
		out.AddAll(t.contents(x, ctx, proj))
	case *ssa.MakeSlice, *ssa.MakeMap:
		out.AddAll(t.contents(v, ctx, proj))
	case *ssa.FieldAddr, *ssa.IndexAddr:
		out.AddAll(t.load(v, ctx, proj))
	case *ssa.Global:
		out.AddAll(t.load(v, ctx, proj))
	case *ssa.MakeClosure, *ssa.Function, *ssa.Builtin:
		out.Add(&Origin{Kind: Const, Desc: "func"})
	default:
		out.Add(&Origin{Kind: Unknown, Desc: fmt.Sprintf("%T", v)})
	}
	return out
}

// idxProj renders an element selector: "[3]" for a constant index, "[*]" otherwise.
func idxProj(i ssa.Value) string {
	if k, ok := sx.ConstInt(i); ok {
		return fmt.Sprintf("[%d]", k)
	}
	return "[*]"
}

func isIdx(s string) bool { return strings.HasPrefix(s, "[") }

// dropIdx turns a leading constant selector into a wildcard (after append,
// whose offset is unknown).
func anyIdx(proj []string) []string {
	if len(proj) > 0 && isIdx(proj[0]) && proj[0] != "[*]" {
		return append([]string{"[*]"}, proj[1:]...)
	}
	return proj
}

func trunc(s string) string {
	if len(s) > 40 {
		return s[:37] + "..."
	}
	return s
}

// load: origins of *addr (projected).
func (t *tracer) load(addr ssa.Value, ctx []frame, proj []string) *Set {
	out := NewSet()
	e := t.e
	switch a := addr.(type) {
	case *ssa.FieldAddr:
		f := sx.FieldOf(a)
		// nested struct field: keep projecting
		full := append([]string{f.Name()}, proj...)
		base := sx.Unspill(a.X)
		switch b := base.(type) {
		case *ssa.Alloc:
			// locally built struct: stores in this function (and closures)
			out.AddAll(t.localFieldStores(b, full, ctx))
			return out
		case *ssa.FieldAddr:
			// field of an embedded/nested struct: resolve through the outer field,
			// and (type-based) through every direct store to this inner field
			inner := t.load(b, ctx, full)
			out.AddAll(inner)
			if t.recvTerminal {
				onlyRecv := inner.Len() > 0
				for _, o := range inner.List() {
					if o.Kind != Recv && o.Kind != Wire {
						onlyRecv = false
					}
				}
				if onlyRecv {
					return out
				}
			}
			out.AddAll(e.directFieldStores(f, proj, t))
			return out
		}
		// wire struct reached through a decoder/encoder parameter keeps its slot identity
		root, rctx := t.rootOf(base, ctx)
		if rp, ok := root.(*ssa.Parameter); ok && len(rctx) == 0 {
			if w := e.wireParam(rp); w != nil {
				o := *w
				o.Sub = append(append([]string{}, o.Sub...), full...)
				out.Add(&o)
				return out
			}
			if t.recvTerminal {
				owner := sx.Deref(a.X.Type())
				o := &Origin{Kind: Recv, Desc: load.TypeName(owner), Type: owner, Field: f, Fn: rp.Parent()}
				o.Sub = append([]string{}, full...)
				out.Add(o)
				return out
			}
		}
		out.AddAll(e.fieldSummary(f, proj, t))
	case *ssa.IndexAddr:
		out.AddAll(t.trace(a.X, ctx, append([]string{idxProj(a.Index)}, proj...)))
	case *ssa.Alloc:
		// spilled local variable: everything stored into it
		out.AddAll(t.contents(a, ctx, proj))
	case *ssa.Global:
		if a.Pkg != nil && load.IsModPath(a.Pkg.Pkg.Path()) {
			n := 0
			for _, st := range e.globalStore[a] {
				n++
				out.AddAll(t.trace(st.Val, nil, proj))
			}
			if n == 0 {
				out.Add(&Origin{Kind: Const, Desc: "zero global " + a.Name()})
			}
		} else {
			pk := ""
			if a.Pkg != nil {
				pk = a.Pkg.Pkg.Path() + "."
			}
			out.Add(&Origin{Kind: ForeignGlobal, Desc: pk + a.Name()})
		}
	case *ssa.FreeVar:
		out.AddAll(t.freeVar(a, ctx, proj))
	case *ssa.Parameter:
		out.AddAll(t.trace(a, ctx, proj))
	case *ssa.Phi:
		for _, ed := range a.Edges {
			out.AddAll(t.load(ed, ctx, proj))
		}
	case *ssa.Call, *ssa.Extract, *ssa.UnOp, *ssa.TypeAssert, *ssa.MakeInterface, *ssa.ChangeType:
		// pointer produced elsewhere: the pointee's content follows the pointer's origin
		out.AddAll(t.trace(a, ctx, proj))
	default:
		out.Add(&Origin{Kind: Unknown, Desc: fmt.Sprintf("load through %T", addr)})
	}
	return out
}

// wireBase: is base (a pointer or struct) the wire payload/decoder object?
func (t *tracer) wireBase(base ssa.Value, ctx []frame) *Origin {
	// payload.(*T) of a decoder parameter, or the parameter itself
	for i := 0; i < 6; i++ {
		switch b := base.(type) {
		case *ssa.Extract:
			if ta, ok := b.Tuple.(*ssa.TypeAssert); ok && b.Index == 0 {
				base = ta.X
				continue
			}
		case *ssa.TypeAssert:
			base = b.X
			continue
		case *ssa.UnOp:
			if b.Op == token.MUL {
				base = sx.Unspill(b)
				if base == ssa.Value(b) {
					return nil
				}
				continue
			}
		case *ssa.Parameter:
			if len(ctx) == 0 {
				if o := t.e.wireParam(b); o != nil {
					return o
				}
			}
			return nil
		}
		break
	}
	return nil
}

// wireParam: decoder parameter → Wire origin.
func (e *Engine) wireParam(p *ssa.Parameter) *Origin {
	fn := p.Parent()
	kind, ok := e.Decoders[fn]
	if !ok {
		return nil
	}
	idx := -1
	for i, q := range fn.Params {
		if q == p {
			idx = i
		}
	}
	var slots []string
	switch kind {
	case "leaf-dec":
		slots = []string{"CTX", "MSG", "DETAILS", "PAYLOAD"}
	case "wrap-dec":
		slots = []string{"CTX", "CAUSE", "MSG", "DETAILS", "PAYLOAD"}
	case "multi-dec":
		slots = []string{"CTX", "CAUSES", "MSG", "DETAILS", "PAYLOAD"}
	}
	if idx < 0 || idx >= len(slots) {
		return nil
	}
	return &Origin{Kind: Wire, Desc: fnShort(fn) + ":" + slots[idx], Decoder: fn, Slot: slots[idx], Pos: p.Pos()}
}

// param: origins of a parameter.
func (t *tracer) param(p *ssa.Parameter, ctx []frame, proj []string) *Set {
	out := NewSet()
	e := t.e
	fn := p.Parent()
	idx := -1
	for i, q := range fn.Params {
		if q == p {
			idx = i
		}
	}
	if len(ctx) > 0 {
		top := ctx[len(ctx)-1]
		args := top.site.Common().Args
		ai := idx
		if top.site.Common().IsInvoke() {
			// receiver is Value, params shift by one
			if idx == 0 {
				out.AddAll(t.trace(top.site.Common().Value, ctx[:len(ctx)-1], proj))
				return out
			}
			ai = idx - 1
		}
		if ai >= 0 && ai < len(args) {
			out.AddAll(t.trace(args[ai], ctx[:len(ctx)-1], proj))
		}
		return out
	}
	// no calling context
	if o := e.wireParam(p); o != nil {
		oo := *o
		oo.Sub = append([]string{}, proj...)
		out.Add(&oo)
		return out
	}
	if _, isEnc := e.Encoders[fn]; isEnc && idx == 1 {
		out.Add(&Origin{Kind: Recv, Desc: fnShort(fn) + ":err", Fn: fn, Param: idx})
		return out
	}
	if fn.Signature.Recv() != nil && idx == 0 {
		out.Add(&Origin{Kind: Recv, Desc: fnShort(fn) + ":recv", Fn: fn, Param: 0})
		return out
	}
	exported := sx.Exported(fn) || fn.Signature.Recv() != nil && fn.Object() != nil && fn.Object().Exported()
	if exported || !e.P.InModule(fn) {
		o := &Origin{Kind: APIParam, Desc: fnShort(fn) + "." + p.Name(), Fn: fn, Param: idx, Pos: p.Pos()}
		o.Sub = append([]string{}, proj...)
		out.Add(o)
	}
	// module-internal callers (static and, for closures / func values, dynamic through the call graph)
	sites := e.callers[fn]
	if len(sites) == 0 || fn.Parent() != nil {
		if n := e.graph().Nodes[fn]; n != nil {
			for _, in := range n.In {
				if in.Site == nil || !e.P.InModule(in.Caller.Func) {
					continue
				}
				dup := false
				for _, s := range sites {
					if s.site == in.Site {
						dup = true
					}
				}
				if !dup {
					sites = append(sites, callerSite{in.Site, in.Caller.Func})
				}
			}
		}
	}
	for _, cs := range sites {
		args := cs.site.Common().Args
		ai := idx
		if cs.site.Common().IsInvoke() {
			if idx == 0 {
				out.AddAll(t.trace(cs.site.Common().Value, nil, proj))
				continue
			}
			ai = idx - 1
		}
		if ai >= 0 && ai < len(args) {
			out.AddAll(t.trace(args[ai], nil, proj))
		}
	}
	// (an empty result with call sites present is a trace that ran into itself - the value is then accounted for by
	// the outer visit - not a missing caller)
	if out.Len() == 0 && len(sites) == 0 {
		o := &Origin{Kind: APIParam, Desc: fnShort(fn) + "." + p.Name() + " (no caller found)", Fn: fn, Param: idx}
		out.Add(o)
	}
	return out
}

// freeVar: origins of a closure's captured variable (pointer to a cell, or value).
func (t *tracer) freeVar(fv *ssa.FreeVar, ctx []frame, proj []string) *Set {
	out := NewSet()
	fn := fv.Parent()
	idx := -1
	for i, q := range fn.FreeVars {
		if q == fv {
			idx = i
		}
	}
	parent := fn.Parent()
	if parent == nil || idx < 0 {
		out.Add(&Origin{Kind: Unknown, Desc: "free variable " + fv.Name()})
		return out
	}
	sx.EachInstrDeep(parent, func(_ *ssa.Function, in ssa.Instruction) {
		mc, ok := in.(*ssa.MakeClosure)
		if !ok || mc.Fn != ssa.Value(fn) || idx >= len(mc.Bindings) {
			return
		}
		// the binding is evaluated in the parent without calling context
		out.AddAll(t.trace(mc.Bindings[idx], nil, proj))
	})
	return out
}

// localFieldStores: stores into field path of a locally allocated struct.
func (t *tracer) localFieldStores(al *ssa.Alloc, path []string, ctx []frame) *Set {
	out := NewSet()
	found := false
	var visit func(addr ssa.Value, rest []string)
	visit = func(addr ssa.Value, rest []string) {
		refs := addr.Referrers()
		if refs == nil {
			return
		}
		for _, r := range *refs {
			switch x := r.(type) {
			case *ssa.FieldAddr:
				if len(rest) > 0 && sx.FieldOf(x).Name() == rest[0] {
					visit(x, rest[1:])
				}
			case *ssa.Store:
				if x.Addr == addr {
					found = true
					out.AddAll(t.trace(x.Val, ctx, rest))
				}
			}
		}
	}
	visit(al, path)
	// closures of the same function may store through captured cells: ignored for structs
	if !found {
		out.Add(&Origin{Kind: Const, Desc: "zero"})
	}
	return out
}

// contents: origins of everything stored into a local aggregate (array,
// slice backing store, map, spilled variable), following aliases through
// slices, phis, closure cells and append.
func (t *tracer) contents(root ssa.Value, ctx []frame, proj []string) *Set {
	out := NewSet()
	seen := map[ssa.Value]bool{}
	exact := true // constant element selectors are meaningful until an append/reslice shifts offsets
	// visitAddr: everything stored at address addr, or at the sub-path rest below it
	var visitAddr func(addr ssa.Value, rest []string)
	visitAddr = func(addr ssa.Value, rest []string) {
		refs := addr.Referrers()
		if refs == nil {
			return
		}
		for _, r := range *refs {
			switch x := r.(type) {
			case *ssa.Store:
				if x.Addr == addr {
					out.AddAll(t.trace(x.Val, ctx, rest))
				}
			case *ssa.FieldAddr:
				if x.X == addr {
					if len(rest) == 0 {
						visitAddr(x, nil) // whole aggregate wanted: every member
					} else if sx.FieldOf(x).Name() == rest[0] {
						visitAddr(x, rest[1:])
					}
				}
			case *ssa.IndexAddr:
				if x.X == addr {
					r2 := rest
					if len(rest) > 0 && isIdx(rest[0]) {
						r2 = rest[1:]
					}
					visitAddr(x, r2)
				}
			}
		}
	}
	var visit func(v ssa.Value, isCell bool)
	visit = func(v ssa.Value, isCell bool) {
		if seen[v] {
			return
		}
		seen[v] = true
		refs := v.Referrers()
		if refs == nil {
			return
		}
		for _, r := range *refs {
			switch x := r.(type) {
			case *ssa.Store:
				if x.Addr == v {
					// v is a memory cell holding a value
					if isStructType(sx.Deref(v.Type())) && len(proj) > 0 {
						out.AddAll(t.trace(x.Val, ctx, proj))
					} else {
						out.AddAll(t.trace(x.Val, ctx, proj))
					}
				} else if x.Val == v {
					// the aggregate itself is stored into a cell: aliases through the cell
					if al, ok := x.Addr.(*ssa.Alloc); ok {
						visitCell(al, visit)
					}
				}
			case *ssa.IndexAddr:
				if x.X == v {
					rest := proj
					if len(proj) > 0 && isIdx(proj[0]) {
						rest = proj[1:]
						if proj[0] != "[*]" && exact {
							if k, ok := sx.ConstInt(x.Index); ok && fmt.Sprintf("[%d]", k) != proj[0] {
								continue
							}
						}
					}
					visitAddr(x, rest)
				}
			case *ssa.FieldAddr:
				if x.X == v {
					if len(proj) == 0 {
						visitAddr(x, nil) // the whole struct is wanted: every member
					} else if sx.FieldOf(x).Name() == proj[0] {
						visitAddr(x, proj[1:])
					}
				}
			case *ssa.MapUpdate:
				if x.Map == v {
					rest := proj
					if len(proj) > 0 && isIdx(proj[0]) {
						rest = proj[1:]
					}
					out.AddAll(t.trace(x.Value, ctx, rest))
					out.AddAll(t.trace(x.Key, ctx, rest))
				}
			case *ssa.Slice:
				if x.X == v {
					visit(x, false)
				}
			case *ssa.Phi:
				visit(x, false)
			case *ssa.Call:
				if b, ok := x.Call.Value.(*ssa.Builtin); ok && b.Name() == "append" && len(x.Call.Args) == 2 && x.Call.Args[0] == v {
					exact = false
					out.AddAll(t.trace(x.Call.Args[1], ctx, anyIdx(proj)))
					visit(x, false)
				}
			case *ssa.UnOp:
				if x.Op == token.MUL && x.X == v {
					// load of the cell: the loaded value aliases what was stored; only
					// interesting for aggregates (slices/maps/pointers)
					switch types.Unalias(x.Type()).Underlying().(type) {
					case *types.Slice, *types.Map, *types.Pointer:
						visit(x, false)
					}
				}
			case *ssa.MakeClosure:
				for i, b := range x.Bindings {
					if b == v {
						fnc := x.Fn.(*ssa.Function)
						if i < len(fnc.FreeVars) {
							visit(fnc.FreeVars[i], true)
						}
					}
				}
			}
		}
	}
	visit(root, true)
	if _, isAlloc := root.(*ssa.Alloc); !isAlloc && out.Len() == 0 {
		out.Add(&Origin{Kind: Fresh, Desc: "empty " + root.Name()})
	}
	if out.Len() == 0 {
		out.Add(&Origin{Kind: Const, Desc: "zero"})
	}
	return out
}

func visitCell(al *ssa.Alloc, visit func(ssa.Value, bool)) { visit(al, true) }

// directFieldStores: origins of the direct stores to field f (any base).
func (e *Engine) directFieldStores(f *types.Var, proj []string, t *tracer) *Set {
	out := NewSet()
	owner := fieldOwner(f)
	for _, st := range e.fieldStores[f] {
		if e.P.Generated(st.Parent()) {
			o := &Origin{Kind: Wire, Desc: "PB:" + owner + "." + f.Name(), Slot: "PB:" + owner + "." + f.Name(), Field: f}
			o.Sub = append([]string{}, proj...)
			out.Add(o)
			continue
		}
		out.AddAll(t.trace(st.Val, nil, proj))
	}
	return out
}

// fieldSummary: module-wide origins of everything ever stored into field f
// (direct stores; whole-struct stores projected; protobuf Unmarshal = WIRE).
func (e *Engine) fieldSummary(f *types.Var, proj []string, t *tracer) *Set {
	out := NewSet()
	owner := fieldOwner(f)
	if f.Pkg() == nil || !load.IsModPath(f.Pkg().Path()) {
		// field of a foreign type: terminal
		o := &Origin{Kind: ForeignField, Desc: owner + "." + f.Name(), Field: f}
		o.Sub = append([]string{}, proj...)
		out.Add(o)
		// plus whatever the module itself stores into it (decoders building os.PathError…)
		for _, st := range e.fieldStores[f] {
			out.AddAll(t.trace(st.Val, nil, proj))
		}
		return out
	}
	nStores := 0
	for _, st := range e.fieldStores[f] {
		fn := st.Parent()
		if e.P.Generated(fn) {
			o := &Origin{Kind: Wire, Desc: "PB:" + owner + "." + f.Name(), Slot: "PB:" + owner + "." + f.Name(), Field: f}
			o.Sub = append([]string{}, proj...)
			out.Add(o)
			nStores++
			continue
		}
		nStores++
		out.AddAll(t.trace(st.Val, nil, proj))
	}
	// whole-struct stores of the owning struct type: project
	if st := ownerStruct(f); st != "" {
		for _, v := range e.structStore[st] {
			if v.Parent() == nil || e.P.Generated(v.Parent()) {
				continue
			}
			// a copy from another location of the same type adds nothing new
			if ld, ok := v.(*ssa.UnOp); ok && ld.Op == token.MUL {
				if _, isAlloc := ld.X.(*ssa.Alloc); !isAlloc {
					continue
				}
			}
			out.AddAll(t.trace(v, nil, append([]string{f.Name()}, proj...)))
		}
	}
	if nStores == 0 && out.Len() == 0 {
		out.Add(&Origin{Kind: Const, Desc: "zero (field never stored)"})
	}
	return out
}

var ownerCache = map[*types.Var]string{}
var ownerStructCache = map[*types.Var]string{}

// RegisterStructs lets the engine map fields back to their owning named
// struct type (go/types does not link a field to its struct).
func (e *Engine) RegisterStructs() {
	for _, pk := range e.P.ByPath {
		if pk.Types == nil {
			continue
		}
		sc := pk.Types.Scope()
		for _, n := range sc.Names() {
			tn, ok := sc.Lookup(n).(*types.TypeName)
			if !ok {
				continue
			}
			st, ok := tn.Type().Underlying().(*types.Struct)
			if !ok {
				continue
			}
			for i := 0; i < st.NumFields(); i++ {
				f := st.Field(i)
				if _, dup := ownerCache[f]; !dup {
					ownerCache[f] = load.TypeName(tn.Type())
					ownerStructCache[f] = types.TypeString(tn.Type(), nil)
				}
			}
		}
	}
}

func fieldOwner(f *types.Var) string {
	if s, ok := ownerCache[f]; ok {
		return s
	}
	if f.Pkg() != nil {
		return strings.TrimPrefix(f.Pkg().Path(), load.ModPath+"/") + ".?"
	}
	return "?"
}

func ownerStruct(f *types.Var) string { return ownerStructCache[f] }
