package origin

import (
	"go/types"
	"strings"

	"golang.org/x/tools/go/ssa"

	"verif/checker/internal/load"
	"verif/checker/internal/sx"
)

const redactPath = "github.com/cockroachdb/redact"

// typeNameFuncs: module functions whose string results are Go type names /
// type keys (the interface doc declares them safe for reporting).
var typeNameFuncs = map[string]bool{
	"getTypeDetails": true, "GetTypeKey": true, "GetTypeMark": true, "getFullTypeName": true, "makeTypeKey": true, "getPkgPath": true,
}

// derivedFuncs: module functions whose result is a part/transform of their
// error argument (sub-error, encoded form, decoded form).
var derivedFuncs = map[string]bool{
	"UnwrapOnce": true, "UnwrapAll": true, "UnwrapMulti": true, "EncodeError": true, "DecodeError": true, "Cause": true, "Unwrap": true,
}

// preservingPkgs: packages whose functions compute strings from their
// arguments only (result = union of argument origins).
var preservingPkgs = map[string]bool{"fmt": true, "strings": true, "strconv": true, "bytes": true, "path/filepath": true, "path": true, "unicode/utf8": true}

func redactFn(f *ssa.Function) string {
	if f == nil || f.Pkg == nil {
		// methods of redact types have Pkg nil only for synthetic wrappers
		if f != nil && f.Object() != nil && f.Object().Pkg() != nil && strings.HasPrefix(f.Object().Pkg().Path(), redactPath) {
			return f.Name()
		}
		return ""
	}
	if strings.HasPrefix(f.Pkg.Pkg.Path(), redactPath) {
		return f.Name()
	}
	return ""
}

// variadic elements of an argument slice.
func varargsOf(v ssa.Value) ([]ssa.Value, bool) {
	if c, ok := v.(*ssa.Const); ok && c.Value == nil {
		return nil, true
	}
	sl, ok := v.(*ssa.Slice)
	if !ok {
		return nil, false
	}
	al, ok := sl.X.(*ssa.Alloc)
	if !ok {
		return nil, false
	}
	arr, ok := sx.Deref(al.Type()).Underlying().(*types.Array)
	if !ok {
		return nil, false
	}
	out := make([]ssa.Value, arr.Len())
	for _, ref := range *al.Referrers() {
		ia, ok := ref.(*ssa.IndexAddr)
		if !ok {
			continue
		}
		idx, ok := sx.ConstInt(ia.Index)
		if !ok || idx < 0 || idx >= arr.Len() {
			continue
		}
		for _, r2 := range *ia.Referrers() {
			if st, ok := r2.(*ssa.Store); ok && st.Addr == ia {
				out[idx] = st.Val
			}
		}
	}
	return out, true
}

func stripIface(v ssa.Value) ssa.Value {
	for {
		switch x := v.(type) {
		case *ssa.MakeInterface:
			v = x.X
		case *ssa.ChangeInterface:
			v = x.X
		default:
			return v
		}
	}
}

func implementsSafeValue(t types.Type) bool {
	ms := types.NewMethodSet(t)
	for i := 0; i < ms.Len(); i++ {
		if ms.At(i).Obj().Name() == "SafeValue" {
			return true
		}
	}
	return false
}

func isRedactableType(t types.Type) bool {
	return sx.IsNamed(t, redactPath, "RedactableString") || sx.IsNamed(t, redactPath, "RedactableBytes") ||
		sx.IsNamed(t, redactPath+"/internal/markers", "RedactableString") || sx.IsNamed(t, redactPath+"/internal/markers", "RedactableBytes")
}

// redactable builds the Redactable origin of a redact.Sprint*-style call:
// format (if any) and safe-wrapped arguments in the safe portion, plain
// arguments in the unsafe portion; nested redactables are returned beside.
func (t *tracer) redactable(name string, format ssa.Value, rest ssa.Value, ctx []frame, call *ssa.Call) *Set {
	out := NewSet()
	o := &Origin{Kind: Redactable, Desc: name + "@" + t.e.P.Pos(call.Pos()), Pos: call.Pos()}
	if format != nil {
		o.Safe = append(o.Safe, t.trace(format, ctx, nil).List()...)
	}
	handle := func(a ssa.Value) {
		if a == nil {
			return
		}
		inner := stripIface(a)
		switch {
		case isSafeCall(inner):
			o.Safe = append(o.Safe, t.trace(inner.(*ssa.Call).Call.Args[0], ctx, nil).List()...)
		case isRedactableType(inner.Type()):
			for _, n := range t.trace(inner, ctx, nil).List() {
				out.Add(n)
			}
		case implementsSafeValue(inner.Type()):
			o.Safe = append(o.Safe, t.trace(inner, ctx, nil).List()...)
		default:
			o.Unsafe = append(o.Unsafe, t.trace(inner, ctx, nil).List()...)
		}
	}
	if elems, ok := varargsOf(rest); ok {
		for _, a := range elems {
			handle(a)
		}
	} else if rest != nil {
		// forwarded args... slice: every element is a plain (unsafe) argument unless proven otherwise
		for _, n := range t.trace(rest, ctx, nil).List() {
			if n.Kind == SafeContract && strings.HasPrefix(n.Desc, "redact.Safe") {
				o.Safe = append(o.Safe, n.Of...)
			} else {
				o.Unsafe = append(o.Unsafe, n)
			}
		}
	}
	o.Safe, o.Unsafe = dedup(o.Safe), dedup(o.Unsafe)
	out.Add(o)
	return out
}

func dedup(os []*Origin) []*Origin {
	s := NewSet()
	for _, o := range os {
		s.Add(o)
	}
	return s.List()
}

func isSafeCall(v ssa.Value) bool {
	c, ok := v.(*ssa.Call)
	if !ok {
		return false
	}
	f := sx.Callee(c)
	return f != nil && redactFn(f) == "Safe" && len(c.Call.Args) == 1
}

// call: origins of result #idx of a call.
func (t *tracer) call(c *ssa.Call, idx int, ctx []frame, proj []string) *Set {
	out := NewSet()
	e := t.e
	cc := c.Common()
	args := cc.Args
	union := func(vs ...ssa.Value) {
		for _, a := range vs {
			out.AddAll(t.trace(a, ctx, proj))
		}
	}
	// builtins
	if b, ok := cc.Value.(*ssa.Builtin); ok {
		switch b.Name() {
		case "append":
			proj = anyIdx(proj)
			union(args...)
		case "len", "cap", "copy":
			out.Add(&Origin{Kind: Numeric, Desc: "int"})
		default:
			out.Add(&Origin{Kind: Unknown, Desc: "builtin " + b.Name()})
		}
		return out
	}
	// interface method
	if cc.IsInvoke() {
		switch cc.Method.Name() {
		case "Error":
			if len(args) == 0 {
				out.Add(&Origin{Kind: ErrText, Desc: load.TypeName(cc.Value.Type()), Type: cc.Value.Type(), Pos: c.Pos()})
				return out
			}
		case "SafeDetails", "SafeMessage":
			out.Add(&Origin{Kind: SafeContract, Desc: cc.Method.Name() + "() of " + load.TypeName(cc.Value.Type())})
			return out
		case "StackTrace":
			out.Add(&Origin{Kind: Stack, Desc: "StackTrace()"})
			return out
		case "ErrorKeyMarker":
			out.Add(&Origin{Kind: TypeName, Desc: "ErrorKeyMarker()"})
			return out
		case "String", "Name", "PkgPath":
			if sx.IsNamed(cc.Value.Type(), "reflect", "Type") {
				out.Add(&Origin{Kind: TypeName, Desc: "reflect.Type." + cc.Method.Name()})
				return out
			}
		}
		// resolve through the call graph
		found := false
		if n := e.graph().Nodes[c.Parent()]; n != nil {
			for _, ed := range n.Out {
				if ed.Site == ssa.CallInstruction(c) && ed.Callee.Func.Blocks != nil && e.P.InModule(ed.Callee.Func) {
					found = true
					out.AddAll(t.into(c, ed.Callee.Func, idx, ctx, proj))
				}
			}
		}
		out.Add(&Origin{Kind: Unknown, Desc: "invoke " + load.TypeName(cc.Value.Type()) + "." + cc.Method.Name()})
		_ = found
		return out
	}
	callee := sx.Callee(c)
	if callee == nil {
		// dynamic call of a function value
		if isRegistryFunc(cc.Value) {
			k := []Kind{EncMsg, EncDetails, EncPayload, Numeric}
			if idx < len(k) {
				out.Add(&Origin{Kind: k[idx], Desc: "registered encoder result"})
				return out
			}
		}
		found := false
		if n := e.graph().Nodes[c.Parent()]; n != nil {
			for _, ed := range n.Out {
				if ed.Site == ssa.CallInstruction(c) && ed.Callee.Func.Blocks != nil && e.P.InModule(ed.Callee.Func) {
					found = true
					out.AddAll(t.into(c, ed.Callee.Func, idx, ctx, proj))
				}
			}
		}
		if !found {
			out.Add(&Origin{Kind: Unknown, Desc: "dynamic call " + cc.Value.Name() + " in " + fnShort(c.Parent())})
		}
		return out
	}
	// redact package
	if rn := redactFn(callee); rn != "" {
		switch rn {
		case "Safe":
			out.Add(&Origin{Kind: SafeContract, Desc: "redact.Safe@" + e.P.Pos(c.Pos()), Of: t.trace(args[0], ctx, nil).List()})
		case "Sprint", "Sprintln":
			out.AddAll(t.redactable("redact."+rn, nil, args[0], ctx, c))
		case "Sprintf":
			out.AddAll(t.redactable("redact.Sprintf", args[0], args[1], ctx, c))
		case "HelperForErrorf":
			if idx == 0 {
				out.AddAll(t.redactable("redact.HelperForErrorf", args[0], args[1], ctx, c))
			} else {
				union(args[1])
			}
		case "Redact":
			out.Add(&Origin{Kind: Sanitized, Desc: "Redact()", Of: t.trace(args[0], ctx, nil).List()})
		case "StripMarkers":
			for _, o := range t.trace(args[0], ctx, nil).List() {
				if o.Kind == Redactable {
					// all parts appear in clear text
					for _, s := range o.Safe {
						out.Add(s)
					}
					for _, u := range o.Unsafe {
						out.Add(u)
					}
				} else {
					out.Add(o)
				}
			}
		case "EscapeBytes":
			// escapes the markers inside AND encloses the result in markers: a redactable string whose content is unsafe
			out.Add(&Origin{Kind: Redactable, Desc: "redact." + rn + "@" + e.P.Pos(c.Pos()), Unsafe: t.trace(args[0], ctx, nil).List()})
		case "EscapeMarkers":
			// only replaces marker runes: the content is the argument's content, as safe or unsafe as it was
			union(args[0])
		case "RedactedMarker", "StartMarker", "EndMarker", "MakeFormat":
			out.Add(&Origin{Kind: Const, Desc: "redact." + rn})
		case "ToBytes", "ToString":
			union(args...)
		default:
			out.Add(&Origin{Kind: Unknown, Desc: "redact." + rn})
			union(args...)
		}
		return out
	}
	// a package-level sync.Map used as a container: what is loaded is what the module stores
	if callee.Signature.Recv() != nil && sx.IsNamed(callee.Signature.Recv().Type(), "sync", "Map") && len(args) >= 1 {
		if g, ok := args[0].(*ssa.Global); ok && (callee.Name() == "Load" || callee.Name() == "LoadOrStore") {
			if idx != 0 {
				out.Add(&Origin{Kind: Const, Desc: "bool"})
				return out
			}
			n := 0
			for _, fn := range e.P.ModFuncs() {
				sx.EachInstr(fn, func(in ssa.Instruction) {
					sc, ok := in.(ssa.CallInstruction)
					if !ok {
						return
					}
					f := sx.Callee(sc)
					if f == nil || f.Signature.Recv() == nil || !sx.IsNamed(f.Signature.Recv().Type(), "sync", "Map") {
						return
					}
					a := sc.Common().Args
					if len(a) == 3 && a[0] == ssa.Value(g) && (f.Name() == "Store" || f.Name() == "LoadOrStore" || f.Name() == "Swap") {
						n++
						out.AddAll(t.trace(a[2], nil, proj))
					}
				})
			}
			if n == 0 {
				out.Add(&Origin{Kind: Const, Desc: "zero (nothing is ever stored in " + g.Name() + ")"})
			}
			return out
		}
	}
	name := callee.Name()
	inMod := e.P.InModule(callee)
	if inMod && callee.Signature.Recv() == nil {
		if typeNameFuncs[name] {
			out.Add(&Origin{Kind: TypeName, Desc: name + "()"})
			return out
		}
		if derivedFuncs[name] {
			for _, a := range args {
				if sx.IsErrorType(a.Type()) || strings.Contains(a.Type().String(), "EncodedError") {
					out.AddAll(t.trace(a, ctx, proj))
				}
			}
			if out.Len() == 0 {
				union(args...)
			}
			return out
		}
		if name == "GetReportableStackTrace" || name == "GetOneLineSource" || name == "callers" {
			out.Add(&Origin{Kind: Stack, Desc: name + "()"})
			return out
		}
	}
	if name == "StackTrace" && callee.Signature.Recv() != nil {
		out.Add(&Origin{Kind: Stack, Desc: "StackTrace()"})
		return out
	}
	if name == "Error" && callee.Signature.Recv() != nil && len(callee.Params) == 1 && !inMod {
		rt := callee.Signature.Recv().Type()
		out.Add(&Origin{Kind: ErrText, Desc: load.TypeName(rt), Type: rt, Pos: c.Pos()})
		return out
	}
	if inMod && callee.Blocks != nil {
		out.AddAll(t.into(c, callee, idx, ctx, proj))
		return out
	}
	pkg := ""
	if pk := load.FnPkg(callee); pk != nil {
		pkg = pk.Path()
	}
	if preservingPkgs[pkg] {
		if callee.Signature.Recv() != nil {
			// methods of buffers/builders: content is checked at the write sites
			out.Add(&Origin{Kind: Unknown, Desc: "buffer content " + pkg + "." + name})
			return out
		}
		union(args...)
		if out.Len() == 0 {
			out.Add(&Origin{Kind: Const, Desc: pkg + "." + name + "()"})
		}
		return out
	}
	// other dependency function: terminal descriptor plus argument dependence
	d := pkg + "." + name
	if recv := callee.Signature.Recv(); recv != nil {
		d = "(" + load.TypeName(recv.Type()) + ")." + name
	}
	// the arguments it was computed from are kept under Of (for must-include
	// queries); classification is by the callee alone
	dep := NewSet()
	for _, a := range args {
		dep.AddAll(t.trace(a, ctx, nil))
	}
	out.Add(&Origin{Kind: Unknown, Desc: "call " + d, Fn: callee, Of: dep.List()})
	return out
}

// into: trace result #idx of callee's returns in extended context.
func (t *tracer) into(c ssa.CallInstruction, callee *ssa.Function, idx int, ctx []frame, proj []string) *Set {
	out := NewSet()
	if len(ctx) >= t.e.MaxDepth {
		out.Add(&Origin{Kind: Unknown, Desc: "call depth bound at " + fnShort(callee)})
		return out
	}
	for _, f := range ctx {
		if f.site == c {
			return out // recursion through the same site
		}
	}
	nctx := append(append([]frame{}, ctx...), frame{site: c, fn: c.Parent()})
	for _, r := range sx.Returns(callee) {
		if idx < len(r.Results) {
			out.AddAll(t.trace(r.Results[idx], nctx, proj))
		}
	}
	return out
}

// isRegistryFunc: the called function value was looked up in one of the
// encoder registries (map[TypeKey]func…).
func isRegistryFunc(v ssa.Value) bool {
	for i := 0; i < 4; i++ {
		switch x := v.(type) {
		case *ssa.Extract:
			v = x.Tuple
			continue
		case *ssa.Lookup:
			ld, ok := x.X.(*ssa.UnOp)
			if !ok {
				return false
			}
			g, ok := ld.X.(*ssa.Global)
			return ok && (g.Name() == "leafEncoders" || g.Name() == "encoders")
		case *ssa.Phi:
			if len(x.Edges) > 0 {
				v = x.Edges[0]
				continue
			}
		}
		return false
	}
	return false
}
