// Package load type-checks /repo's current working tree and builds its SSA
// form. Nothing here runs library code.
package load

import (
	"fmt"
	"go/ast"
	"go/token"
	"go/types"
	"os"
	"sort"
	"strings"
	"time"

	"golang.org/x/tools/go/callgraph"
	"golang.org/x/tools/go/callgraph/cha"
	"golang.org/x/tools/go/callgraph/vta"
	"golang.org/x/tools/go/packages"
	"golang.org/x/tools/go/ssa"
	"golang.org/x/tools/go/ssa/ssautil"
)

// ModPath is the module under analysis.
const ModPath = "github.com/cockroachdb/errors"

// Config names one build configuration.
type Config struct{ GOOS, GOARCH string }

func (c Config) String() string {
	if c.GOOS == "" {
		return "host"
	}
	return c.GOOS + "/" + c.GOARCH
}

// Program is the loaded, type-checked and SSA-built module plus dependencies.
type Program struct {
	Dir     string
	Config  Config
	Fset    *token.FileSet
	Mod     []*packages.Package          // non-test packages of the module, sorted by path
	ByPath  map[string]*packages.Package // every package loaded (deps included)
	SSA     *ssa.Program
	modFns  []*ssa.Function
	allFns  map[*ssa.Function]bool
	cg      *callgraph.Graph
	fileOf  map[*ast.File]*packages.Package
	astFunc map[*types.Func]*ast.FuncDecl
}

// Load loads Dir (normally /repo). overlay maps absolute file names to
// replacement contents (used for control mutants, in memory only).
func Load(dir string, cfg Config, overlay map[string][]byte) (*Program, error) {
	// A load can fail for reasons that have nothing to do with the tree (the go command killed or starved while the
	// machine is overloaded): such a failure is retried before it is reported. A tree that really does not
	// type-check fails the same way every time.
	var p *Program
	var err error
	for attempt := 0; attempt < 3; attempt++ {
		if attempt > 0 {
			time.Sleep(time.Duration(attempt) * 2 * time.Second)
		}
		p, err = loadOnce(dir, cfg, overlay)
		if err == nil {
			return p, nil
		}
	}
	return nil, err
}

// minimal sizes of a complete load of this module (about half of what the pinned tree has: 30 packages, 535
// hand-written functions with bodies): a program below them was not loaded completely
const (
	minModulePackages = 15
	minModuleFuncs    = 250
)

func loadOnce(dir string, cfg Config, overlay map[string][]byte) (*Program, error) {
	env := append(os.Environ(),
		"GOFLAGS=-mod=mod", "GOPROXY=off", "GOSUMDB=off", "GOWORK=off", "GOTOOLCHAIN=local", "CGO_ENABLED=0")
	if cfg.GOOS != "" {
		env = append(env, "GOOS="+cfg.GOOS, "GOARCH="+cfg.GOARCH)
	}
	pc := &packages.Config{
		Mode:       packages.LoadAllSyntax,
		Dir:        dir,
		Env:        env,
		Tests:      false,
		BuildFlags: []string{"-tags=verif"},
		Overlay:    overlay,
		Fset:       token.NewFileSet(),
	}
	initial, err := packages.Load(pc, "./...")
	if err != nil {
		return nil, fmt.Errorf("load: %v", err)
	}
	p := &Program{Dir: dir, Config: cfg, Fset: pc.Fset, ByPath: map[string]*packages.Package{},
		fileOf: map[*ast.File]*packages.Package{}, astFunc: map[*types.Func]*ast.FuncDecl{}}
	var errs []string
	var depErrs []string
	packages.Visit(initial, nil, func(pk *packages.Package) {
		p.ByPath[pk.PkgPath] = pk
		if IsModPath(pk.PkgPath) {
			for _, e := range pk.Errors {
				errs = append(errs, e.Error())
			}
			if pk.Types == nil || pk.TypesInfo == nil || (len(pk.GoFiles) > 0 && len(pk.Syntax) == 0) {
				errs = append(errs, pk.PkgPath+": loaded without syntax/type information")
			}
		} else if len(pk.Errors) > 0 || pk.IllTyped {
			// a dependency that did not load: everything that reads its source (method bodies of standard-library
			// types, contracts of redact) would silently see nothing
			msg := pk.PkgPath + ": dependency not loaded"
			if len(pk.Errors) > 0 {
				msg += " (" + pk.Errors[0].Error() + ")"
			}
			depErrs = append(depErrs, msg)
		}
	})
	if len(depErrs) > 0 {
		sort.Strings(depErrs)
		if len(depErrs) > 5 {
			depErrs = depErrs[:5]
		}
		return nil, fmt.Errorf("load: incomplete (%s): %s", cfg, strings.Join(depErrs, "; "))
	}
	for _, pk := range initial {
		if IsModPath(pk.PkgPath) {
			p.Mod = append(p.Mod, pk)
		}
	}
	sort.Slice(p.Mod, func(i, j int) bool { return p.Mod[i].PkgPath < p.Mod[j].PkgPath })
	if len(p.Mod) == 0 {
		return nil, fmt.Errorf("load: zero module packages under %s (%s)", dir, cfg)
	}
	if len(errs) > 0 {
		return nil, fmt.Errorf("load: type errors in module (%s): %s", cfg, strings.Join(errs, "; "))
	}
	for _, pk := range p.Mod {
		for _, f := range pk.Syntax {
			p.fileOf[f] = pk
			for _, d := range f.Decls {
				if fd, ok := d.(*ast.FuncDecl); ok {
					if obj, ok := pk.TypesInfo.Defs[fd.Name].(*types.Func); ok {
						p.astFunc[obj] = fd
					}
				}
			}
		}
	}
	prog, _ := ssautil.AllPackages(initial, ssa.InstantiateGenerics)
	prog.Build()
	p.SSA = prog
	p.allFns = ssautil.AllFunctions(prog)
	for fn := range p.allFns {
		if p.InModule(fn) {
			p.modFns = append(p.modFns, fn)
		}
	}
	sort.Slice(p.modFns, func(i, j int) bool {
		a, b := p.modFns[i], p.modFns[j]
		if a.Pos() != b.Pos() {
			return a.Pos() < b.Pos()
		}
		return a.String() < b.String()
	})
	if len(p.Mod) < minModulePackages || len(p.HandFuncs()) < minModuleFuncs {
		return nil, fmt.Errorf("load: incomplete (%s): %d module packages, %d hand-written functions with bodies (expected at least %d and %d)", cfg, len(p.Mod), len(p.HandFuncs()), minModulePackages, minModuleFuncs)
	}
	return p, nil
}

// IsModPath reports whether a package path belongs to the module.
func IsModPath(path string) bool {
	return path == ModPath || strings.HasPrefix(path, ModPath+"/")
}

// FnPkg returns the types.Package a function (or closure, or instantiated
// wrapper) belongs to, or nil.
func FnPkg(fn *ssa.Function) *types.Package {
	for f := fn; f != nil; f = f.Parent() {
		if f.Pkg != nil {
			return f.Pkg.Pkg
		}
		if o := f.Object(); o != nil && o.Pkg() != nil {
			return o.Pkg()
		}
		if f.Origin() != nil && f.Origin() != f {
			if q := FnPkg(f.Origin()); q != nil {
				return q
			}
		}
	}
	return nil
}

// InModule reports whether fn is source code of the module (including
// closures, excluding synthetic wrappers without syntax).
func (p *Program) InModule(fn *ssa.Function) bool {
	pk := FnPkg(fn)
	return pk != nil && IsModPath(pk.Path())
}

// Generated reports whether fn comes from a generated protobuf file.
func (p *Program) Generated(fn *ssa.Function) bool {
	pos := fn.Pos()
	if !pos.IsValid() {
		for f := fn.Parent(); f != nil && !pos.IsValid(); f = f.Parent() {
			pos = f.Pos()
		}
	}
	if !pos.IsValid() {
		return false
	}
	return strings.HasSuffix(p.Fset.Position(pos).Filename, ".pb.go")
}

// ModFuncs returns every function of the module with a body (methods,
// closures, init), sorted by position. Generated protobuf code included.
func (p *Program) ModFuncs() []*ssa.Function {
	var out []*ssa.Function
	for _, fn := range p.modFns {
		if fn.Blocks != nil {
			out = append(out, fn)
		}
	}
	return out
}

// HandFuncs is ModFuncs without generated protobuf code and without
// synthetic wrappers/thunks.
func (p *Program) HandFuncs() []*ssa.Function {
	var out []*ssa.Function
	for _, fn := range p.ModFuncs() {
		if fn.Synthetic != "" && fn.Syntax() == nil && !strings.HasPrefix(fn.Name(), "init") {
			continue
		}
		if p.Generated(fn) {
			continue
		}
		out = append(out, fn)
	}
	return out
}

// AllFuncs returns every function known to SSA (deps included).
func (p *Program) AllFuncs() map[*ssa.Function]bool { return p.allFns }

// Pkg returns the module package with the given path relative to the
// module root ("" = root).
func (p *Program) Pkg(rel string) *packages.Package {
	path := ModPath
	if rel != "" {
		path += "/" + rel
	}
	return p.ByPath[path]
}

// SSAPkg returns the SSA package for rel.
func (p *Program) SSAPkg(rel string) *ssa.Package {
	pk := p.Pkg(rel)
	if pk == nil {
		return nil
	}
	return p.SSA.Package(pk.Types)
}

// Func returns the package-level function rel.name, or nil.
func (p *Program) Func(rel, name string) *ssa.Function {
	sp := p.SSAPkg(rel)
	if sp == nil {
		return nil
	}
	return sp.Func(name)
}

// ExtFunc returns a package-level function of any loaded package.
func (p *Program) ExtFunc(path, name string) *ssa.Function {
	pk := p.ByPath[path]
	if pk == nil {
		return nil
	}
	sp := p.SSA.Package(pk.Types)
	if sp == nil {
		return nil
	}
	return sp.Func(name)
}

// Named returns the named type rel.name, or nil.
func (p *Program) Named(rel, name string) *types.Named {
	pk := p.Pkg(rel)
	if pk == nil {
		return nil
	}
	return lookupNamed(pk.Types, name)
}

// ExtNamed returns a named type of any loaded package.
func (p *Program) ExtNamed(path, name string) *types.Named {
	pk := p.ByPath[path]
	if pk == nil {
		return nil
	}
	return lookupNamed(pk.Types, name)
}

func lookupNamed(pk *types.Package, name string) *types.Named {
	o := pk.Scope().Lookup(name)
	if o == nil {
		return nil
	}
	tn, ok := o.(*types.TypeName)
	if !ok {
		return nil
	}
	n, _ := types.Unalias(tn.Type()).(*types.Named)
	return n
}

// Method returns the SSA function for method name of T or *T.
func (p *Program) Method(t *types.Named, name string) *ssa.Function {
	if t == nil {
		return nil
	}
	for _, recv := range []types.Type{types.NewPointer(t), t} {
		ms := p.SSA.MethodSets.MethodSet(recv)
		if sel := ms.Lookup(t.Obj().Pkg(), name); sel != nil {
			if fn := p.SSA.MethodValue(sel); fn != nil {
				// Skip promoted-method wrappers to reach the declared method when
				// the declaration is on this very type.
				return fn
			}
		}
	}
	return nil
}

// DeclaredMethod returns the method only if it is declared on t itself
// (not promoted from an embedded field).
func (p *Program) DeclaredMethod(t *types.Named, name string) *ssa.Function {
	for i := 0; i < t.NumMethods(); i++ {
		m := t.Method(i)
		if m.Name() == name {
			return p.SSA.FuncValue(m)
		}
	}
	return nil
}

// Pos renders a position relative to the repo root.
func (p *Program) Pos(pos token.Pos) string {
	if !pos.IsValid() {
		return "-"
	}
	ps := p.Fset.Position(pos)
	f := strings.TrimPrefix(ps.Filename, p.Dir+"/")
	return fmt.Sprintf("%s:%d", f, ps.Line)
}

// FuncDecl returns the AST declaration of a source function.
func (p *Program) FuncDecl(obj *types.Func) *ast.FuncDecl { return p.astFunc[obj] }

// PkgOfFile maps a syntax file to its package.
func (p *Program) PkgOfFile(f *ast.File) *packages.Package { return p.fileOf[f] }

// CallGraph builds (once) the VTA-over-CHA call graph.
func (p *Program) CallGraph() *callgraph.Graph {
	if p.cg == nil {
		p.cg = vta.CallGraph(p.allFns, cha.CallGraph(p.SSA))
	}
	return p.cg
}

// FnName renders a function name relative to the module:
// "errbase.decodeLeaf", "(*markers.withMark).Error", "join.init$1".
func FnName(fn *ssa.Function) string {
	if fn == nil {
		return "<nil>"
	}
	s := fn.String()
	s = strings.ReplaceAll(s, ModPath+"/", "")
	s = strings.ReplaceAll(s, ModPath+".", "errors.")
	s = strings.ReplaceAll(s, ModPath, "errors")
	return s
}

// TypeName renders a type relative to the module.
func TypeName(t types.Type) string {
	s := types.TypeString(t, func(p *types.Package) string {
		if p.Path() == ModPath {
			return "errors"
		}
		return strings.TrimPrefix(p.Path(), ModPath+"/")
	})
	return s
}
