// Package absint holds the two small abstract interpreters of the design:
// a nilness evaluator with feasible-path pruning and an affine call-depth
// evaluator. Both work on go/ssa and never execute code.
package absint

import (
	"fmt"
	"go/token"
	"go/types"
	"strings"

	"golang.org/x/tools/go/ssa"

	"verif/checker/internal/sx"
)

// Nil is the nilness lattice.
type Nil int

const (
	Bot Nil = iota
	IsNil
	NonNil
	Top
)

func (n Nil) String() string { return [...]string{"⊥", "nil", "non-nil", "⊤"}[n] }

func join(a, b Nil) Nil {
	switch {
	case a == Bot:
		return b
	case b == Bot:
		return a
	case a == b:
		return a
	}
	return Top
}

// Event is a reachable dereference of a definitely-nil value.
type Event struct {
	Fn    *ssa.Function
	Instr ssa.Instruction
	What  string
	Stack []string // call path, outermost first
}

// Summary of one (function, abstract arguments) evaluation.
type Summary struct {
	Bools   []int // per result: 0 unknown/not bool, 1 always true, 2 always false (over reachable returns)
	Results []Nil
	Returns []ReturnInfo
	Events  []Event
}

// ReturnInfo records the abstract results of one reachable return.
type ReturnInfo struct {
	Ret     *ssa.Return
	Results []Nil
}

// NilEval evaluates functions abstractly.
type NilEval struct {
	// FieldOverride, when non-nil, gives the nilness of loads of a struct
	// field (what-if analysis); return Bot for "no override".
	FieldOverride func(f *types.Var) Nil
	// InModule tells whether events inside fn are collected.
	InModule func(fn *ssa.Function) bool
	MaxDepth int

	memo   map[string]*Summary
	inprog map[string]*Summary
	hitRec map[string]bool
}

// NewNilEval makes an evaluator.
func NewNilEval(inModule func(*ssa.Function) bool) *NilEval {
	return &NilEval{InModule: inModule, MaxDepth: 10, memo: map[string]*Summary{}, inprog: map[string]*Summary{}, hitRec: map[string]bool{}}
}

func key(fn *ssa.Function, args []Nil) string {
	var sb strings.Builder
	fmt.Fprintf(&sb, "%p", fn)
	for _, a := range args {
		sb.WriteByte(byte('0' + a))
	}
	return sb.String()
}

// Call evaluates fn with abstract arguments (len(args) may be shorter than
// the parameter list: missing ones are Top). Free variables are Top.
func (e *NilEval) Call(fn *ssa.Function, args []Nil) *Summary {
	return e.call(fn, args, 0, nil)
}

func (e *NilEval) call(fn *ssa.Function, args []Nil, depth int, stack []string) *Summary {
	full := make([]Nil, len(fn.Params))
	for i := range full {
		full[i] = Top
		if i < len(args) && args[i] != Bot {
			full[i] = args[i]
		}
	}
	k := key(fn, full)
	if s, ok := e.memo[k]; ok {
		return s
	}
	if s, ok := e.inprog[k]; ok {
		e.hitRec[k] = true
		return s
	}
	nres := fn.Signature.Results().Len()
	if fn.Blocks == nil || depth > e.MaxDepth {
		s := &Summary{Results: make([]Nil, nres), Bools: make([]int, nres)}
		for i := range s.Results {
			s.Results[i] = Top
		}
		return s
	}
	assumed := &Summary{Results: make([]Nil, nres), Bools: make([]int, nres)} // Bot: optimistic for recursion
	var s *Summary
	for round := 0; round < 4; round++ {
		e.inprog[k] = assumed
		e.hitRec[k] = false
		fa := &fnAnalysis{e: e, fn: fn, args: full, depth: depth, stack: append(append([]string{}, stack...), fn.String())}
		s = fa.run()
		delete(e.inprog, k)
		if !e.hitRec[k] || sameResults(s.Results, assumed.Results) {
			break
		}
		assumed = &Summary{Results: append([]Nil{}, s.Results...), Bools: make([]int, nres)}
	}
	e.memo[k] = s
	return s
}

func sameResults(a, b []Nil) bool {
	if len(a) != len(b) {
		return false
	}
	for i := range a {
		if a[i] != b[i] {
			return false
		}
	}
	return true
}

type tri int

const (
	unknown tri = iota
	yes
	no
)

type fact struct {
	key string
	val Nil
}

type fnAnalysis struct {
	e     *NilEval
	fn    *ssa.Function
	args  []Nil
	depth int
	stack []string

	reach    map[*ssa.BasicBlock]bool
	edgeOK   map[[2]int]bool // feasible CFG edges (from index, to index)
	valMemo  map[string]Nil
	inprog   map[ssa.Value]bool
	assume   map[ssa.Value]Nil
	events   []Event
	seenEv   map[ssa.Instruction]bool
	recovers bool
}

func (a *fnAnalysis) run() *Summary {
	fn := a.fn
	a.recovers = hasRecover(fn)
	a.reach = map[*ssa.BasicBlock]bool{fn.Blocks[0]: true}
	a.edgeOK = map[[2]int]bool{}
	a.inprog = map[ssa.Value]bool{}
	a.assume = map[ssa.Value]Nil{}
	for iter := 0; iter < 30; iter++ {
		a.valMemo = map[string]Nil{}
		changed := false
		for _, b := range fn.Blocks {
			if !a.reach[b] {
				continue
			}
			mark := func(i int) {
				s := b.Succs[i]
				ek := [2]int{b.Index, s.Index}
				if !a.edgeOK[ek] {
					a.edgeOK[ek] = true
					changed = true
				}
				if !a.reach[s] {
					a.reach[s] = true
					changed = true
				}
			}
			if len(b.Instrs) == 0 {
				continue
			}
			switch t := b.Instrs[len(b.Instrs)-1].(type) {
			case *ssa.If:
				switch a.cond(t.Cond, b) {
				case yes:
					mark(0)
				case no:
					mark(1)
				default:
					mark(0)
					mark(1)
				}
			case *ssa.Jump:
				mark(0)
			case *ssa.Panic, *ssa.Return:
			default:
				for i := range b.Succs {
					mark(i)
				}
			}
		}
		// recover block is reachable when the function defers
		if fn.Recover != nil && !a.reach[fn.Recover] {
			hasDefer := false
			sx.EachInstr(fn, func(in ssa.Instruction) {
				if _, ok := in.(*ssa.Defer); ok {
					hasDefer = true
				}
			})
			if hasDefer {
				a.reach[fn.Recover] = true
				changed = true
			}
		}
		if !changed {
			break
		}
	}
	a.valMemo = map[string]Nil{}
	a.seenEv = map[ssa.Instruction]bool{}
	s := &Summary{Results: make([]Nil, fn.Signature.Results().Len()), Bools: make([]int, fn.Signature.Results().Len())}
	for _, b := range fn.Blocks {
		if !a.reach[b] {
			continue
		}
		for _, in := range b.Instrs {
			a.inspect(in, b)
			if r, ok := in.(*ssa.Return); ok {
				ri := ReturnInfo{Ret: r}
				for i, v := range r.Results {
					if i < len(s.Bools) && isBoolType(v.Type()) {
						t := int(a.cond(v, b)) // unknown=0, yes=1, no=2
						switch {
						case len(s.Returns) == 0:
							s.Bools[i] = t
						case s.Bools[i] != t:
							s.Bools[i] = 0
						}
					}
					n := a.nilOf(v, b)
					ri.Results = append(ri.Results, n)
					if i < len(s.Results) {
						s.Results[i] = join(s.Results[i], n)
					}
				}
				s.Returns = append(s.Returns, ri)
			}
		}
	}
	s.Events = a.events
	return s
}

func hasRecover(fn *ssa.Function) bool {
	found := false
	sx.EachInstr(fn, func(in ssa.Instruction) {
		d, ok := in.(*ssa.Defer)
		if !ok {
			return
		}
		if f := sx.FuncOf(d.Call.Value); f != nil {
			sx.EachInstr(f, func(in2 ssa.Instruction) {
				if c, ok := in2.(*ssa.Call); ok {
					if b, ok := c.Call.Value.(*ssa.Builtin); ok && b.Name() == "recover" {
						found = true
					}
				}
			})
		}
	})
	return found
}

// valueKey: access-path key so that two loads of the same field agree.
func valueKey(v ssa.Value) string {
	switch x := v.(type) {
	case *ssa.UnOp:
		if x.Op == token.MUL {
			if fa, ok := x.X.(*ssa.FieldAddr); ok {
				if b := valueKey(fa.X); b != "" {
					return b + "." + sx.FieldOf(fa).Name()
				}
			}
		}
	case *ssa.Field:
		if b := valueKey(x.X); b != "" {
			return b + "." + sx.FieldOf(x).Name()
		}
	case *ssa.Parameter, *ssa.FreeVar:
		return "$" + v.Name()
	}
	if v == nil {
		return ""
	}
	if _, ok := v.(*ssa.Const); ok {
		return ""
	}
	return fmt.Sprintf("%s#%p", v.Name(), v)
}

// edgeFacts returns facts established by taking edge from→to.
func (a *fnAnalysis) edgeFacts(from, to *ssa.BasicBlock) []fact {
	if len(from.Instrs) == 0 {
		return nil
	}
	ifi, ok := from.Instrs[len(from.Instrs)-1].(*ssa.If)
	if !ok || from.Succs[0] == from.Succs[1] {
		return nil
	}
	truth := from.Succs[0] == to
	return condFacts(ifi.Cond, truth)
}

func condFacts(c ssa.Value, truth bool) []fact {
	switch x := c.(type) {
	case *ssa.UnOp:
		if x.Op == token.NOT {
			return condFacts(x.X, !truth)
		}
	case *ssa.BinOp:
		if x.Op != token.EQL && x.Op != token.NEQ {
			return nil
		}
		var other ssa.Value
		if sx.IsNil(x.X) {
			other = x.Y
		} else if sx.IsNil(x.Y) {
			other = x.X
		} else {
			return nil
		}
		isNil := (x.Op == token.EQL) == truth
		k := valueKey(other)
		if k == "" {
			return nil
		}
		if isNil {
			return []fact{{k, IsNil}}
		}
		return []fact{{k, NonNil}}
	case *ssa.Extract:
		if ta, ok := x.Tuple.(*ssa.TypeAssert); ok && x.Index == 1 && truth {
			var fs []fact
			if k := valueKey(ta.X); k != "" {
				fs = append(fs, fact{k, NonNil})
			}
			// A successful comma-ok assertion yields a non-nil value: exactly so for
			// interface targets; for pointer targets under the assumption that no
			// typed-nil pointer is boxed (wire payloads are allocated by UnmarshalAny).
			for _, r := range *ta.Referrers() {
				if e0, ok := r.(*ssa.Extract); ok && e0.Index == 0 {
					fs = append(fs, fact{valueKey(e0), NonNil})
				}
			}
			return fs
		}
	}
	return nil
}

// factFor looks for a dominating fact about key k at block b.
func (a *fnAnalysis) factFor(k string, b *ssa.BasicBlock) (Nil, bool) {
	for x := b; x != nil; x = x.Idom() {
		d := x.Idom()
		if d == nil {
			break
		}
		if len(x.Preds) != 1 || x.Preds[0] != d {
			continue
		}
		for _, f := range a.edgeFacts(d, x) {
			if f.key == k {
				return f.val, true
			}
		}
	}
	return Top, false
}

func nilable(t types.Type) bool {
	switch types.Unalias(t).Underlying().(type) {
	case *types.Pointer, *types.Interface, *types.Slice, *types.Map, *types.Chan, *types.Signature:
		return true
	case *types.Basic:
		return types.Unalias(t).Underlying().(*types.Basic).Kind() == types.UnsafePointer || types.Unalias(t).Underlying().(*types.Basic).Kind() == types.UntypedNil
	}
	return false
}

// nilOf evaluates v's nilness as seen from block b. SSA values are
// immutable, so a fact known at b about an operand also held when the value
// was computed on every path reaching b.
func (a *fnAnalysis) nilOf(v ssa.Value, b *ssa.BasicBlock) Nil {
	if v == nil {
		return Top
	}
	k := valueKey(v)
	if k != "" {
		if n, ok := a.factFor(k, b); ok {
			return n
		}
	}
	mk := fmt.Sprintf("%p@%d", v, b.Index)
	if n, ok := a.valMemo[mk]; ok {
		return n
	}
	if a.inprog[v] {
		if as, ok := a.assume[v]; ok {
			return as
		}
		return Bot
	}
	a.inprog[v] = true
	var n Nil
	if _, isPhi := v.(*ssa.Phi); isPhi {
		cur := Bot
		for round := 0; round < 6; round++ {
			a.assume[v] = cur
			n = a.base(v, b)
			if n == cur {
				break
			}
			cur = n
			a.valMemo = map[string]Nil{}
		}
		delete(a.assume, v)
	} else {
		n = a.base(v, b)
	}
	delete(a.inprog, v)
	a.valMemo[mk] = n
	return n
}

func (a *fnAnalysis) base(v ssa.Value, b *ssa.BasicBlock) Nil {
	switch x := v.(type) {
	case *ssa.Const:
		if x.Value == nil && nilable(x.Type()) {
			return IsNil
		}
		return NonNil
	case *ssa.Parameter:
		for i, p := range a.fn.Params {
			if p == x {
				return a.args[i]
			}
		}
		return Top
	case *ssa.Alloc, *ssa.MakeInterface, *ssa.MakeClosure, *ssa.MakeMap, *ssa.MakeSlice, *ssa.MakeChan,
		*ssa.FieldAddr, *ssa.IndexAddr, *ssa.Function, *ssa.Global:
		return NonNil
	case *ssa.ChangeInterface:
		return a.nilOf(x.X, b)
	case *ssa.ChangeType:
		return a.nilOf(x.X, b)
	case *ssa.Convert:
		if nilable(x.X.Type()) {
			return a.nilOf(x.X, b)
		}
		return Top
	case *ssa.Slice:
		if _, isPtr := types.Unalias(x.X.Type()).Underlying().(*types.Pointer); isPtr {
			return NonNil
		}
		return Top
	case *ssa.Phi:
		r := Bot
		for i, e := range x.Edges {
			p := x.Block().Preds[i]
			if !a.reach[p] || !a.edgeOK[[2]int{p.Index, x.Block().Index}] {
				continue
			}
			n := Bot
			// facts of the incoming edge apply to the operand
			ek := valueKey(e)
			hit := false
			if ek != "" {
				for _, f := range a.edgeFacts(p, x.Block()) {
					if f.key == ek {
						n, hit = f.val, true
					}
				}
			}
			if !hit {
				n = a.nilOf(e, p)
			}
			r = join(r, n)
		}
		return r
	case *ssa.Extract:
		switch t := x.Tuple.(type) {
		case *ssa.Call:
			return a.callResult(t, x.Index, b)
		case *ssa.TypeAssert:
			if x.Index == 0 && a.nilOf(t.X, b) == IsNil {
				if nilable(t.AssertedType) {
					return IsNil
				}
			}
			return Top
		}
		return Top
	case *ssa.Call:
		return a.callResult(x, 0, b)
	case *ssa.TypeAssert:
		if sx.IsInterface(x.AssertedType) {
			return NonNil // a failed assertion panics
		}
		return Top
	case *ssa.UnOp:
		if x.Op == token.MUL {
			if fa, ok := x.X.(*ssa.FieldAddr); ok && a.e.FieldOverride != nil {
				if n := a.e.FieldOverride(sx.FieldOf(fa)); n != Bot {
					return n
				}
			}
			if al, ok := x.X.(*ssa.Alloc); ok {
				// local variable spilled to memory: join of everything stored, plus
				// the zero value unless a store dominates this load's block.
				r := Bot
				dominated := false
				for _, ref := range *al.Referrers() {
					if st, ok := ref.(*ssa.Store); ok && st.Addr == al {
						if !a.reach[st.Block()] {
							continue
						}
						r = join(r, a.nilOf(st.Val, st.Block()))
						if st.Block() != b && st.Block().Dominates(b) {
							dominated = true
						}
					} else if _, isLoad := ref.(*ssa.UnOp); !isLoad {
						if _, isDbg := ref.(*ssa.DebugRef); !isDbg {
							return Top // address escapes (closure, call)
						}
					}
				}
				if !dominated && nilable(sx.Deref(al.Type())) {
					r = join(r, IsNil)
				}
				if r == Bot {
					return Top
				}
				return r
			}
		}
		return Top
	}
	return Top
}

// callResult evaluates result #idx of a call.
func (a *fnAnalysis) callResult(c *ssa.Call, idx int, b *ssa.BasicBlock) Nil {
	if bi, ok := c.Call.Value.(*ssa.Builtin); ok {
		switch bi.Name() {
		case "append":
			if len(c.Call.Args) == 2 {
				// append(x, elems...) is non-nil if x is non-nil or elems non-empty; unknown otherwise
				if a.nilOf(c.Call.Args[0], b) == NonNil {
					return NonNil
				}
			}
			return Top
		}
		return Top
	}
	callee := sx.Callee(c)
	if callee == nil {
		return Top
	}
	if sx.Is(callee, "reflect", "TypeOf") && len(c.Call.Args) == 1 {
		return a.nilOf(c.Call.Args[0], b) // reflect.TypeOf(nil) == nil
	}
	s := a.summary(c, callee, b)
	if s == nil || idx >= len(s.Results) {
		return Top
	}
	return s.Results[idx]
}

func (a *fnAnalysis) summary(c ssa.CallInstruction, callee *ssa.Function, b *ssa.BasicBlock) *Summary {
	if callee.Blocks == nil {
		return nil
	}
	cc := c.Common()
	args := make([]Nil, 0, len(cc.Args))
	for _, v := range cc.Args {
		if nilable(v.Type()) {
			n := a.nilOf(v, b)
			if n == Bot {
				// argument still unknown inside a loop-carried cycle: no result yet
				bot := &Summary{Results: make([]Nil, callee.Signature.Results().Len()), Bools: make([]int, callee.Signature.Results().Len())}
				return bot
			}
			args = append(args, n)
		} else {
			args = append(args, Top)
		}
	}
	// Closures: free variables are Top (not tracked).
	depth := a.depth + 1
	if !a.e.InModule(callee) {
		depth += 3 // dependencies get a smaller budget
	}
	return a.e.call(callee, args, depth, a.stack)
}

func (a *fnAnalysis) cond(c ssa.Value, b *ssa.BasicBlock) tri {
	switch x := c.(type) {
	case *ssa.Const:
		if x.Value != nil {
			if x.Value.String() == "true" {
				return yes
			}
			if x.Value.String() == "false" {
				return no
			}
		}
	case *ssa.UnOp:
		if x.Op == token.NOT {
			switch a.cond(x.X, b) {
			case yes:
				return no
			case no:
				return yes
			}
		}
	case *ssa.BinOp:
		if x.Op != token.EQL && x.Op != token.NEQ {
			return unknown
		}
		if !nilable(x.X.Type()) {
			return unknown
		}
		l, r := a.nilOf(x.X, b), a.nilOf(x.Y, b)
		eq := unknown
		switch {
		case l == IsNil && r == IsNil:
			eq = yes
		case (l == IsNil && r == NonNil) || (l == NonNil && r == IsNil):
			eq = no
		}
		if eq == unknown {
			return unknown
		}
		if x.Op == token.NEQ {
			if eq == yes {
				return no
			}
			return yes
		}
		return eq
	case *ssa.Extract:
		if ta, ok := x.Tuple.(*ssa.TypeAssert); ok && x.Index == 1 {
			if a.nilOf(ta.X, b) == IsNil {
				return no
			}
		}
		if call, ok := x.Tuple.(*ssa.Call); ok {
			return a.callBool(call, x.Index, b)
		}
	case *ssa.Call:
		return a.callBool(x, 0, b)
	case *ssa.Phi:
		r := unknown
		first := true
		for i, e := range x.Edges {
			p := x.Block().Preds[i]
			if !a.reach[p] || !a.edgeOK[[2]int{p.Index, x.Block().Index}] {
				continue
			}
			v := a.cond(e, p)
			if first {
				r, first = v, false
			} else if r != v {
				return unknown
			}
		}
		return r
	}
	return unknown
}

func isBoolType(t types.Type) bool {
	b, ok := types.Unalias(t).Underlying().(*types.Basic)
	return ok && b.Info()&types.IsBoolean != 0
}

// callBool: constant boolean result of a static call under the abstract arguments.
func (a *fnAnalysis) callBool(c *ssa.Call, idx int, b *ssa.BasicBlock) tri {
	callee := sx.Callee(c)
	if callee == nil || callee.Blocks == nil {
		return unknown
	}
	s := a.summary(c, callee, b)
	if s == nil || idx >= len(s.Bools) {
		return unknown
	}
	return tri(s.Bools[idx])
}

func (a *fnAnalysis) event(in ssa.Instruction, what string) {
	if a.seenEv[in] {
		return
	}
	a.seenEv[in] = true
	if a.recovers {
		return
	}
	a.events = append(a.events, Event{Fn: a.fn, Instr: in, What: what, Stack: a.stack})
}

// inspect records definite-nil dereferences and pulls callee events.
func (a *fnAnalysis) inspect(in ssa.Instruction, b *ssa.BasicBlock) {
	isNil := func(v ssa.Value) bool { return nilable(v.Type()) && a.nilOf(v, b) == IsNil }
	switch x := in.(type) {
	case *ssa.FieldAddr:
		if isNil(x.X) {
			a.event(in, "field access through nil pointer")
		}
	case *ssa.UnOp:
		if x.Op == token.MUL && isNil(x.X) {
			a.event(in, "load through nil pointer")
		}
	case *ssa.IndexAddr:
		if _, isPtr := types.Unalias(x.X.Type()).Underlying().(*types.Pointer); isPtr && isNil(x.X) {
			a.event(in, "index through nil array pointer")
		}
	case *ssa.Store:
		if isNil(x.Addr) {
			a.event(in, "store through nil pointer")
		}
	case *ssa.MapUpdate:
		if isNil(x.Map) {
			a.event(in, "assignment to entry in nil map")
		}
	case *ssa.TypeAssert:
		if !x.CommaOk && isNil(x.X) {
			a.event(in, "non-comma-ok type assertion on nil interface")
		}
	case ssa.CallInstruction:
		cc := x.Common()
		if _, isGo := in.(*ssa.Go); isGo {
			return
		}
		if cc.IsInvoke() {
			if isNil(cc.Value) {
				a.event(in, "method "+cc.Method.Name()+" invoked on nil interface value")
			}
			return
		}
		if _, isB := cc.Value.(*ssa.Builtin); isB {
			return
		}
		callee := sx.Callee(x)
		if callee == nil {
			if isNil(cc.Value) {
				a.event(in, "call of nil function value")
			}
			return
		}
		if _, isDefer := in.(*ssa.Defer); isDefer {
			return
		}
		if s := a.summary(x, callee, b); s != nil && !a.recovers {
			for _, ev := range s.Events {
				if a.seenEv[ev.Instr] {
					continue
				}
				a.seenEv[ev.Instr] = true
				a.events = append(a.events, ev)
			}
		}
	}
}

// FnView exposes the per-value results of one function evaluation.
type FnView struct {
	a       *fnAnalysis
	Summary *Summary
}

// Analyze evaluates fn (not memoised) and returns a view for value queries.
func (e *NilEval) Analyze(fn *ssa.Function, args []Nil) *FnView {
	full := make([]Nil, len(fn.Params))
	for i := range full {
		full[i] = Top
		if i < len(args) && args[i] != Bot {
			full[i] = args[i]
		}
	}
	if fn.Blocks == nil {
		return nil
	}
	fa := &fnAnalysis{e: e, fn: fn, args: full, depth: 0, stack: []string{fn.String()}}
	s := fa.run()
	return &FnView{a: fa, Summary: s}
}

// NilOf returns the nilness of v as seen from block at.
func (v *FnView) NilOf(val ssa.Value, at *ssa.BasicBlock) Nil { return v.a.nilOf(val, at) }

// Reachable reports whether block b is reachable under the arguments.
func (v *FnView) Reachable(b *ssa.BasicBlock) bool { return v.a.reach[b] }
