package rules

import (
	"fmt"
	"go/token"
	"go/types"
	"strings"

	"golang.org/x/tools/go/ssa"

	"verif/checker/internal/absint"
	"verif/checker/internal/core"
	"verif/checker/internal/load"
	"verif/checker/internal/sx"
)

// hiddenFields discovers error-typed fields of module error types that are
// not exposed by Cause()/Unwrap().
func hiddenFields(c *core.Ctx) map[*types.Var]*ErrType {
	out := map[*types.Var]*ErrType{}
	for _, et := range GetCensus(c).ErrTypes {
		if et.Struct == nil {
			continue
		}
		sh := GetShapes(c)[et.Named]
		for i := 0; i < et.Struct.NumFields(); i++ {
			f := et.Struct.Field(i)
			isErr := sx.IsErrorType(f.Type())
			if sl, ok := types.Unalias(f.Type()).Underlying().(*types.Slice); ok && sx.IsErrorType(sl.Elem()) {
				isErr = true
			}
			if !isErr || f == sh.CauseField || f == sh.MultiField {
				continue
			}
			out[f] = et
		}
	}
	return out
}

var rHide = &Rule{
	Name: "R-HIDE",
	Doc: "hidden fields are discovered (error-typed fields of module error types not returned by Cause/Unwrap: barrierErr.maskedErr, withSecondaryError.secondaryError). Forward dataflow from every load of a hidden field: the value may only reach print sinks (Printer.Print*, redact/fmt Sprint*), errbase.EncodeError, " +
		"nil comparisons, and - inside SafeDetails() - the UnwrapOnce/GetSafeDetails chain walk; it must not reach any Return, any other call, any comparison with a non-nil value or any store: no Unwrap/Cause/Is/As/ErrorHint/... can expose the hidden chain, locally or after decoding (decoders rebuild the same types)",
	Run: runHide,
}

func isPrintSink(call ssa.CallInstruction) bool {
	cc := call.Common()
	if cc.IsInvoke() {
		n := cc.Method.Name()
		return isPrinterType(cc.Value.Type()) && (n == "Print" || n == "Printf")
	}
	f := sx.Callee(call)
	if f == nil {
		return false
	}
	if rn := redactName(f); rn == "Sprint" || rn == "Sprintf" || rn == "Sprintln" || rn == "Fprint" || rn == "Fprintf" || rn == "HelperForErrorf" {
		return true
	}
	if pk := load.FnPkg(f); pk != nil && pk.Path() == "fmt" {
		return true
	}
	return false
}

func runHide(c *core.Ctx) {
	p := c.P
	hidden := hiddenFields(c)
	nLoads := 0
	for _, fn := range p.HandFuncs() {
		var seeds []ssa.Value
		sx.EachInstr(fn, func(in ssa.Instruction) {
			ld, ok := in.(*ssa.UnOp)
			if !ok || ld.Op != token.MUL {
				return
			}
			fa, ok := ld.X.(*ssa.FieldAddr)
			if !ok || hidden[sx.FieldOf(fa)] == nil {
				return
			}
			seeds = append(seeds, ld)
		})
		if len(seeds) == 0 {
			continue
		}
		inSafeDetails := fn.Name() == "SafeDetails" && fn.Signature.Recv() != nil
		for _, seed := range seeds {
			nLoads++
			f := sx.FieldOf(seed.(*ssa.UnOp).X.(*ssa.FieldAddr))
			fname := hidden[f].Name() + "." + f.Name()
			construct := fmt.Sprintf("%s: load of hidden %s", load.FnName(fn), fname)
			var bad []string
			seen := map[ssa.Value]bool{}
			helperDepth := 0
			var walk func(v ssa.Value)
			walk = func(v ssa.Value) {
				if seen[v] {
					return
				}
				seen[v] = true
				refs := v.Referrers()
				if refs == nil {
					return
				}
				for _, r := range *refs {
					switch x := r.(type) {
					case *ssa.Phi, *ssa.MakeInterface, *ssa.ChangeInterface, *ssa.ChangeType, *ssa.Slice:
						walk(x.(ssa.Value))
					case *ssa.TypeAssert:
						walk(x)
					case *ssa.Extract:
						walk(x)
					case *ssa.DebugRef:
					case *ssa.BinOp:
						if (x.Op == token.EQL || x.Op == token.NEQ) && (sx.IsNil(x.X) || sx.IsNil(x.Y)) {
							continue
						}
						bad = append(bad, fmt.Sprintf("compared with a non-nil value at %s: the hidden error decides a result", p.Pos(x.Pos())))
					case *ssa.Store:
						if x.Val != v {
							continue
						}
						// stored into a varargs / local array that is then passed on
						if ia, ok := x.Addr.(*ssa.IndexAddr); ok {
							if al, ok := ia.X.(*ssa.Alloc); ok {
								walk(al)
								continue
							}
						}
						if fa, ok := x.Addr.(*ssa.FieldAddr); ok && sx.FieldOf(fa) == f {
							continue // same hidden field of a new value
						}
						if al, ok := x.Addr.(*ssa.Alloc); ok {
							// spilled local: loads of it
							for _, r2 := range *al.Referrers() {
								if l2, ok := r2.(*ssa.UnOp); ok && l2.Op == token.MUL {
									walk(l2)
								}
							}
							continue
						}
						bad = append(bad, fmt.Sprintf("stored at %s", p.Pos(x.Pos())))
					case *ssa.Return:
						bad = append(bad, fmt.Sprintf("returned by %s at %s", load.FnName(fn), p.Pos(x.Pos())))
					case ssa.CallInstruction:
						callee := sx.Callee(x)
						switch {
						case isPrintSink(x):
						case callee != nil && callee.Name() == "EncodeError" && p.InModule(callee):
						case callee != nil && callee.Name() == "UnwrapOnce" && p.InModule(callee) && inSafeDetails:
							if val, ok := x.(ssa.Value); ok {
								walk(val)
							}
						case callee != nil && callee.Name() == "GetSafeDetails" && p.InModule(callee) && inSafeDetails:
						case callee != nil && p.InModule(callee) && callee.Blocks != nil && !sx.Exported(callee) && load.FnPkg(callee) == load.FnPkg(fn) && helperDepth < 2:
							// an unexported helper of the same package: the parameter that receives the hidden error is
							// followed inside the helper under the same rules
							for j, a := range x.Common().Args {
								if a == v && j < len(callee.Params) {
									helperDepth++
									walk(callee.Params[j])
									helperDepth--
								}
							}
						default:
							bad = append(bad, fmt.Sprintf("passed to %s at %s", sx.TrimMod(sx.CalleeName(x)), p.Pos(x.Pos())))
						}
					case *ssa.If:
					case *ssa.FieldAddr, *ssa.Field, *ssa.UnOp, *ssa.IndexAddr, *ssa.Index:
						// dereferencing the hidden error's representation is not an exposure by itself
					default:
						bad = append(bad, fmt.Sprintf("used by %T at %s", r, p.Pos(sx.InstrPos(r))))
					}
				}
			}
			walk(seed)
			if len(bad) == 0 {
				c.Ob(construct, seed.Pos(), true, "flows only to print sinks / EncodeError / nil tests / the SafeDetails chain walk")
			} else {
				c.Fail(construct, seed.Pos(), "the hidden error escapes cause analysis: "+stripPositions(bad[0]), bad...)
			}
		}
	}
	c.Min("hidden fields discovered", len(hidden), 2)
	c.Min("loads of hidden fields followed", nLoads, 6)
	// withMark keeps no error besides its cause
	if wm := p.Named("markers", "withMark"); wm != nil {
		st := wm.Underlying().(*types.Struct)
		nErr := 0
		for i := 0; i < st.NumFields(); i++ {
			if sx.IsErrorType(st.Field(i).Type()) {
				nErr++
			}
		}
		c.Check(nErr == 1, "markers.withMark keeps only its cause", wm.Obj().Pos(), "the Mark reference is kept as (message, type marks), not as an error value", "withMark stores an error value besides its cause: the reference could become reachable")
	}
}

func stripPositions(s string) string {
	if i := strings.LastIndex(s, " at "); i >= 0 {
		return s[:i]
	}
	return s
}

// ---------------------------------------------------------------------------
// R-HIDE-KEEP

var rHideKeep = &Rule{
	Name: "R-HIDE-KEEP",
	Doc:  "the hidden error stays visible where it must: each hidden field is printed inside the p.Detail() region of its type's formatter, and inside SafeDetails() it is handed to errbase.GetSafeDetails whose result flows to the returned details",
	Run: func(c *core.Ctx) {
		p := c.P
		for f, et := range hiddenFields(c) {
			if !instantiated(c)[et.Named] {
				continue
			}
			sh := GetShapes(c)[et.Named]
			name := et.Name() + "." + f.Name()
			c.Check(sh.DetailFields[f], name+" in %+v", et.Named.Obj().Pos(), "printed inside the p.Detail() region", "the hidden error is no longer printed in the verbose rendering of its layer")
			sd := methodFn(et, "SafeDetails")
			if sd == nil {
				c.Fail(name+" in SafeDetails()", et.Named.Obj().Pos(), "type hiding an error has no SafeDetails(): the hidden chain contributes no safe details to reports")
				continue
			}
			// keeps(fn, seed): inside fn, GetSafeDetails is applied to (a chain walk over) the seed value and its result
			// flows to fn's return, on every iteration of the walk. The walk may live in a helper of the package.
			var keeps func(fn *ssa.Function, seed func(ssa.Value, int) bool, depth int) bool
			keeps = func(fn *ssa.Function, seed func(ssa.Value, int) bool, depth int) bool {
				ok := false
				sx.EachInstr(fn, func(in ssa.Instruction) {
					call, isCall := in.(*ssa.Call)
					if !isCall {
						return
					}
					callee := sx.Callee(call)
					if callee == nil || !p.InModule(callee) {
						return
					}
					if callee.Name() == "GetSafeDetails" {
						if seed(call.Call.Args[0], 0) && flowsToReturn(call, fn) {
							ok = true
							// inside a chain loop: on every iteration (no layer skipped)
							for _, l := range naturalLoops(fn) {
								if !l.Body[call.Block()] {
									continue
								}
								for b := range l.Body {
									for _, sc := range b.Succs {
										if sc == l.Header && !call.Block().Dominates(b) {
											ok = false
										}
									}
								}
							}
						}
						return
					}
					// a helper of the same package that receives the hidden error and whose result is returned
					if depth < 2 && callee.Blocks != nil && load.FnPkg(callee) == load.FnPkg(fn) && flowsToReturn(call, fn) {
						for j, a := range call.Call.Args {
							if j < len(callee.Params) && seed(a, 0) {
								pj := callee.Params[j]
								if keeps(callee, func(v ssa.Value, d int) bool { return derivesFromValue(v, pj, d) }, depth+1) {
									ok = true
								}
							}
						}
					}
				})
				return ok
			}
			ok := keeps(sd, func(v ssa.Value, d int) bool { return derivesFromField(v, f, d) }, 0)
			// a rendering of the hidden error that is put among the safe details is the VERBOSE one: the per-layer walk
			// above follows the single chain of causes only, so what the branches of a multi-cause error behind the
			// barrier carry (keys, domains, safe arguments, stacks) is reachable only through %+v
			sx.EachInstr(sd, func(in ssa.Instruction) {
				call, isCall := in.(*ssa.Call)
				if !isCall || redactName(sx.Callee(call)) != "Sprintf" || len(call.Call.Args) != 2 {
					return
				}
				uses := false
				for _, a := range varargs(call.Call.Args[1]) {
					if derivesFromField(stripIface(a), f, 0) {
						uses = true
					}
				}
				if !uses {
					return
				}
				format, isC := sx.ConstString(call.Call.Args[0])
				c.Check(isC && strings.Contains(format, "%+v"), name+" rendered into SafeDetails()", call.Pos(), "with %+v (verbose: every layer and branch)",
					"the hidden error is rendered into the safe details with a short verb: safe strings carried by the branches of a multi-cause error behind the barrier (and the detail of every layer) are no longer part of the barrier's safe details")
			})
			c.Check(ok, name+" in SafeDetails()", sd.Pos(), "GetSafeDetails(hidden chain) flows to the returned details, for every layer of the hidden chain", "SafeDetails() no longer folds the safe details of every layer of the hidden chain into its own")
		}
	},
}

// derivesFromValue: v is root, or a phi / call / interface conversion over values deriving from it.
func derivesFromValue(v ssa.Value, root ssa.Value, d int) bool {
	if v == root {
		return true
	}
	if d > 6 {
		return false
	}
	switch x := v.(type) {
	case *ssa.Phi:
		for _, e := range x.Edges {
			if derivesFromValue(e, root, d+1) {
				return true
			}
		}
	case *ssa.Call:
		for _, a := range x.Call.Args {
			if derivesFromValue(a, root, d+1) {
				return true
			}
		}
	case *ssa.MakeInterface:
		return derivesFromValue(x.X, root, d+1)
	case *ssa.ChangeInterface:
		return derivesFromValue(x.X, root, d+1)
	}
	return false
}

func derivesFromField(v ssa.Value, f *types.Var, d int) bool {
	if d > 6 {
		return false
	}
	switch x := v.(type) {
	case *ssa.UnOp:
		if fa, ok := x.X.(*ssa.FieldAddr); ok && sx.FieldOf(fa) == f {
			return true
		}
	case *ssa.Phi:
		for _, e := range x.Edges {
			if derivesFromField(e, f, d+1) {
				return true
			}
		}
	case *ssa.Call:
		for _, a := range x.Call.Args {
			if derivesFromField(a, f, d+1) {
				return true
			}
		}
	case *ssa.MakeInterface:
		return derivesFromField(x.X, f, d+1)
	case *ssa.ChangeInterface:
		return derivesFromField(x.X, f, d+1)
	}
	return false
}

// ---------------------------------------------------------------------------
// R-BARRIER-CTOR

var rBarrierCtor = &Rule{
	Name: "R-BARRIER-CTOR",
	Doc: "for every exported constructor and every error parameter that it (transitively) stores into a hidden field: with all error arguments non-nil (nilness interpreter prunes the documented nil cases) that parameter is never also returned as-is nor stored into a visible cause field - " +
		"a barrier/secondary constructor cannot leak the error it is documented to hide on some path",
	Run: runBarrierCtor,
}

type flowKinds struct{ hides, asCause, asIs bool }

func runBarrierCtor(c *core.Ctx) {
	p := c.P
	hidden := hiddenFields(c)
	ev := nilEval(c)
	memo := map[string]flowKinds{}
	var kinds func(fn *ssa.Function, pi int, depth int) flowKinds
	kinds = func(fn *ssa.Function, pi int, depth int) flowKinds {
		k := fmt.Sprintf("%p/%d", fn, pi)
		if v, ok := memo[k]; ok {
			return v
		}
		memo[k] = flowKinds{}
		var out flowKinds
		if fn.Blocks == nil || depth > 8 || pi >= len(fn.Params) {
			return out
		}
		// reachable blocks with every error parameter non-nil
		args := make([]absint.Nil, len(fn.Params))
		for i, q := range fn.Params {
			if sx.IsErrorType(q.Type()) {
				args[i] = absint.NonNil
			}
		}
		view := ev.Analyze(fn, args)
		derived := map[ssa.Value]bool{fn.Params[pi]: true}
		for changed := true; changed; {
			changed = false
			sx.EachInstr(fn, func(in ssa.Instruction) {
				v, ok := in.(ssa.Value)
				if !ok || derived[v] {
					return
				}
				switch x := in.(type) {
				case *ssa.Phi:
					for _, e := range x.Edges {
						if derived[e] {
							derived[v], changed = true, true
						}
					}
				case *ssa.ChangeInterface:
					if derived[x.X] {
						derived[v], changed = true, true
					}
				}
			})
		}
		ei := errorResult(fn)
		sx.EachInstr(fn, func(in ssa.Instruction) {
			if view != nil && !view.Reachable(in.Block()) {
				return
			}
			switch x := in.(type) {
			case *ssa.Store:
				if fa, ok := x.Addr.(*ssa.FieldAddr); ok && derived[x.Val] {
					f := sx.FieldOf(fa)
					if hidden[f] != nil {
						out.hides = true
					} else if sx.IsErrorType(f.Type()) {
						out.asCause = true
					}
				}
			case *ssa.Return:
				if ei >= 0 && ei < len(x.Results) && derived[x.Results[ei]] {
					out.asIs = true
				}
			case *ssa.Call:
				callee := sx.Callee(x)
				if callee == nil || !p.InModule(callee) {
					return
				}
				for ai, a := range x.Call.Args {
					if derived[a] && sx.IsErrorType(a.Type()) {
						sub := kinds(callee, ai, depth+1)
						// the callee's result must flow on to our result for asCause/asIs to matter
						if sub.hides {
							out.hides = true
						}
						if (sub.asCause || sub.asIs) && flowsToReturn(x, fn) {
							if sub.asCause {
								out.asCause = true
							}
							if sub.asIs {
								// the callee returns the argument itself: it is as if the call were the argument
								out.asIs = out.asIs || true
							}
						}
					}
				}
			}
		})
		memo[k] = out
		return out
	}
	n := 0
	for _, fn := range publicAPI(p) {
		if errorResult(fn) < 0 {
			continue
		}
		for _, pi := range errorParams(fn) {
			k := kinds(fn, pi, 0)
			if !k.hides {
				continue
			}
			n++
			construct := fmt.Sprintf("%s hides %s", load.FnName(fn), fn.Params[pi].Name())
			switch {
			case k.asIs:
				c.Fail(construct, fn.Pos(), "the error to hide is also returned as-is on a path where all error arguments are non-nil: no barrier is interposed there")
			case k.asCause:
				c.Fail(construct, fn.Pos(), "the error to hide is also stored into a visible cause field: it stays reachable through Unwrap/Cause")
			default:
				c.Ob(construct, fn.Pos(), true, "stored only behind the hidden field on every path with non-nil arguments")
			}
		}
	}
	c.Min("(constructor, hidden parameter) pairs", n, 20)
}
