package rules

import (
	"fmt"
	"go/token"
	"go/types"
	"sort"
	"strings"

	"golang.org/x/tools/go/ssa"

	"verif/checker/internal/core"
	"verif/checker/internal/load"
	"verif/checker/internal/origin"
	"verif/checker/internal/sx"
)

func recvSubs(e *origin.Engine, v ssa.Value, proj []string) map[string]bool {
	out := map[string]bool{}
	for _, o := range e.TraceRecv(v, proj).List() {
		collectRecvTyped(o, out, 0)
	}
	return out
}

// collectRecvTyped records "Type.path" of receiver-field origins.
func collectRecvTyped(o *origin.Origin, out map[string]bool, depth int) {
	if depth > 4 {
		return
	}
	if o.Kind == origin.Recv && len(o.Sub) > 0 {
		out[shortType(o.Desc)+"."+strings.Join(o.Sub, ".")] = true
	}
	for _, l := range [][]*origin.Origin{o.Of, o.Safe, o.Unsafe} {
		for _, x := range l {
			collectRecvTyped(x, out, depth+1)
		}
	}
}

func shortType(s string) string {
	if i := strings.LastIndex(s, "."); i >= 0 {
		return s[i+1:]
	}
	return s
}

// allocsIn: the allocations of the named type in the region of fn.
func allocsIn(r *region, named *types.Named) []*ssa.Alloc {
	var out []*ssa.Alloc
	for _, f := range r.funcs {
		out = append(out, allocsOf(f, named)...)
	}
	return out
}

func allocsOf(fn *ssa.Function, named *types.Named) []*ssa.Alloc {
	var out []*ssa.Alloc
	sx.EachInstr(fn, func(in ssa.Instruction) {
		if al, ok := in.(*ssa.Alloc); ok && types.Identical(sx.Deref(al.Type()), named) {
			out = append(out, al)
		}
	})
	return out
}

// ---------------------------------------------------------------------------
// R-OPAQUE-TRANSPORT

var rOpaque = &Rule{
	Name: "R-OPAQUE-TRANSPORT",
	Doc: "what an unknowing process keeps, it re-emits: (a) the opaque fallbacks of decodeLeaf/decodeWrapper store message, details, message type and decoded causes from the corresponding fields of the received message; (b) the opaque arms of encodeLeaf/encodeWrapper put exactly those stored fields back into the same wire fields (message, details, MESSAGE TYPE); " +
		"(c) getTypeDetails returns, for each of the three opaque types, the stored original type name, family name and extension in that order (sibling cross-check)",
	Run: runOpaque,
}

func runOpaque(c *core.Ctx) {
	p := c.P
	e := originEngine(c)
	dl, dw := p.Func("errbase", "decodeLeaf"), p.Func("errbase", "decodeWrapper")
	el, ew := p.Func("errbase", "encodeLeaf"), p.Func("errbase", "encodeWrapper")
	gtd := p.Func("errbase", "getTypeDetails")
	if dl == nil || dw == nil || el == nil || ew == nil || gtd == nil {
		c.InternalErr("errbase encode/decode", "anchor functions not found")
		return
	}
	// (a) fallbacks
	type exp struct {
		fn    *ssa.Function
		typ   string
		field []string
		want  string
	}
	exps := []exp{
		{dl, "opaqueLeaf", []string{"msg"}, "EncodedErrorLeaf.Message"},
		{dl, "opaqueLeaf", []string{"details"}, "EncodedErrorLeaf.Details"},
		{dl, "opaqueLeafCauses", []string{"opaqueLeaf", "msg"}, "EncodedErrorLeaf.Message"},
		{dl, "opaqueLeafCauses", []string{"opaqueLeaf", "details"}, "EncodedErrorLeaf.Details"},
		{dl, "opaqueLeafCauses", []string{"causes"}, "EncodedErrorLeaf.MultierrorCauses"},
		{dw, "opaqueWrapper", []string{"prefix"}, "EncodedWrapper.Message"},
		{dw, "opaqueWrapper", []string{"details"}, "EncodedWrapper.Details"},
		{dw, "opaqueWrapper", []string{"messageType"}, "EncodedWrapper.MessageType"},
		{dw, "opaqueWrapper", []string{"cause"}, "EncodedWrapper.Cause"},
	}
	for _, x := range exps {
		named := p.Named("errbase", x.typ)
		construct := fmt.Sprintf("%s: %s.%s <- %s", load.FnName(x.fn), x.typ, strings.Join(x.field, "."), x.want)
		als := allocsIn(regionOf(x.fn), named)
		if named == nil || len(als) == 0 {
			c.Fail(construct, x.fn.Pos(), "the opaque fallback value is no longer built here")
			continue
		}
		for _, al := range als {
			got := recvSubs(e, al, x.field)
			ok := false
			for k := range got {
				if k == x.want || strings.HasPrefix(k, x.want+".") {
					ok = true
				}
			}
			c.Check(ok, construct, al.Pos(), "stored from the received message", "the opaque value's "+strings.Join(x.field, ".")+" is not taken from the received "+x.want+" (got "+setStr(got)+"): an unknowing process would forward something else than it received")
			// round 12: the details are kept WHOLE. Where the fallback stores the received struct member by member
			// instead of copying it, every member of EncodedErrorDetails (the members of the type mark included) must
			// come from the same member of the received details - a member left out is forwarded empty.
			if ok && x.field[len(x.field)-1] == "details" {
				for _, sub := range [][]string{{"OriginalTypeName"}, {"ErrorTypeMark", "FamilyName"}, {"ErrorTypeMark", "Extension"}, {"ReportablePayload"}, {"FullDetails"}} {
					path := append(append([]string{}, x.field...), sub...)
					w := x.want + "." + strings.Join(sub, ".")
					gs := recvSubs(e, al, path)
					okSub := false
					for k := range gs {
						if k == x.want || k == w || strings.HasPrefix(k, w+".") || strings.HasPrefix(w, k+".") {
							okSub = true
						}
					}
					c.Check(okSub, construct+" ("+strings.Join(sub, ".")+")", al.Pos(), "every member of the received details is kept",
						"the opaque value's "+strings.Join(path, ".")+" is not taken from the received "+w+" (got "+setStr(gs)+"): an unknowing process forwards this member empty - type name, mark extension (the domain), safe details or payload of the unknown error are lost on the next hop")
				}
			}
			// verbatim: for the scalar/string/struct slots nothing but the received field may contribute - no
			// constant substituted on some path, no other field mixed in ("keep what was received")
			if ok && x.field[len(x.field)-1] != "cause" && x.field[len(x.field)-1] != "causes" {
				var foreign []string
				for _, o := range e.TraceRecv(al, x.field).List() {
					k := ""
					if o.Kind == origin.Recv && len(o.Sub) > 0 {
						k = shortType(o.Desc) + "." + strings.Join(o.Sub, ".")
					}
					if k == x.want || strings.HasPrefix(k, x.want+".") {
						continue
					}
					if o.Kind == origin.Const && strings.HasPrefix(o.Desc, "zero") {
						continue
					}
					foreign = append(foreign, o.Key())
				}
				sort.Strings(foreign)
				c.Check(len(foreign) == 0, construct+" (verbatim)", al.Pos(), "nothing but the received field contributes",
					"the opaque value's "+strings.Join(x.field, ".")+" is not always the received "+x.want+" itself (also: "+strings.Join(dedupStr(foreign), ", ")+"): an unknowing process alters what it forwards and shows")
			}
		}
	}
	// (b) re-emission
	type out struct {
		fn    *ssa.Function
		msgT  string
		field string
		wants []string
	}
	outs := []out{
		{el, "EncodedErrorLeaf", "Message", []string{"opaqueLeaf.msg", "opaqueLeafCauses.opaqueLeaf.msg"}},
		{el, "EncodedErrorLeaf", "Details", []string{"opaqueLeaf.details", "opaqueLeafCauses.opaqueLeaf.details"}},
		{ew, "EncodedWrapper", "Message", []string{"opaqueWrapper.prefix"}},
		{ew, "EncodedWrapper", "Details", []string{"opaqueWrapper.details"}},
		{ew, "EncodedWrapper", "MessageType", []string{"opaqueWrapper.messageType"}},
	}
	for _, x := range outs {
		named := p.ExtNamed(load.ModPath+"/errorspb", x.msgT)
		als := allocsIn(regionOf(x.fn), named)
		construct := fmt.Sprintf("%s: %s.%s re-emits %s", load.FnName(x.fn), x.msgT, x.field, strings.Join(x.wants, " / "))
		if len(als) == 0 {
			c.Fail(construct, x.fn.Pos(), "outgoing wire message is no longer built here")
			continue
		}
		for _, al := range als {
			got := recvSubs(e, al, []string{x.field})
			for _, w := range x.wants {
				ok := false
				for k := range got {
					if k == w || strings.HasPrefix(k, w+".") {
						ok = true
					}
				}
				c.Check(ok, construct+" ("+w+")", al.Pos(), "the stored value flows back into the same wire field",
					"when re-encoding an opaque value, "+w+" does not reach the outgoing "+x.msgT+"."+x.field+" (reaching: "+setStr(got)+"): what was received is not what is forwarded")
			}
		}
	}
	// (c) getTypeDetails siblings
	want := [3]string{"details.OriginalTypeName", "details.ErrorTypeMark.FamilyName", "details.ErrorTypeMark.Extension"}
	seenT := map[string]bool{}
	for _, r := range sx.Returns(gtd) {
		if len(r.Results) != 3 {
			continue
		}
		first := recvSubs(e, r.Results[0], nil)
		// the opaque type(s) this return serves. When the three arms share a helper that receives &t.details, the
		// (context-insensitive) origin of the helper's parameter is the union of the three call sites: every member
		// of the union must then be the stored field of an opaque type.
		var typs []string
		for k := range first {
			if i := strings.Index(k, "."); i > 0 && strings.HasPrefix(k, "opaque") {
				typs = append(typs, k[:i])
			}
		}
		if len(typs) == 0 {
			continue
		}
		sort.Strings(typs)
		typs = dedupStr(typs)
		for _, t := range typs {
			seenT[t] = true
		}
		typ := strings.Join(typs, "/")
		for i := 0; i < 3; i++ {
			got := recvSubs(e, r.Results[i], nil)
			ok := len(got) >= 1
			for k := range got {
				if !strings.HasPrefix(k, "opaque") || !strings.HasSuffix(k, "."+want[i]) {
					ok = false
				}
			}
			c.Check(ok, fmt.Sprintf("errbase.getTypeDetails: case *%s result#%d", typ, i), r.Pos(), "returns the stored "+want[i],
				fmt.Sprintf("for a received %s the %s is taken from %s instead of the stored %s: identity of forwarded errors changes", typ, []string{"original type name", "family name (type key)", "extension"}[i], setStr(got), want[i]))
		}
	}
	for _, t := range []string{"opaqueLeaf", "opaqueLeafCauses", "opaqueWrapper"} {
		c.Check(seenT[t], "errbase.getTypeDetails: case *"+t, gtd.Pos(), "opaque type handled", "getTypeDetails no longer returns the stored names for *"+t)
	}
}

// ---------------------------------------------------------------------------
// R-TREE-RECURSION

var rTreeRec = &Rule{
	Name: "R-TREE-RECURSION",
	Doc: "decodeWrapper hands DecodeError(enc.Cause) to the registered decoder and to the opaque fallback; decodeLeaf decodes every element of MultierrorCauses (in index order) for the multi-cause decoder and for the opaque fallback, " +
		"and the cause-less opaqueLeaf fallback is reachable only when len(MultierrorCauses) > 0 is false (no branch is dropped for any count)",
	Run: func(c *core.Ctx) {
		p := c.P
		e := originEngine(c)
		dl, dw, de := p.Func("errbase", "decodeLeaf"), p.Func("errbase", "decodeWrapper"), p.Func("errbase", "DecodeError")
		if dl == nil || dw == nil || de == nil {
			c.InternalErr("errbase decode", "anchor functions not found")
			return
		}
		// wrapper: dynamic decoder call arg #1 is DecodeError(enc.Cause)
		sx.EachInstr(dw, func(in ssa.Instruction) {
			call, ok := in.(*ssa.Call)
			if !ok || sx.Callee(call) != nil || call.Call.IsInvoke() || len(call.Call.Args) != 5 {
				return
			}
			src, _ := call.Call.Args[1].(*ssa.Call)
			ok2 := src != nil && sx.Callee(src) == de && recvSubs(e, src.Call.Args[1], nil)["EncodedWrapper.Cause"]
			c.Check(ok2, "errbase.decodeWrapper: cause argument of the registered decoder", call.Pos(), "DecodeError(enc.Cause)", "the registered wrapper decoder does not receive the decoded enc.Cause as its cause")
		})
		// leaf: causes for multi-cause decoder and fallback
		checkCauses := func(v ssa.Value, what string, pos token.Pos) {
			got := recvSubs(e, v, nil)
			// every element stored into the slice is a DecodeError call
			elemsDecoded := func(val ssa.Value) bool {
				refs := val.Referrers()
				if refs == nil {
					return false
				}
				found := false
				for _, r := range *refs {
					if ia, ok := r.(*ssa.IndexAddr); ok && ia.X == val {
						for _, r2 := range *ia.Referrers() {
							if st, ok := r2.(*ssa.Store); ok && st.Addr == ia {
								if cl, ok := st.Val.(*ssa.Call); ok && sx.Callee(cl) == de {
									found = true
								}
							}
						}
					}
				}
				return found
			}
			hasDecode := elemsDecoded(sx.Unspill(v))
			// ... or the slice is the result of a same-package helper all of whose
			// returns are such slices, built from the slice it is handed
			if cl, ok := sx.Unspill(v).(*ssa.Call); ok && !hasDecode {
				if h := sx.Callee(cl); h != nil && h.Pkg == dl.Pkg && h.Blocks != nil {
					all := true
					rets := sx.Returns(h)
					for _, r := range rets {
						if len(r.Results) != 1 || !elemsDecoded(sx.Unspill(r.Results[0])) {
							all = false
						}
					}
					hasDecode = all && len(rets) > 0
				}
			}
			fromWire := false
			for k := range got {
				if strings.HasPrefix(k, "EncodedErrorLeaf.MultierrorCauses") {
					fromWire = true
				}
			}
			ok := hasDecode && fromWire
			c.Check(ok, "errbase.decodeLeaf: "+what, pos, "each element is DecodeError(enc.MultierrorCauses[i])", what+" are not the decoded elements of enc.MultierrorCauses")
		}
		dlr := regionOf(dl)
		dlr.each(func(in ssa.Instruction) {
			call, ok := in.(*ssa.Call)
			if !ok || sx.Callee(call) != nil || call.Call.IsInvoke() || len(call.Call.Args) != 5 {
				return
			}
			if sl, ok := types.Unalias(call.Call.Args[1].Type()).Underlying().(*types.Slice); ok && sx.IsErrorType(sl.Elem()) {
				checkCauses(call.Call.Args[1], "causes argument of the registered multi-cause decoder", call.Pos())
			}
		})
		if olc := p.Named("errbase", "opaqueLeafCauses"); olc != nil {
			for _, al := range allocsIn(dlr, olc) {
				for _, r := range *al.Referrers() {
					if fa, ok := r.(*ssa.FieldAddr); ok && sx.FieldOf(fa).Name() == "causes" {
						for _, r2 := range *fa.Referrers() {
							if st, ok := r2.(*ssa.Store); ok && st.Addr == fa {
								checkCauses(st.Val, "causes of the opaqueLeafCauses fallback", st.Pos())
							}
						}
					}
				}
			}
		}
		// guard of the cause-less fallback: whatever the spelling of the test (> 0 with the causes in the then-branch,
		// == 0 with an early return, ...), the plain opaqueLeaf may be built only where len(MultierrorCauses) == 0
		// is established
		isMCLen := func(v ssa.Value) bool {
			lc, ok := v.(*ssa.Call)
			if !ok {
				return false
			}
			if b, ok := lc.Call.Value.(*ssa.Builtin); !ok || b.Name() != "len" {
				return false
			}
			for k := range recvSubs(e, lc.Call.Args[0], nil) {
				if strings.HasPrefix(k, "EncodedErrorLeaf.MultierrorCauses") {
					return true
				}
			}
			return false
		}
		ol := p.Named("errbase", "opaqueLeaf")
		if ol == nil {
			c.InternalErr("errbase.opaqueLeaf", "type not found")
			return
		}
		nAl := 0
		for _, al := range allocsIn(dlr, ol) {
			// where the plain leaf is handed out as the error (the value may be built earlier and also serve as the
			// embedded part of the multi-cause fallback)
			var boxed []*ssa.BasicBlock
			for _, r := range *al.Referrers() {
				if mi, ok := r.(*ssa.MakeInterface); ok && mi.X == ssa.Value(al) {
					boxed = append(boxed, mi.Block())
				}
			}
			if len(boxed) == 0 {
				continue
			}
			nAl++
			zero, why := false, "no test of len(enc.MultierrorCauses) dominates it"
			for _, l := range dlr.lits(boxed[0]) {
				bo, ok := l.V.(*ssa.BinOp)
				if !ok || !isMCLen(bo.X) {
					continue
				}
				k, isK := sx.ConstInt(bo.Y)
				if !isK {
					continue
				}
				// does (len OP k) == !l.Neg imply len == 0 ?
				holds := !l.Neg
				implies := false
				switch bo.Op {
				case token.GTR: // len > k false  => len <= k
					implies = !holds && k == 0
				case token.GEQ: // len >= k false => len < k
					implies = !holds && k == 1
				case token.NEQ:
					implies = !holds && k == 0
				case token.EQL:
					implies = holds && k == 0
				case token.LSS:
					implies = holds && k == 1
				case token.LEQ:
					implies = holds && k == 0
				}
				if implies {
					zero = true
				} else {
					why = fmt.Sprintf("the dominating test len(MultierrorCauses) %s %d (taken as %v) does not imply that there is no cause", bo.Op, k, holds)
				}
			}
			c.Check(zero, "errbase.decodeLeaf: cause-less opaqueLeaf fallback", al.Pos(), "reachable only when len(enc.MultierrorCauses) == 0 is established",
				"the cause-less opaque leaf can be built although MultierrorCauses is not empty ("+why+"): an unknown multi-cause node with that many causes is decoded as a plain leaf and its branches are dropped")
		}
		c.Check(nAl >= 1, "errbase.decodeLeaf: multi-cause fallback guard", dl.Pos(), "a plain opaqueLeaf fallback exists", "decodeLeaf no longer builds a plain opaque leaf")
	},
}

func firstIfUser(v ssa.Value) (*ssa.If, bool) {
	for _, r := range *v.Referrers() {
		if ifi, ok := r.(*ssa.If); ok {
			return ifi, true
		}
	}
	return nil, false
}

// ---------------------------------------------------------------------------
// R-REGTYPE

var regTypeTabled = map[string]string{
	"errbase.decodeErrno -> *errbase.OpaqueErrno":        "an errno from another platform cannot be a native syscall.Errno: OpaqueErrno by design (it has its own encoder)",
	"barriers.decodeBarrierPrev -> *barriers.barrierErr": "legacy upgrade: errors encoded by old versions as barrierError are rebuilt as the current barrierErr",
}

var rRegType = &Rule{
	Name: "R-REGTYPE",
	Doc:  "a decoder registered under GetTypeKey(X) returns, on every non-nil path, a value of X's concrete type (followed through static callees into the dependencies' SSA up to the MakeInterface that fixes the type): otherwise re-encoding changes the type key and the wire message drifts after the first hop",
	Run: func(c *core.Ctx) {
		cs := GetCensus(c)
		n := 0
		seen := map[string]bool{}
		for _, r := range cs.Regs {
			if !r.IsDec() || r.Fn == nil || r.Fn.Blocks == nil {
				continue
			}
			n++
			var ts []types.Type
			resolved := true
			for _, ret := range sx.Returns(r.Fn) {
				t1, ok := ConcreteTypes(c.P, ret.Results[0])
				if !ok {
					resolved = false
				}
				ts = append(ts, t1...)
			}
			name := load.FnName(r.Fn)
			if !resolved {
				c.Undecided(name+" result type", r.Fn.Pos(), "the concrete type returned by the decoder cannot be resolved statically")
				continue
			}
			for _, t := range ts {
				match := false
				for _, k := range r.KeyTypes {
					if types.Identical(k, t) {
						match = true
					}
				}
				key := name + " -> " + load.TypeName(t)
				if match {
					if !seen[key] {
						c.Ob(key, r.Fn.Pos(), true, "same type as the registration key "+r.KeyName())
					}
					seen[key] = true
					continue
				}
				if why, ok := regTypeTabled[key]; ok {
					seen[key] = true
					c.Ob(key, r.Fn.Pos(), true, "tabled: "+why)
					continue
				}
				c.Fail(key, r.Fn.Pos(), "decoder registered for "+r.KeyName()+" returns a "+load.TypeName(t)+": the type key changes on re-encoding")
			}
		}
		for k := range regTypeTabled {
			if !seen[k] {
				c.Note("tabled R-REGTYPE exception %q matches no construct any more (harmless; table can be pruned)", k)
			}
		}
		c.Min("registered decoders", n, 28)
	},
}

// ---------------------------------------------------------------------------
// R-SEP

var rSep = &Rule{
	Name: "R-SEP",
	Doc: "the separator between a prefix and its cause is the same constant at every composer and decomposer: withPrefix.Error and opaqueWrapper.Error (format strings), formatSingleLineOutput (written constant) and extractPrefix, " +
		"which must remove exactly that suffix (HasSuffix(sep) followed by slicing off len(sep) bytes, or TrimSuffix(sep)) - not a cut-set trim",
	Run: func(c *core.Ctx) {
		p := c.P
		sh := GetShapes(c)
		seps := map[string]string{}
		for _, et := range GetCensus(c).ErrTypes {
			s := sh[et.Named]
			if s.ErrShape == ShPrefixCause || s.ErrShape == ShByMessageType {
				seps[et.Name()+".Error"] = s.ErrSep
			}
		}
		ep := p.Func("errbase", "extractPrefix")
		if ep == nil {
			c.InternalErr("errbase.extractPrefix", "anchor function not found")
			return
		}
		// HasSuffix(prefix, SEP)
		var sep string
		var prefixVal ssa.Value
		sx.EachInstr(ep, func(in ssa.Instruction) {
			call, ok := in.(*ssa.Call)
			if !ok {
				return
			}
			if f := sx.Callee(call); f != nil && sx.Is(f, "strings", "HasSuffix") {
				if s, ok := sx.ConstString(call.Call.Args[1]); ok {
					sep, prefixVal = s, call.Call.Args[0]
				}
			}
		})
		if sep == "" {
			c.Undecided("errbase.extractPrefix", ep.Pos(), "no HasSuffix(prefix, <constant separator>) test found")
			return
		}
		seps["errbase.extractPrefix (HasSuffix)"] = sep
		// the Prefix-typed non-empty return must be prefix minus exactly the separator
		okTrim, how := false, ""
		for _, r := range sx.Returns(ep) {
			v := r.Results[0]
			switch x := v.(type) {
			case *ssa.Slice:
				if x.X == prefixVal && x.Low == nil {
					if bo, ok := x.High.(*ssa.BinOp); ok && bo.Op == token.SUB {
						if k, ok := sx.ConstInt(bo.Y); ok {
							if lc, ok := bo.X.(*ssa.Call); ok {
								if b, ok := lc.Call.Value.(*ssa.Builtin); ok && b.Name() == "len" && lc.Call.Args[0] == prefixVal {
									how = fmt.Sprintf("prefix[:len(prefix)-%d]", k)
									okTrim = int(k) == len(sep)
								}
							}
						}
					}
				}
			case *ssa.Call:
				if f := sx.Callee(x); f != nil && f.Pkg != nil && f.Pkg.Pkg.Path() == "strings" && len(x.Call.Args) == 2 && x.Call.Args[0] == prefixVal {
					s2, _ := sx.ConstString(x.Call.Args[1])
					how = "strings." + f.Name() + fmt.Sprintf("(prefix, %q)", s2)
					okTrim = f.Name() == "TrimSuffix" && s2 == sep
				}
			}
		}
		if how == "" {
			c.Undecided("errbase.extractPrefix: separator removal", ep.Pos(), "the returned prefix is not computed by a recognised exact-suffix removal")
		} else {
			c.Check(okTrim, "errbase.extractPrefix: separator removal", ep.Pos(), how+" removes exactly the separator", how+" does not remove exactly the "+fmt.Sprintf("%q", sep)+" separator: prefixes ending in separator characters are altered in transit")
		}
		// formatSingleLineOutput constant
		if fso := p.Method(p.Named("errbase", "state"), "formatSingleLineOutput"); fso != nil {
			sx.EachInstr(fso, func(in ssa.Instruction) {
				if call, ok := in.(*ssa.Call); ok && len(call.Call.Args) == 2 {
					if s, ok := sx.ConstString(call.Call.Args[1]); ok && isStateField(call.Call.Args[0], "finalBuf") {
						seps["errbase.formatSingleLineOutput"] = s
					}
				}
			})
		}
		var names []string
		for k := range seps {
			names = append(names, k)
		}
		sort.Strings(names)
		for _, k := range names {
			c.Check(seps[k] == ": ", k+" separator", ep.Pos(), fmt.Sprintf("%q", seps[k]), fmt.Sprintf("separator %q differs from the \": \" used by the other composers/decomposers", seps[k]))
		}
		c.Min("separator sites", len(seps), 4)
	},
}

// ---------------------------------------------------------------------------
// R-TYPEKEY-WHO

var rTypeKeyWho = &Rule{
	Name: "R-TYPEKEY-WHO",
	Doc: "all identity goes through getTypeDetails (which applies migrations and the names stored in opaque values): getFullTypeName (raw reflect name) is called only by getTypeDetails and RegisterTypeMigration; " +
		"encodeLeaf, encodeWrapper, GetSafeDetails and GetTypeMark ask for the full mark (onlyFamily=false) so the extension/domain travels; GetTypeKey asks for the family only",
	Run: func(c *core.Ctx) {
		p := c.P
		gft, gtd := p.Func("errbase", "getFullTypeName"), p.Func("errbase", "getTypeDetails")
		if gft == nil || gtd == nil {
			c.InternalErr("errbase.getFullTypeName/getTypeDetails", "anchor functions not found")
			return
		}
		wantFalse := map[string]bool{"encodeLeaf": true, "encodeWrapper": true, "GetSafeDetails": true, "GetTypeMark": true}
		n := 0
		gtdReg := regionOf(gtd, gft)
		for _, fn := range p.HandFuncs() {
			sx.EachInstr(fn, func(in ssa.Instruction) {
				call, ok := in.(ssa.CallInstruction)
				if !ok {
					return
				}
				switch sx.Callee(call) {
				case gft:
					n++
					ok := fn == gtd || fn.Name() == "RegisterTypeMigration"
					if !ok {
						// a helper that resolves the raw name through the migration registry itself (the pair 'raw name +
						// registry lookup' is what getTypeDetails is made of; who composes the helpers is R-OPAQUE-TRANSPORT's
						// and R-MIGRATION's business)
						sx.EachInstr(fn, func(in2 ssa.Instruction) {
							if lk, isLk := in2.(*ssa.Lookup); isLk && isGlobalLoad(lk.X, "backwardRegistry") {
								ok = true
							}
						})
					}
					if !ok && gtdReg.in[fn] {
						// a helper of getTypeDetails that nobody else calls
						ok = true
						for _, other := range p.HandFuncs() {
							if gtdReg.in[other] {
								continue
							}
							sx.EachInstr(other, func(in2 ssa.Instruction) {
								if c2, isC := in2.(ssa.CallInstruction); isC && sx.Callee(c2) == fn {
									ok = false
								}
							})
						}
					}
					c.Check(ok, load.FnName(fn)+" calls getFullTypeName", call.Pos(), "allowed caller", "the raw reflect type name is used outside getTypeDetails/RegisterTypeMigration: migrations and received (opaque) names are bypassed")
				case gtd:
					n++
					arg := call.Common().Args[1]
					cst, isC := arg.(*ssa.Const)
					if !isC || cst.Value == nil {
						c.Undecided(load.FnName(fn)+" calls getTypeDetails", call.Pos(), "onlyFamily argument is not a constant")
						return
					}
					only := cst.Value.String() == "true"
					switch {
					case wantFalse[fn.Name()]:
						c.Check(!only, load.FnName(fn)+": getTypeDetails(err, onlyFamily)", call.Pos(), "full mark requested", "the type extension (domain) is dropped here: onlyFamily=true where the full mark is needed")
					case fn.Name() == "GetTypeKey":
						c.Check(only, load.FnName(fn)+": getTypeDetails(err, onlyFamily)", call.Pos(), "family only", "GetTypeKey must ask for the family name only")
					default:
						c.Ob(load.FnName(fn)+": getTypeDetails(err, "+cst.Value.String()+")", call.Pos(), true, "other caller")
					}
				}
			})
		}
		c.Min("calls of getFullTypeName/getTypeDetails", n, 7)
	},
}

// ---------------------------------------------------------------------------
// R-MARK-LAYERS

var rMarkLayers = &Rule{
	Name: "R-MARK-LAYERS",
	Doc:  "an error's identity mark has one full type mark per layer: in markers.getMark every element of errorMark.types is the result of errbase.GetTypeMark applied to the error itself or to the UnwrapOnce loop variable (never a family-only key or a hand-built mark), so domains/extensions of inner layers take part in equivalence",
	Run: func(c *core.Ctx) {
		p := c.P
		gm := p.Func("markers", "getMark")
		gtm := p.Func("errbase", "GetTypeMark")
		if gm == nil || gtm == nil {
			c.InternalErr("markers.getMark", "anchor functions not found")
			return
		}
		etm := p.ExtNamed(load.ModPath+"/errorspb", "ErrorTypeMark")
		nCalls, onPhi, onParam := 0, false, false
		// (the chain loop may sit in an unexported helper that receives the error)
		gmReg := regionOf(gm, gtm)
		gmReg.each(func(in ssa.Instruction) {
			switch x := in.(type) {
			case *ssa.Call:
				if sx.Callee(x) == gtm {
					nCalls++
					switch x.Call.Args[0].(type) {
					case *ssa.Phi:
						onPhi = true
					case *ssa.Parameter:
						if r := gmReg.resolve(x.Call.Args[0]); r == ssa.Value(gm.Params[0]) || x.Call.Args[0] == ssa.Value(gm.Params[0]) {
							onParam = true
						}
					}
				}
			case *ssa.Alloc:
				if etm != nil && types.Identical(sx.Deref(x.Type()), etm) {
					// a hand-built ErrorTypeMark (composite literal)
					isTemp := false
					for _, r := range *x.Referrers() {
						if st, ok := r.(*ssa.Store); ok && st.Addr == x {
							if cl, ok := st.Val.(*ssa.Call); ok && sx.Callee(cl) == gtm {
								isTemp = true
							}
						}
					}
					if !isTemp {
						c.Fail("markers.getMark: hand-built ErrorTypeMark", x.Pos(), "a type mark is assembled by hand instead of errbase.GetTypeMark: the extension (domain) of that layer is not part of the identity")
					}
				}
			}
		})
		// every layer contributes: in getMark's chain loop every way around the loop passes through the GetTypeMark call
		// (no `continue` that skips a particular kind of layer)
		var gmLoops []*natLoop
		for _, f := range gmReg.funcs {
			gmLoops = append(gmLoops, naturalLoops(f)...)
		}
		for _, l := range gmLoops {
			var inLoop *ssa.Call
			for b := range l.Body {
				for _, in := range b.Instrs {
					if call, ok := in.(*ssa.Call); ok && sx.Callee(call) == gtm {
						inLoop = call
					}
				}
			}
			if inLoop == nil {
				continue
			}
			skipped := false
			for _, pred := range l.Header.Preds {
				if l.Body[pred] && !inLoop.Block().Dominates(pred) {
					skipped = true
				}
			}
			c.Check(!skipped, "markers.getMark: every layer of the chain contributes its type mark", inLoop.Pos(), "the GetTypeMark call lies on every way around the chain loop",
				"getMark skips some layers of the chain (an iteration can go on without calling GetTypeMark): chains that differ in exactly those layers get the same mark, so a difference in chain length or in a type of the chain no longer makes two errors different")
		}
		// in Is / IsAny, inside the chain loops, getMark is applied to the loop variable
		for _, name := range []string{"Is", "IsAny"} {
			fn := p.Func("markers", name)
			if fn == nil {
				continue
			}
			uo := p.Func("errbase", "UnwrapOnce")
			for _, l := range naturalLoops(fn) {
				isChain := false
				for b := range l.Body {
					for _, in := range b.Instrs {
						if call, ok := in.(*ssa.Call); ok && sx.Callee(call) == uo {
							isChain = true
						}
					}
				}
				if !isChain {
					continue
				}
				for b := range l.Body {
					for _, in := range b.Instrs {
						call, ok := in.(*ssa.Call)
						if !ok || sx.Callee(call) != gm {
							continue
						}
						_, isPhi := call.Call.Args[0].(*ssa.Phi)
						c.Check(isPhi, "markers."+name+": getMark inside the chain loop", call.Pos(), "applied to the loop variable (every layer's mark is compared)",
							"inside the loop over the causal chain the mark is taken of "+describeVal(call.Call.Args[0])+", not of the current layer: only one layer's mark is ever compared")
					}
				}
			}
		}
		c.Check(nCalls >= 2 && onPhi && onParam, "markers.getMark: one GetTypeMark per layer", gm.Pos(), fmt.Sprintf("%d GetTypeMark calls: on the error and on the chain loop variable", nCalls),
			"getMark does not take errbase.GetTypeMark of the error and of every UnwrapOnce layer")
	},
}
