package rules

import (
	"go/ast"
	"go/token"
	"go/types"
	"strings"

	"golang.org/x/tools/go/ssa"

	"verif/checker/internal/core"
	"verif/checker/internal/load"
	"verif/checker/internal/sx"
)

var rSpecialLeaf = &Rule{
	Name: "R-SPECIAL-LEAF",
	Doc: "a special-case printer may declare the whole err.Error() text safe only under isLeaf && IsAny(err, <package-level sentinels>) (SSA dominance), " +
		"and the isLeaf actual at every call of a registered special-case printer is a conjunction containing both UnwrapOnce(err) == nil and len(UnwrapMulti(err)) == 0 (AST conjuncts with resolved single-assignment locals): " +
		"otherwise a multi-cause error that matches a sentinel through one branch has its entire text, other branches included, printed as safe",
	Run: runSpecialLeaf,
}

func runSpecialLeaf(c *core.Ctx) {
	p := c.P
	cs := GetCensus(c)
	// (a) inside each registered special-case printer
	nA := 0
	for _, fn := range cs.Specials {
		if len(fn.Params) != 3 {
			c.Undecided(load.FnName(fn), fn.Pos(), "special-case printer does not have the (err, printer, isLeaf) signature")
			continue
		}
		leafP := fn.Params[2]
		reg := regionOf(fn)
		reg.each(func(in ssa.Instruction) {
			// the printer's error, as the function holding the instruction knows it
			errP := reg.paramFor(in.Parent(), fn.Params[0])
			call, ok := in.(*ssa.Call)
			if !ok {
				return
			}
			f := sx.Callee(call)
			if f == nil || f.Name() != "Safe" || f.Pkg == nil || f.Pkg.Pkg.Path() != redactPath {
				return
			}
			arg := stripIface(call.Call.Args[0])
			ec, ok := arg.(*ssa.Call)
			if !ok || !ec.Call.IsInvoke() || ec.Call.Method.Name() != "Error" {
				return
			}
			x := ec.Call.Value
			if why, ok := sentinelValue(p, x); ok {
				nA++
				c.Ob(load.FnName(fn)+": redact.Safe(<sentinel>.Error())", call.Pos(), true, "the text declared safe is the constant text of a standard-library sentinel ("+why+")")
				return
			}
			if errP != nil && x == ssa.Value(errP) {
				// a merged typed arm (case runtime.Error, syscall.Errno:) prints the error itself: every edge into the
				// arm is the success of an assertion to a type whose text is safe by contract
				if ts := typedArmTypes(call.Block(), errP); len(ts) > 0 {
					all := true
					for _, t := range ts {
						if contractSafeErrText[load.TypeName(t)] == "" {
							all = false
						}
					}
					if all {
						nA++
						c.Ob(load.FnName(fn)+": redact.Safe(err.Error()) in a typed arm", call.Pos(), true, "the arm is entered only for "+typeList(ts)+", whose texts are safe by contract")
						return
					}
				}
			}
			if errP == nil || x != ssa.Value(errP) {
				return // typed cases (runtime.Error, syscall.Errno, ...): R-TAINT's contract table
			}
			nA++
			// The error's own text: safe only when it is a leaf AND its text equals a sentinel's text.
			// A match by Is/IsAny is not enough: an Is(error) bool method can claim equivalence with any text.
			lits := reg.lits(call.Block())
			leafOK, textOK := hasLit(lits, leafP, false), false
			for _, l := range lits {
				bin, ok := l.V.(*ssa.BinOp)
				if !ok || l.Neg || bin.Op != token.EQL {
					continue
				}
				a, b := errorTextOf(bin.X), errorTextOf(bin.Y)
				if a == nil || b == nil {
					continue
				}
				if b == ssa.Value(errP) {
					a, b = b, a
				}
				if a == ssa.Value(errP) {
					if _, ok := sentinelValue(p, b); ok {
						textOK = true
					}
				}
			}
			c.Check(leafOK && textOK, load.FnName(fn)+": redact.Safe(err.Error())", call.Pos(), "only for a leaf whose text equals a standard-library sentinel's text",
				"the error's own full text is declared safe on the strength of an Is/IsAny match alone: an error type whose Is(error) bool method claims equivalence with a sentinel (a common idiom) keeps its own, unsafe, message, which is then printed outside redaction markers")
		})
	}
	c.Min("sentinel texts declared safe by special-case printers", nA, 1)
	// (b) call sites of special-case printers
	nB := 0
	pk := p.Pkg("errbase")
	if pk == nil {
		c.InternalErr("errbase", "package not found")
		return
	}
	info := pk.TypesInfo
	unwrapOnce, unwrapMulti := pk.Types.Scope().Lookup("UnwrapOnce"), pk.Types.Scope().Lookup("UnwrapMulti")
	// the hand-written function declarations of the package
	var decls []*ast.FuncDecl
	for _, file := range pk.Syntax {
		if strings.HasSuffix(p.Fset.Position(file.Pos()).Filename, "_test.go") {
			continue
		}
		for _, d := range file.Decls {
			if fd, ok := d.(*ast.FuncDecl); ok && fd.Body != nil {
				decls = append(decls, fd)
			}
		}
	}
	// single-assignment locals of a function: ident object -> defining expression
	type fctx struct {
		defs  map[types.Object]ast.Expr
		multi map[types.Object]bool
	}
	ctxs := map[*ast.FuncDecl]*fctx{}
	ctxOf := func(fd *ast.FuncDecl) *fctx {
		if x, ok := ctxs[fd]; ok {
			return x
		}
		x := &fctx{map[types.Object]ast.Expr{}, map[types.Object]bool{}}
		ast.Inspect(fd.Body, func(n ast.Node) bool {
			as, ok := n.(*ast.AssignStmt)
			if !ok || len(as.Lhs) != len(as.Rhs) {
				return true
			}
			for i, l := range as.Lhs {
				id, ok := l.(*ast.Ident)
				if !ok {
					continue
				}
				obj := info.Defs[id]
				if obj == nil {
					obj = info.Uses[id]
					if obj != nil {
						x.multi[obj] = true
					}
					continue
				}
				x.defs[obj] = as.Rhs[i]
			}
			return true
		})
		ctxs[fd] = x
		return x
	}
	resolveIn := func(fd *ast.FuncDecl, e ast.Expr) ast.Expr {
		x := ctxOf(fd)
		e = ast.Unparen(e)
		if id, ok := e.(*ast.Ident); ok {
			if obj := info.Uses[id]; obj != nil && !x.multi[obj] {
				if d, ok := x.defs[obj]; ok {
					return ast.Unparen(d)
				}
			}
		}
		return e
	}
	// the flattened parameter objects of a declaration
	paramsOf := func(fd *ast.FuncDecl) []types.Object {
		var out []types.Object
		for _, f := range fd.Type.Params.List {
			for _, n := range f.Names {
				out = append(out, info.Defs[n])
			}
		}
		return out
	}
	// decide: does the isLeaf actual `leaf`, in the body of fd, contain both conjuncts about errObj? A plain
	// parameter of fd stands for the actuals at every call of fd in the package (the error followed by position).
	var decide func(fd *ast.FuncDecl, leaf ast.Expr, errObj types.Object, depth int) (single, multiC bool)
	decide = func(fd *ast.FuncDecl, leaf ast.Expr, errObj types.Object, depth int) (single, multiC bool) {
		isCallTo := func(e ast.Expr, target types.Object, arg types.Object) bool {
			call, ok := resolveIn(fd, e).(*ast.CallExpr)
			if !ok || len(call.Args) != 1 {
				return false
			}
			var fobj types.Object
			switch f := call.Fun.(type) {
			case *ast.Ident:
				fobj = info.Uses[f]
			case *ast.SelectorExpr:
				fobj = info.Uses[f.Sel]
			}
			if fobj != target {
				return false
			}
			aid, ok := ast.Unparen(call.Args[0]).(*ast.Ident)
			return ok && info.Uses[aid] == arg
		}
		var conj []ast.Expr
		var split func(e ast.Expr)
		split = func(e ast.Expr) {
			e = ast.Unparen(resolveIn(fd, e)) // a single-assignment local (isLeaf := a && b) stands for its definition
			if be, ok := e.(*ast.BinaryExpr); ok && be.Op == token.LAND {
				split(be.X)
				split(be.Y)
				return
			}
			conj = append(conj, resolveIn(fd, e))
		}
		split(leaf)
		for _, cj := range conj {
			cj = ast.Unparen(cj)
			// a parameter of fd: every call site of fd must supply the conjuncts
			if id, ok := cj.(*ast.Ident); ok && depth < 3 {
				params := paramsOf(fd)
				li, ei := -1, -1
				for i, po := range params {
					if po != nil && po == info.Uses[id] {
						li = i
					}
					if po != nil && po == errObj {
						ei = i
					}
				}
				if li >= 0 && ei >= 0 {
					fobj := info.Defs[fd.Name]
					nSites, allS, allM := 0, true, true
					for _, caller := range decls {
						ast.Inspect(caller.Body, func(n ast.Node) bool {
							call, ok := n.(*ast.CallExpr)
							if !ok || len(call.Args) != len(params) {
								return true
							}
							var cobj types.Object
							switch f := call.Fun.(type) {
							case *ast.Ident:
								cobj = info.Uses[f]
							case *ast.SelectorExpr:
								cobj = info.Uses[f.Sel]
							}
							if cobj == nil || cobj != fobj {
								return true
							}
							nSites++
							eid, ok := ast.Unparen(call.Args[ei]).(*ast.Ident)
							if !ok {
								allS, allM = false, false
								return true
							}
							s1, m1 := decide(caller, call.Args[li], info.Uses[eid], depth+1)
							allS, allM = allS && s1, allM && m1
							return true
						})
					}
					if nSites > 0 {
						single, multiC = single || allS, multiC || allM
					}
				}
				continue
			}
			be, ok := cj.(*ast.BinaryExpr)
			if !ok || be.Op != token.EQL {
				continue
			}
			// X == nil with X = UnwrapOnce(err)
			if id, ok := be.Y.(*ast.Ident); ok && id.Name == "nil" {
				if isCallTo(be.X, unwrapOnce, errObj) {
					single = true
				}
				if isCallTo(be.X, unwrapMulti, errObj) {
					multiC = true // causes == nil
				}
			}
			// len(Y) == 0 with Y = UnwrapMulti(err)
			if lc, ok := ast.Unparen(be.X).(*ast.CallExpr); ok && len(lc.Args) == 1 {
				if lid, ok := lc.Fun.(*ast.Ident); ok && lid.Name == "len" {
					if z, ok := intConst(info, be.Y); ok && z == 0 && isCallTo(lc.Args[0], unwrapMulti, errObj) {
						multiC = true
					}
				}
			}
		}
		return single, multiC
	}
	for _, fd := range decls {
		fd := fd
		ast.Inspect(fd.Body, func(n ast.Node) bool {
			call, ok := n.(*ast.CallExpr)
			if !ok || len(call.Args) != 3 {
				return true
			}
			fid, ok := call.Fun.(*ast.Ident)
			if !ok {
				return true
			}
			v, ok := info.Uses[fid].(*types.Var)
			if !ok {
				return true
			}
			sig, ok := types.Unalias(v.Type()).Underlying().(*types.Signature)
			if !ok || sig.Params().Len() != 3 || !sx.IsErrorType(sig.Params().At(0).Type()) || !sx.IsNamed(sig.Params().At(1).Type(), errbasePath, "Printer") {
				return true
			}
			nB++
			errID, ok := ast.Unparen(call.Args[0]).(*ast.Ident)
			if !ok {
				c.Undecided("errbase."+fd.Name.Name+": special-case printer call", call.Pos(), "first argument is not a plain identifier")
				return true
			}
			single, multiC := decide(fd, call.Args[2], info.Uses[errID], 0)
			construct := "errbase." + fd.Name.Name + ": isLeaf argument of the special-case printer call"
			switch {
			case single && multiC:
				c.Ob(construct, call.Pos(), true, "isLeaf = (UnwrapOnce(err) == nil) && (len(UnwrapMulti(err)) == 0) [+ other conjuncts]")
			case single:
				c.Fail(construct, call.Pos(), "isLeaf is true for multi-cause errors: the conjunct len(UnwrapMulti(err)) == 0 is missing, so fmt.Errorf(\"secret %w … %w\", sentinel, e) is printed entirely as safe")
			default:
				c.Fail(construct, call.Pos(), "isLeaf does not include UnwrapOnce(err) == nil")
			}
			return true
		})
	}
	c.Min("whole-text Safe(err.Error()) sites in special-case printers", nA, 1)
	c.Min("special-case printer call sites", nB, 1)
}

// errorTextOf: v is `x.Error()` (interface invoke) - returns x.
func errorTextOf(v ssa.Value) ssa.Value {
	call, ok := v.(*ssa.Call)
	if !ok || !call.Call.IsInvoke() || call.Call.Method.Name() != "Error" {
		return nil
	}
	return call.Call.Value
}

// sentinelValue: v is the value of a standard-library package-level error variable, read either directly or
// out of a module-level table whose only assignment is a composite literal of such variables.
func sentinelValue(p *load.Program, v ssa.Value) (string, bool) {
	ld, ok := v.(*ssa.UnOp)
	if !ok || ld.Op != token.MUL {
		return "", false
	}
	switch a := ld.X.(type) {
	case *ssa.Global:
		if a.Pkg != nil && !load.IsModPath(a.Pkg.Pkg.Path()) && isStdlibPath(a.Pkg.Pkg.Path()) {
			return a.Pkg.Pkg.Name() + "." + a.Name(), true
		}
	case *ssa.IndexAddr:
		tl, ok := a.X.(*ssa.UnOp)
		if !ok || tl.Op != token.MUL {
			return "", false
		}
		g, ok := tl.X.(*ssa.Global)
		if !ok || g.Pkg == nil || !load.IsModPath(g.Pkg.Pkg.Path()) {
			return "", false
		}
		if sentinelTable(p, g) {
			return "an element of the table " + g.Pkg.Pkg.Name() + "." + g.Name(), true
		}
	}
	return "", false
}

// sentinelTable: every store to the package-level slice g, anywhere in the program, happens in its package
// initializer and stores a slice of an array all of whose elements are loads of standard-library globals;
// the address of g is never taken otherwise (no element can be replaced).
func sentinelTable(p *load.Program, g *ssa.Global) bool {
	stores := 0
	ok := true
	for _, fn := range p.ModFuncs() {
		sx.EachInstr(fn, func(in ssa.Instruction) {
			for _, op := range in.Operands(nil) {
				if *op != ssa.Value(g) {
					continue
				}
				switch x := in.(type) {
				case *ssa.UnOp: // load: element stores through the loaded slice are checked below
					for _, r := range *x.Referrers() {
						if ia, isIA := r.(*ssa.IndexAddr); isIA {
							for _, u := range *ia.Referrers() {
								if st, isSt := u.(*ssa.Store); isSt && st.Addr == ssa.Value(ia) {
									ok = false
								}
							}
						}
					}
				case *ssa.Store:
					if x.Addr != ssa.Value(g) || fn.Name() != "init" || fn.Pkg != g.Pkg {
						ok = false
						return
					}
					stores++
					sl, isSl := x.Val.(*ssa.Slice)
					if !isSl {
						ok = false
						return
					}
					arr, isAl := sl.X.(*ssa.Alloc)
					if !isAl {
						ok = false
						return
					}
					n := 0
					for _, r := range *arr.Referrers() {
						ia, isIA := r.(*ssa.IndexAddr)
						if !isIA {
							continue
						}
						for _, u := range *ia.Referrers() {
							st, isSt := u.(*ssa.Store)
							if !isSt {
								continue
							}
							n++
							eld, isLd := st.Val.(*ssa.UnOp)
							if !isLd {
								ok = false
								continue
							}
							eg, isG := eld.X.(*ssa.Global)
							if !isG || eg.Pkg == nil || load.IsModPath(eg.Pkg.Pkg.Path()) || !isStdlibPath(eg.Pkg.Pkg.Path()) {
								ok = false
							}
						}
					}
					if n == 0 {
						ok = false
					}
				default:
					ok = false // address escapes
				}
			}
		})
	}
	return ok && stores == 1
}

func isStdlibPath(path string) bool {
	first := path
	if i := strings.Index(path, "/"); i >= 0 {
		first = path[:i]
	}
	return !strings.Contains(first, ".")
}

// typedArmTypes: the types T such that block b (or a block that dominates it) is entered only over true edges of
// `v.(T)` comma-ok assertions - the arm of a type switch, possibly with several types.
func typedArmTypes(b *ssa.BasicBlock, v ssa.Value) []types.Type {
	for blk := b; blk != nil; blk = blk.Idom() {
		if len(blk.Preds) == 0 {
			continue
		}
		var ts []types.Type
		ok := true
		for _, p := range blk.Preds {
			found := false
			for _, l := range edgeLits(p, blk) {
				if ex, isEx := l.V.(*ssa.Extract); isEx && ex.Index == 1 && !l.Neg {
					if ta, isTA := ex.Tuple.(*ssa.TypeAssert); isTA && ta.X == v {
						ts = append(ts, ta.AssertedType)
						found = true
					}
				}
			}
			if !found {
				ok = false
			}
		}
		if ok && len(ts) > 0 {
			return ts
		}
	}
	return nil
}
