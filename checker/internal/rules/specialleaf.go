package rules

import (
	"go/ast"
	"go/token"
	"go/types"
	"strings"

	"golang.org/x/tools/go/ssa"

	"verif/checker/internal/core"
	"verif/checker/internal/load"
	"verif/checker/internal/sx"
)

var rSpecialLeaf = &Rule{
	Name: "R-SPECIAL-LEAF",
	Doc: "a special-case printer may declare the whole err.Error() text safe only under isLeaf && IsAny(err, <package-level sentinels>) (SSA dominance), " +
		"and the isLeaf actual at every call of a registered special-case printer is a conjunction containing both UnwrapOnce(err) == nil and len(UnwrapMulti(err)) == 0 (AST conjuncts with resolved single-assignment locals): " +
		"otherwise a multi-cause error that matches a sentinel through one branch has its entire text, other branches included, printed as safe",
	Run: runSpecialLeaf,
}

func runSpecialLeaf(c *core.Ctx) {
	p := c.P
	cs := GetCensus(c)
	// (a) inside each registered special-case printer
	nA := 0
	for _, fn := range cs.Specials {
		if len(fn.Params) != 3 {
			c.Undecided(load.FnName(fn), fn.Pos(), "special-case printer does not have the (err, printer, isLeaf) signature")
			continue
		}
		errP, leafP := fn.Params[0], fn.Params[2]
		sx.EachInstr(fn, func(in ssa.Instruction) {
			call, ok := in.(*ssa.Call)
			if !ok {
				return
			}
			f := sx.Callee(call)
			if f == nil || f.Name() != "Safe" || f.Pkg == nil || f.Pkg.Pkg.Path() != redactPath {
				return
			}
			arg := stripIface(call.Call.Args[0])
			ec, ok := arg.(*ssa.Call)
			if !ok || !ec.Call.IsInvoke() || ec.Call.Method.Name() != "Error" || ec.Call.Value != ssa.Value(errP) {
				return
			}
			nA++
			// must be dominated by true(isLeaf) and true(IsAny(err, sentinels))
			leafOK, anyOK := false, false
			for b := call.Block(); b != nil && b.Idom() != nil; b = b.Idom() {
				d := b.Idom()
				if len(b.Preds) != 1 || b.Preds[0] != d {
					continue
				}
				ifi, ok := d.Instrs[len(d.Instrs)-1].(*ssa.If)
				if !ok || d.Succs[0] != b {
					continue
				}
				if ifi.Cond == ssa.Value(leafP) {
					leafOK = true
				}
				if ic, ok := ifi.Cond.(*ssa.Call); ok {
					if g := sx.Callee(ic); g != nil && g.Name() == "IsAny" && p.InModule(g) && ic.Call.Args[0] == ssa.Value(errP) {
						all := true
						for _, e := range varargs(ic.Call.Args[1]) {
							ld, ok := e.(*ssa.UnOp)
							if !ok {
								all = false
								continue
							}
							if _, isG := ld.X.(*ssa.Global); !isG {
								all = false
							}
						}
						anyOK = all
					}
				}
			}
			c.Check(leafOK && anyOK, load.FnName(fn)+": redact.Safe(err.Error())", call.Pos(), "only under isLeaf && IsAny(err, package-level sentinels)",
				"the full text of the error is declared safe outside the isLeaf && IsAny(err, sentinels) guard")
		})
	}
	// (b) call sites of special-case printers
	nB := 0
	pk := p.Pkg("errbase")
	if pk == nil {
		c.InternalErr("errbase", "package not found")
		return
	}
	info := pk.TypesInfo
	unwrapOnce, unwrapMulti := pk.Types.Scope().Lookup("UnwrapOnce"), pk.Types.Scope().Lookup("UnwrapMulti")
	for _, file := range pk.Syntax {
		if strings.HasSuffix(p.Fset.Position(file.Pos()).Filename, "_test.go") {
			continue
		}
		for _, d := range file.Decls {
			fd, ok := d.(*ast.FuncDecl)
			if !ok || fd.Body == nil {
				continue
			}
			// single-assignment locals: ident object -> defining expression
			defs := map[types.Object]ast.Expr{}
			multi := map[types.Object]bool{}
			ast.Inspect(fd.Body, func(n ast.Node) bool {
				as, ok := n.(*ast.AssignStmt)
				if !ok || len(as.Lhs) != len(as.Rhs) {
					return true
				}
				for i, l := range as.Lhs {
					id, ok := l.(*ast.Ident)
					if !ok {
						continue
					}
					obj := info.Defs[id]
					if obj == nil {
						obj = info.Uses[id]
						if obj != nil {
							multi[obj] = true
						}
						continue
					}
					defs[obj] = as.Rhs[i]
				}
				return true
			})
			resolve := func(e ast.Expr) ast.Expr {
				e = ast.Unparen(e)
				if id, ok := e.(*ast.Ident); ok {
					if obj := info.Uses[id]; obj != nil && !multi[obj] {
						if d, ok := defs[obj]; ok {
							return ast.Unparen(d)
						}
					}
				}
				return e
			}
			isCallTo := func(e ast.Expr, target types.Object, arg types.Object) bool {
				call, ok := resolve(e).(*ast.CallExpr)
				if !ok || len(call.Args) != 1 {
					return false
				}
				var fobj types.Object
				switch f := call.Fun.(type) {
				case *ast.Ident:
					fobj = info.Uses[f]
				case *ast.SelectorExpr:
					fobj = info.Uses[f.Sel]
				}
				if fobj != target {
					return false
				}
				aid, ok := ast.Unparen(call.Args[0]).(*ast.Ident)
				return ok && info.Uses[aid] == arg
			}
			ast.Inspect(fd.Body, func(n ast.Node) bool {
				call, ok := n.(*ast.CallExpr)
				if !ok || len(call.Args) != 3 {
					return true
				}
				fid, ok := call.Fun.(*ast.Ident)
				if !ok {
					return true
				}
				v, ok := info.Uses[fid].(*types.Var)
				if !ok {
					return true
				}
				sig, ok := types.Unalias(v.Type()).Underlying().(*types.Signature)
				if !ok || sig.Params().Len() != 3 || !sx.IsErrorType(sig.Params().At(0).Type()) || !sx.IsNamed(sig.Params().At(1).Type(), errbasePath, "Printer") {
					return true
				}
				nB++
				errID, ok := ast.Unparen(call.Args[0]).(*ast.Ident)
				if !ok {
					c.Undecided("errbase."+fd.Name.Name+": special-case printer call", call.Pos(), "first argument is not a plain identifier")
					return true
				}
				errObj := info.Uses[errID]
				var conj []ast.Expr
				var split func(e ast.Expr)
				split = func(e ast.Expr) {
					e = ast.Unparen(e)
					if be, ok := e.(*ast.BinaryExpr); ok && be.Op == token.LAND {
						split(be.X)
						split(be.Y)
						return
					}
					conj = append(conj, resolve(e))
				}
				split(call.Args[2])
				single, multiC := false, false
				for _, cj := range conj {
					be, ok := ast.Unparen(cj).(*ast.BinaryExpr)
					if !ok || be.Op != token.EQL {
						continue
					}
					// X == nil with X = UnwrapOnce(err)
					if id, ok := be.Y.(*ast.Ident); ok && id.Name == "nil" {
						if isCallTo(be.X, unwrapOnce, errObj) {
							single = true
						}
						if isCallTo(be.X, unwrapMulti, errObj) {
							multiC = true // causes == nil
						}
					}
					// len(Y) == 0 with Y = UnwrapMulti(err)
					if lc, ok := ast.Unparen(be.X).(*ast.CallExpr); ok && len(lc.Args) == 1 {
						if lid, ok := lc.Fun.(*ast.Ident); ok && lid.Name == "len" {
							if z, ok := intConst(info, be.Y); ok && z == 0 && isCallTo(lc.Args[0], unwrapMulti, errObj) {
								multiC = true
							}
						}
					}
				}
				construct := "errbase." + fd.Name.Name + ": isLeaf argument of the special-case printer call"
				switch {
				case single && multiC:
					c.Ob(construct, call.Pos(), true, "isLeaf = (UnwrapOnce(err) == nil) && (len(UnwrapMulti(err)) == 0) [+ other conjuncts]")
				case single:
					c.Fail(construct, call.Pos(), "isLeaf is true for multi-cause errors: the conjunct len(UnwrapMulti(err)) == 0 is missing, so fmt.Errorf(\"secret %w … %w\", sentinel, e) is printed entirely as safe")
				default:
					c.Fail(construct, call.Pos(), "isLeaf does not include UnwrapOnce(err) == nil")
				}
				return true
			})
		}
	}
	c.Min("whole-text Safe(err.Error()) sites in special-case printers", nA, 1)
	c.Min("special-case printer call sites", nB, 1)
}
