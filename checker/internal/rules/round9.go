package rules

import (
	"go/token"
	"go/types"
	"strings"

	"golang.org/x/tools/go/ssa"

	"verif/checker/internal/core"
	"verif/checker/internal/load"
	"verif/checker/internal/sx"
)

// ---------------------------------------------------------------------------
// R-SAFE-SINK

var rSafeSink = &Rule{
	Name: "R-SAFE-SINK",
	Doc: "the printer handed to SafeFormatError in redactable mode (errbase.safePrinter) writes into the formatter state through the redact package only: in every method of safePrinter (and the unexported helpers they call) a call that receives the printer's state as a writer is a function of package redact or a method of the state itself. " +
		"redact escapes the marker runes that occur inside the values it prints - safe ones included; a plain fmt.Fprint into the same buffer, which the state then declares redactable, lets a marker rune inside a 'safe' string open or close a redaction span",
	Run: func(c *core.Ctx) {
		p := c.P
		sp, st := p.Named("errbase", "safePrinter"), p.Named("errbase", "state")
		if sp == nil || st == nil {
			c.InternalErr("errbase.safePrinter", "anchor types not found")
			return
		}
		n := 0
		for _, name := range []string{"Print", "Printf"} {
			m := p.Method(sp, name)
			if m == nil || m.Blocks == nil {
				c.InternalErr("errbase.safePrinter."+name, "anchor method not found")
				continue
			}
			reg := regionOf(m)
			reg.each(func(in ssa.Instruction) {
				call, ok := in.(ssa.CallInstruction)
				if !ok {
					return
				}
				com := call.Common()
				// the state (the receiver, converted) passed as an argument
				passes := false
				for _, a := range com.Args {
					v := a
					if mi, isMI := v.(*ssa.MakeInterface); isMI {
						v = mi.X
					}
					if ptr, isPtr := types.Unalias(v.Type()).(*types.Pointer); isPtr && (types.Identical(ptr.Elem(), st) || types.Identical(ptr.Elem(), sp)) {
						passes = true
					}
				}
				if !passes || com.IsInvoke() {
					return
				}
				f := sx.Callee(call)
				if f == nil {
					c.Undecided("errbase.safePrinter."+name+": call that receives the state", call.Pos(), "callee not resolved")
					return
				}
				if f.Signature.Recv() != nil || reg.in[f] {
					return // a method of the state / printer, or a helper of the region (its own calls are judged)
				}
				n++
				pk := load.FnPkg(f)
				isRedact := pk != nil && strings.HasSuffix(pk.Path(), "cockroachdb/redact")
				c.Check(isRedact, "errbase.safePrinter."+name+": "+load.FnName(f)+" writes into the state", call.Pos(), "a function of package redact",
					"the redactable-mode printer writes into the formatter state with "+load.FnName(f)+" instead of a redact function: marker runes inside the printed values (safe ones included) are not escaped, while the buffer is declared redactable - a safe string containing a marker rune yields unbalanced markers")
			})
		}
		c.Min("writes of the redactable-mode printer", n, 2)
	},
}

// ---------------------------------------------------------------------------
// R-FINISH

var rFinish = &Rule{
	Name: "R-FINISH",
	Doc: "how the rendered text reaches the caller's fmt.State: (a) in (*state).finishDisplay every operand handed to fmt.Fprintf together with the format rebuilt from the caller's flags is of type string - a []byte under %v / %+v with a width or precision prints as a list of numbers; " +
		"(b) the function that assembles the %!verb(type) notation of an unsupported verb (the one writing the constant \"%!\") hands the caller's fmt.State only to functions of package io (io.Copy of the final buffer) or of the module: the notation is copied verbatim, as fmt does, never re-formatted with the caller's width and precision",
	Run: func(c *core.Ctx) {
		p := c.P
		st := p.Named("errbase", "state")
		fi := p.Func("errbase", "formatErrorInternal")
		if st == nil || fi == nil {
			c.InternalErr("errbase.formatErrorInternal", "anchors not found")
			return
		}
		fd := p.Method(st, "finishDisplay")
		if fd == nil || fd.Blocks == nil {
			c.InternalErr("errbase.state.finishDisplay", "anchor method not found")
			return
		}
		n := 0
		regionOf(fd).each(func(in ssa.Instruction) {
			call, ok := in.(*ssa.Call)
			if !ok {
				return
			}
			f := sx.Callee(call)
			if f == nil || f.Name() != "Fprintf" || load.FnPkg(f) == nil || load.FnPkg(f).Path() != "fmt" || len(call.Call.Args) != 3 {
				return
			}
			for i, el := range varargs(call.Call.Args[2]) {
				n++
				if el == nil {
					c.Undecided("(*errbase.state).finishDisplay: operand #"+itoa(i)+" of the final fmt.Fprintf", call.Pos(), "operand not resolved")
					continue
				}
				v := el
				if mi, isMI := v.(*ssa.MakeInterface); isMI {
					v = mi.X
				}
				isString := v != nil && types.Identical(types.Unalias(v.Type()), types.Typ[types.String])
				c.Check(isString, "(*errbase.state).finishDisplay: operand #"+itoa(i)+" of the final fmt.Fprintf", call.Pos(), "a string",
					"the rendered text is handed to fmt.Fprintf as "+typeNameOf(v)+", not as a string: %v and %+v with a width or a precision then print something else than the text (a []byte prints as a list of numbers), so they differ from Error()")
			}
		})
		c.Min("final Fprintf operands", n, 1)
		// (b) the function that assembles the %!verb(type) notation (it writes the constant "%!")
		var bad []*ssa.Function
		for _, f := range p.HandFuncs() {
			if f.Pkg != fi.Pkg {
				continue
			}
			sx.EachInstr(f, func(in ssa.Instruction) {
				call, ok := in.(*ssa.Call)
				if !ok || sx.Callee(call) == nil || sx.Callee(call).Name() != "WriteString" {
					return
				}
				for _, a := range call.Call.Args {
					if k, isK := sx.ConstString(a); isK && k == "%!" {
						bad = append(bad, f)
					}
				}
			})
		}
		// ... and the functions that call it (the emission may follow the call)
		isBad := map[*ssa.Function]bool{}
		for _, f := range bad {
			isBad[f] = true
		}
		for _, f := range p.HandFuncs() {
			if f.Pkg != fi.Pkg || isBad[f] {
				continue
			}
			sx.EachInstr(f, func(in ssa.Instruction) {
				if call, ok := in.(*ssa.Call); ok && sx.Callee(call) != nil && isBad[sx.Callee(call)] && !isBad[f] {
					for _, b0 := range bad {
						if sx.Callee(call) == b0 && b0 != fi {
							isBad[f] = true
							bad = append(bad, f)
						}
					}
				}
			})
		}
		fmtState := p.ExtNamed("fmt", "State")
		m := 0
		for _, f := range bad {
			sx.EachInstr(f, func(in ssa.Instruction) {
				call, ok := in.(ssa.CallInstruction)
				if !ok || call.Common().IsInvoke() {
					return
				}
				passes := false
				for _, a := range call.Common().Args {
					t := types.Unalias(a.Type())
					if fmtState != nil && types.Identical(t, fmtState) {
						passes = true
					}
					if ptr, isPtr := t.(*types.Pointer); isPtr && types.Identical(ptr.Elem(), st) {
						passes = true
					}
					if mi, isMI := a.(*ssa.MakeInterface); isMI {
						t2 := types.Unalias(mi.X.Type())
						if fmtState != nil && types.Identical(t2, fmtState) {
							passes = true
						}
						if ptr, isPtr := t2.(*types.Pointer); isPtr && types.Identical(ptr.Elem(), st) {
							passes = true
						}
					}
					if ci, isCI := a.(*ssa.ChangeInterface); isCI && fmtState != nil && types.Identical(types.Unalias(ci.X.Type()), fmtState) {
						passes = true
					}
				}
				if !passes {
					return
				}
				callee := sx.Callee(call)
				if callee == nil {
					return
				}
				m++
				pk := load.FnPkg(callee)
				okCallee := pk != nil && pk.Path() == "io" || p.InModule(callee)
				c.Check(okCallee, load.FnName(f)+": "+load.FnName(callee)+" receives the caller's fmt.State", call.Pos(), "a function of package io (verbatim copy) or of the module",
					"the function that assembles the %!verb(type) notation of an unsupported verb writes into the caller's fmt.State through "+load.FnName(callee)+": the notation is re-formatted with the caller's width and precision instead of being copied as fmt does")
			})
		}
		c.Min("writes of the bad-verb notation into the caller's state", m, 1)
	},
}

func itoa(i int) string { return string(rune('0' + i%10)) }

func typeNameOf(v ssa.Value) string {
	if v == nil {
		return "an unresolved value"
	}
	return load.TypeName(v.Type())
}

// ---------------------------------------------------------------------------
// R-TAGS-STRINGS

var rTagsStrings = &Rule{
	Name: "R-TAGS-STRINGS",
	Doc: "GetContextTags hands out string values only: a layer's buffer is returned unconverted only where a loop has looked at EVERY tag and found a string value - in the predicate that decides about the conversion (contexttags.hasNonStringValue, or wherever the `.(string)` test of a tag's Value() sits in GetContextTags' region), every way around the loop passes through the successful string test of that iteration's value; " +
		"an iteration that is skipped (a nil value, a particular key) leaves a non-string value in a buffer that is returned as it is, while the same buffer comes back with the string form after a network hop",
	Run: func(c *core.Ctx) {
		p := c.P
		fn := p.Func("contexttags", "GetContextTags")
		if fn == nil {
			c.InternalErr("contexttags.GetContextTags", "anchor function not found")
			return
		}
		reg := regionOf(fn)
		n := 0
		for _, f := range reg.funcs {
			loops := naturalLoops(f)
			sx.EachInstr(f, func(in ssa.Instruction) {
				ta, ok := in.(*ssa.TypeAssert)
				if !ok || !ta.CommaOk || !types.Identical(types.Unalias(ta.AssertedType), types.Typ[types.String]) {
					return
				}
				vc, isCall := identity(ta.X).(*ssa.Call)
				if !isCall || (sx.InvokeName(vc) != "Value" && (sx.Callee(vc) == nil || sx.Callee(vc).Name() != "Value")) {
					return
				}
				// the innermost loop around the test
				var loop *natLoop
				for _, l := range loops {
					if l.Body[ta.Block()] && (loop == nil || len(l.Body) < len(loop.Body)) {
						loop = l
					}
				}
				if loop == nil {
					return
				}
				n++
				var okExtract ssa.Value
				for _, r := range *ta.Referrers() {
					if ex, isEx := r.(*ssa.Extract); isEx && ex.Index == 1 {
						okExtract = ex
					}
				}
				construct := load.FnName(f) + ": every tag's value is tested for being a string"
				if okExtract == nil {
					c.Undecided(construct, ta.Pos(), "the ok result of the string test is not used")
					return
				}
				bad := ""
				for _, pred := range loop.Header.Preds {
					if !loop.Body[pred] {
						continue
					}
					// a way around the loop: the iteration's test must have succeeded on it
					held := false
					for _, l := range append(dominatingLits(pred), edgeLits(pred, loop.Header)...) {
						if l.V == okExtract && !l.Neg {
							held = true
						}
					}
					if !held && !ta.Block().Dominates(pred) {
						bad = "an iteration can go on to the next tag without its value having been tested (the test does not lie on that way around the loop)"
					} else if !held {
						// the test dominates the back edge: the failing outcome must have left the loop
						left := true
						for _, r := range *okExtract.Referrers() {
							if ifi, isIf := r.(*ssa.If); isIf {
								fb := ifi.Block().Succs[1]
								if loop.Body[fb] && !returnsConstTrue(fb) {
									left = false
								}
							}
						}
						if !left {
							bad = "a tag whose value is not a string does not end the loop with 'true'"
						}
					}
				}
				c.Check(bad == "", construct, ta.Pos(), "every way around the loop passes the successful test", bad+": a non-string value (nil included) stays in a buffer that GetContextTags returns unconverted, so Value() differs from the string form seen after a network hop")
			})
		}
		c.Min("string tests over the tags", n, 1)
	},
}

var _ = token.NoPos

// ---------------------------------------------------------------------------
// R-ARG-NOT-CAUSE

var rArgNotCause = &Rule{
	Name: "R-ARG-NOT-CAUSE",
	Doc: "an error passed among the format arguments of Newf/Errorf/... becomes the cause only as the %w argument that redact.HelperForErrorf designates: in every function that calls HelperForErrorf, a value stored into the cause field of a wrapper is that call's second result (or the function's own error parameter), " +
		"never an element picked from the collected error arguments - an error formatted with %v stays a hidden, secondary error that Is/As/UnwrapAll and the accessors cannot reach",
	Run: func(c *core.Ctx) {
		p := c.P
		shapes := GetShapes(c)
		n := 0
		for _, fn := range p.HandFuncs() {
			var helper *ssa.Call
			sx.EachInstr(fn, func(in ssa.Instruction) {
				if call, ok := in.(*ssa.Call); ok {
					if f := sx.Callee(call); f != nil && f.Name() == "HelperForErrorf" {
						helper = call
					}
				}
			})
			collects := false
			sx.EachInstr(fn, func(in ssa.Instruction) {
				if ta, ok := in.(*ssa.TypeAssert); ok && ta.CommaOk && sx.IsErrorType(ta.AssertedType) {
					if _, isArgs := elemOfVariadic(ta.X, fn); isArgs {
						collects = true
					}
				}
			})
			if helper == nil && !collects {
				continue
			}
			sx.EachInstr(fn, func(in ssa.Instruction) {
				st, ok := in.(*ssa.Store)
				if !ok {
					return
				}
				fa, ok := st.Addr.(*ssa.FieldAddr)
				if !ok {
					return
				}
				named := sx.NamedOf(sx.Deref(fa.X.Type()))
				if named == nil {
					return
				}
				sh, known := shapes[named]
				if !known || sh.CauseField == nil || sx.FieldOf(fa) != sh.CauseField {
					return
				}
				n++
				bad := ""
				var visit func(v ssa.Value, d int)
				seen := map[ssa.Value]bool{}
				visit = func(v ssa.Value, d int) {
					if seen[v] || d > 8 {
						return
					}
					seen[v] = true
					switch x := v.(type) {
					case *ssa.Phi:
						for _, e := range x.Edges {
							visit(e, d+1)
						}
					case *ssa.Extract:
						if ta, isTA := x.Tuple.(*ssa.TypeAssert); isTA {
							if _, isArgs := elemOfVariadic(ta.X, fn); isArgs {
								bad = "an error picked from the format arguments"
							}
						}
					case *ssa.UnOp:
						if ia, isIA := x.X.(*ssa.IndexAddr); isIA && x.Op == token.MUL {
							if sl, isSl := types.Unalias(ia.X.Type()).Underlying().(*types.Slice); isSl && sx.IsErrorType(sl.Elem()) {
								if _, isParam := ia.X.(*ssa.Parameter); !isParam {
									bad = "an element of the collected error arguments (" + describeVal(ia.X) + ")"
								}
							}
						}
					case *ssa.ChangeInterface:
						visit(x.X, d+1)
					}
				}
				visit(st.Val, 0)
				c.Check(bad == "", load.FnName(fn)+": cause of the new "+load.TypeName(named), st.Pos(), "the %w argument designated by redact.HelperForErrorf (or the function's own error parameter)",
					"the cause of the result is "+bad+", not the %w argument that redact.HelperForErrorf designates: an error that the caller formatted with %v (a hidden, secondary error) becomes reachable through Unwrap/Is/As and the accessors")
			})
		}
		c.Min("cause stores next to collected error arguments", n, 1)
	},
}

// ---------------------------------------------------------------------------
// R-PKG-DOMAIN

var rPkgDomain = &Rule{
	Name: "R-PKG-DOMAIN",
	Doc: "the package domain is a function of the caller's source directory only: every value returned by domains.PackageDomainAtDepth depends on the file result of its runtime.Caller call and not on the pc result - " +
		"a qualified function name has another shape for methods and function literals than for plain functions, so a domain derived from it differs between callers of one package",
	Run: func(c *core.Ctx) {
		p := c.P
		fn := p.Func("domains", "PackageDomainAtDepth")
		if fn == nil {
			c.InternalErr("domains.PackageDomainAtDepth", "anchor function not found")
			return
		}
		reg := regionOf(fn)
		var caller *ssa.Call
		reg.each(func(in ssa.Instruction) {
			if call, ok := in.(*ssa.Call); ok {
				if f := sx.Callee(call); f != nil && f.Name() == "Caller" && load.FnPkg(f) != nil && load.FnPkg(f).Path() == "runtime" {
					caller = call
				}
			}
		})
		if caller == nil {
			c.Undecided("domains.PackageDomainAtDepth", fn.Pos(), "no runtime.Caller call in the function or its helpers")
			return
		}
		var file, pc ssa.Value
		for _, r := range *caller.Referrers() {
			if ex, ok := r.(*ssa.Extract); ok {
				switch ex.Index {
				case 0:
					pc = ex
				case 1:
					file = ex
				}
			}
		}
		n := 0
		for _, ret := range sx.Returns(caller.Parent()) {
			for _, res := range ret.Results {
				if !dependsOnValue(res, ssa.Value(caller), map[ssa.Value]bool{}, 0) {
					continue
				}
				n++
				onFile := file != nil && dependsOnValue(res, file, map[ssa.Value]bool{}, 0)
				onPC := pc != nil && dependsOnValue(res, pc, map[ssa.Value]bool{}, 0)
				c.Check(onFile && !onPC, "domains.PackageDomainAtDepth: what the domain is computed from", ret.Pos(), "the caller's file (its directory), not its pc",
					"the package domain is computed from the caller's program counter / function name (or not from its file): the qualified name of a method or a function literal has another shape than that of a plain function, so callers of one package get different domains - PackageDomain, domains.New and domains.Handled no longer denote the caller's package")
			}
		}
		c.Min("returns computed from runtime.Caller", n, 1)
	},
}

// ---------------------------------------------------------------------------
// R-PREFIX-CUT

var rPrefixCut = &Rule{
	Name: "R-PREFIX-CUT",
	Doc: "the prefix a wrapper encoder sends is never found by searching its own text from the front: in every registered encoder (and its helpers) the wire message does not depend on strings.Index*/Cut/Split*/Fields applied to the error's Error() text. " +
		"A wrapper's own message may contain the separator itself (\"store 3: replica 7\"); only cutting the cause's text off the END (errbase's extractPrefix, strings.TrimSuffix) yields the prefix, and the decoder rebuilds 'prefix: cause' from what it receives",
	Run: func(c *core.Ctx) {
		n := 0
		seenEnc := map[*ssa.Function]bool{}
		for _, cp := range codecPairs(c) {
			enc := cp.Enc
			if enc == nil || enc.Blocks == nil || seenEnc[enc] {
				continue
			}
			seenEnc[enc] = true
			n++
			reg := regionOf(enc)
			var searches []*ssa.Call
			reg.each(func(in ssa.Instruction) {
				call, ok := in.(*ssa.Call)
				if !ok {
					return
				}
				f := sx.Callee(call)
				if f == nil || load.FnPkg(f) == nil || load.FnPkg(f).Path() != "strings" {
					return
				}
				switch f.Name() {
				case "Index", "IndexByte", "IndexRune", "IndexAny", "Cut", "Split", "SplitN", "SplitAfter", "SplitAfterN", "Fields":
				default:
					return
				}
				// applied to an Error() text
				onText := false
				for _, a := range call.Call.Args {
					if dependsOnCall(a, "Error", map[ssa.Value]bool{}, 0) {
						onText = true
					}
				}
				if onText {
					searches = append(searches, call)
				}
			})
			bad := ""
			for _, r := range sx.Returns(enc) {
				if len(r.Results) == 0 {
					continue
				}
				for _, sc := range searches {
					if dependsOnValue(reg.resolve(r.Results[0]), sc, map[ssa.Value]bool{}, 0) || dependsOnValue(r.Results[0], sc, map[ssa.Value]bool{}, 0) {
						bad = load.FnName(sx.Callee(sc))
					}
				}
			}
			c.Check(bad == "", load.FnName(enc)+": how the wire message is cut out of the error's text", enc.Pos(), "not by a front search of the Error() text",
				"the encoder finds the message it sends by "+bad+" over the error's own Error() text: a message that contains the separator itself is cut short, so the decoder rebuilds another text than the original (and an unknowing receiver shows another text)")
		}
		c.Min("registered encoders", n, 20)
	},
}

// ---------------------------------------------------------------------------
// R-ISANY-NIL

var rIsAnyNil = &Rule{
	Name: "R-ISANY-NIL",
	Doc: "IsAny answers 'some reference is nil' for a nil ERROR at the top level only: every recursive call of markers.IsAny (in IsAny and its helpers) on a branch of a multi-cause error is made under the test that the branch is non-nil. " +
		"A foreign multi-cause error may list a nil branch; recursing into it runs the nil-error shortcut, so IsAny(e, nil, r) is true while Is(e, nil) and Is(e, r) are both false - IsAny is no longer the disjunction of Is",
	Run: func(c *core.Ctx) {
		p := c.P
		fn := p.Func("markers", "IsAny")
		if fn == nil {
			c.InternalErr("markers.IsAny", "anchor function not found")
			return
		}
		reg := regionOf(fn)
		n := 0
		reg.each(func(in ssa.Instruction) {
			call, ok := in.(*ssa.Call)
			if !ok || sx.Callee(call) != fn || len(call.Call.Args) == 0 {
				return
			}
			arg := identity(call.Call.Args[0])
			// an element of a list of branches
			ld, isLd := arg.(*ssa.UnOp)
			if !isLd || ld.Op != token.MUL {
				return
			}
			if _, isIA := ld.X.(*ssa.IndexAddr); !isIA {
				return
			}
			n++
			guarded := false
			for _, l := range reg.lits(call.Block()) {
				bin, isBin := l.V.(*ssa.BinOp)
				if !isBin {
					continue
				}
				if !((bin.X == ssa.Value(ld) && sx.IsNil(bin.Y)) || (bin.Y == ssa.Value(ld) && sx.IsNil(bin.X))) {
					continue
				}
				if (bin.Op == token.NEQ && !l.Neg) || (bin.Op == token.EQL && l.Neg) {
					guarded = true
				}
			}
			c.Check(guarded, "markers.IsAny: recursion into a branch", call.Pos(), "only for a non-nil branch",
				"IsAny recurses into every branch a multi-cause error lists, a nil one included: the recursive call then answers the question for a nil error ('is some reference nil?'), so IsAny(e, nil, r) is true for an error e whose Unwrap() []error contains a nil, while Is(e, nil) and Is(e, r) are false")
		})
		c.Min("recursive calls of IsAny on branches", n, 1)
	},
}

// ---------------------------------------------------------------------------
// R-REGISTRY-CLOSURE

var rRegistryClosure = &Rule{
	Name: "R-REGISTRY-CLOSURE",
	Doc: "an adapter closure put into a codec registry never wraps a nil function: in errbase's Register* functions, a function literal that calls a captured function-typed parameter is created only where that parameter is known non-nil. " +
		"Register*(key, nil) is the documented way to unregister; an adapter around the nil function is itself non-nil, stays registered and panics at the next EncodeError of that type",
	Run: func(c *core.Ctx) {
		p := c.P
		n := 0
		for _, fn := range p.HandFuncs() {
			if fn.Pkg == nil || !strings.HasSuffix(fn.Pkg.Pkg.Path(), "/errbase") || !strings.HasPrefix(fn.Name(), "Register") {
				continue
			}
			regionOf(fn).each(func(in ssa.Instruction) {
				mc, ok := in.(*ssa.MakeClosure)
				if !ok {
					return
				}
				for _, b := range mc.Bindings {
					// the captured cell of a function-typed parameter
					var prm *ssa.Parameter
					switch x := b.(type) {
					case *ssa.Parameter:
						prm = x
					case *ssa.Alloc:
						for _, r := range *x.Referrers() {
							if st, isSt := r.(*ssa.Store); isSt && st.Addr == ssa.Value(x) {
								if q, isP := st.Val.(*ssa.Parameter); isP {
									prm = q
								}
							}
						}
					}
					if prm == nil {
						continue
					}
					if _, isFn := types.Unalias(prm.Type()).Underlying().(*types.Signature); !isFn {
						continue
					}
					n++
					guarded := false
					for _, l := range dominatingLits(mc.Block()) {
						bin, isBin := l.V.(*ssa.BinOp)
						if !isBin {
							continue
						}
						operand := func(v ssa.Value) bool {
							if v == ssa.Value(prm) {
								return true
							}
							if ld, isLd := v.(*ssa.UnOp); isLd && ld.Op == token.MUL && ld.X == b {
								return true
							}
							return false
						}
						if !((operand(bin.X) && sx.IsNil(bin.Y)) || (operand(bin.Y) && sx.IsNil(bin.X))) {
							continue
						}
						if (bin.Op == token.NEQ && !l.Neg) || (bin.Op == token.EQL && l.Neg) {
							guarded = true
						}
					}
					c.Check(guarded, load.FnName(fn)+": adapter around "+prm.Name(), mc.Pos(), "created only for a non-nil function",
						"the adapter closure that "+load.FnName(fn)+" registers calls its parameter "+prm.Name()+" without that parameter having been tested: "+load.FnName(fn)+"(key, nil) - the documented way to unregister - leaves a non-nil adapter in the registry, and the next encoding of an error of that type panics on the nil function")
				}
			})
		}
		c.Min("adapter closures in the Register* functions", n, 1)
	},
}
