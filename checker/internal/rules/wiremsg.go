package rules

import (
	"fmt"
	"go/token"
	"go/types"
	"sort"
	"strings"

	"golang.org/x/tools/go/ssa"

	"verif/checker/internal/core"
	"verif/checker/internal/load"
	"verif/checker/internal/origin"
	"verif/checker/internal/sx"
)

// ---------------------------------------------------------------------------
// R-WIRE-MSG

var rWireMsg = &Rule{
	Name: "R-WIRE-MSG",
	Doc: "the wire 'message' is what a receiver that does NOT know the type needs to rebuild Error() (opaqueLeaf.Error() = message; opaqueWrapper.Error() = message if FullMessage, cause text if empty, else message + \": \" + cause): " +
		"L1 a leaf / multi-cause encoder sends its argument's Error(); W a wrapper encoder agrees with the type's Error() shape - Transparent: \"\" as prefix; 'prefix: cause': the prefix field alone as prefix (or the full text as FullMessage); own text: the full text as FullMessage",
	Run: runWireMsg,
}

// isErrorOfSelf: v is err.Error() (or self.Error()) of the encoder's own argument.
func isErrorOfSelf(enc *ssa.Function, v ssa.Value) bool {
	call, ok := v.(*ssa.Call)
	if !ok {
		return false
	}
	var recv ssa.Value
	if call.Call.IsInvoke() && call.Call.Method.Name() == "Error" {
		recv = call.Call.Value
	} else if f := sx.Callee(call); f != nil && f.Name() == "Error" && f.Signature.Recv() != nil && len(call.Call.Args) == 1 {
		recv = call.Call.Args[0]
	} else {
		return false
	}
	for i := 0; i < 4; i++ {
		switch x := recv.(type) {
		case *ssa.TypeAssert:
			recv = x.X
			continue
		case *ssa.Extract:
			if ta, ok := x.Tuple.(*ssa.TypeAssert); ok {
				recv = ta.X
				continue
			}
		case *ssa.ChangeInterface:
			recv = x.X
			continue
		case *ssa.MakeInterface:
			recv = x.X
			continue
		}
		break
	}
	return len(enc.Params) >= 2 && recv == ssa.Value(enc.Params[1])
}

func runWireMsg(c *core.Ctx) {
	e := originEngine(c)
	shapes := GetShapes(c)
	n := 0
	for _, cp := range codecPairs(c) {
		if cp.Enc == nil || cp.Enc.Blocks == nil {
			continue
		}
		n++
		name := load.FnName(cp.Enc)
		pos := cp.Enc.Pos()
		rets := sx.Returns(cp.Enc)
		isLeaf := cp.EncKind == "leaf-enc" || cp.EncKind == "multi-enc"
		// message type for wrappers
		full := false
		if cp.EncKind == "wrap-enc-mt" {
			for _, r := range rets {
				if len(r.Results) == 4 {
					if k, ok := sx.ConstInt(r.Results[3]); ok && k == 1 {
						full = true
					} else if cv, ok := r.Results[3].(*ssa.Const); ok && cv.Value != nil && cv.Value.String() == "1" {
						full = true
					} else if g := identity(r.Results[3]); g != nil {
						if s := fmt.Sprint(g); strings.Contains(s, "1:") {
							full = true
						}
					}
				}
			}
		}
		for _, r := range rets {
			msg := r.Results[0]
			construct := fmt.Sprintf("%s: wire message for %s", name, cp.Name)
			if isLeaf {
				ownText := false
				if cp.ET != nil {
					// the type's Error() is its one text field with the markers stripped, and so is the message
					if sh := shapes[cp.ET.Named]; sh.ErrShape == ShOwn && sh.ErrField != nil {
						d2 := map[string]bool{}
						for _, o := range e.TraceRecv(msg, nil).List() {
							collectRecv(o, d2, 0)
						}
						if len(d2) == 1 && d2[sh.ErrField.Name()] && isRedactableStringType(sh.ErrField.Type()) && strippedFieldText(msg) {
							ownText = true
						}
					}
				}
				if isErrorOfSelf(cp.Enc, msg) || ownText {
					c.Ob(construct, pos, true, "L1: message = err.Error()")
				} else {
					c.Fail(construct, pos, "L1: a leaf encoder's wire message is not its argument's Error() text ("+describeMsg(e, msg)+"): a receiver that does not know the type shows a different text")
				}
				continue
			}
			if cp.ET == nil {
				checkForeignWrapperMsg(c, cp, msg, construct, pos)
				continue
			}
			sh := shapes[cp.ET.Named]
			emptyConst := false
			if s, ok := sx.ConstString(msg); ok && s == "" {
				emptyConst = true
			}
			deps := map[string]bool{}
			for _, o := range e.TraceRecv(msg, nil).List() {
				collectRecv(o, deps, 0)
			}
			selfErr := isErrorOfSelf(cp.Enc, msg)
			var bad string
			switch sh.ErrShape {
			case ShTransparent:
				if !emptyConst || full {
					bad = "the type adds nothing to its cause's text, so the wire message must be \"\" with message type Prefix"
				}
			case ShPrefixCause:
				switch {
				case selfErr && !full:
					bad = "the full Error() text is sent as a *prefix*: an unknowing receiver shows 'prefix: cause: cause'"
				case selfErr && full:
				case !full && len(deps) == 1 && deps[sh.ErrField.Name()]:
					if isRedactableStringType(sh.ErrField.Type()) && !strippedFieldText(msg) {
						bad = "the prefix field is a redactable string and Error() shows it with its markers stripped, but the wire message is not the StripMarkers() form: an unknowing receiver shows redaction markers in the text"
					}
				default:
					bad = "the wire message must be the prefix field alone (as Prefix) or the full text (as FullMessage)"
				}
			case ShOwn:
				if !full {
					bad = "the type's text replaces its cause's text, so the message must be flagged FullMessage: as a prefix an unknowing receiver shows 'text: cause'"
				} else if !selfErr && !(len(deps) == 1 && deps[sh.ErrField.Name()]) {
					bad = "the wire message is not the type's own text"
				} else if !selfErr && isRedactableStringType(sh.ErrField.Type()) && !strippedFieldText(msg) {
					bad = "the text field is a redactable string and Error() shows it with its markers stripped, but the wire message is not the StripMarkers() form: an unknowing receiver shows redaction markers in the text"
				}
			default:
				c.Note("R-WIRE-MSG: %s has Error() shape %s; not compared", cp.Name, sh.ErrShape)
				continue
			}
			if bad != "" {
				c.Fail(construct, pos, "W: "+bad)
			} else {
				c.Ob(construct, pos, true, fmt.Sprintf("W: Error() shape %s, message %s, FullMessage=%v", sh.ErrShape, describeMsg(e, msg), full))
			}
		}
	}
	c.Min("registered encoders", n, 20)
}

// strippedFieldText: v is x.StripMarkers() (the plain text of a redactable string), possibly through phis.
func strippedFieldText(v ssa.Value) bool {
	switch x := v.(type) {
	case *ssa.Call:
		f := sx.Callee(x)
		return f != nil && f.Name() == "StripMarkers"
	case *ssa.Phi:
		for _, e := range x.Edges {
			if !strippedFieldText(e) {
				return false
			}
		}
		return len(x.Edges) > 0
	case *ssa.Extract:
		// a result of an unexported helper of the package: what the helper returns at that position
		if call, ok := x.Tuple.(*ssa.Call); ok {
			if h := sx.Callee(call); h != nil && h.Blocks != nil && !sx.Exported(h) && call.Parent() != nil && h.Pkg == call.Parent().Pkg {
				rets := sx.Returns(h)
				for _, hr := range rets {
					if x.Index >= len(hr.Results) || !strippedFieldText(hr.Results[x.Index]) {
						return false
					}
				}
				return len(rets) > 0
			}
		}
	}
	return false
}

func describeMsg(e *origin.Engine, v ssa.Value) string {
	if s, ok := sx.ConstString(v); ok {
		return fmt.Sprintf("%q", s)
	}
	deps := map[string]bool{}
	for _, o := range e.TraceRecv(v, nil).List() {
		collectRecv(o, deps, 0)
	}
	if len(deps) > 0 {
		return "computed from field(s) " + setStr(deps)
	}
	return describeVal(v)
}

// ---------------------------------------------------------------------------
// R-ERRNO-TABLE

var rErrnoTable = &Rule{
	Name: "R-ERRNO-TABLE",
	Doc:  "the errno predicates travel in matching pairs: encodeErrno fills ErrnoPayload.IsX from e.Is(os.ErrX) / e.Timeout() / e.Temporary(), and OpaqueErrno.Is / Timeout / Temporary answer os.ErrX from the same IsX member (pairing extracted on both sides and compared)",
	Run: func(c *core.Ctx) {
		p := c.P
		enc := p.Func("errbase", "encodeErrno")
		oe := p.Named("errbase", "OpaqueErrno")
		if enc == nil || oe == nil {
			c.InternalErr("errbase.encodeErrno/OpaqueErrno", "anchors not found (platform without errno adapters?)")
			return
		}
		// writer: member -> source
		wr := map[string]string{}
		ereg := regionOf(enc)
		ereg.each(func(in ssa.Instruction) {
			st, ok := in.(*ssa.Store)
			if !ok {
				return
			}
			fa, ok := st.Addr.(*ssa.FieldAddr)
			if !ok || !strings.HasPrefix(sx.FieldOf(fa).Name(), "Is") {
				return
			}
			call, ok := st.Val.(*ssa.Call)
			if !ok {
				return
			}
			f := sx.Callee(call)
			if f == nil {
				return
			}
			src := f.Name()
			if f.Name() == "Is" && len(call.Call.Args) == 2 {
				if ld, ok := identity(call.Call.Args[1]).(*ssa.UnOp); ok {
					if g, ok := ld.X.(*ssa.Global); ok {
						src = "Is(" + g.Name() + ")"
					}
				}
			}
			wr[sx.FieldOf(fa).Name()] = src
		})
		// reader: OpaqueErrno.Is pairs, Timeout, Temporary
		rd := map[string]string{}
		if is := p.Method(oe, "Is"); is != nil {
			sx.EachInstr(is, func(in ssa.Instruction) {
				bo, ok := in.(*ssa.BinOp)
				if !ok || bo.Op != token.EQL {
					return
				}
				var g *ssa.Global
				for _, op := range []ssa.Value{bo.X, bo.Y} {
					if ld, ok := identity(op).(*ssa.UnOp); ok {
						if gg, ok := ld.X.(*ssa.Global); ok {
							g = gg
						}
					}
				}
				if g == nil {
					return
				}
				// the member consulted when the comparison holds
				for _, r := range *bo.Referrers() {
					ifi, ok := r.(*ssa.If)
					if !ok {
						continue
					}
					tb := ifi.Block().Succs[0]
					for _, in2 := range tb.Instrs {
						if fa, ok := in2.(*ssa.FieldAddr); ok && strings.HasPrefix(sx.FieldOf(fa).Name(), "Is") {
							rd[sx.FieldOf(fa).Name()] = "Is(" + g.Name() + ")"
						}
					}
				}
			})
		}
		for _, m := range []string{"Timeout", "Temporary"} {
			if fn := p.Method(oe, m); fn != nil {
				sx.EachInstr(fn, func(in ssa.Instruction) {
					if fa, ok := in.(*ssa.FieldAddr); ok && strings.HasPrefix(sx.FieldOf(fa).Name(), "Is") {
						rd[sx.FieldOf(fa).Name()] = m
					}
				})
			}
		}
		var ks []string
		for k := range wr {
			ks = append(ks, k)
		}
		for k := range rd {
			if _, ok := wr[k]; !ok {
				ks = append(ks, k)
			}
		}
		sort.Strings(ks)
		for _, k := range ks {
			c.Check(wr[k] != "" && wr[k] == rd[k], "ErrnoPayload."+k, enc.Pos(), "written from and read as "+wr[k],
				fmt.Sprintf("encodeErrno fills %s from %q but OpaqueErrno answers %q from it: the OS predicate changes in transit", k, wr[k], rd[k]))
		}
		c.Min("errno predicate members", len(ks), 5)
		// the native/opaque decision: a native syscall.Errno is rebuilt only when the sender's whole platform
		// string equals the one this build writes (errno tables differ per OS *and* per CPU, e.g. linux/mips)
		dec := p.Func("errbase", "decodeErrno")
		if dec == nil {
			c.InternalErr("errbase.decodeErrno", "anchor not found")
			return
		}
		var written string
		ereg.each(func(in ssa.Instruction) {
			if st, ok := in.(*ssa.Store); ok {
				if fa, ok := st.Addr.(*ssa.FieldAddr); ok && sx.FieldOf(fa).Name() == "Arch" {
					written, _ = sx.ConstString(st.Val)
				}
			}
		})
		nNative := 0
		for _, ret := range sx.Returns(dec) {
			var visit func(v ssa.Value, lits []lit, d int)
			visit = func(v ssa.Value, lits []lit, d int) {
				if d > 4 {
					return
				}
				switch x := v.(type) {
				case *ssa.Phi:
					for i, e := range x.Edges {
						visit(e, edgeLits(x.Block().Preds[i], x.Block()), d+1)
					}
				case *ssa.MakeInterface:
					if !sx.IsNamed(x.X.Type(), "syscall", "Errno") {
						return
					}
					nNative++
					ok := false
					for _, l := range lits {
						bin, isBin := l.V.(*ssa.BinOp)
						if !isBin || !((bin.Op == token.NEQ && l.Neg) || (bin.Op == token.EQL && !l.Neg)) {
							continue
						}
						for _, pair := range [][2]ssa.Value{{bin.X, bin.Y}, {bin.Y, bin.X}} {
							ld, isLd := pair[0].(*ssa.UnOp)
							if !isLd {
								continue
							}
							fa, isFA := ld.X.(*ssa.FieldAddr)
							if !isFA || sx.FieldOf(fa).Name() != "Arch" {
								continue
							}
							if s, isC := sx.ConstString(pair[1]); isC && s == written && written != "" {
								ok = true
							}
						}
					}
					c.Check(ok, "errbase.decodeErrno: native errno rebuilt", ret.Pos(), "only when the sender's Arch member equals this build's platform string ("+written+")",
						"a native syscall.Errno is rebuilt from the sender's number without establishing that the sender's whole platform string (OS and CPU) equals this build's: errno numbering differs between platforms, the predicates (timeout, not-exist, …) recorded by the sender are discarded and recomputed from the wrong table")
				}
			}
			visit(ret.Results[0], dominatingLits(ret.Block()), 0)
		}
		c.Check(nNative >= 1 && written != "", "errbase.decodeErrno: native branch", dec.Pos(), "exists, and the encoder writes a constant platform string", "the decoder has no native branch or the encoder's Arch is not a constant")
	},
}

// ---------------------------------------------------------------------------
// R-STACK-SLOT

var rStackSlot = &Rule{
	Name: "R-STACK-SLOT",
	Doc:  "the type keys whose first safe detail is re-parsed as a printed stack are the same set in GetReportableStackTrace and in GetOneLineSource, and equal the set of key variables initialised from GetTypeKey in package withstack (sibling cross-check)",
	Run: func(c *core.Ctx) {
		p := c.P
		a, b := p.Func("withstack", "GetReportableStackTrace"), p.Func("withstack", "GetOneLineSource")
		if a == nil || b == nil {
			c.InternalErr("withstack.GetReportableStackTrace/GetOneLineSource", "anchor functions not found")
			return
		}
		var keysOf func(fn *ssa.Function) map[string]bool
		depthKO := 0
		keysOf = func(fn *ssa.Function) map[string]bool {
			out := map[string]bool{}
			// the key test may live in a helper of the package that receives the error
			if depthKO < 2 {
				sx.EachInstr(fn, func(in ssa.Instruction) {
					call, ok := in.(*ssa.Call)
					if !ok {
						return
					}
					f := sx.Callee(call)
					if f == nil || f.Blocks == nil || load.FnPkg(f) == nil || load.FnPkg(f) != load.FnPkg(fn) {
						return
					}
					for _, a := range call.Call.Args {
						if len(fn.Params) > 0 && a == ssa.Value(fn.Params[0]) {
							depthKO++
							for k := range keysOf(f) {
								out[k] = true
							}
							depthKO--
						}
					}
				})
			}
			sx.EachInstr(fn, func(in ssa.Instruction) {
				bo, ok := in.(*ssa.BinOp)
				if !ok || bo.Op != token.EQL {
					return
				}
				for _, op := range []ssa.Value{bo.X, bo.Y} {
					if ld, ok := op.(*ssa.UnOp); ok {
						if g, ok := ld.X.(*ssa.Global); ok && sx.IsNamed(g.Type().(*types.Pointer).Elem(), errbasePath, "TypeKey") {
							out[g.Name()] = true
						}
					}
				}
			})
			return out
		}
		ka, kb := keysOf(a), keysOf(b)
		// key variables of the package
		decl := map[string]bool{}
		if sp := p.SSAPkg("withstack"); sp != nil {
			for _, m := range sp.Members {
				if g, ok := m.(*ssa.Global); ok && sx.IsNamed(g.Type().(*types.Pointer).Elem(), errbasePath, "TypeKey") {
					decl[g.Name()] = true
				}
			}
		}
		c.Check(setStr(ka) == setStr(kb), "withstack: stack-carrying type keys in GetReportableStackTrace vs GetOneLineSource", a.Pos(), setStr(ka),
			"the two functions re-parse printed stacks for different sets of type keys: "+setStr(ka)+" vs "+setStr(kb)+" - a decoded layer of the missing type loses its stack in one of them")
		c.Check(setStr(ka) == setStr(decl), "withstack: stack-carrying type keys vs declared key variables", a.Pos(), setStr(decl),
			"the set of keys handled "+setStr(ka)+" differs from the declared stack type keys "+setStr(decl))
		c.Min("stack-carrying type keys", len(decl), 3)
	},
}

// ---------------------------------------------------------------------------
// foreign wrappers (os.PathError, os.LinkError, os.SyscallError, ...)

// textAtom is one operand of a string concatenation: a constant, a field of the receiver, or the text of the
// error held in a field of the receiver.
type textAtom struct {
	Const   string
	Field   string // receiver field read
	ErrText string // receiver field whose Error() is called
	Other   string
}

func (a textAtom) String() string {
	switch {
	case a.Field != "":
		return "." + a.Field
	case a.ErrText != "":
		return "." + a.ErrText + ".Error()"
	case a.Other != "":
		return "?" + a.Other
	}
	return fmt.Sprintf("%q", a.Const)
}

// flattenConcat flattens a tree of string + into atoms relative to the receiver value recv.
func flattenConcat(v ssa.Value, recv ssa.Value, out *[]textAtom, depth int) {
	if depth > 12 {
		*out = append(*out, textAtom{Other: "deep"})
		return
	}
	switch x := v.(type) {
	case *ssa.BinOp:
		if x.Op == token.ADD {
			flattenConcat(x.X, recv, out, depth+1)
			flattenConcat(x.Y, recv, out, depth+1)
			return
		}
	case *ssa.Const:
		if s, ok := sx.ConstString(x); ok {
			// merge adjacent constants
			if n := len(*out); n > 0 && (*out)[n-1].Field == "" && (*out)[n-1].ErrText == "" && (*out)[n-1].Other == "" {
				(*out)[n-1].Const += s
				return
			}
			*out = append(*out, textAtom{Const: s})
			return
		}
	case *ssa.UnOp:
		if x.Op == token.MUL {
			if fa, ok := x.X.(*ssa.FieldAddr); ok && fa.X == recv {
				*out = append(*out, textAtom{Field: fieldNameOf(fa)})
				return
			}
		}
	case *ssa.Call:
		if x.Call.IsInvoke() && x.Call.Method.Name() == "Error" {
			if ld, ok := x.Call.Value.(*ssa.UnOp); ok && ld.Op == token.MUL {
				if fa, ok := ld.X.(*ssa.FieldAddr); ok && fa.X == recv {
					*out = append(*out, textAtom{ErrText: fieldNameOf(fa)})
					return
				}
			}
		}
	}
	*out = append(*out, textAtom{Other: fmt.Sprintf("%T", v)})
}

func fieldNameOf(fa *ssa.FieldAddr) string {
	if ptr, ok := types.Unalias(fa.X.Type()).Underlying().(*types.Pointer); ok {
		if st, ok := ptr.Elem().Underlying().(*types.Struct); ok && fa.Field < st.NumFields() {
			return st.Field(fa.Field).Name()
		}
	}
	return fmt.Sprintf("#%d", fa.Field)
}

func atomsString(as []textAtom) string {
	var s []string
	for _, a := range as {
		s = append(s, a.String())
	}
	return strings.Join(s, " + ")
}

// checkForeignWrapperMsg: the key type is a wrapper defined outside the module. Its Error() method (standard
// library / dependency source, loaded with the program) must have the shape  P + ": " + <causeField>.Error()
// where P is a concatenation of constants and receiver fields, and the encoder's wire message must be exactly P
// over the same fields in the same order: an unknowing receiver rebuilds the text as message + ": " + cause.
func checkForeignWrapperMsg(c *core.Ctx, cp *codecPair, msg ssa.Value, construct string, pos token.Pos) {
	p := c.P
	key := cp.Key
	named := sx.NamedOf(key)
	if named == nil {
		c.Undecided(construct, pos, "key type of a foreign wrapper is not a named type")
		return
	}
	errFn := p.Method(named, "Error")
	if errFn == nil || errFn.Blocks == nil || len(errFn.Params) == 0 {
		c.Note("R-WIRE-MSG: %s encodes the foreign wrapper %s whose Error() has no source in the program (listed, not decided)", load.FnName(cp.Enc), cp.Name)
		return
	}
	rets := sx.Returns(errFn)
	if len(rets) != 1 {
		c.Note("R-WIRE-MSG: Error() of the foreign wrapper %s is not a single concatenation (listed, not decided)", cp.Name)
		return
	}
	var want []textAtom
	flattenConcat(rets[0].Results[0], errFn.Params[0], &want, 0)
	n := len(want)
	okShape := n >= 2 && want[n-1].ErrText != "" && want[n-2].Const != "" && strings.HasSuffix(want[n-2].Const, ": ")
	for _, a := range want {
		if a.Other != "" {
			okShape = false
		}
	}
	if !okShape {
		c.Note("R-WIRE-MSG: Error() of the foreign wrapper %s is not of the form P + \": \" + cause.Error() (%s) (listed, not decided)", cp.Name, atomsString(want))
		return
	}
	prefix := append([]textAtom{}, want[:n-1]...)
	prefix[len(prefix)-1].Const = strings.TrimSuffix(prefix[len(prefix)-1].Const, ": ")
	if prefix[len(prefix)-1].Const == "" {
		prefix = prefix[:len(prefix)-1]
	}
	// the encoder's receiver: the (asserted) error argument
	var recv ssa.Value
	sx.EachInstr(cp.Enc, func(in ssa.Instruction) {
		if ta, ok := in.(*ssa.TypeAssert); ok && len(cp.Enc.Params) >= 2 && ta.X == ssa.Value(cp.Enc.Params[1]) && recv == nil {
			recv = ta
		}
	})
	var got []textAtom
	flattenConcat(msg, recv, &got, 0)
	c.Check(atomsString(got) == atomsString(prefix), construct, pos, "W3: message = "+atomsString(prefix)+" (the prefix part of "+load.FnName(errFn)+", read from its source)",
		"the wire message ("+atomsString(got)+") is not the prefix part of the type's own Error() ("+atomsString(prefix)+"): a receiver that does not know the type shows a different text")
}
