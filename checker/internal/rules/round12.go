package rules

import (
	"go/token"
	"go/types"

	"golang.org/x/tools/go/ssa"

	"verif/checker/internal/core"
	"verif/checker/internal/load"
	"verif/checker/internal/sx"
)

// ---------------------------------------------------------------------------
// R-HIDDEN-DETAILS (round 12, found by an own mutation probe: a SafeDetails() walk that starts at
// UnwrapOnce(e.secondaryError) passes the pinned suite)

var rHiddenDetails = &Rule{
	Name: "R-HIDDEN-DETAILS",
	Doc: "a hidden error contributes the safe details of ALL its layers: in the SafeDetails() method of every module error type with a hidden error field (barrierErr.maskedErr, withSecondaryError.secondaryError) the layer walk starts at the hidden error ITSELF " +
		"(the loop variable's value on entry is the load of that field), steps with errbase.UnwrapOnce of the loop variable, leaves only when the variable is nil, and asks errbase.GetSafeDetails for the loop variable on every iteration - or the method hands the field to errbase.GetAllSafeDetails. " +
		"A walk that starts one layer down, or stops early, drops the type name and the safe strings of the hidden error's outer layers from GetAllSafeDetails, from the wire and from the Sentry report",
	Run: func(c *core.Ctx) {
		n := 0
		for f, et := range hiddenFields(c) {
			if !sx.IsErrorType(f.Type()) {
				continue
			}
			fn := et.Methods["SafeDetails"]
			if fn == nil || fn.Blocks == nil {
				continue
			}
			n++
			name := load.FnName(fn) + ": walk over the layers of ." + f.Name()
			// the loads of the hidden field from the receiver
			var starts []ssa.Value
			sx.EachInstr(fn, func(in ssa.Instruction) {
				if ld, ok := in.(*ssa.UnOp); ok && ld.Op == token.MUL {
					if fa, ok := ld.X.(*ssa.FieldAddr); ok && sx.FieldOf(fa) == f {
						starts = append(starts, ld)
					}
				}
			})
			if len(starts) == 0 {
				c.Fail(name, fn.Pos(), "SafeDetails() of "+et.Name()+" never reads the hidden error ."+f.Name()+": its safe details (type names, safe strings, stack) are missing from GetAllSafeDetails, from the wire and from the Sentry report")
				continue
			}
			ok, why := false, "no layer walk over the hidden error found"
			for _, s := range starts {
				if o, w := hiddenWalkOK(fn, s, 0); o {
					ok = true
					break
				} else if w != "" {
					why = w
				}
			}
			c.Check(ok, name, fn.Pos(), "starts at the hidden error itself, steps with UnwrapOnce, asks GetSafeDetails for every layer",
				"the safe details of the hidden error are not collected from all of its layers ("+why+"): what its outer (or remaining) layers declare safe - type name, safe message parts, stack - is dropped from GetAllSafeDetails, the wire and the Sentry report although the error sits behind a barrier / in a secondary error")
		}
		c.Min("SafeDetails() methods of types with a hidden error", n, 2)
	},
}

// hiddenWalkOK: in fn, the value start (the hidden error) is walked layer by layer.
func hiddenWalkOK(fn *ssa.Function, start ssa.Value, depth int) (bool, string) {
	if depth > 2 {
		return false, ""
	}
	why := ""
	// handed to GetAllSafeDetails, or to a same-package helper that walks its parameter
	for _, r := range *start.Referrers() {
		call, ok := r.(*ssa.Call)
		if !ok {
			if ci, isCI := r.(*ssa.ChangeInterface); isCI {
				if o, w := hiddenWalkOK(fn, ci, depth); o {
					return true, ""
				} else if w != "" {
					why = w
				}
			}
			continue
		}
		callee := sx.Callee(call)
		if callee == nil {
			continue
		}
		if callee.Name() == "GetAllSafeDetails" && len(call.Call.Args) == 1 && identity(call.Call.Args[0]) == identity(start) {
			return true, ""
		}
		if callee.Blocks != nil && callee.Pkg == fn.Pkg && callee != fn {
			for j, a := range call.Call.Args {
				if identity(a) == identity(start) && j < len(callee.Params) {
					if o, w := hiddenWalkOK(callee, callee.Params[j], depth+1); o {
						return true, ""
					} else if w != "" {
						why = w
					}
				}
			}
		}
	}
	for _, l := range naturalLoops(fn) {
		for _, in := range l.Header.Instrs {
			phi, ok := in.(*ssa.Phi)
			if !ok || !sx.IsErrorType(phi.Type()) {
				continue
			}
			entryOK, stepOK, sawEntry, sawStep := true, true, false, false
			for i, e := range phi.Edges {
				if l.Body[l.Header.Preds[i]] {
					sawStep = true
					st, isCall := identity(e).(*ssa.Call)
					if !isCall || sx.Callee(st) == nil || sx.Callee(st).Name() != "UnwrapOnce" || len(st.Call.Args) != 1 || identity(st.Call.Args[0]) != ssa.Value(phi) {
						stepOK = false
					}
				} else {
					sawEntry = true
					if identity(e) != identity(start) {
						entryOK = false
					}
				}
			}
			if !sawEntry || !sawStep {
				continue
			}
			if !entryOK {
				// a loop over errors that does not start at the hidden error: remember why, keep looking
				if walksFrom(phi, start) {
					why = "the walk starts at " + describeVal(entryEdge(phi, l)) + ", not at the hidden error itself"
				}
				continue
			}
			if !stepOK {
				why = "the loop variable is not advanced with UnwrapOnce of itself"
				continue
			}
			// leaves only on nil: every exit edge of the loop is the branch of a nil test of the loop variable (test
			// before the body) or of its successor UnwrapOnce(loop variable) (test after the body: for { …; err =
			// UnwrapOnce(err); if err == nil { break } })
			stepVals := map[ssa.Value]bool{ssa.Value(phi): true}
			for i, e := range phi.Edges {
				if l.Body[l.Header.Preds[i]] {
					stepVals[identity(e)] = true
				}
			}
			exitsOK := true
			for b := range l.Body {
				for _, sc := range b.Succs {
					if l.Body[sc] {
						continue
					}
					okExit := false
					if ifi, isIf := b.Instrs[len(b.Instrs)-1].(*ssa.If); isIf {
						if bo, isBin := ifi.Cond.(*ssa.BinOp); isBin && (bo.Op == token.NEQ || bo.Op == token.EQL) {
							if (stepVals[identity(bo.X)] && sx.IsNil(bo.Y)) || (stepVals[identity(bo.Y)] && sx.IsNil(bo.X)) {
								// the exit edge is the "is nil" edge
								nilEdge := 0
								if bo.Op == token.NEQ {
									nilEdge = 1
								}
								okExit = b.Succs[nilEdge] == sc
							}
						}
					}
					if !okExit {
						exitsOK = false
					}
				}
			}
			if !exitsOK {
				why = "the walk can be left before the loop variable is nil"
				continue
			}
			// GetSafeDetails(loop variable) on every iteration: the call's block dominates every back edge
			asked := false
			for b := range l.Body {
				for _, in2 := range b.Instrs {
					call, isCall := in2.(*ssa.Call)
					if !isCall || sx.Callee(call) == nil || sx.Callee(call).Name() != "GetSafeDetails" || len(call.Call.Args) != 1 || identity(call.Call.Args[0]) != ssa.Value(phi) {
						continue
					}
					dom := true
					for i := range phi.Edges {
						if p := l.Header.Preds[i]; l.Body[p] && !b.Dominates(p) {
							dom = false
						}
					}
					if dom {
						asked = true
					}
				}
			}
			if !asked {
				why = "GetSafeDetails is not asked for the loop variable on every iteration"
				continue
			}
			return true, ""
		}
	}
	return false, why
}

// walksFrom: the entry edge of phi is derived from start (UnwrapOnce(start), a field of it …).
func walksFrom(phi *ssa.Phi, start ssa.Value) bool {
	seen := map[ssa.Value]bool{}
	var from func(v ssa.Value, d int) bool
	from = func(v ssa.Value, d int) bool {
		if v == nil || seen[v] || d > 6 {
			return false
		}
		seen[v] = true
		if identity(v) == identity(start) {
			return true
		}
		switch x := identity(v).(type) {
		case *ssa.Call:
			for _, a := range x.Call.Args {
				if from(a, d+1) {
					return true
				}
			}
		case *ssa.Phi:
			for _, e := range x.Edges {
				if e != ssa.Value(phi) && from(e, d+1) {
					return true
				}
			}
		case *ssa.Extract:
			return from(x.Tuple, d+1)
		case *ssa.TypeAssert:
			return from(x.X, d+1)
		}
		return false
	}
	for _, e := range phi.Edges {
		if from(e, 0) {
			return true
		}
	}
	return false
}

func entryEdge(phi *ssa.Phi, l *natLoop) ssa.Value {
	for i, e := range phi.Edges {
		if !l.Body[phi.Block().Preds[i]] {
			return e
		}
	}
	return phi
}

var _ = types.Identical

// ---------------------------------------------------------------------------
// R-FILL (round 12, own mutation probe: `if len(s.SafeDetails) <= 1 { return slice }` passes the pinned suite)

var rFill = &Rule{
	Name: "R-FILL",
	Doc: "(*SafeDetailPayload).Fill - through which barriers and secondary-error wrappers relay the safe details of every hidden layer - relays ALL of a layer's details: " +
		"(a) every comparison of len(s.SafeDetails) with a constant in the method is an emptiness test (== 0, != 0, > 0, < 1 …), so the pass-through of the caller's slice happens for a layer without details only; " +
		"(b) no bounded sub-slice of s.SafeDetails is taken; (c) a loop over s.SafeDetails appends its element to the slice that is returned. " +
		"A guard that also lets a layer with ONE detail through unrelayed, or a loop over a part of the list, drops strings the library declared safe from the reports of every error behind a barrier or in a secondary error",
	Run: func(c *core.Ctx) {
		p := c.P
		nm := p.Named("errbase", "SafeDetailPayload")
		var fn *ssa.Function
		if nm != nil {
			fn = p.Method(nm, "Fill")
		}
		if fn == nil || fn.Blocks == nil {
			c.InternalErr("errbase.(*SafeDetailPayload).Fill", "anchor method not found")
			return
		}
		name := load.FnName(fn)
		// the method and the same-package helpers it hands the details to (a helper's parameter stands for the argument)
		isDet := map[ssa.Value]bool{}
		funcs := []*ssa.Function{fn}
		var isDetailsLoad func(v ssa.Value) bool
		isDetailsLoad = func(v ssa.Value) bool {
			if isDet[identity(v)] {
				return true
			}
			if sl, isSl := identity(v).(*ssa.Slice); isSl && sl.Low == nil && sl.High == nil {
				return isDetailsLoad(sl.X)
			}
			ld, ok := identity(v).(*ssa.UnOp)
			if !ok || ld.Op != token.MUL {
				return false
			}
			fa, ok := ld.X.(*ssa.FieldAddr)
			return ok && sx.FieldOf(fa) != nil && sx.FieldOf(fa).Name() == "SafeDetails"
		}
		isLen := func(v ssa.Value) bool {
			call, ok := v.(*ssa.Call)
			if !ok {
				return false
			}
			b, ok := call.Call.Value.(*ssa.Builtin)
			return ok && b.Name() == "len" && len(call.Call.Args) == 1 && isDetailsLoad(call.Call.Args[0])
		}
		nCmp, nLoop := 0, 0
		for i := 0; i < len(funcs) && i < 4; i++ {
			sx.EachInstr(funcs[i], func(in ssa.Instruction) {
				call, ok := in.(*ssa.Call)
				if !ok {
					return
				}
				h := sx.Callee(call)
				if h == nil || h.Blocks == nil || h.Pkg != fn.Pkg || h == fn {
					return
				}
				for j, a := range call.Call.Args {
					if j < len(h.Params) && isDetailsLoad(a) && !isDet[h.Params[j]] {
						isDet[h.Params[j]] = true
						known := false
						for _, g := range funcs {
							known = known || g == h
						}
						if !known {
							funcs = append(funcs, h)
						}
					}
				}
			})
		}
		for _, g := range funcs {
			sx.EachInstr(g, func(in ssa.Instruction) {
				switch x := in.(type) {
				case *ssa.BinOp:
					switch x.Op {
					case token.EQL, token.NEQ, token.LSS, token.LEQ, token.GTR, token.GEQ:
					default:
						return // arithmetic on the length (a capacity hint, say) is no test
					}
					var k int64
					var isK, lenLeft bool
					if isLen(x.X) {
						k, isK = sx.ConstInt(x.Y)
						lenLeft = true
					} else if isLen(x.Y) {
						k, isK = sx.ConstInt(x.X)
					} else {
						return
					}
					if !isK {
						return
					}
					nCmp++
					op := x.Op
					if !lenLeft { // k OP len  ==  len OP' k
						switch op {
						case token.LSS:
							op = token.GTR
						case token.GTR:
							op = token.LSS
						case token.LEQ:
							op = token.GEQ
						case token.GEQ:
							op = token.LEQ
						}
					}
					empt := (k == 0 && (op == token.EQL || op == token.NEQ || op == token.GTR || op == token.LEQ)) || (k == 1 && (op == token.LSS || op == token.GEQ))
					c.Check(empt, name+": test of len(s.SafeDetails)", x.Pos(), "an emptiness test",
						"the number of safe details of a layer is compared with a constant in a way that is not an emptiness test: layers with few details (one, say) are treated like layers without any, and their safe strings are not relayed by the barrier / secondary-error wrapper that hides them")
				case *ssa.Slice:
					if isDetailsLoad(x.X) && (x.Low != nil || x.High != nil) {
						if k, isK := sx.ConstInt(x.Low); !(x.High == nil && isK && k == 0) {
							c.Fail(name+": sub-slice of s.SafeDetails", x.Pos(), "only a part of the layer's safe details is relayed: the others are dropped from the reports of errors behind a barrier or in a secondary error")
						}
					}
				}
			})
		}
		// (c) a loop whose element load comes from s.SafeDetails feeds an append whose result reaches a return
		for _, g := range funcs {
			for _, l := range naturalLoops(g) {
				for b := range l.Body {
					for _, in := range b.Instrs {
						ia, ok := in.(*ssa.IndexAddr)
						if !ok || !isDetailsLoad(ia.X) {
							continue
						}
						nLoop++
					}
				}
			}
		}
		c.Check(nLoop >= 1, name+": loop over s.SafeDetails", fn.Pos(), "every detail is visited", "Fill no longer loops over the layer's safe details")
		okRet := true
		for _, r := range sx.Returns(fn) {
			if len(r.Results) != 1 || !freshOrGrownFrom(r.Results[0], fn.Params[len(fn.Params)-1], map[ssa.Value]bool{}, 0) {
				okRet = false
			}
		}
		c.Check(okRet, name+": result", fn.Pos(), "the caller's slice, grown by appends", "Fill returns something else than the caller's slice grown by appends: what was collected from the outer layers is lost")
		c.Note("R-FILL: %d constant comparisons of len(s.SafeDetails), %d element loads in loops", nCmp, nLoop)
	},
}

// freshOrGrownFrom: v is base, or appends on top of it (through phis).
func freshOrGrownFrom(v, base ssa.Value, seen map[ssa.Value]bool, d int) bool {
	if d > 10 {
		return false
	}
	if seen[v] {
		return true
	}
	seen[v] = true
	if v == base {
		return true
	}
	switch x := v.(type) {
	case *ssa.Phi:
		for _, e := range x.Edges {
			if !freshOrGrownFrom(e, base, seen, d+1) {
				return false
			}
		}
		return true
	case *ssa.Call:
		if b, ok := x.Call.Value.(*ssa.Builtin); ok && b.Name() == "append" {
			if freshOrGrownFrom(x.Call.Args[0], base, seen, d+1) {
				return true
			}
			// append(make(…), slice...): a copy that starts with the caller's elements
			return len(x.Call.Args) == 2 && types.Identical(x.Call.Args[1].Type(), x.Type()) && freshOrGrownFrom(x.Call.Args[1], base, seen, d+1)
		}
		// a same-package helper that grows the slice it is given
		if h := sx.Callee(x); h != nil && h.Blocks != nil && x.Parent() != nil && h.Pkg == x.Parent().Pkg && h != x.Parent() {
			for j, a := range x.Call.Args {
				if j >= len(h.Params) || !types.Identical(a.Type(), x.Type()) || !freshOrGrownFrom(a, base, seen, d+1) {
					continue
				}
				rets := sx.Returns(h)
				okAll := len(rets) > 0
				for _, r := range rets {
					if len(r.Results) != 1 || !freshOrGrownFrom(r.Results[0], h.Params[j], map[ssa.Value]bool{}, d+1) {
						okAll = false
					}
				}
				if okAll {
					return true
				}
			}
		}
	}
	return false
}
