package rules

import (
	"go/token"
	"go/types"

	"golang.org/x/tools/go/ssa"

	"verif/checker/internal/core"
	"verif/checker/internal/load"
	"verif/checker/internal/sx"
)

// ---------------------------------------------------------------------------
// R-HIDDEN-DETAILS (round 12, found by an own mutation probe: a SafeDetails() walk that starts at
// UnwrapOnce(e.secondaryError) passes the pinned suite)

var rHiddenDetails = &Rule{
	Name: "R-HIDDEN-DETAILS",
	Doc: "a hidden error contributes the safe details of ALL its layers: in the SafeDetails() method of every module error type with a hidden error field (barrierErr.maskedErr, withSecondaryError.secondaryError) the layer walk starts at the hidden error ITSELF " +
		"(the loop variable's value on entry is the load of that field), steps with errbase.UnwrapOnce of the loop variable, leaves only when the variable is nil, and asks errbase.GetSafeDetails for the loop variable on every iteration - or the method hands the field to errbase.GetAllSafeDetails. " +
		"A walk that starts one layer down, or stops early, drops the type name and the safe strings of the hidden error's outer layers from GetAllSafeDetails, from the wire and from the Sentry report",
	Run: func(c *core.Ctx) {
		n := 0
		for f, et := range hiddenFields(c) {
			if !sx.IsErrorType(f.Type()) {
				continue
			}
			fn := et.Methods["SafeDetails"]
			if fn == nil || fn.Blocks == nil {
				continue
			}
			n++
			name := load.FnName(fn) + ": walk over the layers of ." + f.Name()
			// the loads of the hidden field from the receiver
			var starts []ssa.Value
			sx.EachInstr(fn, func(in ssa.Instruction) {
				if ld, ok := in.(*ssa.UnOp); ok && ld.Op == token.MUL {
					if fa, ok := ld.X.(*ssa.FieldAddr); ok && sx.FieldOf(fa) == f {
						starts = append(starts, ld)
					}
				}
			})
			if len(starts) == 0 {
				c.Fail(name, fn.Pos(), "SafeDetails() of "+et.Name()+" never reads the hidden error ."+f.Name()+": its safe details (type names, safe strings, stack) are missing from GetAllSafeDetails, from the wire and from the Sentry report")
				continue
			}
			ok, why := false, "no layer walk over the hidden error found"
			for _, s := range starts {
				if o, w := hiddenWalkOK(fn, s, 0); o {
					ok = true
					break
				} else if w != "" {
					why = w
				}
			}
			c.Check(ok, name, fn.Pos(), "starts at the hidden error itself, steps with UnwrapOnce, asks GetSafeDetails for every layer",
				"the safe details of the hidden error are not collected from all of its layers ("+why+"): what its outer (or remaining) layers declare safe - type name, safe message parts, stack - is dropped from GetAllSafeDetails, the wire and the Sentry report although the error sits behind a barrier / in a secondary error")
		}
		c.Min("SafeDetails() methods of types with a hidden error", n, 2)
	},
}

// hiddenWalkOK: in fn, the value start (the hidden error) is walked layer by layer.
func hiddenWalkOK(fn *ssa.Function, start ssa.Value, depth int) (bool, string) {
	if depth > 2 {
		return false, ""
	}
	why := ""
	// handed to GetAllSafeDetails, or to a same-package helper that walks its parameter
	for _, r := range *start.Referrers() {
		call, ok := r.(*ssa.Call)
		if !ok {
			if ci, isCI := r.(*ssa.ChangeInterface); isCI {
				if o, w := hiddenWalkOK(fn, ci, depth); o {
					return true, ""
				} else if w != "" {
					why = w
				}
			}
			continue
		}
		callee := sx.Callee(call)
		if callee == nil {
			continue
		}
		if callee.Name() == "GetAllSafeDetails" && len(call.Call.Args) == 1 && identity(call.Call.Args[0]) == identity(start) {
			return true, ""
		}
		if callee.Blocks != nil && callee.Pkg == fn.Pkg && callee != fn {
			for j, a := range call.Call.Args {
				if identity(a) == identity(start) && j < len(callee.Params) {
					if o, w := hiddenWalkOK(callee, callee.Params[j], depth+1); o {
						return true, ""
					} else if w != "" {
						why = w
					}
				}
			}
		}
	}
	for _, l := range naturalLoops(fn) {
		for _, in := range l.Header.Instrs {
			phi, ok := in.(*ssa.Phi)
			if !ok || !sx.IsErrorType(phi.Type()) {
				continue
			}
			entryOK, stepOK, sawEntry, sawStep := true, true, false, false
			for i, e := range phi.Edges {
				if l.Body[l.Header.Preds[i]] {
					sawStep = true
					st, isCall := identity(e).(*ssa.Call)
					if !isCall || sx.Callee(st) == nil || sx.Callee(st).Name() != "UnwrapOnce" || len(st.Call.Args) != 1 || identity(st.Call.Args[0]) != ssa.Value(phi) {
						stepOK = false
					}
				} else {
					sawEntry = true
					if identity(e) != identity(start) {
						entryOK = false
					}
				}
			}
			if !sawEntry || !sawStep {
				continue
			}
			if !entryOK {
				// a loop over errors that does not start at the hidden error: remember why, keep looking
				if walksFrom(phi, start) {
					why = "the walk starts at " + describeVal(entryEdge(phi, l)) + ", not at the hidden error itself"
				}
				continue
			}
			if !stepOK {
				why = "the loop variable is not advanced with UnwrapOnce of itself"
				continue
			}
			// leaves only on nil
			exitsOK := true
			for b := range l.Body {
				for _, s := range b.Succs {
					if l.Body[s] {
						continue
					}
					ifi, isIf := b.Instrs[len(b.Instrs)-1].(*ssa.If)
					bin, isBin := (ssa.Value)(nil), false
					if isIf {
						var bo *ssa.BinOp
						bo, isBin = ifi.Cond.(*ssa.BinOp)
						if isBin {
							bin = bo
							if !((bo.Op == token.NEQ || bo.Op == token.EQL) && (identity(bo.X) == ssa.Value(phi) && sx.IsNil(bo.Y) || identity(bo.Y) == ssa.Value(phi) && sx.IsNil(bo.X))) {
								isBin = false
							}
						}
					}
					_ = bin
					if b != l.Header || !isIf || !isBin {
						exitsOK = false
					}
				}
			}
			if !exitsOK {
				why = "the walk can be left before the loop variable is nil"
				continue
			}
			// GetSafeDetails(loop variable) on every iteration: the call's block dominates every back edge
			asked := false
			for b := range l.Body {
				for _, in2 := range b.Instrs {
					call, isCall := in2.(*ssa.Call)
					if !isCall || sx.Callee(call) == nil || sx.Callee(call).Name() != "GetSafeDetails" || len(call.Call.Args) != 1 || identity(call.Call.Args[0]) != ssa.Value(phi) {
						continue
					}
					dom := true
					for i := range phi.Edges {
						if p := l.Header.Preds[i]; l.Body[p] && !b.Dominates(p) {
							dom = false
						}
					}
					if dom {
						asked = true
					}
				}
			}
			if !asked {
				why = "GetSafeDetails is not asked for the loop variable on every iteration"
				continue
			}
			return true, ""
		}
	}
	return false, why
}

// walksFrom: the entry edge of phi is derived from start (UnwrapOnce(start), a field of it …).
func walksFrom(phi *ssa.Phi, start ssa.Value) bool {
	seen := map[ssa.Value]bool{}
	var from func(v ssa.Value, d int) bool
	from = func(v ssa.Value, d int) bool {
		if v == nil || seen[v] || d > 6 {
			return false
		}
		seen[v] = true
		if identity(v) == identity(start) {
			return true
		}
		switch x := identity(v).(type) {
		case *ssa.Call:
			for _, a := range x.Call.Args {
				if from(a, d+1) {
					return true
				}
			}
		case *ssa.Phi:
			for _, e := range x.Edges {
				if e != ssa.Value(phi) && from(e, d+1) {
					return true
				}
			}
		case *ssa.Extract:
			return from(x.Tuple, d+1)
		case *ssa.TypeAssert:
			return from(x.X, d+1)
		}
		return false
	}
	for _, e := range phi.Edges {
		if from(e, 0) {
			return true
		}
	}
	return false
}

func entryEdge(phi *ssa.Phi, l *natLoop) ssa.Value {
	for i, e := range phi.Edges {
		if !l.Body[phi.Block().Preds[i]] {
			return e
		}
	}
	return phi
}

var _ = types.Identical
