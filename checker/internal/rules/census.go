package rules

import (
	"go/types"
	"sort"
	"strings"

	"golang.org/x/tools/go/ssa"

	"verif/checker/internal/core"
	"verif/checker/internal/load"
	"verif/checker/internal/sx"
)

const (
	errbasePath = load.ModPath + "/errbase"
	redactPath  = "github.com/cockroachdb/redact"
)

// ErrType is one module type implementing error.
type ErrType struct {
	Named   *types.Named
	Struct  *types.Struct // nil for non-struct types
	Ptr     bool          // error is implemented by *T only
	Methods map[string]*ssa.Function
}

func (e *ErrType) Name() string { return load.TypeName(e.Named) }

// Recv returns the receiver type that implements error.
func (e *ErrType) Recv() types.Type {
	if e.Ptr {
		return types.NewPointer(e.Named)
	}
	return e.Named
}

// Registration is one Register*{Encoder,Decoder} call site.
type Registration struct {
	Kind     string // leaf-enc, leaf-dec, multi-enc, multi-dec, wrap-enc, wrap-enc-mt, wrap-dec
	KeyTypes []types.Type
	KeyOK    bool // all possible dynamic types of the key value were resolved
	Fn       *ssa.Function
	Site     ssa.CallInstruction
	In       *ssa.Function
}

func (r *Registration) IsEnc() bool {
	return strings.HasSuffix(r.Kind, "-enc") || r.Kind == "wrap-enc-mt"
}
func (r *Registration) IsDec() bool { return strings.HasSuffix(r.Kind, "-dec") }

// KeyName renders the key type(s).
func (r *Registration) KeyName() string {
	var s []string
	for _, t := range r.KeyTypes {
		s = append(s, load.TypeName(t))
	}
	if len(s) == 0 {
		return "<unresolved>"
	}
	return strings.Join(s, "|")
}

// Census is the E-CENSUS result.
type Census struct {
	ErrTypes []*ErrType
	Regs     []*Registration
	Migs     []ssa.CallInstruction // RegisterTypeMigration call sites outside forwarders
	Specials []*ssa.Function       // registered special-case printers
}

var regKinds = map[string]string{
	"RegisterLeafEncoder":                   "leaf-enc",
	"RegisterLeafDecoder":                   "leaf-dec",
	"RegisterMultiCauseEncoder":             "multi-enc",
	"RegisterMultiCauseDecoder":             "multi-dec",
	"RegisterWrapperEncoder":                "wrap-enc",
	"RegisterWrapperEncoderWithMessageType": "wrap-enc-mt",
	"RegisterWrapperDecoder":                "wrap-dec",
}

// GetCensus computes (once per context) the census.
func GetCensus(c *core.Ctx) *Census {
	if v, ok := c.Cache["census"]; ok {
		return v.(*Census)
	}
	cs := &Census{}
	p := c.P
	// Error types.
	for _, pk := range p.Mod {
		if strings.HasSuffix(pk.PkgPath, "/testutils") {
			continue
		}
		sc := pk.Types.Scope()
		for _, name := range sc.Names() {
			tn, ok := sc.Lookup(name).(*types.TypeName)
			if !ok || tn.IsAlias() {
				continue
			}
			n, ok := tn.Type().(*types.Named)
			if !ok || sx.IsInterface(n) {
				continue
			}
			if !sx.ImplementsError(n) {
				continue
			}
			if strings.HasSuffix(p.Fset.Position(tn.Pos()).Filename, ".pb.go") {
				continue
			}
			et := &ErrType{Named: n, Methods: map[string]*ssa.Function{}}
			et.Struct, _ = n.Underlying().(*types.Struct)
			ei := sx.ErrorType.Underlying().(*types.Interface)
			et.Ptr = !types.Implements(n, ei)
			ms := p.SSA.MethodSets.MethodSet(types.NewPointer(n))
			for i := 0; i < ms.Len(); i++ {
				sel := ms.At(i)
				if fn := p.SSA.MethodValue(sel); fn != nil {
					et.Methods[sel.Obj().Name()] = fn
				}
			}
			cs.ErrTypes = append(cs.ErrTypes, et)
		}
	}
	sort.Slice(cs.ErrTypes, func(i, j int) bool { return cs.ErrTypes[i].Name() < cs.ErrTypes[j].Name() })

	// Registrations.
	for _, fn := range p.HandFuncs() {
		sx.EachInstr(fn, func(in ssa.Instruction) {
			call, ok := in.(ssa.CallInstruction)
			if !ok {
				return
			}
			callee := sx.Callee(call)
			if callee == nil {
				return
			}
			obj := callee.Object()
			if obj == nil || obj.Pkg() == nil || !load.IsModPath(obj.Pkg().Path()) {
				return
			}
			args := call.Common().Args
			switch {
			case regKinds[obj.Name()] != "" && callee.Signature.Recv() == nil && len(args) == 2:
				if isParam(args[0]) || isParam(args[1]) {
					return // forwarding wrapper (root package API, RegisterMultiCauseEncoder, …)
				}
				r := &Registration{Kind: regKinds[obj.Name()], Site: call, In: fn, Fn: sx.FuncOf(args[1])}
				r.KeyTypes, r.KeyOK = keyTypes(p, args[0])
				cs.Regs = append(cs.Regs, r)
			case obj.Name() == "RegisterTypeMigration" && len(args) == 3:
				if isParam(args[2]) {
					return
				}
				cs.Migs = append(cs.Migs, call)
			case obj.Name() == "RegisterSpecialCasePrinter" && len(args) == 1:
				if isParam(args[0]) {
					return
				}
				if f := sx.FuncOf(args[0]); f != nil {
					cs.Specials = append(cs.Specials, f)
				}
			}
		})
	}
	c.Cache["census"] = cs
	return cs
}

func isParam(v ssa.Value) bool {
	for {
		switch x := v.(type) {
		case *ssa.Parameter:
			return true
		case *ssa.ChangeType:
			v = x.X
		case *ssa.MakeInterface:
			v = x.X
		default:
			return false
		}
	}
}

// keyTypes resolves the error value X in GetTypeKey(X) to its possible
// concrete types.
func keyTypes(p *load.Program, key ssa.Value) ([]types.Type, bool) {
	call, ok := key.(*ssa.Call)
	if !ok {
		return nil, false
	}
	callee := sx.Callee(call)
	if callee == nil || callee.Name() != "GetTypeKey" || len(call.Call.Args) != 1 {
		return nil, false
	}
	return ConcreteTypes(p, call.Call.Args[0])
}

// ConcreteTypes computes the set of dynamic types an interface-typed value
// may hold (nil excluded). ok=false if some source cannot be resolved
// (parameter, dynamic call, field).
func ConcreteTypes(p *load.Program, v ssa.Value) (out []types.Type, ok bool) {
	seen := map[ssa.Value]bool{}
	seenFn := map[*ssa.Function]bool{}
	ok = true
	add := func(t types.Type) {
		for _, u := range out {
			if types.Identical(u, t) {
				return
			}
		}
		out = append(out, t)
	}
	var walk func(v ssa.Value, depth int)
	walk = func(v ssa.Value, depth int) {
		if seen[v] {
			return
		}
		seen[v] = true
		if depth > 12 {
			ok = false
			return
		}
		if !sx.IsInterface(v.Type()) {
			add(v.Type())
			return
		}
		switch x := v.(type) {
		case *ssa.Const:
			// nil interface: contributes no dynamic type
		case *ssa.MakeInterface:
			if sx.IsInterface(x.X.Type()) {
				walk(x.X, depth)
			} else {
				add(x.X.Type())
			}
		case *ssa.ChangeInterface:
			walk(x.X, depth)
		case *ssa.Phi:
			for _, e := range x.Edges {
				walk(e, depth)
			}
		case *ssa.TypeAssert:
			if sx.IsInterface(x.AssertedType) {
				walk(x.X, depth)
			} else {
				add(x.AssertedType)
			}
		case *ssa.Extract:
			if ta, isTA := x.Tuple.(*ssa.TypeAssert); isTA && x.Index == 0 {
				walk(ta, depth)
				return
			}
			if call, isCall := x.Tuple.(*ssa.Call); isCall {
				if f := sx.Callee(call); f != nil && f.Blocks != nil && !seenFn[f] {
					for _, r := range sx.Returns(f) {
						walk(r.Results[x.Index], depth+1)
					}
					return
				}
			}
			ok = false
		case *ssa.Call:
			f := sx.Callee(x)
			if f == nil || f.Blocks == nil {
				ok = false
				return
			}
			for _, r := range sx.Returns(f) {
				if len(r.Results) == 1 {
					walk(r.Results[0], depth+1)
				}
			}
		case *ssa.UnOp:
			// load of a package-level variable: union of everything stored to it.
			if g, isG := x.X.(*ssa.Global); isG {
				found := false
				for fn := range p.AllFuncs() {
					if fn.Pkg != g.Pkg {
						continue
					}
					sx.EachInstr(fn, func(in ssa.Instruction) {
						if st, isSt := in.(*ssa.Store); isSt && st.Addr == g {
							found = true
							walk(st.Val, depth+1)
						}
					})
				}
				if !found {
					ok = false
				}
				return
			}
			ok = false
		default:
			ok = false
		}
	}
	walk(v, 0)
	return out, ok
}

// ErrTypeOf finds the census entry for a type (through pointer).
func (cs *Census) ErrTypeOf(t types.Type) *ErrType {
	n := sx.NamedOf(t)
	if n == nil {
		return nil
	}
	for _, e := range cs.ErrTypes {
		if e.Named.Obj() == n.Obj() {
			return e
		}
	}
	return nil
}

// RegsFor returns the registrations whose key includes type t.
func (cs *Census) RegsFor(t types.Type) []*Registration {
	var out []*Registration
	for _, r := range cs.Regs {
		for _, k := range r.KeyTypes {
			if types.Identical(k, t) {
				out = append(out, r)
			}
		}
	}
	return out
}
