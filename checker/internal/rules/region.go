package rules

import (
	"go/token"
	"go/types"

	"golang.org/x/tools/go/ssa"

	"verif/checker/internal/sx"
)

// A region is an anchor function together with the unexported same-package
// helpers it hands part of its work to (static calls, transitively). Rules
// that look for a construct "in decodeLeaf" look in the region, so that moving
// a block of the anchor into a helper of its own does not hide the construct;
// the guards that hold at a construct inside a helper are the guards inside the
// helper plus those that hold at every call site of the helper in the region.
type region struct {
	anchor *ssa.Function
	funcs  []*ssa.Function
	in     map[*ssa.Function]bool
	sites  map[*ssa.Function][]*ssa.Call // call sites of a helper inside the region
}

// regionOf builds the region of anchor. Functions in stop (other anchors of the
// same rule family, which have their own obligations) are not entered.
func regionOf(anchor *ssa.Function, stop ...*ssa.Function) *region {
	r := &region{anchor: anchor, in: map[*ssa.Function]bool{}, sites: map[*ssa.Function][]*ssa.Call{}}
	if anchor == nil {
		return r
	}
	stopped := map[*ssa.Function]bool{}
	for _, s := range stop {
		stopped[s] = true
	}
	var visit func(f *ssa.Function, depth int)
	visit = func(f *ssa.Function, depth int) {
		if r.in[f] {
			return
		}
		r.in[f] = true
		r.funcs = append(r.funcs, f)
		if depth >= 4 {
			return
		}
		sx.EachInstr(f, func(in ssa.Instruction) {
			call, ok := in.(*ssa.Call)
			if !ok {
				return
			}
			h := sx.Callee(call)
			if h == nil || h.Blocks == nil || h.Pkg == nil || h.Pkg != anchor.Pkg || stopped[h] || h == anchor {
				return
			}
			if h.Object() != nil && h.Object().Exported() {
				return
			}
			if h.Signature.Recv() != nil {
				// methods are the API of a type, not a piece of the anchor - except the unexported methods of
				// the anchor's own receiver type, which is how a method hands out parts of its work
				if anchor.Signature.Recv() == nil || !types.Identical(h.Signature.Recv().Type(), anchor.Signature.Recv().Type()) {
					return
				}
			}
			r.sites[h] = append(r.sites[h], call)
			visit(h, depth+1)
		})
	}
	visit(anchor, 0)
	return r
}

// each runs f on every instruction of the region.
func (r *region) each(f func(in ssa.Instruction)) {
	for _, fn := range r.funcs {
		sx.EachInstr(fn, f)
	}
}

// lits: the literals established at block b: those of the dominating branches
// in b's function, and, when that function is a helper, those established at
// every one of its call sites in the region.
func (r *region) lits(b *ssa.BasicBlock) []lit {
	return r.litsD(b, 0)
}

func (r *region) litsD(b *ssa.BasicBlock, depth int) []lit {
	out := dominatingLits(b)
	fn := b.Parent()
	if fn == r.anchor || depth > 4 {
		return out
	}
	sites := r.sites[fn]
	if len(sites) == 0 {
		return out
	}
	var common []lit
	for i, s := range sites {
		ls := r.litsD(s.Block(), depth+1)
		if i == 0 {
			common = ls
			continue
		}
		var keep []lit
		for _, l := range common {
			if hasLit(ls, l.V, l.Neg) {
				keep = append(keep, l)
			}
		}
		common = keep
	}
	return append(out, common...)
}

// pos of the anchor (for reports about a missing construct).
func (r *region) pos() token.Pos { return r.anchor.Pos() }

// paramFor: the parameter of region function f that holds, at every call site
// in the region, the anchor's parameter ap (nil when there is none, or when the
// call sites disagree).
func (r *region) paramFor(f *ssa.Function, ap *ssa.Parameter) *ssa.Parameter {
	return r.paramForD(f, ap, 0)
}

func (r *region) paramForD(f *ssa.Function, ap *ssa.Parameter, depth int) *ssa.Parameter {
	if f == r.anchor {
		return ap
	}
	if depth > 4 || len(r.sites[f]) == 0 {
		return nil
	}
	idx := -1
	for _, s := range r.sites[f] {
		cp := r.paramForD(s.Parent(), ap, depth+1)
		if cp == nil {
			return nil
		}
		found := -1
		for i, a := range s.Call.Args {
			if a == ssa.Value(cp) {
				found = i
			}
		}
		if found < 0 || (idx >= 0 && idx != found) {
			return nil
		}
		idx = found
	}
	if idx < 0 || idx >= len(f.Params) {
		return nil
	}
	return f.Params[idx]
}

// resolve: a parameter of a region helper stands for the argument it receives,
// when every call site in the region passes the same value (followed upwards
// to the anchor's frame); other values stand for themselves.
func (r *region) resolve(v ssa.Value) ssa.Value {
	for d := 0; d < 5; d++ {
		prm, ok := v.(*ssa.Parameter)
		if !ok || prm.Parent() == r.anchor {
			return v
		}
		idx := -1
		for i, q := range prm.Parent().Params {
			if q == prm {
				idx = i
			}
		}
		sites := r.sites[prm.Parent()]
		if idx < 0 || len(sites) == 0 {
			return v
		}
		var arg ssa.Value
		for _, s := range sites {
			if idx >= len(s.Call.Args) {
				return v
			}
			if s.Call.Args[idx] == ssa.Value(prm) {
				continue // the helper calling itself with its own parameter
			}
			if arg != nil && s.Call.Args[idx] != arg {
				return v
			}
			arg = s.Call.Args[idx]
		}
		if arg == nil {
			return v
		}
		v = arg
	}
	return v
}
