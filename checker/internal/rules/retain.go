package rules

import (
	"fmt"
	"go/token"
	"go/types"
	"sort"
	"strings"

	"golang.org/x/tools/go/ssa"

	"verif/checker/internal/core"
	"verif/checker/internal/load"
	"verif/checker/internal/origin"
	"verif/checker/internal/sx"
)

// safeExposedFields: fields of module error types whose content is handed
// out as safe (returned by SafeDetails() or printed through redact.Safe).
func safeExposedFields(c *core.Ctx) map[string]bool {
	if v, ok := c.Cache["safeExposed"]; ok {
		return v.(map[string]bool)
	}
	e := originEngine(c)
	out := map[string]bool{}
	for _, et := range GetCensus(c).ErrTypes {
		if sd := methodFn(et, "SafeDetails"); sd != nil {
			for _, r := range sx.Returns(sd) {
				for _, o := range e.TraceRecv(r.Results[0], nil).List() {
					collectRecvTop(o, et.Name(), out, 0, false)
				}
			}
		}
		sh := GetShapes(c)[et.Named]
		if sh.Formatter != nil {
			sx.EachInstr(sh.Formatter, func(in ssa.Instruction) {
				call, ok := in.(*ssa.Call)
				if !ok {
					return
				}
				if redactName(sx.Callee(call)) == "Safe" {
					for _, o := range e.TraceRecv(call.Call.Args[0], nil).List() {
						collectRecvTop(o, et.Name(), out, 0, false)
					}
				}
			})
		}
	}
	c.Cache["safeExposed"] = out
	return out
}

// collectRecvTop records "T.field" for receiver fields that reach a safe
// output *without* passing through Redact() (a sanitized redactable string
// only exposes its safe portion).
func collectRecvTop(o *origin.Origin, typ string, out map[string]bool, depth int, sanitized bool) {
	if depth > 4 {
		return
	}
	if o.Kind == origin.Recv && len(o.Sub) > 0 {
		out[typ+"."+o.Sub[0]] = true
	}
	for _, l := range [][]*origin.Origin{o.Of, o.Safe, o.Unsafe} {
		for _, x := range l {
			collectRecvTop(x, typ, out, depth+1, sanitized)
		}
	}
}

// retainTargets: contract-safe API inputs that must stay visible in reports.
// key: "<pkg>.<Func>.<param>"; the list is the set confirmed on the pinned tree.
func retainCandidates(p *load.Program) []*ssa.Parameter {
	var out []*ssa.Parameter
	for _, fn := range publicAPI(p) {
		if fn.Signature.Results().Len() == 0 {
			continue
		}
		if errorResult(fn) < 0 && !sx.IsNamed(fn.Signature.Results().At(0).Type(), load.ModPath+"/domains", "Domain") {
			continue
		}
		for _, q := range fn.Params {
			n := q.Name()
			switch {
			case n == "format" || n == "domainName":
			case sx.IsNamed(q.Type(), load.ModPath+"/domains", "Domain"):
			case sx.IsNamed(q.Type(), load.ModPath+"/issuelink", "IssueLink"):
			case contractSafeFuncParams[fn.Name()+"."+n] != "":
			default:
				continue
			}
			out = append(out, q)
		}
	}
	return out
}

// retainExempt: contract-safe-looking inputs that the library deliberately
// treats as unsafe text (hints, details, unimplemented messages).
var retainExempt = map[string]string{
	"domains.New.msg":            "domains.New builds a standard-library error (errors.New): its message is ordinary unsafe text; the documentation makes no safety promise",
	"WithHintf.format":           "hints are user-facing free text, entirely unsafe by design",
	"WithDetailf.format":         "details are free text, entirely unsafe by design",
	"UnimplementedErrorf.format": "the unimplemented-feature message is unsafe text by design; the issue link carries the safe part",
}

var rRetain = &Rule{
	Name: "R-RETAIN",
	Doc: "must-reach dual of R-TAINT: every contract-safe input of a constructor (format strings of message-building constructors, New/Wrap/WithMessage messages, telemetry keys, domains, issue links) flows - forward dataflow through forwarding layers - into a SAFE position: the format of redact.Sprintf/HelperForErrorf, an argument of redact.Safe, " +
		"or a field that the type hands out as safe (returned by SafeDetails() or printed through redact.Safe). An input that only reaches plain fmt formatting or an unsafe argument position is over-redacted and disappears from reports",
	Run: runRetain,
}

func runRetain(c *core.Ctx) {
	p := c.P
	exposed := safeExposedFields(c)
	n := 0
	for _, q := range retainCandidates(p) {
		fn := q.Parent()
		key := fn.Name() + "." + q.Name()
		name := load.FnName(fn) + "." + q.Name()
		if why, ok := retainExempt[name]; ok {
			c.Ob(name, q.Pos(), true, "exempt: "+why)
			continue
		}
		if why, ok := retainExempt[key]; ok {
			c.Ob(name, q.Pos(), true, "exempt: "+why)
			continue
		}
		n++
		goal, trail := reachesSafePosition(p, q, exposed)
		if goal != "" {
			c.Ob(name, q.Pos(), true, "reaches "+goal)
		} else {
			c.Fail(name, q.Pos(), "this input is declared safe for reporting but reaches no safe position (only plain formatting / unsafe argument positions): it is redacted away in reports", trail...)
		}
	}
	c.Min("contract-safe constructor inputs", n, 40)
}

// reachesSafePosition follows a parameter forward.
func reachesSafePosition(p *load.Program, start *ssa.Parameter, exposed map[string]bool) (string, []string) {
	seen := map[ssa.Value]bool{}
	var trail []string
	var goal string
	var walk func(v ssa.Value, depth int)
	walk = func(v ssa.Value, depth int) {
		if goal != "" || seen[v] || depth > 12 {
			return
		}
		seen[v] = true
		refs := v.Referrers()
		if refs == nil {
			return
		}
		for _, r := range *refs {
			if goal != "" {
				return
			}
			switch x := r.(type) {
			case *ssa.Phi, *ssa.MakeInterface, *ssa.ChangeInterface, *ssa.ChangeType, *ssa.Convert, *ssa.Slice, *ssa.Field:
				walk(x.(ssa.Value), depth+1)
			case *ssa.UnOp:
				walk(x, depth+1)
			case *ssa.BinOp:
				// string concatenation: the text is still there, as part of a longer plain string
				if x.Op == token.ADD && isStringType(x.Type()) {
					walk(x, depth+1)
				}
			case *ssa.Store:
				if x.Val != v {
					continue
				}
				switch a := x.Addr.(type) {
				case *ssa.IndexAddr:
					walk(a.X, depth+1) // varargs array
				case *ssa.FieldAddr:
					owner := sx.NamedOf(a.X.Type())
					if owner != nil {
						k := load.TypeName(owner) + "." + sx.FieldOf(a).Name()
						if exposed[k] {
							goal = "field " + k + ", which the type hands out as safe"
							return
						}
						trail = append(trail, "stored in field "+k+" (not handed out as safe)")
					}
				case *ssa.Alloc:
					for _, r2 := range *a.Referrers() {
						if ld, ok := r2.(*ssa.UnOp); ok {
							walk(ld, depth+1)
						}
					}
				}
			case *ssa.FieldAddr:
				// struct parameter member (IssueLink.IssueURL): follow loads
				walk(x, depth+1)
			case ssa.CallInstruction:
				cc := x.Common()
				callee := sx.Callee(x)
				argIdx := -1
				for i, a := range cc.Args {
					if a == v {
						argIdx = i
					}
				}
				if argIdx < 0 {
					continue
				}
				if cc.IsInvoke() && isPrinterType(cc.Value.Type()) && cc.Method.Name() == "Printf" && argIdx == 0 {
					goal = "the format of Printer.Printf"
					return
				}
				rn := redactName(callee)
				switch {
				case rn == "Safe":
					goal = "redact.Safe(…) in " + load.FnName(x.Parent())
					return
				case (rn == "Sprintf" || rn == "HelperForErrorf") && argIdx == 0:
					goal = "the format of redact." + rn + " in " + load.FnName(x.Parent())
					return
				case rn != "":
					trail = append(trail, "plain (unsafe) argument of redact."+rn+" in "+load.FnName(x.Parent()))
					continue
				}
				if callee == nil {
					continue
				}
				if p.InModule(callee) && callee.Blocks != nil && argIdx < len(callee.Params) {
					walk(callee.Params[argIdx], depth+1)
					// a constructor may also return the value (NamedDomain → Domain)
					if val, ok := x.(ssa.Value); ok && (sx.IsNamed(val.Type(), load.ModPath+"/domains", "Domain")) {
						walk(val, depth+1)
					}
					continue
				}
				pk := ""
				if q := load.FnPkg(callee); q != nil {
					pk = q.Path()
				}
				if pk == "fmt" || pk == "strings" || pk == "strconv" {
					trail = append(trail, "formatted by "+pk+"."+callee.Name()+" in "+load.FnName(x.Parent())+" (the result is a plain, unsafe string)")
					if val, ok := x.(ssa.Value); ok && sx.IsNamed(val.Type(), load.ModPath+"/domains", "Domain") {
						walk(val, depth+1)
					}
					// Domain(fmt.Sprintf(...)) / Domain(prefix + strconv.Quote(...)): the conversion to the declared-safe
					// type, possibly after concatenations, keeps the contract
					if val, ok := x.(ssa.Value); ok {
						var toDomain func(w ssa.Value, d int)
						toDomain = func(w ssa.Value, d int) {
							if d > 4 || w.Referrers() == nil {
								return
							}
							for _, r2 := range *w.Referrers() {
								switch cv := r2.(type) {
								case *ssa.ChangeType:
									if sx.IsNamed(cv.Type(), load.ModPath+"/domains", "Domain") {
										walk(cv, depth+1)
									}
								case *ssa.Convert:
									if sx.IsNamed(cv.Type(), load.ModPath+"/domains", "Domain") {
										walk(cv, depth+1)
									}
								case *ssa.BinOp:
									if cv.Op == token.ADD {
										toDomain(cv, d+1)
									}
								}
							}
						}
						toDomain(val, 0)
					}
				}
			case *ssa.Return:
				// returned Domain values are followed at the call sites of exported constructors: the type itself is the contract
				if sx.IsNamed(v.Type(), load.ModPath+"/domains", "Domain") {
					goal = "a value of type domains.Domain (declared safe by type)"
					return
				}
			}
		}
	}
	walk(start, 0)
	sort.Strings(trail)
	return goal, dedupStr(trail)
}

// ---------------------------------------------------------------------------
// R-ERRREFS

var rErrRefs = &Rule{
	Name: "R-ERRREFS",
	Doc:  "error values passed among the format arguments of Newf/Errorf/Wrapf/... are attached as secondary errors on EVERY path: in each function that collects them, the loop calling secondary.WithSecondaryError over the collected slice dominates every return (so their safe details, stacks and links stay in reports even when a %w verb also makes one of them the cause)",
	Run: func(c *core.Ctx) {
		p := c.P
		n := 0
		for _, fn := range p.HandFuncs() {
			// functions that call redact.HelperForErrorf or WithMessagef with forwarded args and collect error args
			var loopCalls []*ssa.Call
			collects := false
			sx.EachInstr(fn, func(in ssa.Instruction) {
				switch x := in.(type) {
				case *ssa.TypeAssert:
					if x.CommaOk && sx.IsErrorType(x.AssertedType) {
						if _, isArgs := elemOfVariadic(x.X, fn); isArgs {
							collects = true
						}
					}
				case *ssa.Call:
					if f := sx.Callee(x); f != nil && f.Name() == "WithSecondaryError" && p.InModule(f) {
						loopCalls = append(loopCalls, x)
					}
					// the attaching loop may live in a helper that receives the collected slice
					if f := sx.Callee(x); f != nil && p.InModule(f) && f != fn {
						for i, a := range x.Call.Args {
							if sl, ok := types.Unalias(a.Type()).Underlying().(*types.Slice); ok && sx.IsErrorType(sl.Elem()) && attachesAllOf(p, f, i) {
								loopCalls = append(loopCalls, x)
							}
						}
					}
					// the collection may live in a helper that receives the variadic slice and returns the errors in it
					if f := sx.Callee(x); f != nil && p.InModule(f) && fn.Signature.Variadic() {
						for i, a := range x.Call.Args {
							if a == ssa.Value(fn.Params[len(fn.Params)-1]) && i < len(f.Params) && collectsErrorsOf(f, i) {
								collects = true
							}
						}
					}
				}
			})
			if !collects {
				continue
			}
			n++
			name := load.FnName(fn)
			if len(loopCalls) == 0 {
				c.Fail(name+": captured error arguments", fn.Pos(), "error values among the format arguments are collected but never attached as secondary errors")
				continue
			}
			for _, call := range loopCalls {
				// the loop header that controls this call: nearest dominating block with a back edge… approximate by:
				// the call's block must be reachable on every path that reaches a non-nil return, i.e. the range
				// header (the idom chain block that has the call's block in its loop) dominates every return of a fresh error.
				hdr := call.Block()
				for b := call.Block(); b != nil; b = b.Idom() {
					if strings.Contains(b.Comment, "rangeindex.loop") || strings.Contains(b.Comment, "for.loop") {
						hdr = b
						break
					}
				}
				okAll := true
				for _, r := range sx.Returns(fn) {
					if sx.IsNil(r.Results[len(r.Results)-1]) {
						continue
					}
					if !hdr.Dominates(r.Block()) {
						okAll = false
					}
				}
				c.Check(okAll, name+": captured error arguments", call.Pos(), "the secondary-error loop is on every path to a non-nil return",
					"the loop attaching captured error arguments as secondary errors is skipped on some path: their safe details, stacks and links vanish from reports")
			}
		}
		c.Min("functions collecting error arguments", n, 2)
	},
}

// elemOfVariadic: v is an element of fn's variadic ...interface{} parameter.
func elemOfVariadic(v ssa.Value, fn *ssa.Function) (ssa.Value, bool) {
	ld, ok := v.(*ssa.UnOp)
	if !ok {
		return nil, false
	}
	ia, ok := ld.X.(*ssa.IndexAddr)
	if !ok {
		return nil, false
	}
	if pp, ok := ia.X.(*ssa.Parameter); ok && fn.Signature.Variadic() && pp == fn.Params[len(fn.Params)-1] {
		return pp, true
	}
	return nil, false
}

// attachesAllOf: fn attaches every element of its []error parameter pi as a secondary error: a
// WithSecondaryError call on an element of the parameter, in a loop whose header dominates every return.
func attachesAllOf(p *load.Program, fn *ssa.Function, pi int) bool {
	if fn.Blocks == nil || pi >= len(fn.Params) {
		return false
	}
	ok := false
	sx.EachInstr(fn, func(in ssa.Instruction) {
		call, isCall := in.(*ssa.Call)
		if !isCall || len(call.Call.Args) != 2 {
			return
		}
		if f := sx.Callee(call); f == nil || f.Name() != "WithSecondaryError" || !p.InModule(f) {
			return
		}
		ld, isLd := call.Call.Args[1].(*ssa.UnOp)
		if !isLd {
			return
		}
		ia, isIA := ld.X.(*ssa.IndexAddr)
		if !isIA || ia.X != ssa.Value(fn.Params[pi]) {
			return
		}
		hdr := call.Block()
		for b := call.Block(); b != nil; b = b.Idom() {
			if strings.Contains(b.Comment, "rangeindex.loop") || strings.Contains(b.Comment, "for.loop") {
				hdr = b
				break
			}
		}
		all := true
		for _, r := range sx.Returns(fn) {
			if !hdr.Dominates(r.Block()) {
				all = false
			}
		}
		if all {
			ok = true
		}
	})
	return ok
}

// collectsErrorsOf: fn returns a []error and asserts elements of its slice parameter pi to error (comma-ok).
func collectsErrorsOf(fn *ssa.Function, pi int) bool {
	if fn.Blocks == nil || pi >= len(fn.Params) {
		return false
	}
	res := fn.Signature.Results()
	if res.Len() != 1 {
		return false
	}
	sl, ok := types.Unalias(res.At(0).Type()).Underlying().(*types.Slice)
	if !ok || !sx.IsErrorType(sl.Elem()) {
		return false
	}
	found := false
	sx.EachInstr(fn, func(in ssa.Instruction) {
		ta, ok := in.(*ssa.TypeAssert)
		if !ok || !ta.CommaOk || !sx.IsErrorType(ta.AssertedType) {
			return
		}
		if ld, ok := ta.X.(*ssa.UnOp); ok {
			if ia, ok := ld.X.(*ssa.IndexAddr); ok && ia.X == ssa.Value(fn.Params[pi]) {
				found = true
			}
		}
	})
	return found
}

var _ = fmt.Sprintf
var _ = types.Identical
