package rules

// Control is a single-site mutant of a /repo file, applied in memory
// (packages.Config.Overlay) in the thorough tier: the named rule must report
// it. Controls are the checker's own regression suite ("test the checker
// both ways"); a control whose anchor text is gone is skipped and listed.
type Control struct {
	Prop string
	Name string
	File string // relative to the repository root
	Old  string // regular expression (Go syntax, (?s) implied), must match exactly once
	New  string
	Rule string // rule that must fire
}

// ControlBases names, for some controls (by Name), a stored
// behaviour-preserving refactoring (<verif>/refactorings/<id>/patch.diff) that
// is applied first: the mutation is then made in the refactored shape of the
// code (a guard dropped inside an extracted helper, ...), so the rule is shown
// to still decide the property after the refactoring, not merely to keep quiet.
var ControlBases = map[string]string{
	"refactored T04-4: plain opaque leaf for up to one cause":                        "T04-4",
	"refactored T04-4: opaque helper keeps a constant message":                       "T04-4",
	"refactored T10-1: helper trusts Is alone":                                       "T10-1",
	"refactored T06-1: pass-through rebuilt from the status":                         "T06-1",
	"refactored T06-1: helper keeps the first decoded error only when it has a text": "T06-1",
	"refactored T03-1: synthetic exception filed under the type name":                "T03-1",
	"refactored T07-3: attaching helper skipped when %w is used":                     "T07-3",
	"refactored T06-3: explicit walk jumps to the root cause":                        "T06-3",
	"refactored T07-1: join keeps the caller's slice":                                "T07-1",
	"refactored T01-4: zero precision ignored in the early-return form":              "T01-4",
	"refactored T07-4: one-error shortcut next to the nil shortcut":                  "T07-4",
	"refactored U01-1: leaf predicate hoisted without the multi-cause conjunct":      "U01-1",
	"refactored U02-3: payload helper accepts an empty mark":                         "U02-3",
	"refactored U04-2: generic-path helper escapes the safe details":                 "U04-2",
	"refactored U04-2: shared helper keys the registries by the original name":       "U04-2",
	"refactored U04-3: wrapper payload decoded only when it has bytes":               "U04-3",
	"refactored U06-4: transport-code helper lets OK through":                        "U06-4",
	"refactored U07-2: formatting helper skipped without arguments":                  "U07-2",
	"refactored U08-2: split helper cuts at the first colon":                         "U08-2",
	"refactored U08-3: extracted helper builds the frames itself":                    "U08-3",
	"refactored U09-4: appending helper keeps empty hints":                           "U09-4",
	"refactored U10-1: link operands swapped at the shared helper's call":            "U10-1",
	"refactored U10-1: shared helper separates operands with a colon":                "U10-1",
}

// CleanVariant as a Control's Rule marks a behaviour-preserving variant (a
// refactoring under which the property still holds): the property's rules
// must report nothing new on it. These guard against false alarms the same
// way the breaking controls guard against misses.
const CleanVariant = "!clean"

// Controls lists the control mutants per property.
var Controls = []Control{
	// C01
	{"C01", "opaque arm forgets the message type", "errbase/encode.go", `\t\tmessageType = e\.messageType\n`, "", "R-OPAQUE-TRANSPORT"},
	{"C01", "fallback omits messageType", "errbase/decode.go", `\t\tmessageType: MessageType\(enc\.MessageType\),\n`, "", "R-OPAQUE-TRANSPORT"},
	{"C01", "separator differs in opaqueWrapper.Error", "errbase/opaque.go", `"%s: %s", e\.prefix, e\.cause`, `"%s:%s", e.prefix, e.cause`, "R-SEP"},
	{"C01", "cut-set trim in extractPrefix", "errbase/encode.go", `return prefix\[:len\(prefix\)-2\], Prefix`, `return strings.TrimRight(prefix, ": "), Prefix`, "R-SEP"},
	{"C01", "multi-cause fallback needs two causes", "errbase/decode.go", `if len\(enc\.MultierrorCauses\) > 0 \{\n\t\tcauses := make`, "if len(enc.MultierrorCauses) > 1 {\n\t\tcauses := make", "R-TREE-RECURSION"},
	// C02
	{"C02", "wrapper extension dropped", "errbase/encode.go", `details\.ErrorTypeMark\.Extension = getTypeDetails\(err, false /\*onlyFamily\*/\)\n\n\t\tvar payload proto\.Message\n\n\t\t// If we have a manually registered encoder, use that\.\n\t\ttypeKey := TypeKey\(details\.ErrorTypeMark\.FamilyName\)\n\t\tif enc, ok := encoders`, "details.ErrorTypeMark.Extension = getTypeDetails(err, true /*onlyFamily*/)\n\n\t\tvar payload proto.Message\n\n\t\t// If we have a manually registered encoder, use that.\n\t\ttypeKey := TypeKey(details.ErrorTypeMark.FamilyName)\n\t\tif enc, ok := encoders", "R-TYPEKEY-WHO"},
	{"C02", "mark decoder under the wrong key", "hintdetail/with_detail.go", `RegisterWrapperDecoder\(errbase\.GetTypeKey\(\(\*withDetail\)\(nil\)\)`, `RegisterWrapperDecoder(errbase.GetTypeKey((*withHint)(nil))`, "R-REGTYPE"},
	// C03
	{"C03", "hint exposed as safe detail", "hintdetail/with_hint.go", `func \(w \*withHint\) ErrorHint\(\) string \{ return w\.hint \}`, "func (w *withHint) ErrorHint() string { return w.hint }\nfunc (w *withHint) SafeDetails() []string { return []string{w.hint} }", "R-TAINT"},
	{"C03", "leaf details not redacted", "errutil/redactable.go", `return \[\]string\{l\.msg\.Redact\(\)\.StripMarkers\(\)\}`, `return []string{l.msg.StripMarkers()}`, "R-TAINT"},
	{"C03", "path in safe details", "errbase/adapters.go", `return msg, \[\]string\{p\.Op\}, details\n\}\n\nfunc decodePathError`, "return msg, []string{p.Path}, details\n}\n\nfunc decodePathError", "R-TAINT"},
	{"C03", "path declared safe", "errutil/format_error_special.go", `redact\.Safe\(v\.Op\), v\.Path\)`, `redact.Safe(v.Op), redact.Safe(v.Path))`, "R-TAINT"},
	{"C03", "mark message declared safe", "markers/markers.go", `m\.mark\.msg,\n`, "redact.Safe(m.mark.msg),\n", "R-TAINT"},
	{"C03", "barrier override declared safe", "barriers/barriers.go", `HandledWithSafeMessage\(err, redact\.Sprint\(msg\)\)`, `HandledWithSafeMessage(err, redact.Sprint(redact.Safe(msg)))`, "R-TAINT"},
	{"C03", "tag value declared safe", "contexttags/contexttags.go", `val = v\n`, "val = redact.Safe(v)\n", "R-TAINT"},
	{"C03", "report message not redacted", "report/report.go", `redact\.Sprintf\("%\+v", err\)\.Redact\(\)\.StripMarkers\(\)`, `redact.Sprintf("%+v", err).StripMarkers()`, "R-TAINT"},
	{"C03", "escape branch writes raw", "errbase/format_error.go", `s\.finalBuf\.Write\(\[\]byte\(redact\.EscapeBytes\(entry\.details\)\)\)`, `s.finalBuf.Write(entry.details)`, "R-ESC"},
	{"C03", "flag set for the plain printer", "errbase/format_error.go", `desiredShortening := v\.FormatError\(\(\*printer\)\(s\)\)`, "bufIsRedactable = true\n\t\tdesiredShortening := v.FormatError((*printer)(s))", "R-BUFFLAG"},
	{"C03", "multi-cause counts as leaf", "errbase/format_error.go", `cause == nil && len\(causes\) == 0 /\* leaf \*/`, `cause == nil /* leaf */`, "R-SPECIAL-LEAF"},
	// C04
	{"C04", "leaf encoder sends no message", "errutil/redactable.go", `return l\.Error\(\), l\.SafeDetails\(\), &errorspb\.StringPayload\{Msg: string\(l\.msg\)\}`, `return "", l.SafeDetails(), &errorspb.StringPayload{Msg: string(l.msg)}`, "R-WIRE-MSG"},
	{"C04", "transparent wrapper sends a prefix", "hintdetail/with_hint.go", `return "", nil, &errorspb\.StringPayload\{Msg: w\.hint\}`, `return w.hint, nil, &errorspb.StringPayload{Msg: w.hint}`, "R-WIRE-MSG"},
	{"C04", "full text sent as prefix", "errutil/redactable.go", `return l\.prefix\.StripMarkers\(\), l\.SafeDetails\(\)`, `return l.Error(), l.SafeDetails()`, "R-WIRE-MSG"},
	// C05
	{"C05", "decoder asserts without comma-ok", "hintdetail/with_hint.go", `m, ok := payload\.\(\*errorspb\.StringPayload\)\n\tif !ok \{.*?\n\t\}\n\treturn &withHint`, "m := payload.(*errorspb.StringPayload)\n\treturn &withHint", "R-ASSERT-OK"},
	{"C05", "length guard too weak", "errbase/adapters.go", `len\(m\.Details\) < 2`, `len(m.Details) < 1`, "R-BOUNDS"},
	{"C05", "length guard dropped", "issuelink/with_issuelink.go", `if len\(details\) > 1 \{\n\t\tissueLink\.Detail = details\[1\]\n\t\}\n\treturn &withIssueLink`, "issueLink.Detail = details[1]\n\treturn &withIssueLink", "R-BOUNDS"},
	{"C05", "empty mark accepted", "markers/markers.go", `if !ok \|\| len\(m\.Types\) == 0 \{`, `if !ok {`, "R-BOUNDS"},
	{"C05", "nil tags buffer again", "contexttags/with_context.go", `\tif b == nil \{\n.*?\n\t\tb = &logtags\.Buffer\{\}\n\t\}\n`, "", "R-NILFIELD"},
	{"C05", "decoder result returned unchecked", "errbase/decode.go", `genErr := decoder\(ctx, cause, enc\.Message, enc\.Details\.ReportablePayload, payload\)\n\t\tif genErr != nil \{`, "genErr := decoder(ctx, cause, enc.Message, enc.Details.ReportablePayload, payload)\n\t\tif true {", "R-DECODE-NONNIL"},
	// C06
	{"C06", "redactable %q accepted", "errbase/format_error.go", `\(!redactableOutput && \(verb == 'x' \|\| verb == 'X' \|\| verb == 'q'\)\)`, `(verb == 'x' || verb == 'X' || verb == 'q')`, "R-VERB-DISPATCH"},
	{"C06", "zero precision ignored", "errbase/format_error.go", `_, okP := p\.Precision\(\)`, "prec, okP0 := p.Precision()\n\tokP := okP0 && prec > 0", "R-VERB-DISPATCH"},
	{"C06", "plain string relabelled redactable", "errutil/message.go", `prefix: redact\.Sprint\(redact\.Safe\(message\)\),`, `prefix: redact.RedactableString(message),`, "R-TAINT/redactable"},
	// C07
	{"C07", "barrier answers Is", "barriers/barriers.go", `func \(e \*barrierErr\) Error\(\) string \{ return e\.smsg\.StripMarkers\(\) \}`, "func (e *barrierErr) Error() string { return e.smsg.StripMarkers() }\nfunc (e *barrierErr) Is(t error) bool { return e.maskedErr == t }", "R-HIDE"},
	{"C07", "barrier details dropped", "barriers/barriers.go", `details = append\(details, redact\.Sprintf\("masked error: %\+v", e\.maskedErr\)\.Redact\(\)\.StripMarkers\(\)\)\n\treturn details`, `return nil`, "R-HIDE-KEEP"},
	{"C07", "Unwrap exposes the secondary error", "secondary/with_secondary.go", `func \(e \*withSecondaryError\) Unwrap\(\) error \{ return e\.cause \}`, `func (e *withSecondaryError) Unwrap() error { return e.secondaryError }`, "R-HIDE"},
	{"C07", "assertion skips the barrier", "errutil/assertions.go", `func HandleAsAssertionFailureDepth\(depth int, origErr error\) error \{\n`, "func HandleAsAssertionFailureDepth(depth int, origErr error) error {\n\tif assert.HasAssertionFailure(origErr) {\n\t\treturn origErr\n\t}\n", "R-BARRIER-CTOR"},
	// C08
	{"C08", "nil reference not handled first", "markers/markers.go", `if reference == nil \{\n\t\treturn err == nil\n\t\}`, "if err == nil {\n\t\treturn reference == nil\n\t}", "R-NIL-SAFE"},
	{"C08", "length check removed", "markers/markers.go", `\tif len\(m1\.types\) != len\(m2\.types\) \{\n.*?\n\t\treturn false\n\t\}\n`, "", "R-BOUNDS"},
	{"C08", "Error() outside recover", "markers/markers.go", `m := errorMark\{msg: safeGetErrMsg\(err\)`, `m := errorMark{msg: err.Error()`, "R-RECOVER"},
	{"C08", "IsAny gives up at a multi-cause node", "markers/markers.go", `if me != nil && IsAny\(me, references\.\.\.\) \{\n\t\t\t\treturn true\n\t\t\t\}\n\t\t\}`, "if me != nil && IsAny(me, references...) {\n\t\t\t\treturn true\n\t\t\t}\n\t\t\treturn false\n\t\t}", "R-LOOP-EXITS"},
	// C09
	{"C09", "Format bypasses the dispatcher", "telemetrykeys/with_telemetry.go", `func \(w \*withTelemetry\) Format\(s fmt\.State, verb rune\) \{ errbase\.FormatError\(w, s, verb\) \}`, `func (w *withTelemetry) Format(s fmt.State, verb rune) { fmt.Fprint(s, w.Error()) }`, "R-FMT-DELEGATE"},
	{"C09", "annotation printed outside the detail region", "assert/assert.go", `if p\.Detail\(\) \{\n\t\tp\.Printf\("assertion failure"\)\n\t\}`, `p.Printf("assertion failure")`, "R-SHAPE"},
	{"C09", "own-text wrapper returns its cause", "errutil/redactable.go", `return nil /\* nil here overrides the cause's message \*/`, `return l.cause`, "R-SHAPE"},
	{"C09", "domain not printed", "domains/with_domain.go", `p\.Print\(redact\.Safe\(e\.domain\)\)`, `_ = redact.Safe(e.domain)`, "R-DETAIL-PRINT"},
	{"C09", "detail guarded by the URL", "issuelink/with_issuelink.go", `if w\.Detail != "" \{\n\t\t\tp\.Printf\("%sdetail: %s", sep, redact\.Safe\(w\.Detail\)\)`, "if w.IssueURL != \"\" {\n\t\t\tp.Printf(\"%sdetail: %s\", sep, redact.Safe(w.Detail))", "R-GUARD-FIELD"},
	// C10
	{"C10", "WithHint keeps nil", "hintdetail/hintdetail.go", `func WithHint\(err error, msg string\) error \{\n\tif err == nil \{\n\t\treturn nil\n\t\}`, `func WithHint(err error, msg string) error {`, "R-NIL"},
	{"C10", "secondary nil not tolerated", "secondary/secondary.go", `if err == nil \|\| additionalErr == nil \{`, `if err == nil {`, "R-NIL"},
	{"C10", "Cause() lies", "withstack/withstack.go", `func \(w \*withStack\) Cause\(\) error  \{ return w\.cause \}`, `func (w *withStack) Cause() error  { return nil }`, "R-WRAP-DUAL"},
	{"C10", "root forwarder hits the f variant", "errutil_api.go", `return errutil\.WrapWithDepth\(depth\+1, err, msg\)`, `return errutil.WrapWithDepthf(depth+1, err, msg)`, "R-FORWARD"},
	// C11
	{"C11", "issue link slots swapped", "issuelink/with_issuelink.go", `issueLink\.IssueURL = details\[0\]\n\t\}\n\tif len\(details\) > 1 \{\n\t\tissueLink\.Detail = details\[1\]`, "issueLink.Detail = details[0]\n\t}\n\tif len(details) > 1 {\n\t\tissueLink.IssueURL = details[1]", "R-CODEC"},
	{"C11", "redacted tags not restored", "contexttags/with_context.go", `tags: b, redactedTags: redactedTags\}`, `tags: b}`, "R-CODEC"},
	{"C11", "HTTP code not sent", "exthttp/ext_http.go", `payload := &EncodedHTTPCode\{Code: uint32\(w\.code\)\}`, `payload := &EncodedHTTPCode{}`, "R-CODEC"},
	{"C11", "errno predicates crossed", "errbase/adapters.go", `\(target == os\.ErrExist && o\.details\.IsExist\)`, `(target == os.ErrExist && o.details.IsNotExist)`, "R-ERRNO-TABLE"},
	{"C11", "stack key set differs", "withstack/one_line_source.go", `case pkgFundamental, pkgWithStackName, ourWithStackName:`, `case pkgFundamental, ourWithStackName:`, "R-STACK-SLOT"},
	// C12
	{"C12", "message no longer declared safe", "errutil/message.go", `prefix: redact\.Sprint\(redact\.Safe\(message\)\),`, `prefix: redact.Sprint(message),`, "R-RETAIN"},
	{"C12", "secondary errors only without %w", "errutil/utilities.go", `\tfor _, e := range errRefs \{\n\t\terr = secondary\.WithSecondaryError\(err, e\)\n\t\}\n\terr = withstack\.WithStackDepth\(err, 1\+depth\)`, "\tif wrappedErr == nil {\n\t\tfor _, e := range errRefs {\n\t\t\terr = secondary.WithSecondaryError(err, e)\n\t\t}\n\t}\n\terr = withstack.WithStackDepth(err, 1+depth)", "R-ERRREFS"},
	// C13
	{"C13", "As ignores inner multi-cause nodes", "errutil/as.go", `errbase\.UnwrapMulti\(c\)`, `errbase.UnwrapMulti(err)`, "R-WALK-MULTI"},
	{"C13", "report visitor skips branches", "report/report.go", `\tfor _, e := range errbase\.UnwrapMulti\(err\) \{\n\t\tvisitAllMulti\(e, f\)\n\t\}\n`, "", "R-WALK-MULTI"},
	// C14
	{"C14", "Is protocol misspelt", "markers/markers.go", `err\.\(interface\{ Is\(error\) bool \}\); ok && x\.Is\(reference\)`, `err.(interface{ IsErr(error) bool }); ok && x.IsErr(reference)`, "R-PROTOCOL"},
	{"C14", "Unwrap deleted", "hintdetail/with_hint.go", `func \(w \*withHint\) Unwrap\(\) error     \{ return w\.cause \}\n`, "", "R-WRAP-DUAL"},
	{"C14", "Cause forwards to UnwrapOnce", "errutil_api.go", `func Cause\(err error\) error \{ return errbase\.UnwrapAll\(err\) \}`, `func Cause(err error) error { return errbase.UnwrapOnce(err) }`, "R-FORWARD"},
	// C15
	{"C15", "details collected conditionally", "report/report.go", `sd := errbase\.GetSafeDetails\(c\)\n\t\tdetails = append\(details, sd\)`, "if sd := errbase.GetSafeDetails(c); len(sd.SafeDetails) > 0 {\n\t\t\tdetails = append(details, sd)\n\t\t}", "R-REPORT-SHAPE"},
	{"C15", "exception value from Error()", "report/report.go", `Value:  firstDetailLine,`, `Value:  err.Error(),`, "R-TAINT/S5"},
	// C16
	{"C16", "forwarder forgets its own frame", "errutil_api.go", `return errutil\.NewWithDepth\(depth\+1, msg\)`, `return errutil.NewWithDepth(depth, msg)`, "R-DEPTH"},
	{"C16", "WithStack records itself", "withstack_api.go", `withstack\.WithStackDepth\(err, 1\)`, `withstack.WithStackDepth(err, 0)`, "R-DEPTH"},
	{"C16", "Newf chain off by one", "errutil/utilities.go", `err = withstack\.WithStackDepth\(err, 1\+depth\)\n\treturn err\n\}\n\n// Wrap wraps`, "err = withstack.WithStackDepth(err, depth)\n\treturn err\n}\n\n// Wrap wraps", "R-DEPTH"},
	{"C16", "domain of the wrong frame", "domains/domains.go", `runtime\.Caller\(1 \+ depth\)`, `runtime.Caller(depth)`, "R-DEPTH"},
	// C17
	{"C17", "double registration accepted", "errbase/migrations.go", `panic\(fmt\.Errorf\("migration to type %q already registered \(from %q\)", newKey, f\)\)`, `_ = fmt.Sprint(f)`, "R-MIGRATION"},
	{"C17", "key computed before the migration", "errbase/adapters.go", `registerOsPathErrorMigration\(\) // Needed for Go 1\.16\.\n\tpKey := GetTypeKey\(&os\.PathError\{\}\)`, "pKey := GetTypeKey(&os.PathError{})\n\tregisterOsPathErrorMigration()", "R-MIGRATION"},
	{"C17", "raw type name used for identity", "errbase/safe_details.go", `origTypeName, famName, ext := getTypeDetails\(err, false /\*onlyFamily\*/\)`, "origTypeName, famName, ext := getTypeDetails(err, false /*onlyFamily*/)\n\tfamName = getFullTypeName(err)", "R-TYPEKEY-WHO"},
	// C18
	{"C18", "memoised safe details", "contexttags/with_context.go", `return redactTags\(w\.tags\)`, "w.redactedTags = redactTags(w.tags)\n\treturn w.redactedTags", "R-EFFECT"},
	{"C18", "prefix rewritten in Error()", "errutil/redactable.go", `if l\.prefix == "" \{\n\t\treturn l\.cause\.Error\(\)\n\t\}`, "if l.prefix == \"\" {\n\t\tl.prefix = \"x\"\n\t\treturn l.cause.Error()\n\t}", "R-EFFECT"},
	// C19
	{"C19", "hints not de-duplicated", "hintdetail/hintdetail.go", `if _, ok := seen\[hint\]; !ok \{\n\t\t\thints = append\(hints, hint\)\n\t\t\tseen\[hint\] = struct\{\}\{\}\n\t\t\}`, "hints = append(hints, hint)\n\t\tseen[hint] = struct{}{}", "R-DEDUP"},
	{"C19", "assertion hint lost", "assert/assert.go", `func \(w \*withAssertionFailure\) ErrorHint\(\) string \{\n\treturn AssertionErrorHint \+ stdstrings\.IssueReferral\n\}`, "func (w *withAssertionFailure) errorHintOff() string {\n\treturn AssertionErrorHint + stdstrings.IssueReferral\n}", "R-HINT-PROVIDERS"},
	{"C19", "hints emitted before descending", "hintdetail/hintdetail.go", `func getAllHintsInternal\(err error, hints \[\]string, seen map\[string\]struct\{\}\) \[\]string \{\n\tif c := errbase\.UnwrapOnce\(err\); c != nil \{\n\t\thints = getAllHintsInternal\(c, hints, seen\)\n\t\}\n(.*?)\treturn hints\n\}`, "func getAllHintsInternal(err error, hints []string, seen map[string]struct{}) []string {\n$1\tif c := errbase.UnwrapOnce(err); c != nil {\n\t\thints = getAllHintsInternal(c, hints, seen)\n\t}\n\treturn hints\n}", "R-ORDER"},
	// C20
	{"C20", "a part of the error is encoded", "grpc/middleware/server.go", `enc := errors\.EncodeError\(ctx, err\)`, `enc := errors.EncodeError(ctx, errors.UnwrapAll(err))`, "R-GRPC-FLOW"},
	// round 5
	{"C06", "carriage returns dropped by the state's Write", "errbase/format_error.go", `\tfor i, c := range b \{\n\t\tif c == '\\n' \{`, "\tfor i, c := range b {\n\t\tif c == '\\r' {\n\t\t\ts.buf.Write(b[k:i])\n\t\t\tk = i + 1\n\t\t} else if c == '\\n' {", "R-WRITE-FAITHFUL"},
	{"C01", "carriage returns dropped by the state's Write", "errbase/format_error.go", `\tfor i, c := range b \{\n\t\tif c == '\\n' \{`, "\tfor i, c := range b {\n\t\tif c == '\\r' {\n\t\t\ts.buf.Write(b[k:i])\n\t\t\tk = i + 1\n\t\t} else if c == '\\n' {", "R-WRITE-FAITHFUL"},
	{"C05", "payload type logged without a nil test", "errbase/decode.go", `func decodeLeaf\(ctx context\.Context, enc \*errorspb\.EncodedErrorLeaf\) error \{\n`, "func decodeLeaf(ctx context.Context, enc *errorspb.EncodedErrorLeaf) error {\n\twarningFn(ctx, \"decoding payload %q\", enc.Details.FullDetails.TypeUrl)\n", "R-PB-NILPTR"},
	{"C08", "Is method asked only for uncomparable references", "markers/markers.go", `\t\t\tif tryDelegateToIsMethod\(c, refErr\) \{`, "\t\t\tif !isComparable && tryDelegateToIsMethod(c, refErr) {", "R-IS-METHOD"},
	{"C09", "Formattable shortcut through the wrapped error's own Format", "errbase/format_error.go", `func \(ef \*errorFormatter\) Format\(s fmt\.State, verb rune\) \{ FormatError\(ef\.err, s, verb\) \}`, "func (ef *errorFormatter) Format(s fmt.State, verb rune) {\n\tif f, ok := ef.err.(fmt.Formatter); ok && !s.Flag('+') {\n\t\tf.Format(s, verb)\n\t\treturn\n\t}\n\tFormatError(ef.err, s, verb)\n}", "R-FMT-DELEGATE"},
	{"C12", "masked error rendered briefly into the safe details", "barriers/barriers.go", `redact\.Sprintf\("masked error: %\+v", e\.maskedErr\)`, `redact.Sprintf("masked error: %v", e.maskedErr)`, "R-HIDE-KEEP"},
	{"C14", "interface exemption tested on the pointer type", "errutil/as.go", `e\.Kind\(\) != reflect\.Interface`, `typ.Kind() != reflect.Interface`, "R-AS-TARGET"},
	{"C15", "family name carried over from the previous layer", "report/report.go", `(\tfor i := len\(details\) - 1; i >= 0; i-- \{\n)(.*?)\t\tfm := "\*"\n`, "\tfm := \"*\"\n${1}${2}", "R-PER-LAYER"},
	{"C15", "synthetic exception decided by the number of stacks", "report/report.go", `\tif len\(event\.Exception\) == 0 \{\n`, "\tif len(stacks) == 0 {\n", "R-REPORT-SHAPE"},
	{"C20", "decoded error accepted only for a matching status code", "grpc/middleware/client.go", `\t\t\treconstituted = errors\.DecodeError\(ctx, \*t\)\n`, "\t\t\tif d := errors.DecodeError(ctx, *t); status.Code(d) == st.Code() {\n\t\t\t\treconstituted = d\n\t\t\t}\n", "R-GRPC-FLOW"},
	{"C20", "client returns early for some status codes", "grpc/middleware/client.go", `\tst := status\.Convert\(err\)\n`, "\tst := status.Convert(err)\n\tif st.Code() == 1 {\n\t\treturn err\n\t}\n", "R-GRPC-FLOW"},
	{"C17", "new key computed through GetTypeKey", "errbase/migrations.go", `newKey := TypeKey\(getFullTypeName\(newType\)\)`, `newKey := GetTypeKey(newType)`, "R-MIGRATION"},
	// round 4
	{"C04", "opaque message type altered on the way in", "errbase/decode.go", `\t\tmessageType: MessageType\(enc\.MessageType\),\n`, "\t\tmessageType: MessageType(enc.MessageType) & 1,\n", "R-OPAQUE-TRANSPORT"},
	{"C04", "prefix sent with its redaction markers", "errutil/redactable.go", `return l\.prefix\.StripMarkers\(\), l\.SafeDetails\(\), &errorspb\.StringPayload\{Msg: string\(l\.prefix\)\}`, `return string(l.prefix), l.SafeDetails(), &errorspb.StringPayload{Msg: string(l.prefix)}`, "R-WIRE-MSG"},
	{"C06", "single-line fast path skips escaping", "errbase/format_error.go", `// This means entry\.head is unsafe\. We need to escape it\.\n\t\t\ts\.finalBuf\.Write\(\[\]byte\(redact\.EscapeBytes\(entry\.head\)\)\)`, "// This means entry.head is unsafe. We need to escape it.\n\t\t\tif bytes.IndexByte(entry.head, '\\n') < 0 {\n\t\t\t\ts.finalBuf.Write(entry.head)\n\t\t\t} else {\n\t\t\t\ts.finalBuf.Write([]byte(redact.EscapeBytes(entry.head)))\n\t\t\t}", "R-ESC"},
	{"C06", "unsafe head trimmed before escaping", "errbase/format_error.go", `// This means entry\.head is unsafe\. We need to escape it\.\n\t\t\ts\.finalBuf\.Write\(\[\]byte\(redact\.EscapeBytes\(entry\.head\)\)\)`, "// This means entry.head is unsafe. We need to escape it.\n\t\t\ts.finalBuf.Write([]byte(redact.EscapeBytes(bytes.TrimRight(entry.head, \" \"))))", "R-ESC"},
	{"C13", "one-error fast path without a join node", "errutil/utilities.go", `func JoinWithDepth\(depth int, errs \.\.\.error\) error \{\n`, "func JoinWithDepth(depth int, errs ...error) error {\n\tif len(errs) == 1 && errs[0] != nil {\n\t\treturn withstack.WithStackDepth(errs[0], depth+1)\n\t}\n", "R-JOIN-NODE"},
	{"C13", "join node built through a local", "errutil/utilities.go", `\treturn withstack\.WithStackDepth\(join\.Join\(errs\.\.\.\), depth\+1\)\n`, "\tjoined := join.Join(errs...)\n\treturn withstack.WithStackDepth(joined, depth+1)\n", CleanVariant},
	{"C11", "printed stack truncated", "withstack/withstack.go", `fmt\.Sprintf\("%\+v", w\.StackTrace\(\)\)`, `fmt.Sprintf("%+v", w.StackTrace()[:1])`, "R-STACK-WHOLE"},
	{"C11", "safe details truncated on the generic path", "errbase/encode.go", `details\.ReportablePayload = s\.SafeDetails\(\)(.*?)details\.ReportablePayload = s\.SafeDetails\(\)`, "details.ReportablePayload = s.SafeDetails()[:0]${1}details.ReportablePayload = s.SafeDetails()", "R-GENERIC-PATH"},
	{"C11", "no decoder for the forwarded errno", "errbase/adapters.go", `\tRegisterLeafDecoder\(GetTypeKey\(&OpaqueErrno\{\}\), decodeOpaqueErrno\)\n`, "", "R-PAYLOAD-DECODER"},
	{"C12", "issue link skipped when it has no URL", "issuelink/issuelink.go", `\treturn &withIssueLink\{cause: err, IssueLink: issue\}`, "\tif issue.IssueURL == \"\" {\n\t\treturn err\n\t}\n\treturn &withIssueLink{cause: err, IssueLink: issue}", "R-ALWAYS-WRAPS"},
	{"C15", "path cut only for a positive index", "report/report.go", `if i := strings\.LastIndexByte\(tn, '/'\); i >= 0 \{`, `if i := strings.LastIndexByte(tn, '/'); i > 0 {`, "R-INDEX-FOUND"},
	{"C15", "found test spelled != -1", "report/report.go", `if i := strings\.LastIndexByte\(tn, '/'\); i >= 0 \{`, `if i := strings.LastIndexByte(tn, '/'); i != -1 {`, CleanVariant},
	{"C17", "previous type name not written down", "errbase/oserror_go116.go", `func registerOsPathErrorMigration\(\) \{\n(.*?)RegisterTypeMigration\("os", "\*os\.PathError", &fs\.PathError\{\}\)`, "var prevPathErrName = \"*os.PathError\"\n\nfunc registerOsPathErrorMigration() {\n${1}RegisterTypeMigration(\"os\", prevPathErrName, &fs.PathError{})", "R-MIGRATION"},
	{"C20", "context status returned instead of the handler's error", "grpc/middleware/server.go", `\tst, ok := status\.FromError\(err\)\n`, "\tif ctx.Err() != nil {\n\t\treturn resp, status.New(codes.Canceled, \"canceled\").Err()\n\t}\n\tst, ok := status.FromError(err)\n", "R-GRPC-FLOW"},
	{"C20", "OK code no longer replaced", "grpc/middleware/server.go", `\t\tif code == codes\.OK \{\n(.*?)\n\t\t\tcode = codes\.Unknown\n\t\t\}\n`, "\t\t_ = codes.OK\n", "R-GRPC-FLOW"},
	{"C19", "format stored verbatim without arguments", "hintdetail/hintdetail.go", `\treturn &withHint\{cause: err, hint: fmt\.Sprintf\(format, args\.\.\.\)\}`, "\tif len(args) == 0 {\n\t\treturn &withHint{cause: err, hint: format}\n\t}\n\treturn &withHint{cause: err, hint: fmt.Sprintf(format, args...)}", "R-FORMAT-STORED"},
	{"C01", "barrier decoder ignores the wire message", "barriers/barriers.go", `return &barrierErr\{smsg: redact\.RedactableString\(msg\), maskedErr: errbase\.DecodeError\(ctx, \*enc\), receivedDetails: details\}`, "masked := errbase.DecodeError(ctx, *enc)\n\treturn &barrierErr{smsg: redact.Sprint(masked), maskedErr: masked, receivedDetails: details}", "R-CODEC"},
	{"C05", "opaque multi-cause leaf handed to a registered encoder", "errbase/encode.go", `\t\} else if e, ok := err\.\(\*opaqueLeafCauses\); ok \{\n\t\tmsg = e\.msg\n\t\tdetails = e\.details\n`, "", "R-OPAQUE-TRANSPORT"},
	{"C10", "As looks into branches of the outermost error only", "errutil/as.go", `errbase\.UnwrapMulti\(c\)`, `errbase.UnwrapMulti(err)`, "R-WALK-MULTI"},
	// round 3
	{"C08", "type-name keyed memo of the full type name", "errbase/encode.go", `func getFullTypeName\(err error\) string \{\n\tt := reflect\.TypeOf\(err\)\n\tpkgPath := getPkgPath\(t\)\n\treturn makeTypeKey\(pkgPath, t\.String\(\)\)\n\}`, "var fullTypeNamesMemo = map[string]string{}\n\nfunc getFullTypeName(err error) string {\n\tt := reflect.TypeOf(err)\n\tname := t.String()\n\tif v, ok := fullTypeNamesMemo[name]; ok {\n\t\treturn v\n\t}\n\tfull := makeTypeKey(getPkgPath(t), name)\n\tfullTypeNamesMemo[name] = full\n\treturn full\n}", "R-MEMO"},
	{"C08", "memo keyed by the reflect.Type itself", "errbase/encode.go", `func getFullTypeName\(err error\) string \{\n\tt := reflect\.TypeOf\(err\)\n\tpkgPath := getPkgPath\(t\)\n\treturn makeTypeKey\(pkgPath, t\.String\(\)\)\n\}`, "var fullTypeNamesMemo = map[reflect.Type]string{}\n\nfunc getFullTypeName(err error) string {\n\tt := reflect.TypeOf(err)\n\tif v, ok := fullTypeNamesMemo[t]; ok {\n\t\treturn v\n\t}\n\tfull := makeTypeKey(getPkgPath(t), t.String())\n\tfullTypeNamesMemo[t] = full\n\treturn full\n}", CleanVariant},
	{"C08", "Mark skipped when already equivalent", "markers/markers.go", `\trefMark := getMark\(reference\)\n\treturn &withMark`, "\tif Is(err, reference) {\n\t\treturn err\n\t}\n\trefMark := getMark(reference)\n\treturn &withMark", "R-ALWAYS-WRAPS"},
	{"C08", "IsAny takes the mark of the root at every depth", "markers/markers.go", `\t\terrMark := getMark\(c\)\n\t\tfor _, refMark := range refMarks`, "\t\terrMark := getMark(err)\n\t\tfor _, refMark := range refMarks", "R-WALK-CURRENT"},
	{"C07", "CombineErrors drops an equivalent secondary error", "secondary/secondary.go", `\treturn WithSecondaryError\(err, otherErr\)\n`, "\tif err.Error() == otherErr.Error() {\n\t\treturn err\n\t}\n\treturn WithSecondaryError(err, otherErr)\n", "R-SECONDARY-ATTACH"},
	{"C07", "CombineErrors spelled with a switch", "secondary/secondary.go", `\tif err == nil \{\n\t\treturn otherErr\n\t\}\n\treturn WithSecondaryError\(err, otherErr\)\n`, "\tswitch {\n\tcase err == nil:\n\t\treturn otherErr\n\tdefault:\n\t\treturn WithSecondaryError(err, otherErr)\n\t}\n", CleanVariant},
	{"C05", "payload kept after a failed unmarshal", "errbase/decode.go", `warningFn\(ctx, "error while unmarshalling error: %\+v", err\)\n\t\t\} else \{\n\t\t\tpayload = d\.Message\n\t\t\}`, "warningFn(ctx, \"error while unmarshalling error: %+v\", err)\n\t\t}\n\t\tpayload = d.Message", "R-UNMARSHAL-OK"},
	{"C05", "unmarshal success tested positively", "errbase/decode.go", `\t\tif err != nil \{\n\t\t\t// It's OK if we can't decode\. We'll use\n\t\t\t// the opaque type below\.\n\t\t\twarningFn\(ctx, "error while unmarshalling error: %\+v", err\)\n\t\t\} else \{\n\t\t\tpayload = d\.Message\n\t\t\}`, "\t\tif err == nil {\n\t\t\tpayload = d.Message\n\t\t} else {\n\t\t\twarningFn(ctx, \"error while unmarshalling error: %+v\", err)\n\t\t}", CleanVariant},
	{"C04", "link error paths swapped in the wire message", "errbase/adapters.go", `msg := p\.Op \+ " " \+ p\.Old \+ " " \+ p\.New`, `msg := p.Op + " " + p.New + " " + p.Old`, "R-WIRE-MSG"},
	{"C04", "path error message built with Sprintf-free concat in two steps", "errbase/adapters.go", `msg := p\.Op \+ " " \+ p\.Path\n`, "msg := p.Op + \" \"\n\tmsg += p.Path\n", CleanVariant},
	{"C12", "one variable aliased by every encoded branch", "errbase/encode.go", `\t\tfor i, ee := range causes \{\n\t\t\tee := EncodeError\(ctx, ee\)\n\t\t\tcs\[i\] = &ee\n\t\t\}`, "\t\tvar enc EncodedError\n\t\tfor i, ee := range causes {\n\t\t\tenc = EncodeError(ctx, ee)\n\t\t\tcs[i] = &enc\n\t\t}", "R-LOOP-ALIAS"},
	{"C13", "one variable aliased by every encoded branch", "errbase/encode.go", `\t\tfor i, ee := range causes \{\n\t\t\tee := EncodeError\(ctx, ee\)\n\t\t\tcs\[i\] = &ee\n\t\t\}`, "\t\tvar enc EncodedError\n\t\tfor i, ee := range causes {\n\t\t\tenc = EncodeError(ctx, ee)\n\t\t\tcs[i] = &enc\n\t\t}", "R-LOOP-ALIAS"},
	{"C13", "branches encoded through a fresh pointer per iteration", "errbase/encode.go", `\t\tfor i, ee := range causes \{\n\t\t\tee := EncodeError\(ctx, ee\)\n\t\t\tcs\[i\] = &ee\n\t\t\}`, "\t\tfor i := range causes {\n\t\t\tenc := new(EncodedError)\n\t\t\t*enc = EncodeError(ctx, causes[i])\n\t\t\tcs[i] = enc\n\t\t}", CleanVariant},
	{"C12", "standard library identity for the safe sentinels", "errutil/format_error_special.go", `(import \(\n\t"context"\n)(.*?)markers\.Is\(err, ref\)`, "${1}\tstderrors \"errors\"\n${2}(stderrors.Is(err, ref) || false && markers.Is(err, ref))", "R-STD-IDENTITY"},
	{"C19", "tags walked with the standard library's Unwrap", "contexttags/contexttags.go", `(import \(\n\t"context"\n)(.*?)for e := err; e != nil; e = errbase\.UnwrapOnce\(e\) \{`, "${1}\tstderrors \"errors\"\n${2}for e := err; e != nil; e = stderrors.Unwrap(e) {\n\t\t_ = errbase.UnwrapOnce", "R-STD-IDENTITY"},
	{"C10", "wire prefix used as a format by the pkg/errors decoder", "errbase/adapters.go", `return pkgErr\.WithMessage\(cause, msgPrefix\)`, `return pkgErr.WithMessagef(cause, msgPrefix)`, "R-FORMAT-ARG"},
	{"C01", "wire prefix used as a format by the pkg/errors decoder", "errbase/adapters.go", `return pkgErr\.WithMessage\(cause, msgPrefix\)`, `return pkgErr.WithMessagef(cause, msgPrefix)`, "R-FORMAT-ARG"},
	{"C06", "legacy barrier decoder trusts the plain message as redactable", "barriers/barriers.go", `func decodeBarrierPrev\(ctx context\.Context, msg string, details \[\]string, payload proto\.Message\) error \{\n.*?\n\}\n`, "func decodeBarrierPrev(ctx context.Context, msg string, details []string, payload proto.Message) error {\n\treturn decodeBarrier(ctx, msg, details, payload)\n}\n", "R-TAINT/redactable"},
	{"C03", "own text declared safe on an Is match alone", "errutil/format_error_special.go", `if markers\.Is\(err, ref\) && err\.Error\(\) == ref\.Error\(\) \{\n\t\t\t\tp\.Print\(redact\.Safe\(ref\.Error\(\)\)\)`, "if markers.Is(err, ref) {\n\t\t\t\tp.Print(redact.Safe(err.Error()))", "R-SPECIAL-LEAF"},
	{"C03", "own text declared safe after comparing it with the sentinel's", "errutil/format_error_special.go", `p\.Print\(redact\.Safe\(ref\.Error\(\)\)\)`, `p.Print(redact.Safe(err.Error()))`, CleanVariant},
	{"C20", "code invented for uncoded errors", "extgrpc/ext_grpc.go", `\treturn codes\.Unknown\n\}\n\n// it's an error\.`, "\treturn codes.Code(uint32(len(err.Error())) % 17)\n}\n\n// it's an error.", "R-CODE-GETTER"},
	{"C11", "HTTP default replaced", "exthttp/ext_http.go", `\treturn defaultCode\n`, "\treturn 500\n", "R-CODE-GETTER"},
	{"C20", "decoded error ignored", "grpc/middleware/client.go", `if reconstituted != nil \{\n\t\terr = reconstituted\n\t\}`, "if reconstituted != nil {\n\t\t_ = reconstituted\n\t}", "R-GRPC-FLOW"},
	// controls made in the refactored shape of the code (ControlBases): the rule must still decide after the refactoring
	{"C13", "refactored T04-4: plain opaque leaf for up to one cause", "errbase/decode.go", `func decodeOpaqueLeaf\(ctx context\.Context, enc \*errorspb\.EncodedErrorLeaf\) error \{\n\tif len\(enc\.MultierrorCauses\) == 0 \{`, "func decodeOpaqueLeaf(ctx context.Context, enc *errorspb.EncodedErrorLeaf) error {\n\tif len(enc.MultierrorCauses) <= 1 {", "R-TREE-RECURSION"},
	{"C01", "refactored T04-4: opaque helper keeps a constant message", "errbase/decode.go", `opaqueLeaf: opaqueLeaf\{\n\t\t\tmsg:     enc\.Message,`, "opaqueLeaf: opaqueLeaf{\n\t\t\tmsg:     \"multi-cause error\",", "R-OPAQUE-TRANSPORT"},
	{"C03", "refactored T10-1: helper trusts Is alone", "errutil/format_error_special.go", `if markers\.Is\(err, ref\) && err\.Error\(\) == ref\.Error\(\) \{\n\t\t\tp\.Print\(redact\.Safe\(ref\.Error\(\)\)\)`, "if markers.Is(err, ref) {\n\t\t\tp.Print(redact.Safe(err.Error()))", "R-SPECIAL-LEAF"},
	{"C20", "refactored T06-1: pass-through rebuilt from the status", "grpc/middleware/client.go", `\t\treturn decoded\n\t\}\n\treturn err\n`, "\t\treturn decoded\n\t}\n\treturn status.Convert(err).Err()\n", "R-GRPC-FLOW"},
	{"C20", "refactored T06-1: helper keeps the first decoded error only when it has a text", "grpc/middleware/client.go", `\t\t\tdecoded = errors\.DecodeError\(ctx, \*enc\)\n`, "\t\t\tif d := errors.DecodeError(ctx, *enc); d.Error() != \"\" {\n\t\t\t\tdecoded = d\n\t\t\t}\n", "R-GRPC-FLOW"},
	{"C15", "refactored T03-1: synthetic exception filed under the type name", "report/report.go", `syntheticException\(module, leafErrorType, firstDetailLine\)\)`, "syntheticException(leafErrorType, leafErrorType, firstDetailLine))", "R-REPORT-SHAPE"},
	{"C07", "refactored T07-3: attaching helper skipped when %w is used", "errutil/utilities.go", `\terr = withSecondaryErrors\(err, errRefs\)\n\terr = withstack\.WithStackDepth\(err, 1\+depth\)`, "\tif wrappedErr == nil {\n\t\terr = withSecondaryErrors(err, errRefs)\n\t}\n\terr = withstack.WithStackDepth(err, 1+depth)", "R-ERRREFS"},
	{"C20", "refactored T06-3: explicit walk jumps to the root cause", "extgrpc/ext_grpc.go", `c = errbase\.UnwrapOnce\(c\) \{`, "c = errbase.UnwrapAll(c) {", "R-CODE-GETTER"},
	{"C13", "refactored T07-1: join keeps the caller's slice", "join/join.go", `return &joinError\{errs: nonNil\}`, "return &joinError{errs: append(errs[:0], nonNil...)}", "R-OWNED-BRANCHES"},
	{"C06", "refactored T01-4: zero precision ignored in the early-return form", "errbase/format_error.go", `hasWidthOrPrecision := \(okW && width > 0\) \|\| okP\n`, "hasWidthOrPrecision := (okW && width > 0) || (okP && width > 0)\n", "R-VERB-DISPATCH"},
	{"C13", "refactored T07-4: one-error shortcut next to the nil shortcut", "errutil/utilities.go", `\tif joined == nil \{\n\t\t// No non-nil error: nothing to decorate\.\n\t\treturn nil\n\t\}\n`, "\tif joined == nil {\n\t\treturn nil\n\t}\n\tif len(errs) == 1 {\n\t\treturn withstack.WithStackDepth(errs[0], depth+1)\n\t}\n", "R-JOIN-NODE"},
	{"C09", "refactored U10-1: link operands swapped at the shared helper's call", "errutil/format_error_special.go", `printOSOperation\(p, v\.Op, v\.Old, v\.New\)`, "printOSOperation(p, v.Op, v.New, v.Old)", "R-SPECIAL-TEXT"},
	{"C09", "refactored U10-1: shared helper separates operands with a colon", "errutil/format_error_special.go", `format \+= " %s"`, `format += ":%s"`, "R-SPECIAL-TEXT"},
	{"C03", "refactored U01-1: leaf predicate hoisted without the multi-cause conjunct", "errbase/format_error.go", `isLeaf := cause == nil && len\(causes\) == 0`, "isLeaf := cause == nil", "R-SPECIAL-LEAF"},
	{"C01", "refactored U04-3: wrapper payload decoded only when it has bytes", "errbase/decode.go", `\tpayload := decodePayload\(ctx, enc\.Details\.FullDetails,\n\t\t"error while unmarshalling wrapper error: %\+v"\)\n`, "\tvar payload proto.Message\n\tif enc.Details.FullDetails != nil && len(enc.Details.FullDetails.Value) > 0 {\n\t\tpayload = decodePayload(ctx, enc.Details.FullDetails,\n\t\t\t\"error while unmarshalling wrapper error: %+v\")\n\t}\n", "R-SIBLING-GUARD"},
	{"C20", "refactored U06-4: transport-code helper lets OK through", "grpc/middleware/server.go", `code != codes\.OK \{\n\t\treturn code`, "code != codes.Unknown {\n\t\treturn code", "R-GRPC-FLOW"},
	{"C19", "refactored U09-4: appending helper keeps empty hints", "hintdetail/hintdetail.go", `\tif hint == "" \{\n\t\treturn hints\n\t\}\n`, "", "R-DEDUP"},
	{"C17", "refactored U04-2: shared helper keys the registries by the original name", "errbase/encode.go", `return details, TypeKey\(details\.ErrorTypeMark\.FamilyName\)`, "return details, TypeKey(details.OriginalTypeName)", "R-REGISTRY-KEY"},
	{"C11", "refactored U08-2: split helper cuts at the first colon", "withstack/reportable.go", `lineSep := strings\.LastIndexByte\(fileLine, ':'\)`, "lineSep := strings.IndexByte(fileLine, ':')", "R-STACK-PARSE"},
	{"C05", "refactored U02-3: payload helper accepts an empty mark", "markers/markers.go", `\tif len\(m\.Types\) == 0 \{\n[^}]*?\n\t\treturn errorMark\{\}, false\n\t\}\n`, "", "R-BOUNDS"},
	{"C10", "refactored U07-2: formatting helper skipped without arguments", "errutil/utilities.go", `\terr := newFormattedError\(format, args\)\n`, "\tvar err error = &leafError{redact.Sprint(redact.Safe(format))}\n\tif len(args) > 0 {\n\t\terr = newFormattedError(format, args)\n\t}\n", "R-FMT-PATH"},
	{"C11", "refactored U08-3: extracted helper builds the frames itself", "withstack/reportable.go", `\t\treturn parsePrintedStack\(details\[0\]\)\n\t\}\n\treturn nil\n\}`, "\t\treturn &ReportableStackTrace{}\n\t}\n\treturn nil\n}", "R-ONE-PARSER"},
	{"C11", "refactored U04-2: generic-path helper escapes the safe details", "errbase/encode.go", `\t\treturn s\.SafeDetails\(\)\n\t\}\n\treturn nil\n\}`, "\t\treturn append([]string(nil), s.SafeDetails()...)[:0]\n\t}\n\treturn nil\n}", "R-GENERIC-PATH"},
	// round 6
	{"C09", "formatter wrapper ignores the ownership answer", "errbase/format_error.go", `if elideCauseMsg := s\.formatSimple\(err, cause\); elideCauseMsg \{`, "if elideCauseMsg := s.formatSimple(err, cause); !elideCauseMsg {", "R-ELIDE"},
	{"C01", "special-case ownership answer dropped", "errbase/format_error.go", `\t\t\t\tif desiredShortening == nil \{\n\t\t\t\t\t// The error wants to elide the short messages from inner\n\t\t\t\t\t// causes\. Do it\.\n\t\t\t\t\ts\.elideShortChildren\(numChildren\)\n\t\t\t\t\}\n`, "\t\t\t\t_ = desiredShortening\n", "R-ELIDE"},
	{"C04", "empty unknown wrapper collapses into its cause", "errbase/decode.go", `\t// Otherwise, preserve all details about the original object\.\n`, "\tif enc.Message == \"\" && len(enc.Details.ReportablePayload) == 0 {\n\t\treturn cause\n\t}\n\t// Otherwise, preserve all details about the original object.\n", "R-DECODE-RESULT"},
	{"C02", "mark decoder declines an empty message", "markers/markers.go", `if !ok \|\| len\(m\.Types\) == 0 \{`, `if !ok || m.Msg == "" || len(m.Types) == 0 {`, "R-DECLINE"},
	{"C11", "telemetry keys sent joined on one line", "telemetrykeys/with_telemetry.go", `func \(w \*withTelemetry\) SafeDetails\(\) \[\]string \{ return w\.keys \}`, `func (w *withTelemetry) SafeDetails() []string { return []string{strings.Join(w.keys, " ")} }`, "R-LIST-ROUNDTRIP"},
	{"C11", "telemetry keys sent as a defensive copy", "telemetrykeys/with_telemetry.go", `func \(w \*withTelemetry\) SafeDetails\(\) \[\]string \{ return w\.keys \}`, `func (w *withTelemetry) SafeDetails() []string { return append([]string(nil), w.keys...) }`, CleanVariant},
	{"C10", "barrier built by a helper returning a nil pointer", "barriers/barriers.go", `func HandledWithSafeMessage\(err error, msg redact\.RedactableString\) error \{\n\tif err == nil \{\n\t\treturn nil\n\t\}\n\treturn &barrierErr\{maskedErr: err, smsg: msg\}\n\}`, "func HandledWithSafeMessage(err error, msg redact.RedactableString) error {\n\treturn newBarrier(err, msg)\n}\n\nfunc newBarrier(err error, msg redact.RedactableString) *barrierErr {\n\tif err == nil {\n\t\treturn nil\n\t}\n\treturn &barrierErr{maskedErr: err, smsg: msg}\n}", "R-BOXED-NIL"},
	{"C15", "frames appended only for resolved entries", "withstack/reportable.go", `\t\t\tframe\.Module, frame\.Function = functionName\(fnName\)\n\t\t\}\n\t\tframes = append\(frames, frame\)\n`, "\t\t\tframe.Module, frame.Function = functionName(fnName)\n\t\t\tframes = append(frames, frame)\n\t\t}\n", "R-FRAME-PER-ENTRY"},
	{"C19", "unimplemented leaf counts only with a non-empty link", "issuelink/issuelink.go", `case \*unimplementedError:\n\t\treturn w\.IssueLink, true`, "case *unimplementedError:\n\t\treturn w.IssueLink, w.IssueLink != (IssueLink{})", "R-LAYER-GETTER"},
	{"C18", "package-level sentinel table handed out", "errutil/format_error_special.go", `var safeLeafSentinels = \[\]error\{`, "// SafeLeafSentinels lists the sentinels whose text is printed as safe.\nfunc SafeLeafSentinels() []error { return safeLeafSentinels }\n\nvar safeLeafSentinels = []error{", "R-GLOBAL-ALIAS"},
	{"C14", "As remembers explored branches in a map keyed by the error", "errutil/as.go", `\t\tfor _, cause := range errbase\.UnwrapMulti\(c\) \{\n\t\t\tif As\(cause, target\) \{\n\t\t\t\treturn true\n\t\t\t\}\n\t\t\}`, "\t\tvar explored map[error]struct{}\n\t\tfor _, cause := range errbase.UnwrapMulti(c) {\n\t\t\tif _, ok := explored[cause]; ok {\n\t\t\t\tcontinue\n\t\t\t}\n\t\t\tif As(cause, target) {\n\t\t\t\treturn true\n\t\t\t}\n\t\t\tif explored == nil {\n\t\t\t\texplored = make(map[error]struct{})\n\t\t\t}\n\t\t\texplored[cause] = struct{}{}\n\t\t}", "R-CMP-GUARD"},
	{"C14", "Is looks into branches at the end of the chain only", "markers/markers.go", `(\tfor c := err; c != nil; c = errbase\.UnwrapOnce\(c\) \{\n\t\tif isComparable && c == reference \{.*?)\n\t\t// Recursively try multi-error causes, if applicable\.\n\t\tfor _, me := range errbase\.UnwrapMulti\(c\) \{\n\t\t\tif Is\(me, reference\) \{\n\t\t\t\treturn true\n\t\t\t\}\n\t\t\}\n\t\}\n`, "\tvar last error\n$1\n\t\tlast = c\n\t}\n\tfor _, me := range errbase.UnwrapMulti(last) {\n\t\tif Is(me, reference) {\n\t\t\treturn true\n\t\t}\n\t}\n", "R-WALK-MULTI"},
	{"C07", "hidden error rendered to text before printing", "barriers/barriers.go", `p\.Printf\("-- cause hidden behind barrier\\n%\+v", e\.maskedErr\)`, "p.Printf(\"-- cause hidden behind barrier\\n%s\", redact.Sprintf(\"%+v\", e.maskedErr).StripMarkers())", "R-DETAIL-PRINT"},
	{"C20", "code decoder declines the zero code", "extgrpc/ext_grpc.go", `wp, ok := payload\.\(\*EncodedGrpcCode\)\n\tif !ok \{`, "wp, ok := payload.(*EncodedGrpcCode)\n\tif !ok || wp.Code == 0 {", "R-DECLINE"},
	{"C09", "empty lines written as an empty separator outside the verbose mode", "errbase/format_error.go", `emptyLine := sep\n\t\t\t\tif s\.wantDetail \{\n\t\t\t\t\temptyLine = detailSep\[:len\(detailSep\)-1\]\n\t\t\t\t\}`, "emptyLine := detailSep[:len(sep)-1]", "R-WRITE-FAITHFUL"},
	{"C07", "empty lines collapse in a barrier's message", "errbase/format_error.go", `emptyLine := sep\n\t\t\t\tif s\.wantDetail \{\n\t\t\t\t\temptyLine = detailSep\[:len\(detailSep\)-1\]\n\t\t\t\t\}`, "emptyLine := detailSep[:len(sep)-1]", "R-WRITE-FAITHFUL"},
	// round 7
	{"C04", "decoder fills a default into the received message", "errbase/decode.go", `\t// Do we have a wrapper decoder for this\?\n`, "\tif enc.Details.ErrorTypeMark.FamilyName == \"\" {\n\t\tenc.Details.ErrorTypeMark.FamilyName = enc.Details.OriginalTypeName\n\t}\n\t// Do we have a wrapper decoder for this?\n", "R-DECODE-READONLY"},
	{"C05", "multi-cause registry keeps a nil decoder", "errbase/decode.go", `func RegisterMultiCauseDecoder\(theType TypeKey, decoder MultiCauseDecoder\) \{\n\tif decoder == nil \{\n\t\tdelete\(multiCauseDecoders, theType\)\n\t\} else \{\n\t\tmultiCauseDecoders\[theType\] = decoder\n\t\}\n\}`, "func RegisterMultiCauseDecoder(theType TypeKey, decoder MultiCauseDecoder) {\n\tmultiCauseDecoders[theType] = decoder\n}", "R-REGISTRY-NONNIL"},
	{"C08", "domain marker truncated", "domains/with_domain.go", `func \(e \*withDomain\) ErrorKeyMarker\(\) string \{ return string\(e\.domain\) \}`, "func (e *withDomain) ErrorKeyMarker() string {\n\td := string(e.domain)\n\tif len(d) > 40 {\n\t\td = d[:40]\n\t}\n\treturn d\n}", "R-KEY-MARKER"},
	{"C12", "safe details skipped for an empty format alone", "safedetails/safedetails.go", `if len\(format\) == 0 && len\(args\) == 0 \{`, "if len(format) == 0 {", "R-PASSTHROUGH-GUARD"},
	{"C13", "nested joins spliced into the new node", "join/join.go", `\t\t\te\.errs = append\(e\.errs, err\)\n`, "\t\t\tif j, ok := err.(*joinError); ok {\n\t\t\t\te.errs = append(e.errs, j.errs...)\n\t\t\t} else {\n\t\t\t\te.errs = append(e.errs, err)\n\t\t\t}\n", "R-JOIN-ELEMENTS"},
	{"C14", "UnwrapMulti only for errors without a single cause", "errbase/unwrap.go", `if me, ok := err\.\(interface\{ Unwrap\(\) \[\]error \}\); ok \{`, "if me, ok := err.(interface{ Unwrap() []error }); ok && UnwrapOnce(err) == nil {", "R-MULTI-UNCOND"},
	{"C15", "GetDomain jumps to the root cause", "domains/domains.go", `if c := errbase\.UnwrapOnce\(err\); c != nil \{\n\t\t\terr = c`, "if c := errbase.UnwrapAll(err); c != nil && c != err {\n\t\t\terr = c", "R-DOMAIN-GETTER"},
	{"C17", "type key built from a trimmed type name", "errbase/encode.go", `return makeTypeKey\(pkgPath, t\.String\(\)\)`, "return makeTypeKey(pkgPath, strings.TrimSuffix(t.String(), \" \"))", "R-TYPENAME-RAW"},
	{"C18", "package-level As target in an OS predicate", "oserror/oserror.go", `\tif o := \(\*errbase\.OpaqueErrno\)\(nil\); errors\.As\(err, &o\) \{\n\t\treturn o\.Is\(ErrPermission\)\n\t\}\n\treturn false\n\}`, "\tif errors.As(err, &sharedOpaqueErrno) {\n\t\treturn sharedOpaqueErrno.Is(ErrPermission)\n\t}\n\treturn false\n}\n\nvar sharedOpaqueErrno *errbase.OpaqueErrno", "R-GLOBAL-ADDR"},
	{"C04", "forwarded barrier recomputes its safe details", "barriers/barriers.go", `\tdetails = e\.receivedDetails\n\tif details == nil \{\n\t\tdetails = e\.SafeDetails\(\)\n\t\}\n`, "\tdetails = e.SafeDetails()\n", "R-REENCODE-STABLE"},
	{"C04", "secondary-error encoder sends recomputed safe details", "secondary/with_secondary.go", `return "", nil, &enc`, `return "", e.SafeDetails(), &enc`, "R-REENCODE-STABLE"},
	{"C09", "hint printed only above another layer", "hintdetail/with_hint.go", `\tif p\.Detail\(\) \{\n\t\tp\.Print\(w\.hint\)`, "\tif p.Detail() && errbase.UnwrapOnce(w.cause) != nil {\n\t\tp.Print(w.hint)", "R-DETAIL-PRINT"},
	{"C11", "pkg/errors stack layer sends at most 32 frames", "errbase/adapters.go", `\tsafeDetails := \[\]string\{fmt\.Sprintf\("%\+v", iErr\.StackTrace\(\)\)\}\n\treturn "" /\* withStack`, "\tst := iErr.StackTrace()\n\tif len(st) > 32 {\n\t\tst = st[:32]\n\t}\n\tsafeDetails := []string{fmt.Sprintf(\"%+v\", st)}\n\treturn \"\" /* withStack", "R-STACK-WHOLE"},
	{"C11", "OS predicate compares the sentinel by identity", "oserror/oserror.go", `if errors\.Is\(err, ErrExist\) \|\| os\.IsExist`, "if errors.UnwrapAll(err) == ErrExist || os.IsExist", "R-OS-PREDICATE"},
	{"C09", "multi-cause Formatter keeps its branches' texts", "errbase/format_error.go", `\t\tif len\(causes\) > 0 \{\n\t\t\ts\.elideShortChildren\(numChildren\)\n\t\t\}\n\n\tdefault:`, "\n\tdefault:", "R-ELIDE"},
	// round 8
	{"C07", "empty replacement message falls back to the message-keeping barrier", "domains/domains.go", `func HandledInDomainWithMessage\(err error, domain Domain, msg string\) error \{\n`, "func HandledInDomainWithMessage(err error, domain Domain, msg string) error {\n\tif msg == \"\" {\n\t\treturn HandledInDomain(err, domain)\n\t}\n", "R-ARG-USED"},
	{"C06", "Formattable hands out errors that format themselves", "errbase/format_error.go", `func Formattable\(err error\) fmt\.Formatter \{\n`, "func Formattable(err error) fmt.Formatter {\n\tif f, ok := err.(fmt.Formatter); ok {\n\t\tif _, isSafe := err.(SafeFormatter); isSafe {\n\t\t\treturn f\n\t\t}\n\t}\n", "R-FORMATTABLE"},
	{"C05", "status decoder asserts the result of a declining decoder", "extgrpc/ext_grpc.go", `return grpcstatus\.Convert\(decodeGoGoStatus\(ctx, msg, details, payload\)\)\.Err\(\)`, "return decodeGoGoStatus(ctx, msg, details, payload).(interface{ GRPCStatus() *grpcstatus.Status }).GRPCStatus().Err()", "R-ASSERT-NIL"},
	{"C02", "generic leaf message sanitised before it travels", "errbase/encode.go", `\t\t\tmsg = err\.Error\(\)\n`, "\t\t\tmsg = strings.ToValidUTF8(err.Error(), \"?\")\n", "R-GENERIC-MSG"},
	{"C13", "join keeps only arguments with a text", "join/join.go", `\t\tif err != nil \{\n\t\t\te\.errs = append\(e\.errs, err\)`, "\t\tif err != nil && err.Error() != \"\" {\n\t\t\te.errs = append(e.errs, err)", "R-JOIN-FILTER"},
	{"C15", "report visitor skips empty multi-cause nodes", "report/report.go", `func visitAllMulti\(err error, f func\(error\)\) \{\n\tf\(err\)`, "func visitAllMulti(err error, f func(error)) {\n\tif _, isMulti := err.(interface{ Unwrap() []error }); isMulti && len(errbase.UnwrapMulti(err)) == 0 {\n\t\treturn\n\t}\n\tf(err)", "R-VISIT-ALL"},
	{"C03", "report tagged with the error text", "report/report.go", `\tfor key, value := range tags \{`, "\ttags[\"message\"] = err.Error()\n\tfor key, value := range tags {", "R-TAINT"},
	// round 9
	{"C20", "status message sanitised with an invalid replacement", "grpc/middleware/server.go", `strings\.ToValidUTF8\(err\.Error\(\), "\\uFFFD"\)`, `strings.ToValidUTF8(err.Error(), "\xff")`, "R-GRPC-FLOW"},
	{"C20", "status message trimmed instead of sanitised", "grpc/middleware/server.go", `strings\.ToValidUTF8\(err\.Error\(\), "\\uFFFD"\)`, `strings.TrimSpace(err.Error())`, "R-GRPC-FLOW"},
	{"C20", "client looks at the first detail only", "grpc/middleware/client.go", `for _, det := range st\.Details\(\) \{`, `for _, det := range st.Details()[:1] {`, "R-GRPC-FLOW"},
	{"C06", "redactable-mode printer writes with plain fmt", "errbase/format_error.go", `redact\.Fprint\(\(\*state\)\(s\), args\.\.\.\)`, `fmt.Fprint((*state)(s), args...)`, "R-SAFE-SINK"},
	{"C03", "redactable-mode Printf writes with plain fmt", "errbase/format_error.go", `redact\.Fprintf\(\(\*state\)\(s\), format, args\.\.\.\)`, `fmt.Fprintf((*state)(s), format, args...)`, "R-SAFE-SINK"},
	{"C09", "final buffer handed to Fprintf as bytes", "errbase/format_error.go", `fmt\.Fprintf\(p\.State, format, p\.finalBuf\.String\(\)\)`, `fmt.Fprintf(p.State, format, p.finalBuf.Bytes())`, "R-FINISH"},
	{"C09", "final buffer handed to Fprintf through a local string", "errbase/format_error.go", `fmt\.Fprintf\(p\.State, format, p\.finalBuf\.String\(\)\)`, "txt := p.finalBuf.String()\n\t\tfmt.Fprintf(p.State, format, txt)", CleanVariant},
	{"C09", "bad-verb notation re-formatted", "errbase/format_error.go", `\t\tp\.finalBuf\.WriteByte\('\)'\)\n\t\tio\.Copy\(s, &p\.finalBuf\)`, "\t\tp.finalBuf.WriteByte(')')\n\t\tfmt.Fprintf(s, \"%s\", p.finalBuf.String())", "R-FINISH"},
	{"C02", "domain detail written through a formatter", "domains/with_domain.go", `return \[\]string\{string\(e\.domain\)\}`, `return []string{fmt.Sprint(string(e.domain))}`, "R-CODEC"},
	{"C02", "domain detail written through a local", "domains/with_domain.go", `return \[\]string\{string\(e\.domain\)\}`, "d := string(e.domain)\n\treturn []string{d}", CleanVariant},
	{"C18", "stack appended onto the error's own safe details", "errbase/safe_details.go", `\t\treturn sd\.SafeDetails\(\)\n`, "\t\treturn append(sd.SafeDetails(), \"-\")\n", "R-EFFECT"},
	{"C19", "key-only tags skipped by the string test", "contexttags/contexttags.go", `\t\tif v == nil \{\n\t\t\treturn true\n\t\t\}\n\t\tif _, ok := v\.\(string\); !ok \{`, "\t\tif v == nil {\n\t\t\tcontinue\n\t\t}\n\t\tif _, ok := v.(string); !ok {", "R-TAGS-STRINGS"},
	{"C19", "nil test folded into the string test", "contexttags/contexttags.go", `\t\tv := t\.Value\(\)\n\t\tif v == nil \{\n\t\t\treturn true\n\t\t\}\n\t\tif _, ok := v\.\(string\); !ok \{`, "\t\tif _, ok := t.Value().(string); !ok {", CleanVariant},
	{"C07", "first collected error argument becomes the cause", "errutil/utilities.go", `err = &withNewMessage\{cause: wrappedErr, message: redactable\}`, `err = &withNewMessage{cause: errRefs[0], message: redactable}`, "R-ARG-NOT-CAUSE"},
	{"C16", "package domain derived from the caller's function name", "domains/domains.go", `_, f, _, _ := runtime\.Caller\(1 \+ depth\)\n\treturn Domain\("error domain: pkg " \+ filepath\.Dir\(f\)\)`, "pc, _, _, _ := runtime.Caller(1 + depth)\n\treturn Domain(\"error domain: pkg \" + filepath.Dir(runtime.FuncForPC(pc).Name()))", "R-PKG-DOMAIN"},
	{"C19", "join of one error returns it", "join/join.go", `\tif n == 0 \{\n\t\treturn nil\n\t\}\n`, "\tif n == 0 {\n\t\treturn nil\n\t}\n\tif n == 1 {\n\t\tfor _, err := range errs {\n\t\t\tif err != nil {\n\t\t\t\treturn err\n\t\t\t}\n\t\t}\n\t}\n", "R-JOIN-NODE"},
	{"C01", "prefix found by a front search of the text", "errutil/redactable.go", `import \(\n(.*?)return l\.prefix\.StripMarkers\(\), l\.SafeDetails\(\)`, "import (\n\t\"strings\"\n${1}return strings.SplitN(l.Error(), \": \", 2)[0], l.SafeDetails()", "R-PREFIX-CUT"},
	// round 10
	{"C08", "IsAny recurses into nil branches", "markers/markers.go", `if me != nil && IsAny\(me, references\.\.\.\) \{`, `if IsAny(me, references...) {`, "R-ISANY-NIL"},
	{"C05", "wrapper-encoder adapter around a nil function", "errbase/encode.go", `\tif encoder == nil \{\n\t\t// Unregister, like the other Register functions do\.\n\t\tRegisterWrapperEncoderWithMessageType\(theType, nil\)\n\t\treturn\n\t\}\n`, "", "R-REGISTRY-CLOSURE"},
	{"C09", "newlines held back outside the detail mode", "errbase/format_error.go", `\t\t\tif !s\.wantDetail \{\n\t\t\t\t// Outside of the detail mode.*?\t\t\t\tcontinue\n\t\t\t\}\n`, "", "R-WRITE-FAITHFUL"},
	{"C09", "newline pass-through spelled flat", "errbase/format_error.go", `\t\tif c == '\\n' \{\n\t\t\tif !s\.wantDetail \{\n\t\t\t\t// Outside of the detail mode.*?\t\t\t\tcontinue\n\t\t\t\}\n`, "\t\tif c == '\\n' && !s.wantDetail {\n\t\t\ts.multiLine = true\n\t\t\ts.notEmpty = true\n\t\t\tcontinue\n\t\t}\n\t\tif c == '\\n' {\n", CleanVariant},
	{"C12", "plain Formatter probed before SafeFormatter", "errbase/format_error.go", `\tcase SafeFormatter:\n(.*?)\tcase Formatter:\n(.*?)\tcase fmt\.Formatter:`, "\tcase Formatter:\n${2}\tcase SafeFormatter:\n${1}\tcase fmt.Formatter:", "R-FMT-PROBE-ORDER"},
	{"C07", "barrier re-labels an inner barrier instead of nesting", "barriers/barriers.go", `\treturn &barrierErr\{maskedErr: err, smsg: msg\}\n\}\n\n// HandledWithMessagef`, "\tif b, ok := err.(*barrierErr); ok {\n\t\tnb := *b\n\t\tnb.smsg = msg\n\t\treturn &nb\n\t}\n\treturn &barrierErr{maskedErr: err, smsg: msg}\n}\n\n// HandledWithMessagef", "R-BARRIER-FRESH"},
	{"C16", "captured stack trimmed before it is recorded", "withstack/withstack.go", `stack: callers\(depth \+ 1\)\}`, "stack: trimStack(callers(depth + 1))}\n}\n\nfunc trimStack(st *stack) *stack {\n\tif len(*st) > 64 {\n\t\tshort := (*st)[:64]\n\t\treturn &short\n\t}\n\treturn st", "R-STACK-RAW"},
	{"C14", "Is method not asked for a nil receiver", "markers/markers.go", `\tif x, ok := err\.\(interface\{ Is\(error\) bool \}\); ok && x\.Is\(reference\) \{`, "\tif x, ok := err.(interface{ Is(error) bool }); ok && !reflect.ValueOf(err).IsZero() && x.Is(reference) {", "R-IS-DELEGATE"},
	{"C18", "single telemetry layer hands out its own key slice", "telemetrykeys/telemetrykeys.go", `func GetTelemetryKeys\(err error\) \[\]string \{\n`, "func GetTelemetryKeys(err error) []string {\n\tif w, ok := err.(*withTelemetry); ok && errbase.UnwrapOnce(w.cause) == nil {\n\t\treturn w.keys\n\t}\n", "R-RESULT-FRESH"},
	{"C19", "issue links provide details too", "issuelink/issuelink.go", `\n// IssueLink is the payload for a linked issue annotation\.`, "\n// ErrorDetail exposes the detail of the link.\nfunc (l IssueLink) ErrorDetail() string { return l.Detail }\n\n// IssueLink is the payload for a linked issue annotation.", "R-HINT-PROVIDERS"},
	// round 11
	{"C08", "type marks equal on the family name when the extension is empty", "errorspb/markers.go", `return m\.FamilyName == o\.FamilyName && m\.Extension == o\.Extension`, `return m.FamilyName == o.FamilyName && (m.Extension == "" || m.Extension == o.Extension)`, "R-MARK-EQUALS"},
	{"C08", "type marks compared with an early return", "errorspb/markers.go", `return m\.FamilyName == o\.FamilyName && m\.Extension == o\.Extension`, "if m.FamilyName != o.FamilyName {\n\t\treturn false\n\t}\n\treturn m.Extension == o.Extension", CleanVariant},
	{"C12", "stack trace probed before the layer's own safe details", "errbase/safe_details.go", `\tif sd, ok := err\.\(SafeDetailer\); ok \{\n\t\treturn sd\.SafeDetails\(\)\n\t\}\n(.*?)\treturn nil\n\}\n\n// SafeDetailPayload`, "${1}\tif sd, ok := err.(SafeDetailer); ok {\n\t\treturn sd.SafeDetails()\n\t}\n\treturn nil\n}\n\n// SafeDetailPayload", "R-DETAILS-ORDER"},
	// round 12
	{"C15", "reversal stops one pair short", "report/report.go", `i < len\(ex\)/2`, "i < (len(ex)-1)/2", "R-REVERSE"},
	{"C15", "reversal also swaps the middle element with itself", "report/report.go", `i < len\(ex\)/2`, "i < (len(ex)+1)/2", CleanVariant},
	{"C17", "module major version stripped from the package path of live types", "errbase/encode.go", `\tpkgPath := t\.PkgPath\(\)\n\tif pkgPath != "" \{\n\t\treturn pkgPath\n`, "\tpkgPath := t.PkgPath()\n\tif pkgPath != \"\" {\n\t\treturn strings.TrimSuffix(pkgPath, \"/v2\")\n", "R-TYPENAME-RAW"},
	{"C17", "package path computed inline", "errbase/encode.go", `\tpkgPath := getPkgPath\(t\)\n\treturn makeTypeKey\(pkgPath, t\.String\(\)\)`, "\tpkgPath := t.PkgPath()\n\tif pkgPath == \"\" {\n\t\tpkgPath = getPkgPath(t)\n\t}\n\treturn makeTypeKey(pkgPath, t.String())", CleanVariant},
	{"C04", "unknown wrapper's details rebuilt without the mark extension", "errbase/decode.go", `\t\tdetails:     enc\.Details,\n\t\tmessageType: MessageType\(enc\.MessageType\),`, "\t\tdetails: errorspb.EncodedErrorDetails{OriginalTypeName: enc.Details.OriginalTypeName, ErrorTypeMark: errorspb.ErrorTypeMark{FamilyName: enc.Details.ErrorTypeMark.FamilyName}, ReportablePayload: enc.Details.ReportablePayload, FullDetails: enc.Details.FullDetails},\n\t\tmessageType: MessageType(enc.MessageType),", "R-OPAQUE-TRANSPORT"},
	{"C04", "unknown wrapper's details rebuilt member by member, all of them", "errbase/decode.go", `\t\tdetails:     enc\.Details,\n\t\tmessageType: MessageType\(enc\.MessageType\),`, "\t\tdetails: errorspb.EncodedErrorDetails{OriginalTypeName: enc.Details.OriginalTypeName, ErrorTypeMark: enc.Details.ErrorTypeMark, ReportablePayload: enc.Details.ReportablePayload, FullDetails: enc.Details.FullDetails},\n\t\tmessageType: MessageType(enc.MessageType),", CleanVariant},
	{"C03", "redactable output cut to the precision after the markers are placed", "errbase/format_error.go", `\t\tsp\.Print\(redact\.RedactableBytes\(p\.finalBuf\.Bytes\(\)\)\)`, "\t\tout := p.finalBuf.Bytes()\n\t\tif prec, ok := p.Precision(); ok && prec >= 0 && prec < len(out) {\n\t\t\tout = out[:prec]\n\t\t}\n\t\tsp.Print(redact.RedactableBytes(out))", "R-REDACTABLE-OPS"},
	{"C03", "redactable output printed through a local", "errbase/format_error.go", `\t\tsp\.Print\(redact\.RedactableBytes\(p\.finalBuf\.Bytes\(\)\)\)`, "\t\tout := p.finalBuf.Bytes()\n\t\tout = out[:]\n\t\tsp.Print(redact.RedactableBytes(out))", CleanVariant},
	{"C20", "details attached to the status FromError prepared", "grpc/middleware/server.go", `\t\tst = status\.New\(code, strings\.ToValidUTF8\(err\.Error\(\), "\\uFFFD"\)\)\n`, "\t\tif code != codes.Unknown {\n\t\t\tst = status.New(code, strings.ToValidUTF8(err.Error(), \"\\uFFFD\"))\n\t\t}\n", "R-GRPC-FLOW"},
	{"C12", "secondary error's safe details collected from its cause down", "secondary/with_secondary.go", `for err := e\.secondaryError; err != nil`, "for err := errbase.UnwrapOnce(e.secondaryError); err != nil", "R-HIDDEN-DETAILS"},
	{"C07", "masked error's safe details collected up to a cap", "barriers/barriers.go", `\t\tsd := errbase\.GetSafeDetails\(err\)\n\t\tdetails = sd\.Fill\(details\)\n\t\}\n\tdetails = append`, "\t\tsd := errbase.GetSafeDetails(err)\n\t\tdetails = sd.Fill(details)\n\t\tif len(details) > 16 {\n\t\t\tbreak\n\t\t}\n\t}\n\tdetails = append", "R-HIDDEN-DETAILS"},
	{"C12", "secondary error walked from a local", "secondary/with_secondary.go", `for err := e\.secondaryError; err != nil; err = errbase\.UnwrapOnce\(err\) \{`, "cur := e.secondaryError\n\tfor err := cur; err != nil; err = errbase.UnwrapOnce(err) {", CleanVariant},
}
