package rules

import (
	"fmt"
	"go/token"
	"go/types"
	"strings"

	"golang.org/x/tools/go/ssa"

	"verif/checker/internal/absint"
	"verif/checker/internal/core"
	"verif/checker/internal/load"
	"verif/checker/internal/sx"
)

// ---------------------------------------------------------------------------
// R-ARG-USED

var rArgUsed = &Rule{
	Name: "R-ARG-USED",
	Doc: "an annotation constructor uses what it is given: for every exported wrapper constructor (census: the returned error stores the error parameter), under the assumption that the wrapped error is non-nil, every reachable return that is not the documented pass-through of the error itself is data-dependent on EVERY other parameter of the constructor - the message, the format and its arguments, the domain, the code, the keys, the link, the context, the depth. " +
		"A path that returns a wrapper built without one of them (an early return for a particular value - an empty replacement message, say - that falls back to a sibling constructor) silently drops that part of the annotation",
	Run: func(c *core.Ctx) {
		p := c.P
		ev := nilEval(c)
		wmemo := map[string]bool{}
		n := 0
		for _, fn := range publicAPI(p) {
			ei := errorResult(fn)
			if ei < 0 || fn.Blocks == nil {
				continue
			}
			var wrapped []int
			for _, pi := range errorParams(fn) {
				if wrapsParam(p, fn, pi, wmemo, 0) {
					wrapped = append(wrapped, pi)
				}
			}
			if len(wrapped) == 0 {
				continue
			}
			isWrapped := map[int]bool{}
			for _, w := range wrapped {
				isWrapped[w] = true
			}
			args := make([]absint.Nil, len(fn.Params))
			for _, e := range errorParams(fn) {
				args[e] = absint.NonNil
			}
			view := ev.Analyze(fn, args)
			name := load.FnName(fn)
			for _, ret := range sx.Returns(fn) {
				if view != nil && !view.Reachable(ret.Block()) {
					continue
				}
				if ei >= len(ret.Results) {
					continue
				}
				v := ret.Results[ei]
				// the documented pass-through (and a plain nil) carry no annotation at all: R-ALWAYS-WRAPS /
				// R-PASSTHROUGH-GUARD decide those
				if sx.IsNil(v) {
					continue
				}
				if prm, ok := identity(v).(*ssa.Parameter); ok && isWrapped[paramIndex(fn, prm)] {
					continue
				}
				for pi, prm := range fn.Params {
					if isWrapped[pi] {
						continue
					}
					n++
					used := valueUses(v, prm, map[ssa.Value]bool{}, 0)
					if !used && emptyAddsNothing[name][prm.Name()] {
						// the documented 'empty prefix' case: the return sits under the test that this parameter is empty
						for _, l := range dominatingLits(ret.Block()) {
							if zeroTestOf(l, prm) {
								used = true
							}
						}
					}
					c.Check(used, fmt.Sprintf("%s: parameter %s reaches the result", name, prm.Name()), ret.Pos(), "the returned wrapper is computed from the parameter",
						fmt.Sprintf("on the path returning at %s the result does not depend on the parameter %s: that part of the requested annotation is dropped for the inputs that take this path", p.Pos(ret.Pos()), prm.Name()))
				}
			}
		}
		c.Min("(constructor return, parameter) pairs", n, 80)
	},
}

// emptyAddsNothing: constructors documented to add nothing for an empty message ("the cause text alone when the
// prefix is empty"): a return that sits under the test 'this parameter is empty' may be independent of it.
var emptyAddsNothing = map[string]map[string]bool{
	"errutil.WrapWithDepth":  {"msg": true},                  // Wrap(err, ""): the stack only, no prefix
	"errutil.WrapWithDepthf": {"format": true, "args": true}, // Wrapf(err, ""): the stack only, no prefix
}

// zeroTestOf: the literal says that prm is the empty string / has length zero.
func zeroTestOf(l lit, prm *ssa.Parameter) bool {
	bin, ok := l.V.(*ssa.BinOp)
	if !ok || !((bin.Op == token.EQL && !l.Neg) || (bin.Op == token.NEQ && l.Neg)) {
		return false
	}
	for _, pair := range [][2]ssa.Value{{bin.X, bin.Y}, {bin.Y, bin.X}} {
		if pair[0] == ssa.Value(prm) {
			if k, isK := sx.ConstString(pair[1]); isK && k == "" {
				return true
			}
		}
		if call, isCall := pair[0].(*ssa.Call); isCall {
			if b, isB := call.Call.Value.(*ssa.Builtin); isB && b.Name() == "len" && len(call.Call.Args) == 1 && call.Call.Args[0] == ssa.Value(prm) {
				if k, isK := sx.ConstInt(pair[1]); isK && k == 0 {
					return true
				}
			}
		}
	}
	return false
}

func paramIndex(fn *ssa.Function, prm *ssa.Parameter) int {
	for i, q := range fn.Params {
		if q == prm {
			return i
		}
	}
	return -1
}

// valueUses: the computation of v reads target (data dependence through operands, through what is stored into the
// fields / elements of freshly allocated objects, and through the contents of locals whose address is taken).
func valueUses(v ssa.Value, target ssa.Value, seen map[ssa.Value]bool, d int) bool {
	if v == nil || d > 40 || seen[v] {
		return false
	}
	seen[v] = true
	if v == target {
		return true
	}
	if al, ok := v.(*ssa.Alloc); ok && al.Referrers() != nil {
		for _, r := range *al.Referrers() {
			switch x := r.(type) {
			case *ssa.Store:
				if x.Addr == ssa.Value(al) && valueUses(x.Val, target, seen, d+1) {
					return true
				}
			case *ssa.FieldAddr, *ssa.IndexAddr:
				xv := x.(ssa.Value)
				if xv.Referrers() == nil {
					continue
				}
				for _, r2 := range *xv.Referrers() {
					if st, ok := r2.(*ssa.Store); ok && st.Addr == xv && valueUses(st.Val, target, seen, d+1) {
						return true
					}
				}
			case *ssa.Call:
				// the local is handed to a function that may fill it (json.Unmarshal(&x), buf.WriteString(...))
				for _, a := range x.Call.Args {
					if a != ssa.Value(al) && valueUses(a, target, seen, d+1) {
						return true
					}
				}
			}
		}
	}
	in, ok := v.(ssa.Instruction)
	if !ok {
		return false
	}
	for _, op := range in.Operands(nil) {
		if *op != nil && valueUses(*op, target, seen, d+1) {
			return true
		}
	}
	return false
}

// ---------------------------------------------------------------------------
// R-FORMATTABLE

var rFormattable = &Rule{
	Name: "R-FORMATTABLE",
	Doc: "errors.Formattable always interposes the library's formatter: every return of errbase.Formattable is a freshly allocated *errorFormatter holding the argument - never the error itself, whatever interfaces it implements. " +
		"An error whose own Format method does not delegate to FormatError would otherwise render through that method in plain output while the redactable output still goes through the library: the two renderings are no longer congruent",
	Run: func(c *core.Ctx) {
		fn := c.P.Func("errbase", "Formattable")
		ef := c.P.Named("errbase", "errorFormatter")
		if fn == nil || ef == nil || len(fn.Params) != 1 {
			c.InternalErr("errbase.Formattable", "anchor not found")
			return
		}
		n := 0
		for _, ret := range sx.Returns(fn) {
			if len(ret.Results) != 1 {
				continue
			}
			n++
			ok := false
			// a fresh *errorFormatter holding errV
			freshAdapter := func(v ssa.Value, errV ssa.Value) bool {
				al, isAl := v.(*ssa.Alloc)
				if !isAl || !types.Identical(sx.Deref(al.Type()), ef) {
					return false
				}
				for _, r := range *al.Referrers() {
					if fa, isFA := r.(*ssa.FieldAddr); isFA {
						for _, u := range *fa.Referrers() {
							if st, isSt := u.(*ssa.Store); isSt && st.Addr == ssa.Value(fa) && st.Val == errV {
								return true
							}
						}
					}
				}
				return false
			}
			if mi, isMI := ret.Results[0].(*ssa.MakeInterface); isMI {
				if freshAdapter(mi.X, fn.Params[0]) {
					ok = true
				} else if call, isCall := mi.X.(*ssa.Call); isCall {
					// an unexported constructor helper that receives the error and returns the fresh adapter
					if h := sx.Callee(call); h != nil && h.Blocks != nil && h.Pkg == fn.Pkg && !sx.Exported(h) && len(call.Call.Args) == 1 && call.Call.Args[0] == ssa.Value(fn.Params[0]) && len(h.Params) == 1 {
						all := true
						rets := sx.Returns(h)
						for _, hr := range rets {
							if len(hr.Results) != 1 || !freshAdapter(hr.Results[0], h.Params[0]) {
								all = false
							}
						}
						ok = all && len(rets) > 0
					}
				}
			}
			c.Check(ok, "errbase.Formattable: returned formatter", ret.Pos(), "&errorFormatter{err}",
				"Formattable can return something other than the library's adapter around the error ("+describeVal(ret.Results[0])+"): for such errors plain formatting bypasses FormatError while redactable formatting does not")
		}
		c.Min("returns of Formattable", n, 1)
	},
}

// ---------------------------------------------------------------------------
// R-ASSERT-NIL (clause of R-ASSERT-OK, registered separately for its own instance count)

var rAssertNil = &Rule{
	Name: "R-ASSERT-NIL",
	Doc:  "no unchecked assertion on a value that can be the nil interface: a non-comma-ok type assertion x.(T) whose operand is the result of a module function that can return a literal nil (a decoder declining, a lookup finding nothing) panics for exactly those inputs ('interface conversion: interface is nil'), unless the assertion is dominated by x != nil",
	Run: func(c *core.Ctx) {
		p := c.P
		n := 0
		for _, fn := range p.HandFuncs() {
			if pk := load.FnPkg(fn); pk != nil && strings.HasSuffix(pk.Path(), "/testutils") {
				continue
			}
			sx.EachInstr(fn, func(in ssa.Instruction) {
				ta, ok := in.(*ssa.TypeAssert)
				if !ok || ta.CommaOk {
					return
				}
				call, ok := ta.X.(*ssa.Call)
				if !ok {
					return
				}
				h := sx.Callee(call)
				if h == nil || h.Blocks == nil || !p.InModule(h) {
					return
				}
				n++
				canNil := false
				for _, r := range sx.Returns(h) {
					if len(r.Results) == 1 && sx.IsNil(r.Results[0]) {
						canNil = true
					}
				}
				if !canNil {
					return
				}
				guarded := false
				for _, l := range dominatingLits(ta.Block()) {
					if bin, isBin := l.V.(*ssa.BinOp); isBin && ((bin.Op == token.NEQ && !l.Neg) || (bin.Op == token.EQL && l.Neg)) {
						if (bin.X == ssa.Value(call) && sx.IsNil(bin.Y)) || (bin.Y == ssa.Value(call) && sx.IsNil(bin.X)) {
							guarded = true
						}
					}
				}
				c.Check(guarded, fmt.Sprintf("%s: %s.(%s)", load.FnName(fn), describeVal(ta.X), load.TypeName(ta.AssertedType)), sx.InstrPos(ta), "the asserted value is known non-nil",
					"unchecked type assertion on the result of "+load.FnName(h)+", which returns nil on some path: the assertion panics for the inputs that take it")
			})
		}
		c.Note("R-ASSERT-NIL: %d unchecked assertions on results of module functions", n)
	},
}

// ---------------------------------------------------------------------------
// R-GENERIC-MSG

var rGenericMsg = &Rule{
	Name: "R-GENERIC-MSG",
	Doc: "the text of a type without an encoder travels unaltered: the message errbase.encodeLeaf puts on the wire is the stored message of an opaque value, the first result of the registered encoder, or the result of err.Error() itself; the prefix encodeWrapper sends is the stored prefix, the encoder's result, or the first result of extractPrefix - no transformed copy (validated, trimmed, re-encoded). " +
		"The receiver's Error() and the network mark are computed from this text: a sanitised copy makes Is(received, original) false and lets different originals collide",
	Run: func(c *core.Ctx) {
		p := c.P
		n := 0
		for _, name := range []string{"encodeLeaf", "encodeWrapper"} {
			fn := p.Func("errbase", name)
			if fn == nil {
				c.InternalErr("errbase."+name, "anchor not found")
				continue
			}
			reg := regionOf(fn)
			var ok func(v ssa.Value, d int) (bool, string)
			ok = func(v ssa.Value, d int) (bool, string) {
				if d > 6 {
					return false, "too deep"
				}
				switch x := v.(type) {
				case *ssa.Const:
					return true, ""
				case *ssa.Phi:
					for _, e := range x.Edges {
						if o, why := ok(e, d+1); !o {
							return false, why
						}
					}
					return true, ""
				case *ssa.UnOp:
					if x.Op == token.MUL {
						if fa, isFA := x.X.(*ssa.FieldAddr); isFA && (fieldNameOf(fa) == "msg" || fieldNameOf(fa) == "prefix") {
							return true, ""
						}
						if al, isAl := x.X.(*ssa.Alloc); isAl {
							for _, r := range *al.Referrers() {
								if st, isSt := r.(*ssa.Store); isSt && st.Addr == ssa.Value(al) {
									if o, why := ok(st.Val, d+1); !o {
										return false, why
									}
								}
							}
							return true, ""
						}
					}
				case *ssa.Extract:
					call, isCall := x.Tuple.(*ssa.Call)
					if !isCall {
						break
					}
					if sx.Callee(call) == nil && !call.Call.IsInvoke() {
						return x.Index == 0, "a result of the registered encoder other than its message"
					}
					if h := sx.Callee(call); h != nil {
						if h.Name() == "extractPrefix" && x.Index == 0 {
							return true, ""
						}
						if reg.in[h] && h != fn {
							for _, r := range sx.Returns(h) {
								if x.Index < len(r.Results) {
									if o, why := ok(r.Results[x.Index], d+1); !o {
										return false, why
									}
								}
							}
							return true, ""
						}
					}
				case *ssa.Call:
					if x.Call.IsInvoke() && x.Call.Method.Name() == "Error" && len(x.Call.Args) == 0 {
						return true, ""
					}
					if h := sx.Callee(x); h != nil && reg.in[h] && h != fn {
						for _, r := range sx.Returns(h) {
							if len(r.Results) >= 1 {
								if o, why := ok(r.Results[0], d+1); !o {
									return false, why
								}
							}
						}
						return true, ""
					}
					if h := sx.Callee(x); h != nil {
						return false, "the result of " + sx.TrimMod(sx.CalleeName(x))
					}
				}
				return false, describeVal(v)
			}
			reg.each(func(in ssa.Instruction) {
				st, isSt := in.(*ssa.Store)
				if !isSt {
					return
				}
				fa, isFA := st.Addr.(*ssa.FieldAddr)
				if !isFA || fieldNameOf(fa) != "Message" {
					return
				}
				owner := sx.NamedOf(fa.X.Type())
				if owner == nil || owner.Obj().Pkg() == nil || !strings.HasSuffix(owner.Obj().Pkg().Path(), "/errorspb") {
					return
				}
				n++
				o, why := ok(st.Val, 0)
				c.Check(o, "errbase."+name+": outgoing "+owner.Obj().Name()+".Message", st.Pos(), "the stored message, the encoder's message, err.Error() or extractPrefix's prefix - itself",
					"the message put on the wire is a transformed copy ("+why+") of the error's text: the receiver's Error() and the network mark are computed from it, so the error is no longer identical to itself after a hop")
			})
		}
		c.Min("outgoing Message stores", n, 2)
	},
}

// ---------------------------------------------------------------------------
// R-JOIN-FILTER

var rJoinFilter = &Rule{
	Name: "R-JOIN-FILTER",
	Doc: "join.Join drops exactly the nil arguments: the only test that decides whether an argument is counted, and whether it is appended to the branch list, is the comparison of that argument with the nil interface. " +
		"Any other filter (a reflect-based 'is a nil pointer' test, a type test) drops arguments that the standard library's errors.Join keeps: the node has fewer branches, Is/As no longer find them, and Join of such arguments alone returns nil",
	Run: func(c *core.Ctx) {
		fn := c.P.Func("join", "Join")
		if fn == nil || len(fn.Params) == 0 {
			c.InternalErr("join.Join", "anchor function not found")
			return
		}
		n := 0
		reg := regionOf(fn)
		loops := map[*ssa.Function][]*natLoop{}
		reg.each(func(in ssa.Instruction) {
			f := in.Parent()
			if _, ok := loops[f]; !ok {
				loops[f] = naturalLoops(f)
			}
			// the instructions that keep an argument: the append into the branch list, the increment of the counter
			keeps := false
			switch x := in.(type) {
			case *ssa.Call:
				if b, ok := x.Call.Value.(*ssa.Builtin); ok && b.Name() == "append" {
					if sl, ok := types.Unalias(x.Type()).Underlying().(*types.Slice); ok && sx.IsErrorType(sl.Elem()) {
						keeps = true
					}
				}
			case *ssa.BinOp:
				if x.Op == token.ADD {
					if k, ok := sx.ConstInt(x.Y); ok && k == 1 {
						if _, isPhi := x.X.(*ssa.Phi); isPhi && !isLoopCounter(x, loops[f]) {
							keeps = true
						}
					}
				}
			}
			if !keeps {
				return
			}
			inLoop := false
			var loop *natLoop
			for _, l := range loops[f] {
				if l.Body[in.Block()] {
					inLoop, loop = true, l
				}
			}
			if !inLoop {
				return
			}
			n++
			var foreign []string
			for _, l := range dominatingLits(in.Block()) {
				vb, ok := l.V.(ssa.Instruction)
				if !ok || !loop.Body[vb.Block()] {
					continue // decided before the loop
				}
				bin, isBin := l.V.(*ssa.BinOp)
				if isBin && (sx.IsNil(bin.X) || sx.IsNil(bin.Y)) && (bin.Op == token.EQL || bin.Op == token.NEQ) {
					continue // the nil test of the element
				}
				if isBin && isIntT(bin.X.Type()) {
					continue // the loop bound
				}
				foreign = append(foreign, litShape(l))
			}
			c.Check(len(foreign) == 0, fmt.Sprintf("%s: filter of the arguments kept (%s)", load.FnName(f), describeVal(in.(ssa.Value))), in.Pos(), "only the comparison of the argument with nil decides",
				"an argument is kept only under "+strings.Join(foreign, " && ")+": arguments that are not nil interfaces (a nil pointer inside an error, say) are dropped although the standard library's Join keeps them")
		})
		c.Min("argument-keeping sites in join.Join", n, 2)
	},
}

func isIntT(t types.Type) bool {
	b, ok := types.Unalias(t).Underlying().(*types.Basic)
	return ok && b.Info()&types.IsInteger != 0
}

// isLoopCounter: x (= phi + 1) is the induction variable of one of the loops (the value compared in the loop's
// header), not a count kept in the body.
func isLoopCounter(x *ssa.BinOp, loops []*natLoop) bool {
	for _, l := range loops {
		for _, in := range l.Header.Instrs {
			if cmp, ok := in.(*ssa.BinOp); ok && (cmp.X == ssa.Value(x) || cmp.Y == ssa.Value(x) || cmp.X == x.X || cmp.Y == x.X) {
				switch cmp.Op {
				case token.LSS, token.LEQ, token.GTR, token.GEQ:
					return true
				}
			}
		}
		// rangeindex loops: the comparison sits in the header on the incremented value
	}
	return false
}

// ---------------------------------------------------------------------------
// R-VISIT-ALL

var rVisitAll = &Rule{
	Name: "R-VISIT-ALL",
	Doc: "the report visitor sees every node of the tree: in report.visitAllMulti (and the helpers it hands the walk to) the call of the visiting function on the current node dominates every return of the function that makes it - no guard (a set of nodes already seen, a depth limit) skips a node. " +
		"The verbose rendering at the head of the report lists a shared node once per occurrence; a walk that enters each object only once yields fewer type lines, details and exceptions than layers, so entries no longer line up with the rendering",
	Run: func(c *core.Ctx) {
		fn := c.P.Func("report", "visitAllMulti")
		if fn == nil {
			c.InternalErr("report.visitAllMulti", "anchor function not found")
			return
		}
		n := 0
		reg := regionOf(fn)
		for _, f := range reg.funcs {
			var visitP *ssa.Parameter
			for _, prm := range f.Params {
				if _, ok := types.Unalias(prm.Type()).Underlying().(*types.Signature); ok {
					visitP = prm
				}
			}
			if visitP == nil {
				continue
			}
			sx.EachInstr(f, func(in ssa.Instruction) {
				call, ok := in.(*ssa.Call)
				if !ok || call.Call.Value != ssa.Value(visitP) {
					return
				}
				n++
				all := true
				for _, r := range sx.Returns(f) {
					if !call.Block().Dominates(r.Block()) {
						all = false
					}
				}
				c.Check(all, load.FnName(f)+": the visitor is applied to the current node", call.Pos(), "on every path (dominates every return)",
					"some path returns without applying the visitor to the current node: nodes for which the guard holds (an error object reachable twice, say) are missing from the report's per-layer lists")
			})
		}
		c.Min("visitor applications", n, 1)
		// the same for the formatter's walk: every node entered by (*state).formatRecursive yields an entry - the
		// call of collectEntry dominates every return
		if st := c.P.Named("errbase", "state"); st != nil {
			fr, ce := c.P.Method(st, "formatRecursive"), c.P.Method(st, "collectEntry")
			if fr != nil && ce != nil {
				found := false
				sx.EachInstr(fr, func(in ssa.Instruction) {
					call, ok := in.(*ssa.Call)
					if !ok || sx.Callee(call) != ce {
						return
					}
					found = true
					all := true
					for _, r := range sx.Returns(fr) {
						if !call.Block().Dominates(r.Block()) {
							all = false
						}
					}
					c.Check(all, "(*errbase.state).formatRecursive: an entry for every node", call.Pos(), "collectEntry dominates every return",
						"some path leaves formatRecursive without collecting an entry for the node: nodes for which that guard holds (an error object that occurs twice in the tree) have no numbered entry and no type in the 'Error types' line of %+v")
				})
				c.Check(found, "(*errbase.state).formatRecursive: collectEntry", fr.Pos(), "called", "formatRecursive no longer collects an entry per node")
			}
		}
	},
}

// ---------------------------------------------------------------------------
// R-PROBE-ORDER

var rProbeOrder = &Rule{
	Name: "R-PROBE-ORDER",
	Doc: "the two stack accessors ask a layer the same questions in the same order: withstack.GetOneLineSource and withstack.GetReportableStackTrace both probe errbase.StackTraceProvider before errbase.SafeDetailer (sibling cross-check of the comma-ok / type-switch assertions in dominance order). " +
		"A layer that implements both with a type key of its own takes different branches in the two functions otherwise: the report shows its frames while the one-line source does not find them",
	Run: func(c *core.Ctx) {
		p := c.P
		order := func(name string) ([]string, *ssa.Function) {
			fn := p.Func("withstack", name)
			if fn == nil {
				return nil, nil
			}
			var out []string
			for _, f := range regionOf(fn).funcs {
				for _, b := range f.DomPreorder() {
					for _, in := range b.Instrs {
						ta, ok := in.(*ssa.TypeAssert)
						if !ok {
							continue
						}
						switch {
						case sx.IsNamed(ta.AssertedType, errbasePath, "StackTraceProvider"):
							out = append(out, "StackTraceProvider")
						case sx.IsNamed(ta.AssertedType, errbasePath, "SafeDetailer"):
							out = append(out, "SafeDetailer")
						}
					}
				}
			}
			return out, fn
		}
		a, fa := order("GetOneLineSource")
		b, fb := order("GetReportableStackTrace")
		if fa == nil || fb == nil {
			c.InternalErr("withstack.GetOneLineSource / GetReportableStackTrace", "anchor functions not found")
			return
		}
		want := "StackTraceProvider,SafeDetailer"
		c.Check(strings.Join(a, ",") == want, "withstack.GetOneLineSource: probe order", fa.Pos(), want, "the accessor probes "+strings.Join(a, ",")+": a layer implementing both interfaces is handled differently from GetReportableStackTrace ("+strings.Join(b, ",")+")")
		c.Check(strings.Join(b, ",") == want, "withstack.GetReportableStackTrace: probe order", fb.Pos(), want, "the accessor probes "+strings.Join(b, ",")+": a layer implementing both interfaces is handled differently from GetOneLineSource ("+strings.Join(a, ",")+")")
	},
}
