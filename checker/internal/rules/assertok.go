package rules

import (
	"fmt"
	"go/types"

	"golang.org/x/tools/go/ssa"

	"verif/checker/internal/core"
	"verif/checker/internal/load"
	"verif/checker/internal/sx"
)

// R-ASSERT-OK: every non-comma-ok type assertion in hand-written module code
// must be justified, otherwise it panics for some dynamic type.
var rAssertOK = &Rule{
	Name: "R-ASSERT-OK",
	Doc: "every non-comma-ok type assertion x.(T) in module code is (a) a registered encoder asserting its own err argument to the type it is registered under, " +
		"(b) an assertion on the value returned by a markers.If predicate closure whose ok-returns all box exactly T, under the ok guard, or " +
		"(c) the state.State.(redact.SafePrinter) assertion, verified by checking every call site that enables redactable output passes a SafePrinter; " +
		"anything else (in particular a decoder's payload parameter) panics for some wire input",
	Run: runAssertOK,
}

func runAssertOK(c *core.Ctx) {
	p := c.P
	cs := GetCensus(c)
	encKeys := map[*ssa.Function][]types.Type{}
	isDecoder := map[*ssa.Function]bool{}
	for _, r := range cs.Regs {
		if r.Fn == nil {
			continue
		}
		if r.IsEnc() {
			encKeys[r.Fn] = append(encKeys[r.Fn], r.KeyTypes...)
		} else {
			isDecoder[r.Fn] = true
		}
	}
	// an unexported helper all of whose callers are encoders handing it their own err argument stands for those
	// encoders: its parameter can only hold values of the types they are registered under
	type helperParam struct {
		fn  *ssa.Function
		idx int
	}
	helperKeys := map[helperParam][]types.Type{}
	helperBad := map[helperParam]bool{}
	for _, caller := range p.HandFuncs() {
		sx.EachInstr(caller, func(in ssa.Instruction) {
			call, ok := in.(ssa.CallInstruction)
			if !ok {
				return
			}
			h := sx.Callee(call)
			if h == nil || h.Blocks == nil || !p.InModule(h) || sx.Exported(h) || h.Signature.Recv() != nil {
				return
			}
			keys, isEnc := encKeys[caller]
			for i, a := range call.Common().Args {
				hp := helperParam{h, i}
				if isEnc && len(caller.Params) >= 2 && a == ssa.Value(caller.Params[1]) {
					helperKeys[hp] = append(helperKeys[hp], keys...)
				} else {
					helperBad[hp] = true
				}
			}
		})
	}
	n := 0
	for _, fn := range p.HandFuncs() {
		if pk := load.FnPkg(fn); pk != nil && pk.Path() == load.ModPath+"/testutils" {
			continue
		}
		sx.EachInstr(fn, func(in ssa.Instruction) {
			ta, ok := in.(*ssa.TypeAssert)
			if !ok || ta.CommaOk {
				return
			}
			n++
			construct := fmt.Sprintf("%s: %s.(%s)", load.FnName(fn), describeVal(ta.X), load.TypeName(ta.AssertedType))
			pos := sx.InstrPos(ta)
			// (a) encoder self-assertion (in the encoder, or in a helper only encoders call with their own argument).
			keysA, selfA := encKeys[fn], false
			if keysA != nil && len(fn.Params) >= 2 && ta.X == fn.Params[1] {
				selfA = true
			} else if keysA == nil {
				for i, prm := range fn.Params {
					hp := helperParam{fn, i}
					if ta.X == ssa.Value(prm) && len(helperKeys[hp]) > 0 && !helperBad[hp] {
						keysA, selfA = helperKeys[hp], true
					}
				}
			}
			if keys := keysA; selfA {
				all := len(keys) > 0
				for _, k := range keys {
					if sx.IsInterface(ta.AssertedType) {
						if !types.Implements(k, ta.AssertedType.Underlying().(*types.Interface)) {
							all = false
						}
					} else if !types.Identical(k, ta.AssertedType) {
						all = false
					}
				}
				if all {
					c.Ob(construct, pos, true, "encoder self-assertion: registered only under key type(s) "+typeList(keys))
					return
				}
				c.Fail(construct, pos, "encoder asserts its argument to a type other than the type it is registered under ("+typeList(keys)+")")
				return
			}
			// (b) value returned by markers.If predicate.
			if why, ok := ifPredicateAssert(p, ta); ok {
				c.Ob(construct, pos, true, why)
				return
			}
			// (c) the redactable-state assertion.
			if why, ok := safePrinterAssert(p, ta); ok {
				c.Ob(construct, pos, true, why)
				return
			}
			// Only values controlled by the wire or by the caller are in the scope of
			// the property; an assertion on a value the module produced itself
			// (a cache entry, a local) is recorded but not a violation.
			root := assertRoot(ta.X)
			what := ""
			switch r := root.(type) {
			case *ssa.Parameter:
				switch {
				case isDecoder[r.Parent()]:
					what = "registered decoder asserts a wire-controlled value without comma-ok: DecodeError panics when the payload is absent or of another type"
				case sx.Exported(r.Parent()) || r.Parent().Signature.Recv() != nil || encKeys[r.Parent()] != nil:
					what = "unchecked type assertion on a caller-supplied value panics when the dynamic type differs"
				default:
					what = "unchecked type assertion on a parameter panics when the dynamic type differs"
				}
			case *ssa.FieldAddr:
				what = "unchecked type assertion on a struct field (possibly built by a decoder) panics when the dynamic type differs"
			}
			if what == "" {
				c.Ob(construct, pos, true, "out of scope: the asserted value is produced inside the module ("+describeVal(ta.X)+"), not controlled by the wire or the caller")
				return
			}
			c.Fail(construct, pos, what)
		})
	}
	c.Min("non-comma-ok type assertions inspected", n, 15)
}

func typeList(ts []types.Type) string {
	s := ""
	for i, t := range ts {
		if i > 0 {
			s += ", "
		}
		s += load.TypeName(t)
	}
	return s
}

func describeVal(v ssa.Value) string {
	switch x := v.(type) {
	case *ssa.Parameter:
		return x.Name()
	case *ssa.Extract:
		if call, ok := x.Tuple.(*ssa.Call); ok {
			return fmt.Sprintf("result#%d of %s", x.Index, sx.TrimMod(sx.CalleeName(call)))
		}
	case *ssa.UnOp:
		if fa, ok := x.X.(*ssa.FieldAddr); ok {
			return "field " + sx.FieldOf(fa).Name()
		}
	case *ssa.Call:
		return "result of " + sx.TrimMod(sx.CalleeName(x))
	}
	return v.Name()
}

// ifPredicateAssert recognises v.(T) where v, ok := markers.If(err, pred),
// the assertion is dominated by the ok-true edge, and every return of pred
// whose second result is not constant false boxes a value of type T.
func ifPredicateAssert(p *load.Program, ta *ssa.TypeAssert) (string, bool) {
	ex, ok := ta.X.(*ssa.Extract)
	if !ok || ex.Index != 0 {
		return "", false
	}
	call, ok := ex.Tuple.(*ssa.Call)
	if !ok {
		return "", false
	}
	callee := sx.Callee(call)
	if callee == nil || callee.Name() != "If" || !p.InModule(callee) || len(call.Call.Args) != 2 {
		return "", false
	}
	pred := sx.FuncOf(call.Call.Args[1])
	if pred == nil || pred.Blocks == nil {
		return "", false
	}
	// ok guard: assertion block dominated by true successor of an If on Extract(call,1).
	guarded := false
	for _, ref := range *call.Referrers() {
		e1, isEx := ref.(*ssa.Extract)
		if !isEx || e1.Index != 1 {
			continue
		}
		for _, r2 := range *e1.Referrers() {
			ifi, isIf := r2.(*ssa.If)
			if !isIf {
				continue
			}
			t := ifi.Block().Succs[0]
			if len(t.Preds) == 1 && t.Dominates(ta.Block()) {
				guarded = true
			}
		}
	}
	if !guarded {
		return "", false
	}
	for _, r := range sx.Returns(pred) {
		if len(r.Results) != 2 {
			return "", false
		}
		if cst, isC := r.Results[1].(*ssa.Const); isC && cst.Value != nil && cst.Value.String() == "false" {
			continue
		}
		mi, isMI := r.Results[0].(*ssa.MakeInterface)
		if !isMI || !types.Identical(mi.X.Type(), ta.AssertedType) {
			return "", false
		}
	}
	return "value produced by the markers.If predicate " + load.FnName(pred) + ", whose ok-returns all box " + load.TypeName(ta.AssertedType) + "; assertion under the ok guard", true
}

// safePrinterAssert recognises state.State.(redact.SafePrinter) and verifies
// that every caller enabling redactable output passes a SafePrinter.
func safePrinterAssert(p *load.Program, ta *ssa.TypeAssert) (string, bool) {
	if !sx.IsNamed(ta.AssertedType, redactPath+"/internal/markers", "SafePrinter") && !sx.IsNamed(ta.AssertedType, redactPath, "SafePrinter") &&
		!sx.IsNamed(ta.AssertedType, redactPath+"/interfaces", "SafePrinter") {
		return "", false
	}
	fn := ta.Parent()
	// operand: load of field State of *state
	ld, ok := ta.X.(*ssa.UnOp)
	if !ok {
		return "", false
	}
	fa, ok := ld.X.(*ssa.FieldAddr)
	if !ok || sx.FieldOf(fa).Name() != "State" {
		return "", false
	}
	// guard: dominated by true edge of If on load of field redactableOutput.
	guarded := false
	for _, b := range fn.Blocks {
		ifi, isIf := b.Instrs[len(b.Instrs)-1].(*ssa.If)
		if !isIf {
			continue
		}
		l2, isL := ifi.Cond.(*ssa.UnOp)
		if !isL {
			continue
		}
		f2, isF := l2.X.(*ssa.FieldAddr)
		if !isF || sx.FieldOf(f2).Name() != "redactableOutput" {
			continue
		}
		if t := b.Succs[0]; len(t.Preds) == 1 && t.Dominates(ta.Block()) {
			guarded = true
		}
	}
	if !guarded {
		return "", false
	}
	// every store of a non-false value into state.redactableOutput happens in a
	// function whose State initialiser is a SafePrinter at every call site.
	fei := p.Func("errbase", "formatErrorInternal")
	if fei == nil || len(fei.Params) != 4 {
		return "", false
	}
	okAll, sites := true, 0
	for _, f := range p.HandFuncs() {
		sx.EachInstr(f, func(in ssa.Instruction) {
			st, isSt := in.(*ssa.Store)
			if !isSt {
				return
			}
			fa, isFA := st.Addr.(*ssa.FieldAddr)
			if !isFA || sx.FieldOf(fa).Name() != "redactableOutput" || !sx.IsNamed(fa.X.Type(), errbasePath, "state") {
				return
			}
			if cst, isC := st.Val.(*ssa.Const); isC && cst.Value != nil && cst.Value.String() == "false" {
				return
			}
			if f != fei || st.Val != fei.Params[3] {
				okAll = false
			}
		})
		sx.EachInstr(f, func(in ssa.Instruction) {
			call, isCall := in.(ssa.CallInstruction)
			if !isCall || sx.Callee(call) != fei {
				return
			}
			args := call.Common().Args
			if cst, isC := args[3].(*ssa.Const); isC && cst.Value != nil && cst.Value.String() == "false" {
				return
			}
			sites++
			// args[1] must be a conversion from a type implementing SafePrinter.
			src := args[1]
			if ci, isCI := src.(*ssa.ChangeInterface); isCI {
				src = ci.X
			} else if mi, isMI := src.(*ssa.MakeInterface); isMI {
				src = mi.X
			}
			iface, _ := ta.AssertedType.Underlying().(*types.Interface)
			if iface == nil || !types.Implements(src.Type(), iface) {
				okAll = false
			}
		})
	}
	if !okAll || sites == 0 {
		return "", false
	}
	return fmt.Sprintf("guarded by state.redactableOutput, which is only set from formatErrorInternal's parameter; all %d call sites passing a non-false value pass a redact.SafePrinter", sites), true
}

// assertRoot follows value-preserving instructions to where an asserted
// interface value comes from.
func assertRoot(v ssa.Value) ssa.Value {
	for i := 0; i < 8; i++ {
		switch x := v.(type) {
		case *ssa.ChangeInterface:
			v = x.X
		case *ssa.MakeInterface:
			return x
		case *ssa.TypeAssert:
			v = x.X
		case *ssa.Extract:
			if ta, ok := x.Tuple.(*ssa.TypeAssert); ok && x.Index == 0 {
				v = ta.X
				continue
			}
			return x
		case *ssa.UnOp:
			if fa, ok := x.X.(*ssa.FieldAddr); ok {
				return fa
			}
			u := sx.Unspill(x)
			if u == ssa.Value(x) {
				return x
			}
			v = u
		case *ssa.Phi:
			if len(x.Edges) == 0 {
				return x
			}
			// any parameter among the edges decides
			for _, e := range x.Edges {
				if r, ok := assertRoot(e).(*ssa.Parameter); ok {
					return r
				}
			}
			return x
		default:
			return v
		}
	}
	return v
}
