package rules

import (
	"go/token"
	"go/types"
	"sort"
	"strings"

	"golang.org/x/tools/go/ssa"

	"verif/checker/internal/core"
	"verif/checker/internal/load"
	"verif/checker/internal/sx"
)

// ---------------------------------------------------------------------------
// R-PASSTHROUGH-GUARD

// passThroughGuards: the documented condition under which a conditional wrapper constructor (see
// conditionalWrappers) returns the error unchanged, as the shapes of the tests that must all hold where it does.
var passThroughGuards = map[string][]string{
	"safedetails.WithSafeDetails": {"len(format) == 0", "len(args) == 0"},
	"contexttags.WithContextTags": {"== nil"},
}

var rPassThroughGuard = &Rule{
	Name: "R-PASSTHROUGH-GUARD",
	Doc: "the constructors that are documented to return the error unchanged for particular non-error arguments do so under exactly the documented condition: safedetails.WithSafeDetails only where BOTH the format is empty and there are no arguments, contexttags.WithContextTags only where the context carries no tags. " +
		"Every return of the error parameter itself is dominated by all the documented tests; a weaker condition (an empty format alone) drops the annotation for calls that carry data - WithSafeDetails(err, \"\", Safe(v)) loses v",
	Run: func(c *core.Ctx) {
		p := c.P
		n := 0
		var names []string
		for k := range passThroughGuards {
			names = append(names, k)
		}
		sort.Strings(names)
		for _, k := range names {
			parts := strings.SplitN(k, ".", 2)
			fn := p.Func(parts[0], parts[1])
			if fn == nil {
				c.InternalErr(k, "constructor not found")
				continue
			}
			eps := errorParams(fn)
			if len(eps) == 0 {
				continue
			}
			errP := fn.Params[eps[0]]
			for _, ret := range sx.Returns(fn) {
				if len(ret.Results) != 1 || identity(ret.Results[0]) != ssa.Value(errP) && ret.Results[0] != ssa.Value(errP) {
					continue
				}
				n++
				lits := dominatingLits(ret.Block())
				var shapes []string
				for _, l := range lits {
					shapes = append(shapes, litShape(l))
				}
				missing := ""
				for _, want := range passThroughGuards[k] {
					found := false
					for _, s := range shapes {
						if strings.Contains(s, want) {
							found = true
						}
					}
					if !found {
						missing = want
					}
				}
				c.Check(missing == "", k+": pass-through of the error", ret.Pos(), "under all the documented tests ("+strings.Join(passThroughGuards[k], " && ")+")",
					"the error is returned without the annotation although the documented condition is not established (missing: "+missing+"; established: "+strings.Join(shapes, " && ")+"): calls that carry data for the annotation lose it")
			}
		}
		c.Min("documented pass-through returns", n, 2)
	},
}

// ---------------------------------------------------------------------------
// R-JOIN-ELEMENTS

var rJoinElements = &Rule{
	Name: "R-JOIN-ELEMENTS",
	Doc: "a join node's branches are its arguments: every append into the branch list inside join.Join adds one element of the parameter - never the elements of another list (the branches of an argument that is itself a join). " +
		"Splicing nested joins changes the tree: Join(Join(a, b), c) has three branches instead of two, the inner node is no branch any more, so Is(outer, inner) fails and the shape differs from the standard library's and, after a hop, from the sender's",
	Run: func(c *core.Ctx) {
		fn := c.P.Func("join", "Join")
		if fn == nil || len(fn.Params) == 0 {
			c.InternalErr("join.Join", "anchor function not found")
			return
		}
		prm := fn.Params[len(fn.Params)-1]
		n := 0
		regionOf(fn).each(func(in ssa.Instruction) {
			call, ok := in.(*ssa.Call)
			if !ok {
				return
			}
			b, ok := call.Call.Value.(*ssa.Builtin)
			if !ok || b.Name() != "append" || len(call.Call.Args) != 2 {
				return
			}
			sl, ok := types.Unalias(call.Type()).Underlying().(*types.Slice)
			if !ok || !sx.IsErrorType(sl.Elem()) {
				return
			}
			n++
			els := varargs(call.Call.Args[1])
			okEl := len(els) == 1 && els[0] != nil
			if okEl {
				// the element is an element of the parameter (range value or indexed load)
				v := els[0]
				ld, isLd := v.(*ssa.UnOp)
				okEl = false
				if isLd && ld.Op == token.MUL {
					if ia, isIA := ld.X.(*ssa.IndexAddr); isIA && regionResolveIs(fn, ia.X, prm) {
						okEl = true
					}
				}
			}
			c.Check(okEl, "join.Join: element appended to the branch list", call.Pos(), "one element of the argument list",
				"the branch list receives something other than one of Join's own arguments ("+describeVal(call.Call.Args[1])+", e.g. the branches of a nested join): the tree built is not the tree of the arguments")
		})
		c.Min("appends into the branch list", n, 1)
	},
}

// regionResolveIs: v is the parameter prm of fn, directly or handed to a helper of fn's region.
func regionResolveIs(fn *ssa.Function, v ssa.Value, prm *ssa.Parameter) bool {
	if v == ssa.Value(prm) {
		return true
	}
	return regionOf(fn).resolve(v) == ssa.Value(prm)
}

// ---------------------------------------------------------------------------
// R-MULTI-UNCOND

var rMultiUncond = &Rule{
	Name: "R-MULTI-UNCOND",
	Doc: "errbase.UnwrapMulti answers by the protocol alone: the result of the error's Unwrap() []error is returned wherever the type assertion succeeded - no further condition (whether the error also designates a single cause, how many branches it has) decides. " +
		"Is, IsAny, As, the formatter and the encoder all find branches through UnwrapMulti; a node with both a single cause and branches would lose its branches for all of them, while the standard library still sees them",
	Run: func(c *core.Ctx) {
		fn := c.P.Func("errbase", "UnwrapMulti")
		if fn == nil {
			c.InternalErr("errbase.UnwrapMulti", "anchor function not found")
			return
		}
		n := 0
		sx.EachInstr(fn, func(in ssa.Instruction) {
			call, ok := in.(*ssa.Call)
			if !ok || !call.Call.IsInvoke() || call.Call.Method.Name() != "Unwrap" {
				return
			}
			n++
			var extra []string
			for _, l := range dominatingLits(call.Block()) {
				if ex, ok := l.V.(*ssa.Extract); ok {
					if _, isTA := ex.Tuple.(*ssa.TypeAssert); isTA && ex.Index == 1 && !l.Neg {
						continue
					}
				}
				extra = append(extra, litShape(l))
			}
			c.Check(len(extra) == 0, "errbase.UnwrapMulti: condition for returning the branches", call.Pos(), "the type assertion alone",
				"the branches are returned only under an additional condition ("+strings.Join(extra, " && ")+"): multi-cause nodes for which it fails are leaves for every walker of the library, but not for the standard library")
		})
		c.Check(n >= 1, "errbase.UnwrapMulti: probe", fn.Pos(), "Unwrap() []error is called", "UnwrapMulti no longer calls Unwrap() []error")
	},
}

// ---------------------------------------------------------------------------
// R-DOMAIN-GETTER

var rDomainGetter = &Rule{
	Name: "R-DOMAIN-GETTER",
	Doc: "domains.GetDomain reports the outermost domain annotation of the single-cause chain: every return is the constant NoDomain or the domain field of a *withDomain found at a chain position (the error itself, or errbase.UnwrapOnce of a chain position). " +
		"A search that also descends into the branches of multi-cause nodes (errutil.As) lets an annotation on one member of a join become the domain of the whole error - the module of every exception in a report, the answer of NotInDomain",
	Run: func(c *core.Ctx) {
		p := c.P
		fn := p.Func("domains", "GetDomain")
		wd := p.Named("domains", "withDomain")
		if fn == nil || wd == nil || len(fn.Params) != 1 {
			c.InternalErr("domains.GetDomain", "anchor not found")
			return
		}
		n := 0
		reg := regionOf(fn)
		// layerOK: v (a *withDomain) is a layer found at a position of the single-cause chain of the caller's error
		var layerOK func(v ssa.Value, in *ssa.Function, d int) (bool, string)
		layerOK = func(v ssa.Value, in *ssa.Function, d int) (bool, string) {
			if d > 4 {
				return false, "too deep"
			}
			if cst, ok := v.(*ssa.Const); ok && cst.IsNil() {
				return true, "" // the "not found" companion of a false flag
			}
			if ph, ok := v.(*ssa.Phi); ok {
				for _, e := range ph.Edges {
					if ok, why := layerOK(e, in, d+1); !ok {
						return false, why
					}
				}
				return true, ""
			}
			src := v
			if ex, ok := src.(*ssa.Extract); ok {
				if call, isCall := ex.Tuple.(*ssa.Call); isCall {
					// the lookup handed to a helper of the accessor: what the helper returns at that position
					h := sx.Callee(call)
					if h == nil || !reg.in[h] || h == fn {
						return false, "the domain of a *withDomain obtained from " + sx.TrimMod(sx.CalleeName(call))
					}
					for _, r := range sx.Returns(h) {
						if ex.Index < len(r.Results) {
							if ok, why := layerOK(r.Results[ex.Index], h, d+1); !ok {
								return false, why
							}
						}
					}
					return true, ""
				}
				if ex.Index == 0 {
					src = ex.Tuple
				}
			}
			if ta, ok := src.(*ssa.TypeAssert); ok {
				start := in.Params[0]
				if in != fn {
					if q := reg.paramFor(in, fn.Params[0]); q != nil {
						start = q
					}
				}
				if isChainPosition(ta.X, start, map[ssa.Value]bool{}, 0) {
					return true, ""
				}
				return false, "the domain of a *withDomain that was not found by walking the chain with UnwrapOnce (" + describeVal(ta.X) + ")"
			}
			return false, "the domain of a *withDomain obtained through " + describeVal(v) + " (not a position of the single-cause chain)"
		}
		var okVal func(v ssa.Value, in *ssa.Function, d int) (bool, string)
		okVal = func(v ssa.Value, in *ssa.Function, d int) (bool, string) {
			if d > 5 {
				return false, "too deep"
			}
			switch x := v.(type) {
			case *ssa.Const:
				return true, ""
			case *ssa.Phi:
				for _, e := range x.Edges {
					if ok, why := okVal(e, in, d+1); !ok {
						return false, why
					}
				}
				return true, ""
			case *ssa.UnOp:
				fa, _ := x.X.(*ssa.FieldAddr)
				if x.Op == token.MUL && fa != nil && isStructField(fa, wd, "domain") {
					if ok, why := layerOK(fa.X, in, 0); !ok {
						return false, why
					}
					return true, ""
				}
			case *ssa.Extract:
				if call, ok := x.Tuple.(*ssa.Call); ok {
					if h := sx.Callee(call); h != nil && reg.in[h] && h != fn {
						for _, r := range sx.Returns(h) {
							if x.Index < len(r.Results) {
								if ok, why := okVal(r.Results[x.Index], h, d+1); !ok {
									return false, why
								}
							}
						}
						return true, ""
					}
				}
			case *ssa.Call:
				if h := sx.Callee(x); h != nil && reg.in[h] && h != fn {
					for _, r := range sx.Returns(h) {
						if len(r.Results) >= 1 {
							if ok, why := okVal(r.Results[0], h, d+1); !ok {
								return false, why
							}
						}
					}
					return true, ""
				}
			}
			return false, describeVal(v)
		}
		for _, r := range sx.Returns(fn) {
			if len(r.Results) != 1 {
				continue
			}
			n++
			ok, why := okVal(r.Results[0], fn, 0)
			c.Check(ok, "domains.GetDomain: returned domain", r.Pos(), "NoDomain, or the domain of the first *withDomain on the single-cause chain",
				"GetDomain can return "+why+": an annotation outside the single-cause chain (inside a branch of a multi-cause node) is reported as the domain of the whole error")
		}
		c.Min("returns of GetDomain", n, 2)
	},
}

// ---------------------------------------------------------------------------
// R-TYPENAME-RAW

var rTypeNameRaw = &Rule{
	Name: "R-TYPENAME-RAW",
	Doc: "the type key is built from the type's own name: in errbase.getFullTypeName the name handed to makeTypeKey is the result of reflect.Type.String() on reflect.TypeOf(err) itself, and the package path that of getPkgPath on the same type - no rewritten form. " +
		"RegisterTypeMigration takes the previous name as a string that its documentation defines as reflect.TypeOf(err).String(); a key computed from a normalised name (shortened type arguments of a generic type, say) no longer equals what migrations, peers and earlier versions use for the same type",
	Run: func(c *core.Ctx) {
		fn := c.P.Func("errbase", "getFullTypeName")
		if fn == nil {
			c.InternalErr("errbase.getFullTypeName", "anchor function not found")
			return
		}
		n := 0
		sx.EachInstr(fn, func(in ssa.Instruction) {
			call, ok := in.(*ssa.Call)
			if !ok || sx.Callee(call) == nil || sx.Callee(call).Name() != "makeTypeKey" || len(call.Call.Args) != 2 {
				return
			}
			n++
			name, isCall := call.Call.Args[1].(*ssa.Call)
			ok = isCall && name.Call.IsInvoke() && name.Call.Method.Name() == "String" && sx.IsNamed(name.Call.Value.Type(), "reflect", "Type")
			if ok {
				if tc, isTC := name.Call.Value.(*ssa.Call); !isTC || sx.Callee(tc) == nil || !sx.Is(sx.Callee(tc), "reflect", "TypeOf") {
					ok = false
				}
			}
			c.Check(ok, "errbase.getFullTypeName: type-name part of the key", call.Pos(), "reflect.TypeOf(err).String() itself",
				"the type-name part of the type key is not the type's own String() ("+describeVal(call.Call.Args[1])+"): keys of the affected types differ from the names given to RegisterTypeMigration and from what other versions send")
		})
		c.Check(n >= 1, "errbase.getFullTypeName: key construction", fn.Pos(), "makeTypeKey is called", "getFullTypeName no longer builds the key with makeTypeKey")
		// the package-path part (round 12): the value handed to makeTypeKey is a reflect.Type.PkgPath() result (of the type or,
		// for unnamed composite types, of its element - whatever helper computes it), or the empty string: never a rewritten path.
		// RegisterTypeMigration builds the previous key from the caller's raw strings with the same makeTypeKey; a
		// normalisation applied on one side only makes the key of a live type differ from the key registered for it.
		np := 0
		sx.EachInstr(fn, func(in ssa.Instruction) {
			call, ok := in.(*ssa.Call)
			if !ok || sx.Callee(call) == nil || sx.Callee(call).Name() != "makeTypeKey" || len(call.Call.Args) != 2 {
				return
			}
			np++
			bad := pkgPathNotRaw(call.Call.Args[0], map[ssa.Value]bool{}, map[*ssa.Function]bool{})
			c.Check(bad == nil, "errbase.getFullTypeName: package-path part of the key", call.Pos(), "a reflect.Type.PkgPath() result or \"\"",
				"the package-path part of the type key is not the type's own PkgPath() ("+describeValOrNil(bad)+"): the key of a live type differs from the key that RegisterTypeMigration builds from the caller's strings and from what other versions send for the same type")
		})
	},
}

func describeValOrNil(v ssa.Value) string {
	if v == nil {
		return ""
	}
	return describeVal(v)
}

// pkgPathNotRaw returns nil when every value that can flow into v is the result of reflect.Type.PkgPath() or a
// constant empty string (through phis and the returns of unexported module helpers), else the first offending value.
func pkgPathNotRaw(v ssa.Value, seen map[ssa.Value]bool, seenFn map[*ssa.Function]bool) ssa.Value {
	if seen[v] {
		return nil
	}
	seen[v] = true
	switch x := v.(type) {
	case *ssa.Const:
		if x.Value != nil && x.Value.ExactString() == `""` {
			return nil
		}
		return v
	case *ssa.Phi:
		for _, e := range x.Edges {
			if b := pkgPathNotRaw(e, seen, seenFn); b != nil {
				return b
			}
		}
		return nil
	case *ssa.Call:
		if x.Call.IsInvoke() {
			if x.Call.Method.Name() == "PkgPath" && sx.IsNamed(x.Call.Value.Type(), "reflect", "Type") {
				return nil
			}
			return v
		}
		callee := sx.Callee(x)
		if callee == nil || callee.Blocks == nil || callee.Pkg == nil || !load.IsModPath(callee.Pkg.Pkg.Path()) || callee.Signature.Results().Len() != 1 {
			return v
		}
		if seenFn[callee] {
			return nil
		}
		seenFn[callee] = true
		for _, b := range callee.Blocks {
			for _, in := range b.Instrs {
				if r, ok := in.(*ssa.Return); ok && len(r.Results) == 1 {
					if bad := pkgPathNotRaw(r.Results[0], seen, seenFn); bad != nil {
						return bad
					}
				}
			}
		}
		return nil
	}
	return v
}

// ---------------------------------------------------------------------------
// R-GLOBAL-ADDR

var rGlobalAddr = &Rule{
	Name: "R-GLOBAL-ADDR",
	Doc: "no function writes into a package-level variable on behalf of a caller: outside initialisers, the address of a package-level variable of the module is never passed as an argument (to errors.As, to a decoder, to reflection) - only the methods of the synchronisation types (sync.Map, sync.Pool, sync.Once, sync.Mutex, atomic values) receive it. " +
		"A package-level As target or scratch buffer is shared by all concurrent calls: their results mix, and the race detector reports the accesses",
	Run: func(c *core.Ctx) {
		p := c.P
		n := 0
		for _, fn := range p.HandFuncs() {
			if strings.HasPrefix(fn.Name(), "init") {
				continue
			}
			if pk := load.FnPkg(fn); pk != nil && strings.HasSuffix(pk.Path(), "/testutils") {
				continue
			}
			sx.EachInstr(fn, func(in ssa.Instruction) {
				call, ok := in.(ssa.CallInstruction)
				if !ok {
					return
				}
				com := call.Common()
				for i, a := range com.Args {
					g := globalAddrOf(a)
					if g == nil || g.Pkg == nil || !load.IsModPath(g.Pkg.Pkg.Path()) {
						continue
					}
					n++
					callee := sx.Callee(call)
					if callee != nil && callee.Signature.Recv() != nil && i == 0 {
						if rp := callee.Signature.Recv().Pkg(); rp != nil && (rp.Path() == "sync" || rp.Path() == "sync/atomic") {
							continue
						}
					}
					c.Fail(load.FnName(fn)+": address of package-level "+g.Name(), sx.InstrPos(in), "the address of the package-level variable "+g.Name()+" is handed to "+sx.TrimMod(sx.CalleeName(call))+": concurrent calls write into the same variable")
				}
			})
		}
		c.Note("R-GLOBAL-ADDR: %d package-level addresses passed as arguments", n)
	},
}

// globalAddrOf: v is the address of a package-level variable (possibly boxed into an interface).
func globalAddrOf(v ssa.Value) *ssa.Global {
	switch x := v.(type) {
	case *ssa.Global:
		return x
	case *ssa.MakeInterface:
		return globalAddrOf(x.X)
	case *ssa.ChangeType:
		return globalAddrOf(x.X)
	}
	return nil
}

// ---------------------------------------------------------------------------
// R-OS-PREDICATE

var rOSPredicate = &Rule{
	Name: "R-OS-PREDICATE",
	Doc: "the portable OS predicates recognise their sentinel by the library's network-portable identity: oserror.IsPermission / IsExist / IsNotExist each call errors.Is (markers.Is) with the caller's error and the package's sentinel variable, and no function of the package compares an error with `==`. " +
		"A decoded sentinel is a different Go value with the same mark: an identity comparison is true before the first hop and false after it",
	Run: func(c *core.Ctx) {
		p := c.P
		n := 0
		for _, name := range []string{"IsPermission", "IsExist", "IsNotExist"} {
			fn := p.Func("oserror", name)
			if fn == nil || len(fn.Params) != 1 {
				c.InternalErr("oserror."+name, "predicate not found")
				continue
			}
			n++
			found := false
			reg := regionOf(fn)
			reg.each(func(in ssa.Instruction) {
				call, ok := in.(*ssa.Call)
				if !ok || len(call.Call.Args) != 2 {
					return
				}
				f := sx.Callee(call)
				if f == nil || f.Name() != "Is" || !p.InModule(f) {
					return
				}
				if reg.resolve(call.Call.Args[0]) != ssa.Value(fn.Params[0]) {
					return
				}
				if ld, isLd := reg.resolve(call.Call.Args[1]).(*ssa.UnOp); isLd {
					if g, isG := ld.X.(*ssa.Global); isG && g.Pkg == fn.Pkg {
						found = true
					}
				}
			})
			c.Check(found, "oserror."+name+": sentinel test", fn.Pos(), "errors.Is(err, <the package's sentinel>)",
				"the predicate no longer asks errors.Is for its sentinel: a sentinel that has crossed the network (a different value with the same mark) is not recognised, so the predicate is true before a hop and false after it")
		}
		for _, fn := range p.HandFuncs() {
			if pk := load.FnPkg(fn); pk == nil || !strings.HasSuffix(pk.Path(), "/oserror") {
				continue
			}
			sx.EachInstr(fn, func(in ssa.Instruction) {
				bo, ok := in.(*ssa.BinOp)
				if !ok || (bo.Op != token.EQL && bo.Op != token.NEQ) || !sx.IsErrorType(bo.X.Type()) || sx.IsNil(bo.X) || sx.IsNil(bo.Y) {
					return
				}
				c.Fail(load.FnName(fn)+": identity comparison of errors", sx.InstrPos(bo), "an OS predicate compares error values with "+bo.Op.String()+": identity does not survive the network (and panics for uncomparable error types)")
			})
		}
		c.Min("portable OS predicates", n, 3)
	},
}
