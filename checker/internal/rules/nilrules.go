package rules

import (
	"fmt"
	"go/types"
	"strings"

	"golang.org/x/tools/go/ssa"

	"verif/checker/internal/absint"
	"verif/checker/internal/core"
	"verif/checker/internal/load"
	"verif/checker/internal/sx"
)

func nilEval(c *core.Ctx) *absint.NilEval {
	if v, ok := c.Cache["nileval"]; ok {
		return v.(*absint.NilEval)
	}
	e := absint.NewNilEval(c.P.InModule)
	c.Cache["nileval"] = e
	return e
}

// publicAPI lists exported package-level functions of the module's public
// (non-internal, non-test-helper, hand-written) packages.
func publicAPI(p *load.Program) []*ssa.Function {
	var out []*ssa.Function
	for _, fn := range p.HandFuncs() {
		if fn.Parent() != nil || fn.Signature.Recv() != nil || !sx.Exported(fn) {
			continue
		}
		path := load.FnPkg(fn).Path()
		if strings.Contains(path, "/internal") || strings.HasSuffix(path, "/testutils") || strings.HasSuffix(path, "/errorspb") {
			continue
		}
		out = append(out, fn)
	}
	return out
}

func errorParams(fn *ssa.Function) []int {
	var out []int
	for i, p := range fn.Params {
		if sx.IsErrorType(p.Type()) {
			out = append(out, i)
		}
	}
	return out
}

func errorResult(fn *ssa.Function) int {
	rs := fn.Signature.Results()
	idx := -1
	for i := 0; i < rs.Len(); i++ {
		if sx.IsErrorType(rs.At(i).Type()) {
			if idx >= 0 {
				return -1
			}
			idx = i
		}
	}
	return idx
}

// identity strips value-preserving conversions.
func identity(v ssa.Value) ssa.Value {
	for {
		switch x := v.(type) {
		case *ssa.ChangeInterface:
			v = x.X
		case *ssa.ChangeType:
			v = x.X
		default:
			return v
		}
	}
}

// wrapsParam reports whether fn may return a freshly built error value that
// stores (a value identical to, or a wrapper around) parameter pi in one of
// its fields: "fn is a wrapper constructor for parameter pi".
func wrapsParam(p *load.Program, fn *ssa.Function, pi int, memo map[string]bool, depth int) bool {
	k := fmt.Sprintf("%p/%d", fn, pi)
	if v, ok := memo[k]; ok {
		return v
	}
	memo[k] = false
	if fn.Blocks == nil || depth > 8 || pi >= len(fn.Params) {
		return false
	}
	// derived: values identical to the parameter or wrappers around it
	derived := map[ssa.Value]bool{fn.Params[pi]: true}
	wrapper := map[ssa.Value]bool{} // values that are wrappers of the param
	for changed := true; changed; {
		changed = false
		sx.EachInstr(fn, func(in ssa.Instruction) {
			v, ok := in.(ssa.Value)
			if !ok || derived[v] {
				return
			}
			switch x := in.(type) {
			case *ssa.Phi:
				for _, e := range x.Edges {
					if derived[e] {
						derived[v], changed = true, true
						if wrapper[e] {
							wrapper[v] = true
						}
					}
				}
			case *ssa.ChangeInterface:
				if derived[x.X] {
					derived[v], changed = true, true
					wrapper[v] = wrapper[x.X]
				}
			case *ssa.Alloc:
				// &T{..., f: param}, also when it travels as a pointer first (a constructor helper returning *T)
				if allocStores(x, derived) {
					derived[v], wrapper[v], changed = true, true, true
				}
			case *ssa.MakeInterface:
				// &T{..., f: param} boxed
				if al, ok := x.X.(*ssa.Alloc); ok && allocStores(al, derived) {
					derived[v], wrapper[v], changed = true, true, true
				} else if wrapper[x.X] {
					derived[v], wrapper[v], changed = true, true, true
				}
			case *ssa.Call:
				callee := sx.Callee(x)
				if callee == nil || !p.InModule(callee) {
					return
				}
				for ai, a := range x.Call.Args {
					if derived[a] && wrapsParam(p, callee, ai, memo, depth+1) {
						derived[v], wrapper[v], changed = true, true, true
					}
				}
			}
		})
	}
	res := false
	ei := errorResult(fn)
	for _, r := range sx.Returns(fn) {
		if ei >= 0 && ei < len(r.Results) && wrapper[r.Results[ei]] {
			res = true
		}
		if ei < 0 {
			// a constructor helper that hands the wrapper out under its concrete pointer type
			for _, v := range r.Results {
				if wrapper[v] {
					res = true
				}
			}
		}
	}
	memo[k] = res
	return res
}

func allocStores(al *ssa.Alloc, derived map[ssa.Value]bool) bool {
	for _, ref := range *al.Referrers() {
		fa, ok := ref.(*ssa.FieldAddr)
		if !ok {
			continue
		}
		for _, r2 := range *fa.Referrers() {
			if st, ok := r2.(*ssa.Store); ok && st.Addr == fa && derived[st.Val] {
				return true
			}
		}
	}
	return false
}

// constructive reports whether every return value of fn's error result is
// built constructively (nil constant, fresh allocation, or a static call to
// another constructive module function): fn is a pure constructor.
func constructive(p *load.Program, fn *ssa.Function, memo map[*ssa.Function]int, depth int) bool {
	if v, ok := memo[fn]; ok {
		return v != 2
	}
	memo[fn] = 1
	ok := true
	ei := errorResult(fn)
	if fn.Blocks == nil || ei < 0 || depth > 8 {
		memo[fn] = 2
		return false
	}
	seen := map[ssa.Value]bool{}
	var walk func(v ssa.Value)
	walk = func(v ssa.Value) {
		if seen[v] || !ok {
			return
		}
		seen[v] = true
		switch x := v.(type) {
		case *ssa.Const:
		case *ssa.MakeInterface:
			if _, isAl := x.X.(*ssa.Alloc); !isAl {
				if _, isC := x.X.(*ssa.Const); !isC {
					ok = false
				}
			}
		case *ssa.ChangeInterface:
			walk(x.X)
		case *ssa.Phi:
			for _, e := range x.Edges {
				walk(e)
			}
		case *ssa.Call:
			callee := sx.Callee(x)
			if callee == nil || !p.InModule(callee) || !constructive(p, callee, memo, depth+1) {
				ok = false
			}
		case *ssa.Extract:
			if call, isCall := x.Tuple.(*ssa.Call); isCall {
				callee := sx.Callee(call)
				if callee == nil || !p.InModule(callee) || !constructive(p, callee, memo, depth+1) {
					ok = false
				}
			} else {
				ok = false
			}
		case *ssa.Parameter:
			// pass-through of an error parameter: allowed (wrapper constructors return err itself on some paths)
			if !sx.IsErrorType(x.Type()) {
				ok = false
			}
		default:
			ok = false
		}
	}
	for _, r := range sx.Returns(fn) {
		walk(r.Results[ei])
	}
	if ok {
		memo[fn] = 1
	} else {
		memo[fn] = 2
	}
	return ok
}

// twoErrTable: documented results of the two-error constructors.
// value: for (param0 nil) and (param1 nil): "nil", "p0", "p1".
var twoErrTable = map[string][2]string{
	"WithSecondaryError": {"nil-or-p0", "p0"}, // WithSecondaryError(nil, x) = nil; WithSecondaryError(e, nil) = e
	"CombineErrors":      {"p1", "p0"},        // CombineErrors(nil, e) = e; CombineErrors(e, nil) = e
}

var rNil = &Rule{
	Name: "R-NIL",
	Doc: "nilness abstract interpretation with feasible-path pruning (no execution): every exported wrapper constructor (a function whose returned error stores its error parameter in a field, found by dataflow) " +
		"returns nil on every path when that parameter is nil; the two-error constructors obey their documented table; every exported pure leaf constructor returns non-nil on every path",
	Run: runNil,
}

func runNil(c *core.Ctx) {
	p := c.P
	ev := nilEval(c)
	wmemo := map[string]bool{}
	cmemo := map[*ssa.Function]int{}
	nWrap, nLeaf, nTwo := 0, 0, 0
	for _, fn := range publicAPI(p) {
		ei := errorResult(fn)
		if ei < 0 {
			continue
		}
		name := load.FnName(fn)
		eps := errorParams(fn)
		var wrapped []int
		for _, pi := range eps {
			if wrapsParam(p, fn, pi, wmemo, 0) {
				wrapped = append(wrapped, pi)
			}
		}
		switch {
		case len(wrapped) == 1:
			nWrap++
			pi := wrapped[0]
			args := make([]absint.Nil, len(fn.Params))
			args[pi] = absint.IsNil
			s := ev.Call(fn, args)
			construct := fmt.Sprintf("%s(%s=nil)", name, fn.Params[pi].Name())
			if s.Results[ei] == absint.IsNil {
				c.Ob(construct, fn.Pos(), true, fmt.Sprintf("result is nil on all %d reachable returns", len(s.Returns)))
			} else {
				var path []string
				for _, r := range s.Returns {
					if r.Results[ei] != absint.IsNil {
						path = append(path, fmt.Sprintf("return at %s yields %s", p.Pos(r.Ret.Pos()), r.Results[ei]))
					}
				}
				c.Fail(construct, fn.Pos(), "wrapper constructor does not return nil for a nil error (result "+s.Results[ei].String()+")", path...)
			}
		case len(wrapped) == 2:
			nTwo++
			tab, ok := twoErrTable[fn.Name()]
			if !ok {
				c.Undecided(name, fn.Pos(), "constructor wraps two error parameters and has no entry in the documented nil table")
				continue
			}
			for which, want := range tab {
				args := make([]absint.Nil, len(fn.Params))
				args[wrapped[which]] = absint.IsNil
				args[wrapped[1-which]] = absint.NonNil
				s := ev.Call(fn, args)
				construct := fmt.Sprintf("%s(%s=nil, %s=non-nil)", name, fn.Params[wrapped[which]].Name(), fn.Params[wrapped[1-which]].Name())
				got := s.Results[ei]
				ok := false
				switch want {
				case "nil-or-p0":
					ok = got == absint.IsNil
				case "p0", "p1":
					wantParam := fn.Params[wrapped[0]]
					if want == "p1" {
						wantParam = fn.Params[wrapped[1]]
					}
					ok = got == absint.NonNil && returnsParam(p, fn, wantParam, args, ev, 0)
				}
				c.Check(ok, construct, fn.Pos(), "documented result "+want+" on every reachable return", "two-error constructor deviates from its documented nil table (want "+want+", got "+got.String()+")")
			}
		case len(eps) == 0 && !hasErrSlice(fn) && constructive(p, fn, cmemo, 0):
			nLeaf++
			s := ev.Call(fn, nil)
			construct := name + "(...)"
			if s.Results[ei] == absint.NonNil {
				c.Ob(construct, fn.Pos(), true, fmt.Sprintf("leaf constructor: non-nil on all %d reachable returns", len(s.Returns)))
			} else {
				var path []string
				for _, r := range s.Returns {
					if r.Results[ei] != absint.NonNil {
						path = append(path, fmt.Sprintf("return at %s yields %s", p.Pos(r.Ret.Pos()), r.Results[ei]))
					}
				}
				c.Fail(construct, fn.Pos(), "leaf constructor may return nil (result "+s.Results[ei].String()+")", path...)
			}
		}
	}
	c.Min("wrapper constructors (one wrapped error parameter)", nWrap, 60)
	c.Min("two-error constructors", nTwo, 4)
	c.Min("leaf constructors", nLeaf, 12)
}

func hasErrSlice(fn *ssa.Function) bool {
	for _, p := range fn.Params {
		if s, ok := types.Unalias(p.Type()).Underlying().(*types.Slice); ok && sx.IsErrorType(s.Elem()) {
			return true
		}
	}
	return false
}

// returnsParam: under args, every reachable return yields param itself,
// directly or through forwarding calls that return their corresponding
// parameter.
func returnsParam(p *load.Program, fn *ssa.Function, param *ssa.Parameter, args []absint.Nil, ev *absint.NilEval, depth int) bool {
	if depth > 6 {
		return false
	}
	s := ev.Call(fn, args)
	ei := errorResult(fn)
	if len(s.Returns) == 0 {
		return false
	}
	for _, r := range s.Returns {
		v := identity(r.Ret.Results[ei])
		if v == param {
			continue
		}
		call, ok := v.(*ssa.Call)
		if !ok {
			return false
		}
		callee := sx.Callee(call)
		if callee == nil || callee.Blocks == nil {
			return false
		}
		// find which callee parameter receives param, and translate args
		idx := -1
		cargs := make([]absint.Nil, len(callee.Params))
		for i, a := range call.Call.Args {
			cargs[i] = absint.Top
			if pa, ok := identity(a).(*ssa.Parameter); ok {
				for j, fp := range fn.Params {
					if fp == pa {
						cargs[i] = args[j]
						if pa == param {
							idx = i
						}
					}
				}
			}
		}
		if idx < 0 || !returnsParam(p, callee, callee.Params[idx], cargs, ev, depth+1) {
			return false
		}
	}
	return true
}
