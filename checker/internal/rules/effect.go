package rules

import (
	"fmt"
	"go/token"
	"go/types"
	"sort"
	"strings"

	"golang.org/x/tools/go/ssa"

	"verif/checker/internal/core"
	"verif/checker/internal/load"
	"verif/checker/internal/sx"
)

var rEffect = &Rule{
	Name: "R-EFFECT",
	Doc: "effect analysis over the VTA call graph: in every hand-written module function reachable from the observer entry points (formatting, redacted formatting, encoding, Is/IsAny/As/If/Has*/Get*/Flatten*, safe-detail extraction, report building, and every method of every module error type) " +
		"(1) no Store/MapUpdate goes through a pointer that is not freshly allocated in the same function (or fresh at every call site) into a type reachable from an error value's fields; (2) no package-level variable is written (store, map update) unless under a dominating Lock() of a package-level mutex; " +
		"(3) no range over a map decides a result (tabled: GetTelemetryKeys, documented as a set). Scratch types (state, formatEntry, buffers, the sentry event, wire messages under construction) are not shared",
	Run: func(c *core.Ctx) { runEffect(c, nil) },
}

var effectTabled = map[string]string{
	"telemetrykeys.GetTelemetryKeys: range over map": "the result is documented as the set union of the keys: order is unspecified",
}

func observerEntries(c *core.Ctx) []*ssa.Function {
	p := c.P
	seen := map[*ssa.Function]bool{}
	var out []*ssa.Function
	add := func(f *ssa.Function) {
		if f != nil && f.Blocks != nil && !seen[f] {
			seen[f] = true
			out = append(out, f)
		}
	}
	for _, fn := range publicAPI(p) {
		nm := fn.Name()
		obs := strings.HasPrefix(nm, "Format") || strings.HasPrefix(nm, "Encode") || strings.HasPrefix(nm, "Is") || nm == "As" || nm == "If" ||
			strings.HasPrefix(nm, "Has") || strings.HasPrefix(nm, "Get") || strings.HasPrefix(nm, "Flatten") || nm == "BuildSentryReport" ||
			strings.HasPrefix(nm, "Unwrap") || nm == "Cause" || nm == "NotInDomain" || nm == "Redact"
		if obs {
			add(fn)
		}
	}
	for _, et := range GetCensus(c).ErrTypes {
		for _, m := range et.Methods {
			add(m)
		}
	}
	sort.Slice(out, func(i, j int) bool { return out[i].String() < out[j].String() })
	return out
}

func scratchType(t types.Type) bool {
	n := sx.NamedOf(t)
	if n == nil || n.Obj().Pkg() == nil {
		return false
	}
	path, name := n.Obj().Pkg().Path(), n.Obj().Name()
	switch {
	case path == errbasePath && (name == "state" || name == "printer" || name == "safePrinter" || name == "formatEntry"):
		return true
	case path == "bytes" || path == "strings":
		return true
	case strings.Contains(path, "sentry-go"):
		return true
	case strings.HasSuffix(path, "/errorspb"):
		return true
	}
	return false
}

func runEffect(c *core.Ctx, keepEntry func(*ssa.Function) bool) {
	p := c.P
	cg := p.CallGraph()
	entries := observerEntries(c)
	if keepEntry != nil {
		var kept []*ssa.Function
		for _, e := range entries {
			if keepEntry(e) {
				kept = append(kept, e)
			}
		}
		entries = kept
	}
	// reachable hand-written module functions
	reach := map[*ssa.Function]*ssa.Function{} // fn -> entry it was first reached from
	var queue []*ssa.Function
	for _, e := range entries {
		if _, ok := reach[e]; !ok {
			reach[e] = e
			queue = append(queue, e)
		}
	}
	for len(queue) > 0 {
		fn := queue[0]
		queue = queue[1:]
		n := cg.Nodes[fn]
		if n == nil {
			continue
		}
		for _, ed := range n.Out {
			cal := ed.Callee.Func
			if cal == nil || cal.Blocks == nil || !p.InModule(cal) || p.Generated(cal) {
				continue
			}
			if pk := load.FnPkg(cal); pk != nil && strings.HasSuffix(pk.Path(), "/testutils") {
				continue
			}
			if _, ok := reach[cal]; !ok {
				reach[cal] = reach[fn]
				queue = append(queue, cal)
			}
		}
		for _, a := range fn.AnonFuncs {
			if _, ok := reach[a]; !ok {
				reach[a] = reach[fn]
				queue = append(queue, a)
			}
		}
	}
	// shared types: closure of module error types through their fields
	shared := map[string]bool{}
	var addShared func(t types.Type, depth int)
	addShared = func(t types.Type, depth int) {
		t = types.Unalias(t)
		if depth > 6 || scratchType(t) {
			return
		}
		k := types.TypeString(t, nil)
		if shared[k] {
			return
		}
		switch u := t.(type) {
		case *types.Pointer:
			addShared(u.Elem(), depth)
			return
		case *types.Slice:
			shared[k] = true
			addShared(u.Elem(), depth+1)
			return
		case *types.Map:
			shared[k] = true
			addShared(u.Elem(), depth+1)
			return
		case *types.Array:
			shared[k] = true
			addShared(u.Elem(), depth+1)
			return
		case *types.Named:
			if _, isIface := u.Underlying().(*types.Interface); isIface {
				return
			}
			shared[k] = true
			if st, ok := u.Underlying().(*types.Struct); ok {
				for i := 0; i < st.NumFields(); i++ {
					addShared(st.Field(i).Type(), depth+1)
				}
			} else {
				addShared(u.Underlying(), depth+1)
			}
		}
	}
	for _, et := range GetCensus(c).ErrTypes {
		addShared(et.Named, 0)
	}
	isShared := func(t types.Type) bool {
		t = types.Unalias(t)
		if pt, ok := t.(*types.Pointer); ok {
			t = types.Unalias(pt.Elem())
		}
		return shared[types.TypeString(t, nil)]
	}
	// freshness
	var fresh func(v ssa.Value, depth int) bool
	freshBusy := map[*ssa.Phi]bool{}
	fresh = func(v ssa.Value, depth int) bool {
		if depth > 6 {
			return false
		}
		switch x := v.(type) {
		case *ssa.Alloc, *ssa.MakeSlice, *ssa.MakeMap, *ssa.MakeChan, *ssa.MakeInterface:
			return true
		case *ssa.Const:
			return true
		case *ssa.Slice:
			return fresh(x.X, depth+1)
		case *ssa.Phi:
			// a loop phi (out := fresh[:0]; for … { out = append(out, e) }): the cycle through the append is decided
			// by the other edges (coinductive: a value being decided counts as fresh on the way back to itself)
			if freshBusy[x] {
				return true
			}
			freshBusy[x] = true
			defer delete(freshBusy, x)
			for _, e := range x.Edges {
				if e != v && !fresh(e, depth+1) {
					return false
				}
			}
			return true
		case *ssa.Call:
			if b, ok := x.Call.Value.(*ssa.Builtin); ok && b.Name() == "append" {
				return fresh(x.Call.Args[0], depth+1) || sx.IsNil(x.Call.Args[0])
			}
			callee := sx.Callee(x)
			if callee == nil || !p.InModule(callee) {
				return true // constructor of a dependency (sentry.NewEvent, logtags …)
			}
			for _, r := range sx.Returns(callee) {
				for _, rv := range r.Results {
					if types.Identical(rv.Type(), v.Type()) && !fresh(rv, depth+1) {
						return false
					}
				}
			}
			return true
		case *ssa.Extract:
			return fresh(x.Tuple, depth+1)
		case *ssa.UnOp:
			if x.Op == token.MUL {
				if al, ok := x.X.(*ssa.Alloc); ok {
					// local variable holding a pointer/slice: fresh if everything stored in it is
					for _, r := range *al.Referrers() {
						if st, ok := r.(*ssa.Store); ok && st.Addr == al && !fresh(st.Val, depth+1) {
							return false
						}
					}
					return true
				}
				if fv, ok := x.X.(*ssa.FreeVar); ok {
					// captured local of the enclosing function: fresh if the cell only ever holds fresh values
					cf := fv.Parent()
					idx := -1
					for i, q := range cf.FreeVars {
						if q == fv {
							idx = i
						}
					}
					okAll, found := true, false
					if cf.Parent() != nil && idx >= 0 {
						sx.EachInstrDeep(cf.Parent(), func(_ *ssa.Function, in ssa.Instruction) {
							mc, isMC := in.(*ssa.MakeClosure)
							if !isMC || mc.Fn != ssa.Value(cf) || idx >= len(mc.Bindings) {
								return
							}
							found = true
							cell, isAlloc := mc.Bindings[idx].(*ssa.Alloc)
							if !isAlloc {
								okAll = false
								return
							}
							for _, r := range *cell.Referrers() {
								if st, ok := r.(*ssa.Store); ok && st.Addr == cell && !fresh(st.Val, depth+1) {
									okAll = false
								}
							}
						})
					}
					return found && okAll
				}
			}
			return false
		case *ssa.Parameter:
			fn := x.Parent()
			if sx.Exported(fn) || fn.Signature.Recv() != nil || fn.Parent() != nil {
				return false
			}
			idx := -1
			for i, q := range fn.Params {
				if q == x {
					idx = i
				}
			}
			n := cg.Nodes[fn]
			if n == nil || len(n.In) == 0 {
				return false
			}
			for _, in := range n.In {
				if in.Site == nil {
					return false
				}
				args := in.Site.Common().Args
				if idx >= len(args) || !fresh(args[idx], depth+1) {
					return false
				}
			}
			return true
		}
		return false
	}
	rootOf := func(addr ssa.Value) ssa.Value {
		for i := 0; i < 10; i++ {
			switch x := addr.(type) {
			case *ssa.FieldAddr:
				addr = x.X
			case *ssa.IndexAddr:
				addr = x.X
			case *ssa.Slice:
				addr = x.X
			default:
				return addr
			}
		}
		return addr
	}
	lockedGlobal := func(in ssa.Instruction) bool {
		ok := false
		sx.EachInstr(in.Parent(), func(i2 ssa.Instruction) {
			call, isCall := i2.(*ssa.Call)
			if !isCall {
				return
			}
			f := sx.Callee(call)
			if f == nil || f.Name() != "Lock" || load.FnPkg(f) == nil || load.FnPkg(f).Path() != "sync" {
				return
			}
			if _, isG := rootOf(call.Call.Args[0]).(*ssa.Global); !isG {
				return
			}
			if call.Block() == in.Block() || call.Block().Dominates(in.Block()) {
				ok = true
			}
		})
		return ok
	}
	var fns []*ssa.Function
	for f := range reach {
		fns = append(fns, f)
	}
	sort.Slice(fns, func(i, j int) bool { return fns[i].String() < fns[j].String() })
	nStores := 0
	seenTab := map[string]bool{}
	for _, fn := range fns {
		if p.Generated(fn) {
			continue
		}
		via := "reachable from " + load.FnName(reach[fn])
		sx.EachInstr(fn, func(in ssa.Instruction) {
			switch x := in.(type) {
			case *ssa.Store:
				nStores++
				root := rootOf(x.Addr)
				construct := fmt.Sprintf("%s: store to %s", load.FnName(fn), describeAddr(x.Addr))
				if g, ok := root.(*ssa.Global); ok {
					if lockedGlobal(in) {
						c.Ob(construct, x.Pos(), true, "package-level variable written under a dominating Lock()")
						return
					}
					c.Fail(construct, x.Pos(), "package-level variable "+g.Name()+" is written on a path reachable from a read-only operation: concurrent observers race (and results depend on history)", via)
					return
				}
				if x.Addr == root {
					if _, isAlloc := root.(*ssa.Alloc); isAlloc {
						return
					}
					// assignment to a captured local variable of the enclosing function (res = append(res, …) inside a
					// callback): the cell is that function's own local
					if fv, isFV := root.(*ssa.FreeVar); isFV && freeVarIsLocalCell(fv) {
						return
					}
				}
				if fresh(root, 0) {
					return
				}
				// which object is mutated: the struct owning the field / the element type
				var owner types.Type
				switch a := x.Addr.(type) {
				case *ssa.FieldAddr:
					owner = sx.Deref(a.X.Type())
				case *ssa.IndexAddr:
					owner = a.X.Type()
				default:
					owner = sx.Deref(x.Addr.Type())
				}
				if scratchType(owner) || !isShared(owner) {
					return
				}
				c.Fail(construct, x.Pos(), "a value reachable from an error object ("+load.TypeName(owner)+") is mutated through a non-fresh pointer on a path reachable from a read-only operation: concurrent observers race", via)
			case *ssa.MapUpdate:
				nStores++
				root := rootOf(x.Map)
				construct := fmt.Sprintf("%s: map update of %s", load.FnName(fn), describeVal(x.Map))
				if ld, ok := root.(*ssa.UnOp); ok {
					if g, ok := rootOf(ld.X).(*ssa.Global); ok {
						if lockedGlobal(in) {
							c.Ob(construct, x.Pos(), true, "package-level map updated under a dominating Lock()")
							return
						}
						c.Fail(construct, x.Pos(), "package-level map "+g.Name()+" is updated on a path reachable from a read-only operation: concurrent observers race", via)
						return
					}
				}
				if fresh(root, 0) {
					return
				}
				if isShared(x.Map.Type()) {
					c.Fail(construct, x.Pos(), "a map reachable from an error object is updated on a path reachable from a read-only operation", via)
				}
			case *ssa.Call:
				// append into the spare capacity of a slice that is not fresh: a write into a backing array somebody else
				// owns (res := causes[:0]; res = append(res, c) filters "in place" the slice an error handed out)
				if b, ok := x.Call.Value.(*ssa.Builtin); ok && b.Name() == "append" && len(x.Call.Args) >= 1 {
					s0 := x.Call.Args[0]
					// a slice handed out by a dynamically dispatched method (SafeDetails(), Unwrap() []error, StackTrace() of
					// an arbitrary error): its capacity is whatever the implementation left, so the append may write into
					// a backing array the error owns
					if iv := invokeRoot(s0, 0); iv != nil && isShared(s0.Type()) {
						nStores++
						c.Fail(fmt.Sprintf("%s: append onto the result of %s", load.FnName(fn), iv.Call.Method.Name()), x.Pos(),
							"append grows, in place, a slice that an interface method ("+iv.Call.Method.Name()+"()) of an arbitrary error handed out ("+load.TypeName(s0.Type())+"): when that slice has spare capacity the append writes into a backing array the error owns, on a path reachable from a read-only operation - concurrent observers race, and observing changes what the error holds", via)
						return
					}
					if sx.IsNil(s0) || fresh(s0, 0) {
						return
					}
					if !isShared(s0.Type()) {
						return
					}
					nStores++
					// appending to a full slice reallocates; only a slice expression that lowers the length (x[:k]) is
					// known to have spare capacity over live elements
					if sl := lowersLength(s0, 0); sl != nil {
						c.Fail(fmt.Sprintf("%s: append into %s", load.FnName(fn), describeVal(s0)), x.Pos(),
							"append writes into the spare capacity of a re-sliced, non-fresh slice ("+load.TypeName(s0.Type())+"): the elements of a backing array owned by an error object (or handed out by its Unwrap() []error) are overwritten on a path reachable from a read-only operation - concurrent observers race, and observing can change the error", via)
					}
					return
				}
				// package-level sync.Map / sync.Pool: synchronised, so no data race on the container itself, but a
				// process-wide cache reachable from a read-only operation hands the SAME stored object to every caller
				// (shared mutable results) and makes a call's result depend on earlier calls
				if f := sx.Callee(x); f != nil && f.Signature.Recv() != nil && len(x.Call.Args) >= 1 {
					isMap, isPool := sx.IsNamed(f.Signature.Recv().Type(), "sync", "Map"), sx.IsNamed(f.Signature.Recv().Type(), "sync", "Pool")
					if isMap || isPool {
						if g, ok := rootOf(x.Call.Args[0]).(*ssa.Global); ok {
							switch f.Name() {
							case "Store", "LoadOrStore", "LoadAndDelete", "Delete", "Swap", "CompareAndSwap", "CompareAndDelete", "Put", "Get":
								if isMap || f.Name() == "Put" || f.Name() == "Get" {
									nStores++
									kind := "sync.Map"
									if isPool {
										kind = "sync.Pool"
									}
									c.Fail(fmt.Sprintf("%s: %s.%s on package variable %s", load.FnName(fn), kind, f.Name(), g.Name()), x.Pos(),
										"process-wide state ("+kind+" "+g.Name()+") is updated on a path reachable from a read-only operation: callers share whatever object is stored there (a report built for one caller is visible to, and mutated by, the next), and results depend on what ran before", via)
								}
							}
						}
						return
					}
				}
				// package-level atomic state
				f := sx.Callee(x)
				if f == nil || load.FnPkg(f) == nil || load.FnPkg(f).Path() != "sync/atomic" || len(x.Call.Args) == 0 {
					return
				}
				nm := f.Name()
				if !(strings.HasPrefix(nm, "Add") || strings.HasPrefix(nm, "Store") || strings.HasPrefix(nm, "Swap") || strings.HasPrefix(nm, "CompareAndSwap") || nm == "Or" || nm == "And") {
					return
				}
				if g, ok := rootOf(x.Call.Args[0]).(*ssa.Global); ok {
					nStores++
					c.Fail(fmt.Sprintf("%s: atomic update of package variable %s", load.FnName(fn), g.Name()), x.Pos(),
						"process-wide state is updated (atomically) on a path reachable from a read-only operation: no data race, but the result of one call can depend on what other goroutines are doing", via)
				}
			case *ssa.Range:
				if _, isMap := types.Unalias(x.X.Type()).Underlying().(*types.Map); !isMap {
					return
				}
				construct := load.FnName(fn) + ": range over map"
				if why, ok := effectTabled[construct]; ok {
					seenTab[construct] = true
					c.Ob(construct, x.Pos(), true, "tabled: "+why)
					return
				}
				// order-insensitive body: only map updates / no appends or writes
				c.Fail(construct, x.Pos(), "iteration order of a map can reach the result of a read-only operation: the same error gives different results on different calls", via)
			}
		})
	}
	for _, fn := range fns {
		if p.Generated(fn) {
			continue
		}
		n := 0
		sx.EachInstr(fn, func(in ssa.Instruction) {
			switch in.(type) {
			case *ssa.Store, *ssa.MapUpdate:
				n++
			}
		})
		bad := false
		for _, f := range c.Findings {
			if f.Rule == c.Rule && strings.HasPrefix(f.Construct, load.FnName(fn)+":") {
				bad = true
			}
		}
		if n > 0 && !bad {
			c.Ob(load.FnName(fn), fn.Pos(), true, fmt.Sprintf("%d store/map-update instruction(s): all into fresh allocations or scratch types; reachable from %s", n, load.FnName(reach[fn])))
		}
	}
	for k := range effectTabled {
		if keepEntry != nil {
			break
		}
		if !seenTab[k] {
			c.Note("tabled R-EFFECT exception %q matches no construct any more (harmless; table can be pruned)", k)
		}
	}
	c.Ob(fmt.Sprintf("%d observer entry points, %d reachable hand-written functions, %d store/map-update instructions inspected", len(entries), len(fns), nStores), token.NoPos, true, "no write to shared or package-level state")
	if keepEntry == nil {
		c.Min("observer entry points", len(entries), 150)
		c.Min("reachable functions", len(fns), 200)
		c.Min("stores inspected", nStores, 200)
	} else {
		c.Min("observer entry points in scope", len(entries), 1)
	}
}

func describeAddr(a ssa.Value) string {
	switch x := a.(type) {
	case *ssa.FieldAddr:
		return "field " + sx.FieldName(x.X.Type(), sx.FieldOf(x))
	case *ssa.IndexAddr:
		return "element of " + describeVal(x.X)
	case *ssa.Global:
		return "package variable " + x.Name()
	}
	return describeVal(a)
}

// lowersLength: v is (a phi / re-append over) a slice expression x[:k] or x[i:j] whose length can be below the
// capacity of x's backing array while x's elements are live.
func lowersLength(v ssa.Value, d int) *ssa.Slice {
	if d > 6 {
		return nil
	}
	switch x := v.(type) {
	case *ssa.Slice:
		if x.High != nil && x.Max == nil {
			return x
		}
		return lowersLength(x.X, d+1)
	case *ssa.Phi:
		for _, e := range x.Edges {
			if e == v {
				continue
			}
			if s := lowersLength(e, d+1); s != nil {
				return s
			}
		}
	case *ssa.Call:
		if b, ok := x.Call.Value.(*ssa.Builtin); ok && b.Name() == "append" {
			return lowersLength(x.Call.Args[0], d+1)
		}
	}
	return nil
}

// freeVarIsLocalCell: every closure creation binds fv to a local variable (Alloc) of the enclosing function.
func freeVarIsLocalCell(fv *ssa.FreeVar) bool {
	cf := fv.Parent()
	if cf == nil || cf.Parent() == nil {
		return false
	}
	idx := -1
	for i, q := range cf.FreeVars {
		if q == fv {
			idx = i
		}
	}
	if idx < 0 {
		return false
	}
	found, ok := false, true
	sx.EachInstrDeep(cf.Parent(), func(_ *ssa.Function, in ssa.Instruction) {
		mc, isMC := in.(*ssa.MakeClosure)
		if !isMC || mc.Fn != ssa.Value(cf) || idx >= len(mc.Bindings) {
			return
		}
		found = true
		switch b := mc.Bindings[idx].(type) {
		case *ssa.Alloc:
		case *ssa.FreeVar:
			if !freeVarIsLocalCell(b) {
				ok = false
			}
		default:
			ok = false
		}
	})
	return found && ok
}

// invokeRoot: v is (a phi / re-append / re-slice over) the result of a dynamically dispatched method call.
func invokeRoot(v ssa.Value, d int) *ssa.Call {
	if d > 6 {
		return nil
	}
	switch x := v.(type) {
	case *ssa.Call:
		if x.Call.IsInvoke() {
			return x
		}
		if b, ok := x.Call.Value.(*ssa.Builtin); ok && b.Name() == "append" {
			return invokeRoot(x.Call.Args[0], d+1)
		}
	case *ssa.Slice:
		return invokeRoot(x.X, d+1)
	case *ssa.Phi:
		for _, e := range x.Edges {
			if e == v {
				continue
			}
			if c := invokeRoot(e, d+1); c != nil {
				return c
			}
		}
	}
	return nil
}
