package rules

import (
	"go/token"

	"golang.org/x/tools/go/ssa"
)

// lit is an SSA boolean value known to be true (Neg=false) or false (Neg=true).
type lit struct {
	V   ssa.Value
	Neg bool
}

// condLits returns the literals implied when cond evaluates to truth. It
// sees through negation and through the value form of && / || that go/ssa
// emits for switch-case expressions (a phi of constants and the last operand).
func condLits(cond ssa.Value, truth bool) []lit {
	return condLitsD(cond, truth, 0)
}

func condLitsD(cond ssa.Value, truth bool, depth int) []lit {
	if depth > 8 {
		return nil
	}
	switch x := cond.(type) {
	case *ssa.UnOp:
		if x.Op == token.NOT {
			return condLitsD(x.X, !truth, depth+1)
		}
	case *ssa.Phi:
		// && : edges are const false (short-circuit exits) plus the last operand; true ⇒ every operand true
		// || : edges are const true plus the last operand; false ⇒ every operand false
		var shortVal string
		var last ssa.Value
		ok := true
		for _, e := range x.Edges {
			if c, isC := e.(*ssa.Const); isC && c.Value != nil && (c.Value.String() == "true" || c.Value.String() == "false") {
				if shortVal == "" {
					shortVal = c.Value.String()
				} else if shortVal != c.Value.String() {
					ok = false
				}
				continue
			}
			if last != nil {
				ok = false
			}
			last = e
		}
		if !ok || shortVal == "" || last == nil {
			break
		}
		isAnd := shortVal == "false"
		if isAnd != truth {
			break // (a && b) false, or (a || b) true: nothing definite
		}
		out := condLitsD(last, truth, depth+1)
		for i, e := range x.Edges {
			if _, isC := e.(*ssa.Const); !isC {
				continue
			}
			p := x.Block().Preds[i]
			ifi, isIf := p.Instrs[len(p.Instrs)-1].(*ssa.If)
			if !isIf {
				continue
			}
			// the short-circuit edge p→phi block was taken when the operand decided the result;
			// for the overall result `truth` the operand took the other edge.
			shortOnTrue := p.Succs[0] == x.Block()
			// operand value when short-circuiting:
			//   && short-circuits when operand is false; if that edge is the If's true edge, the If's cond is the operand's negation.
			operandEqualsCond := isAnd != shortOnTrue // && : short on false edge ⇒ cond == operand
			if operandEqualsCond {
				out = append(out, condLitsD(ifi.Cond, truth, depth+1)...)
			} else {
				out = append(out, condLitsD(ifi.Cond, !truth, depth+1)...)
			}
		}
		return out
	}
	return []lit{{cond, !truth}}
}

// dominatingLits collects the literals established by every If edge that
// dominates block b.
func dominatingLits(b *ssa.BasicBlock) []lit {
	var out []lit
	for x := b; x != nil && x.Idom() != nil; x = x.Idom() {
		d := x.Idom()
		if len(x.Preds) != 1 || x.Preds[0] != d || len(d.Instrs) == 0 {
			continue
		}
		ifi, ok := d.Instrs[len(d.Instrs)-1].(*ssa.If)
		if !ok || d.Succs[0] == d.Succs[1] {
			continue
		}
		out = append(out, condLits(ifi.Cond, d.Succs[0] == x)...)
	}
	return out
}

// hasLit reports whether (v, neg) is among lits.
func hasLit(lits []lit, v ssa.Value, neg bool) bool {
	for _, l := range lits {
		if l.V == v && l.Neg == neg {
			return true
		}
	}
	return false
}

// edgeLits: the literals that hold when control flows along the edge from -> to: everything that dominates
// `from`, plus the outcome of from's own If when `to` is exactly one of its two successors.
func edgeLits(from, to *ssa.BasicBlock) []lit {
	out := dominatingLits(from)
	if len(from.Instrs) == 0 {
		return out
	}
	if ifi, ok := from.Instrs[len(from.Instrs)-1].(*ssa.If); ok && len(from.Succs) == 2 && from.Succs[0] != from.Succs[1] {
		if from.Succs[0] == to {
			out = append(out, condLits(ifi.Cond, true)...)
		} else if from.Succs[1] == to {
			out = append(out, condLits(ifi.Cond, false)...)
		}
	}
	return out
}
