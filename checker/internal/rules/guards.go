package rules

import (
	"go/token"

	"golang.org/x/tools/go/ssa"
)

// lit is an SSA boolean value known to be true (Neg=false) or false (Neg=true).
type lit struct {
	V   ssa.Value
	Neg bool
}

// condLits returns the literals implied when cond evaluates to truth. It
// sees through negation and through the value form of && / || that go/ssa
// emits for switch-case expressions (a phi of constants and the last operand).
func condLits(cond ssa.Value, truth bool) []lit {
	return condLitsD(cond, truth, 0)
}

func condLitsD(cond ssa.Value, truth bool, depth int) []lit {
	if depth > 8 {
		return nil
	}
	switch x := cond.(type) {
	case *ssa.UnOp:
		if x.Op == token.NOT {
			return condLitsD(x.X, !truth, depth+1)
		}
	case *ssa.Phi:
		// && : edges are const false (short-circuit exits) plus the last operand; true ⇒ every operand true
		// || : edges are const true plus the last operand; false ⇒ every operand false
		var shortVal string
		var last ssa.Value
		ok := true
		for _, e := range x.Edges {
			if c, isC := e.(*ssa.Const); isC && c.Value != nil && (c.Value.String() == "true" || c.Value.String() == "false") {
				if shortVal == "" {
					shortVal = c.Value.String()
				} else if shortVal != c.Value.String() {
					ok = false
				}
				continue
			}
			if last != nil {
				ok = false
			}
			last = e
		}
		if !ok || shortVal == "" || last == nil {
			break
		}
		isAnd := shortVal == "false"
		if isAnd != truth {
			break // (a && b) false, or (a || b) true: nothing definite
		}
		out := condLitsD(last, truth, depth+1)
		for i, e := range x.Edges {
			if _, isC := e.(*ssa.Const); !isC {
				continue
			}
			p := x.Block().Preds[i]
			ifi, isIf := p.Instrs[len(p.Instrs)-1].(*ssa.If)
			if !isIf {
				continue
			}
			// the short-circuit edge p→phi block was taken when the operand decided the result;
			// for the overall result `truth` the operand took the other edge.
			shortOnTrue := p.Succs[0] == x.Block()
			// operand value when short-circuiting:
			//   && short-circuits when operand is false; if that edge is the If's true edge, the If's cond is the operand's negation.
			operandEqualsCond := isAnd != shortOnTrue // && : short on false edge ⇒ cond == operand
			if operandEqualsCond {
				out = append(out, condLitsD(ifi.Cond, truth, depth+1)...)
			} else {
				out = append(out, condLitsD(ifi.Cond, !truth, depth+1)...)
			}
		}
		return out
	}
	return []lit{{cond, !truth}}
}

// dominatingLits collects the literals established by every If edge that
// dominates block b.
func dominatingLits(b *ssa.BasicBlock) []lit {
	var out []lit
	for x := b; x != nil && x.Idom() != nil; x = x.Idom() {
		d := x.Idom()
		if len(x.Preds) != 1 || x.Preds[0] != d || len(d.Instrs) == 0 {
			continue
		}
		ifi, ok := d.Instrs[len(d.Instrs)-1].(*ssa.If)
		if !ok || d.Succs[0] == d.Succs[1] {
			continue
		}
		out = append(out, condLits(ifi.Cond, d.Succs[0] == x)...)
	}
	return out
}

// hasLit reports whether (v, neg) is among lits.
func hasLit(lits []lit, v ssa.Value, neg bool) bool {
	for _, l := range lits {
		if l.V == v && l.Neg == neg {
			return true
		}
	}
	return false
}

// edgeLits: the literals that hold when control flows along the edge from -> to: everything that dominates
// `from`, plus the outcome of from's own If when `to` is exactly one of its two successors.
func edgeLits(from, to *ssa.BasicBlock) []lit {
	out := dominatingLits(from)
	if len(from.Instrs) == 0 {
		return out
	}
	if ifi, ok := from.Instrs[len(from.Instrs)-1].(*ssa.If); ok && len(from.Succs) == 2 && from.Succs[0] != from.Succs[1] {
		if from.Succs[0] == to {
			out = append(out, condLits(ifi.Cond, true)...)
		} else if from.Succs[1] == to {
			out = append(out, condLits(ifi.Cond, false)...)
		}
	}
	return out
}

// canonCond gives a condition a name under which two evaluations of the same side-effect-free test coincide:
// comparisons by operator and operand names, loads of a receiver field by the field's name (sound only for fields
// the analysed function does not store to - the caller checks that), everything else by SSA identity.
func canonCond(v ssa.Value, d int) string {
	if d > 6 || v == nil {
		return "?"
	}
	switch x := v.(type) {
	case *ssa.Const:
		if x.Value == nil {
			return "nil"
		}
		return "k:" + x.Value.ExactString()
	case *ssa.BinOp:
		return "(" + canonCond(x.X, d+1) + " " + x.Op.String() + " " + canonCond(x.Y, d+1) + ")"
	case *ssa.UnOp:
		if x.Op == token.MUL {
			if fa, ok := x.X.(*ssa.FieldAddr); ok {
				if _, isParam := fa.X.(*ssa.Parameter); isParam {
					return "field#" + itoa(fa.Field%10) + "/" + x.Type().String() + "@" + fa.X.Name() + "." + itoaN(fa.Field)
				}
			}
			if ia, ok := x.X.(*ssa.IndexAddr); ok {
				return "elem(" + canonCond(ia.X, d+1) + "," + canonCond(ia.Index, d+1) + ")"
			}
		}
		return x.Op.String() + canonCond(x.X, d+1)
	}
	return "v:" + v.Name() + "@" + parentName(v)
}

func itoaN(n int) string {
	if n == 0 {
		return "0"
	}
	s := ""
	for n > 0 {
		s = string(rune('0'+n%10)) + s
		n /= 10
	}
	return s
}

func parentName(v ssa.Value) string {
	if in, ok := v.(ssa.Instruction); ok && in.Parent() != nil {
		return in.Parent().Name()
	}
	return ""
}

// reachableWithout reports whether block target can be reached from fn's entry along a path on which no test says
// that `want` holds (a canonical condition name with the wanted truth value), where two tests with the same
// canonical name agree along a path. Knowledge about anything but `keep` names is dropped at loop back edges.
func reachableWithout(fn *ssa.Function, target *ssa.BasicBlock, wantName string, wantTruth bool) bool {
	type state struct {
		b     *ssa.BasicBlock
		known string
	}
	enc := func(m map[string]bool) string {
		var ks []string
		for k, v := range m {
			if v {
				ks = append(ks, k+"=T")
			} else {
				ks = append(ks, k+"=F")
			}
		}
		sortStrings(ks)
		out := ""
		for _, k := range ks {
			out += k + ";"
		}
		return out
	}
	seen := map[state]bool{}
	var walk func(b *ssa.BasicBlock, known map[string]bool, steps int) bool
	walk = func(b *ssa.BasicBlock, known map[string]bool, steps int) bool {
		if steps > 400 {
			return true // give up: assume reachable (fails closed)
		}
		if v, ok := known[wantName]; ok && v == wantTruth {
			return false // on this path the wanted fact holds from here on (the field is not stored to)
		}
		if b == target {
			return true
		}
		st := state{b, enc(known)}
		if seen[st] {
			return false
		}
		seen[st] = true
		if len(b.Instrs) == 0 {
			return false
		}
		ifi, isIf := b.Instrs[len(b.Instrs)-1].(*ssa.If)
		for si, succ := range b.Succs {
			next := map[string]bool{}
			for k, v := range known {
				next[k] = v
			}
			feasible := true
			if isIf && len(b.Succs) == 2 && b.Succs[0] != b.Succs[1] {
				for _, l := range condLits(ifi.Cond, si == 0) {
					name := canonCond(l.V, 0)
					truth := !l.Neg
					if old, ok := next[name]; ok && old != truth {
						feasible = false
					}
					next[name] = truth
				}
			}
			if !feasible {
				continue
			}
			if succ.Dominates(b) { // back edge: only the loop-invariant fact survives
				kept := map[string]bool{}
				if v, ok := next[wantName]; ok {
					kept[wantName] = v
				}
				next = kept
			}
			if walk(succ, next, steps+1) {
				return true
			}
		}
		return false
	}
	if len(fn.Blocks) == 0 {
		return false
	}
	return walk(fn.Blocks[0], map[string]bool{}, 0)
}

func sortStrings(a []string) {
	for i := 1; i < len(a); i++ {
		for j := i; j > 0 && a[j] < a[j-1]; j-- {
			a[j], a[j-1] = a[j-1], a[j]
		}
	}
}
