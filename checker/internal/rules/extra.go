package rules

import (
	"fmt"
	"go/token"
	"go/types"
	"strings"

	"golang.org/x/tools/go/ssa"

	"verif/checker/internal/absint"
	"verif/checker/internal/core"
	"verif/checker/internal/load"
	"verif/checker/internal/origin"
	"verif/checker/internal/sx"
)

// ---------------------------------------------------------------------------
// R-TYPED-NIL

var rTypedNil = &Rule{
	Name: "R-TYPED-NIL",
	Doc:  "a registered decoder signals failure with the untyped nil error: every value it boxes into its error result is a non-nil pointer (nilness interpreter at the return site). A typed nil pointer would be a non-nil error, so DecodeError would not fall back to the opaque type and every method of the result would dereference nil",
	Run: func(c *core.Ctx) {
		ev := nilEval(c)
		n := 0
		seen := map[*ssa.Function]bool{}
		for _, r := range GetCensus(c).Regs {
			if !r.IsDec() || r.Fn == nil || r.Fn.Blocks == nil || seen[r.Fn] {
				continue
			}
			seen[r.Fn] = true
			view := ev.Analyze(r.Fn, nil)
			for _, ret := range sx.Returns(r.Fn) {
				if view != nil && !view.Reachable(ret.Block()) {
					continue
				}
				var visit func(v ssa.Value, b *ssa.BasicBlock, d int)
				visit = func(v ssa.Value, b *ssa.BasicBlock, d int) {
					if d > 4 {
						return
					}
					switch x := v.(type) {
					case *ssa.Phi:
						for i, e := range x.Edges {
							visit(e, x.Block().Preds[i], d+1)
						}
					case *ssa.MakeInterface:
						if _, isPtr := types.Unalias(x.X.Type()).Underlying().(*types.Pointer); !isPtr {
							return
						}
						n++
						nn := absint.Top
						if view != nil {
							nn = view.NilOf(x.X, x.Block())
						}
						c.Check(nn == absint.NonNil, load.FnName(r.Fn)+": boxed result "+describeVal(x.X), x.Pos(), "a non-nil pointer", "the decoder may box a nil "+load.TypeName(x.X.Type())+" into its error result: a typed nil is a non-nil error, the opaque fallback is skipped and the result's methods dereference nil")
					}
				}
				visit(ret.Results[0], ret.Block(), 0)
			}
		}
		c.Min("pointer values boxed by decoders", n, 20)
	},
}

// ---------------------------------------------------------------------------
// R-REDACTABLE-OPS

var rRedactableOps = &Rule{
	Name: "R-REDACTABLE-OPS",
	Doc:  "redactable strings are opaque: hand-written module code never slices or indexes a value of type redact.RedactableString / RedactableBytes (a cut can fall between an opening and a closing marker and leave the rest unredacted)",
	Run: func(c *core.Ctx) {
		n := 0
		for _, fn := range c.P.HandFuncs() {
			sx.EachInstr(fn, func(in ssa.Instruction) {
				var x ssa.Value
				switch i := in.(type) {
				case *ssa.Slice:
					x = i.X
				case *ssa.Index:
					x = i.X
				case *ssa.IndexAddr:
					x = i.X
				case *ssa.Convert, *ssa.ChangeType:
					if isRedactableStringType(in.(ssa.Value).Type()) {
						n++
						// round 12: nor is a cut taken just BEFORE the value is declared redactable: a conversion to a
						// redactable type asserts "the markers in here are balanced", which a prefix/suffix/substring
						// of a marked-up buffer is not (x[:] - no bounds - is the whole value)
						var op ssa.Value
						switch cv := in.(type) {
						case *ssa.Convert:
							op = cv.X
						case *ssa.ChangeType:
							op = cv.X
						}
						if cut := cutBeforeConversion(op, map[ssa.Value]bool{}, 0); cut != nil && !isRedactableStringType(op.Type()) {
							c.Fail(load.FnName(fn)+": conversion of a cut buffer to "+load.TypeName(in.(ssa.Value).Type()), sx.InstrPos(in), "a sub-slice (cut at "+fnPosStr(fn, cut.Pos())+") of a buffer is declared redactable: when the buffer holds redaction markers the cut can fall between an opening and a closing marker - the output is not well-formed and the text after the opening marker is left unredacted")
						}
					}
					return
				default:
					return
				}
				if isRedactableStringType(x.Type()) {
					c.Fail(load.FnName(fn)+": slicing/indexing a "+load.TypeName(x.Type()), sx.InstrPos(in), "a redactable string is cut at a byte offset: redaction markers can be split or lost, leaving unsafe text outside markers")
				}
			})
		}
		c.Ob("all hand-written functions", token.NoPos, true, fmt.Sprintf("no slice/index operation on redactable strings (%d redactable conversions seen)", n))
		c.Min("redactable conversions seen", n, 5)
	},
}

// ---------------------------------------------------------------------------
// R-CTOR-CAUSE

var rCtorCause = &Rule{
	Name: "R-CTOR-CAUSE",
	Doc:  "a wrapper constructor wraps the error it was given, all of it: the value stored into the new wrapper's cause field is the error parameter itself (through nil checks, phis and other wrapper constructors) - never a field read out of it or an UnwrapOnce/UnwrapAll of it, which would silently drop layers (and with them marks, hints, codes) of the wrapped error",
	Run: func(c *core.Ctx) {
		p := c.P
		shapes := GetShapes(c)
		n := 0
		for _, fn := range p.HandFuncs() {
			if fn.Parent() != nil || !sx.Exported(fn) || errorResult(fn) < 0 {
				continue
			}
			eps := errorParams(fn)
			if len(eps) == 0 {
				continue
			}
			sx.EachInstr(fn, func(in ssa.Instruction) {
				st, ok := in.(*ssa.Store)
				if !ok {
					return
				}
				fa, ok := st.Addr.(*ssa.FieldAddr)
				if !ok {
					return
				}
				owner := sx.NamedOf(fa.X.Type())
				if owner == nil {
					return
				}
				sh := shapes[owner]
				if sh == nil || sh.CauseField == nil || sx.FieldOf(fa) != sh.CauseField {
					return
				}
				if _, isAlloc := fa.X.(*ssa.Alloc); !isAlloc {
					return
				}
				n++
				// the stored value must be an error parameter up to identity / wrapper calls
				bad := ""
				seen := map[ssa.Value]bool{}
				var walk func(v ssa.Value, d int)
				walk = func(v ssa.Value, d int) {
					if seen[v] || d > 8 || bad != "" {
						return
					}
					seen[v] = true
					switch x := v.(type) {
					case *ssa.Parameter:
					case *ssa.Phi:
						for _, e := range x.Edges {
							walk(e, d+1)
						}
					case *ssa.ChangeInterface:
						walk(x.X, d+1)
					case *ssa.MakeInterface:
						if al, ok := x.X.(*ssa.Alloc); ok {
							_ = al // a freshly built inner wrapper (e.g. &leafError{}, &withPrefix{…})
							return
						}
						bad = "a value of type " + load.TypeName(x.X.Type())
					case *ssa.Call:
						callee := sx.Callee(x)
						if callee == nil {
							bad = "the result of a dynamic call"
							return
						}
						if callee.Name() == "UnwrapOnce" || callee.Name() == "UnwrapAll" || callee.Name() == "Cause" || callee.Name() == "Unwrap" {
							bad = "the result of " + callee.Name() + "(err): outer layers of the wrapped error are dropped"
							return
						}
					case *ssa.UnOp:
						if fa2, ok := x.X.(*ssa.FieldAddr); ok {
							bad = "field " + sx.FieldOf(fa2).Name() + " read out of the wrapped error: its outer layer is dropped"
						}
					case *ssa.Extract:
						if call, ok := x.Tuple.(*ssa.Call); ok {
							if cal := sx.Callee(call); cal != nil && redactName(cal) == "HelperForErrorf" {
								return // the %w argument of the format arguments
							}
						}
						walk(x.Tuple.(ssa.Value), d+1)
					case *ssa.TypeAssert:
						walk(x.X, d+1)
					}
				}
				walk(st.Val, 0)
				c.Check(bad == "", load.FnName(fn)+": cause of the new "+load.TypeName(owner), st.Pos(), "the error parameter itself", "the constructor stores "+bad+" instead of the error it was given")
			})
		}
		c.Min("cause stores in exported constructors", n, 15)
	},
}

// ---------------------------------------------------------------------------
// R-ONE-PARSER

var rOneParser = &Rule{
	Name: "R-ONE-PARSER",
	Doc:  "local and decoded stacks go through the same code: every (file, line, function) returned by GetOneLineSource and every frame list returned by GetReportableStackTrace is produced by the printed-stack parser (getOneLineSourceFromPrintedStack / parsePrintedStack), for native stacks by printing them first - so the accessors give the same answer before and after a network hop",
	Run: func(c *core.Ctx) {
		p := c.P
		check := func(fnName, parser string, via []string) {
			fn := p.Func("withstack", fnName)
			if fn == nil {
				c.Fail("withstack."+fnName, token.NoPos, "accessor not found")
				return
			}
			allowed := map[string]bool{parser: true, fnName: true}
			for _, v := range via {
				allowed[v] = true
			}
			for _, r := range sx.Returns(fn) {
				// zero-value returns (not found) are fine; otherwise the results come from an allowed call
				ok := true
				for _, res := range r.Results {
					switch x := res.(type) {
					case *ssa.Const:
					case *ssa.Extract:
						call, isCall := x.Tuple.(*ssa.Call)
						if !isCall || !calleeAllowed(call, allowed, 0) {
							ok = false
						}
					case *ssa.Call:
						if !calleeAllowed(x, allowed, 0) {
							ok = false
						}
					case *ssa.Phi, *ssa.UnOp, *ssa.TypeAssert:
						// named results spilled or merged, or a value taken back out of a package-level memo:
						// accept only if every edge / everything ever stored in the memo is an allowed call/const
						ok = ok && phiFromAllowed(res, allowed, 0)
					default:
						ok = false
					}
				}
				c.Check(ok, "withstack."+fnName+": result provenance", r.Pos(), "produced by "+parser, "a result of "+fnName+" is computed without the shared printed-stack parser: local and transferred stacks are described differently")
			}
		}
		check("GetOneLineSource", "getOneLineSourceFromPrintedStack", []string{"getOneLineSourceFromPkgStack"})
		check("getOneLineSourceFromPkgStack", "getOneLineSourceFromPrintedStack", nil)
		check("GetReportableStackTrace", "parsePrintedStack", []string{"convertPkgStack"})
		check("convertPkgStack", "parsePrintedStack", nil)
	},
}

// calleeAllowed: the call goes to one of the allowed producers, or to an unexported helper of the same package
// every result of which is a constant or comes from an allowed producer.
func calleeAllowed(call *ssa.Call, allowed map[string]bool, d int) bool {
	h := sx.Callee(call)
	if h == nil {
		return false
	}
	if allowed[h.Name()] {
		return true
	}
	if d > 2 || h.Blocks == nil || call.Parent() == nil || h.Pkg != call.Parent().Pkg || sx.Exported(h) {
		return false
	}
	rets := sx.Returns(h)
	for _, r := range rets {
		for _, res := range r.Results {
			if !phiFromAllowed(res, allowed, d+1) {
				return false
			}
		}
	}
	return len(rets) > 0
}

func phiFromAllowed(v ssa.Value, allowed map[string]bool, d int) bool {
	if d > 4 {
		return false
	}
	switch x := v.(type) {
	case *ssa.Const:
		return true
	case *ssa.Phi:
		for _, e := range x.Edges {
			if !phiFromAllowed(e, allowed, d+1) {
				return false
			}
		}
		return true
	case *ssa.TypeAssert:
		// v.(T) of what a package-level sync.Map returned: fine if everything the function stores there is allowed
		ex, ok := x.X.(*ssa.Extract)
		if !ok || ex.Index != 0 {
			return false
		}
		ld, ok := ex.Tuple.(*ssa.Call)
		if !ok || sx.Callee(ld) == nil || sx.Callee(ld).Name() != "Load" || len(ld.Call.Args) < 1 {
			return false
		}
		g, ok := ld.Call.Args[0].(*ssa.Global)
		if !ok {
			return false
		}
		n, good := 0, true
		sx.EachInstr(x.Parent(), func(in ssa.Instruction) {
			st, ok := in.(*ssa.Call)
			if !ok || sx.Callee(st) == nil || sx.Callee(st).Name() != "Store" || len(st.Call.Args) != 3 || st.Call.Args[0] != ssa.Value(g) {
				return
			}
			n++
			if !phiFromAllowed(stripIface(st.Call.Args[2]), allowed, d+1) {
				good = false
			}
		})
		return n > 0 && good
	case *ssa.Extract:
		call, ok := x.Tuple.(*ssa.Call)
		return ok && calleeAllowed(call, allowed, d)
	case *ssa.Call:
		return calleeAllowed(x, allowed, d)
	case *ssa.UnOp:
		if al, ok := x.X.(*ssa.Alloc); ok {
			for _, r := range *al.Referrers() {
				if st, ok := r.(*ssa.Store); ok && st.Addr == al && !phiFromAllowed(st.Val, allowed, d+1) {
					return false
				}
			}
			return true
		}
	}
	return false
}

// ---------------------------------------------------------------------------
// R-SIBLING-GUARD

var rSiblingGuard = &Rule{
	Name: "R-SIBLING-GUARD",
	Doc:  "decodeLeaf and decodeWrapper are siblings: the payload of a leaf and of a wrapper is unmarshalled under the same condition (FullDetails != nil and nothing else) - an extra condition in one of them silently drops payloads (e.g. all-zero proto3 messages, which marshal to zero bytes) for one kind of layer only",
	Run: func(c *core.Ctx) {
		p := c.P
		shape := func(name string) (string, token.Pos) {
			fn := p.Func("errbase", name)
			if fn == nil {
				return "?", token.NoPos
			}
			var out string
			var pos token.Pos
			// the unmarshalling may sit in a helper (possibly shared by the two siblings): the condition is then the
			// helper's own guards, its parameters read as the arguments of this sibling's call, plus the guards at the call
			reg := regionOf(fn)
			reg.each(func(in ssa.Instruction) {
				call, ok := in.(*ssa.Call)
				if !ok || sx.Callee(call) == nil || sx.Callee(call).Name() != "UnmarshalAny" {
					return
				}
				pos = call.Pos()
				var parts []string
				for _, l := range reg.lits(call.Block()) {
					parts = append(parts, litShapeIn(reg, l))
				}
				out = strings.Join(parts, " && ")
			})
			return out, pos
		}
		a, pa := shape("decodeLeaf")
		b, _ := shape("decodeWrapper")
		c.Check(a == b && a != "", "errbase.decodeLeaf / decodeWrapper: condition for unmarshalling the payload", pa, a, fmt.Sprintf("the siblings unmarshal the payload under different conditions: leaf [%s] vs wrapper [%s]", a, b))
		c.Check(a == "FullDetails != nil" || a == "", "errbase.decodeLeaf: payload condition", pa, "exactly FullDetails != nil", "the payload is unmarshalled under ["+a+"], not exactly when it is present")
	},
}

// litShapeIn: litShape with the parameters of the region's helpers read as the arguments at their call sites.
func litShapeIn(reg *region, l lit) string {
	sub := func(v ssa.Value) ssa.Value {
		for d := 0; d < 4; d++ {
			prm, ok := v.(*ssa.Parameter)
			if !ok || prm.Parent() == reg.anchor {
				return v
			}
			idx := -1
			for i, q := range prm.Parent().Params {
				if q == prm {
					idx = i
				}
			}
			sites := reg.sites[prm.Parent()]
			if idx < 0 || len(sites) == 0 {
				return v
			}
			var arg ssa.Value
			for _, s := range sites {
				if idx >= len(s.Call.Args) || (arg != nil && operandShape(s.Call.Args[idx]) != operandShape(arg)) {
					return v
				}
				arg = s.Call.Args[idx]
			}
			v = arg
		}
		return v
	}
	if x, ok := l.V.(*ssa.BinOp); ok {
		op := x.Op
		if l.Neg {
			op = map[token.Token]token.Token{token.EQL: token.NEQ, token.NEQ: token.EQL, token.GTR: token.LEQ, token.LEQ: token.GTR, token.LSS: token.GEQ, token.GEQ: token.LSS}[op]
		}
		return operandShape(sub(x.X)) + " " + op.String() + " " + operandShape(sub(x.Y))
	}
	return litShape(l)
}

func litShape(l lit) string {
	neg := l.Neg
	switch x := l.V.(type) {
	case *ssa.BinOp:
		op := x.Op
		if neg {
			op = map[token.Token]token.Token{token.EQL: token.NEQ, token.NEQ: token.EQL, token.GTR: token.LEQ, token.LEQ: token.GTR, token.LSS: token.GEQ, token.GEQ: token.LSS}[op]
		}
		return operandShape(x.X) + " " + op.String() + " " + operandShape(x.Y)
	}
	if neg {
		return "!" + operandShape(l.V)
	}
	return operandShape(l.V)
}

func operandShape(v ssa.Value) string {
	switch x := v.(type) {
	case *ssa.Const:
		if x.Value == nil {
			return "nil"
		}
		return x.Value.String()
	case *ssa.UnOp:
		if fa, ok := x.X.(*ssa.FieldAddr); ok {
			return sx.FieldOf(fa).Name()
		}
	case *ssa.Call:
		if b, ok := x.Call.Value.(*ssa.Builtin); ok && len(x.Call.Args) == 1 {
			return b.Name() + "(" + operandShape(x.Call.Args[0]) + ")"
		}
		return sx.TrimMod(sx.CalleeName(x))
	case *ssa.Field:
		return sx.FieldOf(x).Name()
	}
	return v.Name()
}

// ---------------------------------------------------------------------------
// R-OWNED-BRANCHES

var rOwnedBranches = &Rule{
	Name: "R-OWNED-BRANCHES",
	Doc:  "a multi-cause node owns its branch list: every value stored into the branch field of a multi-cause type is a freshly allocated slice (make / append to a fresh slice), never a slice handed in by the caller - so branch count and order are fixed at construction and nil arguments cannot reappear",
	Run: func(c *core.Ctx) {
		shapes := GetShapes(c)
		n := 0
		for _, fn := range c.P.HandFuncs() {
			sx.EachInstr(fn, func(in ssa.Instruction) {
				st, ok := in.(*ssa.Store)
				if !ok {
					return
				}
				fa, ok := st.Addr.(*ssa.FieldAddr)
				if !ok {
					return
				}
				owner := sx.NamedOf(fa.X.Type())
				if owner == nil || shapes[owner] == nil || shapes[owner].MultiField == nil || sx.FieldOf(fa) != shapes[owner].MultiField {
					return
				}
				n++
				c.Check(freshSlice(st.Val, 0), load.FnName(fn)+": branches of the new "+load.TypeName(owner), st.Pos(), "a freshly allocated slice", "the multi-cause node keeps a slice it did not allocate (the caller's): later writes by the caller change its branches, and nil entries are not filtered")
			})
		}
		c.Min("stores into multi-cause branch fields", n, 2)
	},
}

func freshSlice(v ssa.Value, d int) bool {
	return freshSliceS(v, d, map[ssa.Value]bool{})
}

func freshSliceS(v ssa.Value, d int, seen map[ssa.Value]bool) bool {
	if d > 10 {
		return false
	}
	if seen[v] {
		return true // a cycle through a loop phi: decided by the other edges
	}
	seen[v] = true
	switch x := v.(type) {
	case *ssa.MakeSlice:
		return true
	case *ssa.Const:
		return true
	case *ssa.Slice:
		if _, ok := x.X.(*ssa.Alloc); ok {
			return true
		}
		return freshSliceS(x.X, d+1, seen)
	case *ssa.Phi:
		for _, e := range x.Edges {
			if e != v && !freshSliceS(e, d+1, seen) {
				return false
			}
		}
		return true
	case *ssa.Call:
		if b, ok := x.Call.Value.(*ssa.Builtin); ok && b.Name() == "append" {
			return freshSliceS(x.Call.Args[0], d+1, seen)
		}
		// a module function every return of which is a fresh slice - or a slice grown from one of its parameters, when
		// the argument passed for that parameter is fresh
		if h := sx.Callee(x); h != nil && h.Blocks != nil && x.Parent() != nil && h.Pkg == x.Parent().Pkg {
			rets := sx.Returns(h)
			for _, r := range rets {
				if len(r.Results) != 1 {
					return false
				}
				if freshSliceS(r.Results[0], d+1, seen) {
					continue
				}
				roots, ok := sliceParamRoots(h, r.Results[0], map[ssa.Value]bool{}, 0)
				if !ok || len(roots) == 0 {
					return false
				}
				for j := range roots {
					if j >= len(x.Call.Args) || !freshSliceS(x.Call.Args[j], d+1, seen) {
						return false
					}
				}
			}
			return len(rets) > 0
		}
	case *ssa.UnOp:
		// load of the same field during incremental construction (e.errs = append(e.errs, …))
		if fa, ok := x.X.(*ssa.FieldAddr); ok {
			if _, isAlloc := fa.X.(*ssa.Alloc); isAlloc {
				return true
			}
		}
		if al, ok := x.X.(*ssa.Alloc); ok {
			for _, r := range *al.Referrers() {
				if st, ok := r.(*ssa.Store); ok && st.Addr == al && !freshSliceS(st.Val, d+1, seen) {
					return false
				}
			}
			return true
		}
	}
	return false
}

// sliceParamRoots: v, inside h, is built by phis and appends on top of fresh slices and/or parameters of h;
// returns the indices of those parameters (ok=false when something else contributes the backing array).
func sliceParamRoots(h *ssa.Function, v ssa.Value, seen map[ssa.Value]bool, d int) (map[int]bool, bool) {
	out := map[int]bool{}
	if d > 8 {
		return nil, false
	}
	if seen[v] {
		return out, true
	}
	seen[v] = true
	switch x := v.(type) {
	case *ssa.Parameter:
		for i, q := range h.Params {
			if q == x {
				out[i] = true
				return out, true
			}
		}
		return nil, false
	case *ssa.MakeSlice, *ssa.Const:
		return out, true
	case *ssa.Phi:
		for _, e := range x.Edges {
			r, ok := sliceParamRoots(h, e, seen, d+1)
			if !ok {
				return nil, false
			}
			for k := range r {
				out[k] = true
			}
		}
		return out, true
	case *ssa.Call:
		if b, ok := x.Call.Value.(*ssa.Builtin); ok && b.Name() == "append" {
			return sliceParamRoots(h, x.Call.Args[0], seen, d+1)
		}
		// the function calling itself with the slice it is growing (an accumulator threaded through a recursion):
		// what comes back is grown from what went in
		if sx.Callee(x) == h {
			for _, a := range x.Call.Args {
				if _, isSlice := types.Unalias(a.Type()).Underlying().(*types.Slice); !isSlice {
					continue
				}
				r, ok := sliceParamRoots(h, a, seen, d+1)
				if !ok {
					return nil, false
				}
				for k := range r {
					out[k] = true
				}
			}
			return out, true
		}
		// another helper of the package that grows one of ITS parameters: what comes back is grown from the
		// corresponding arguments
		if g := sx.Callee(x); g != nil && g.Blocks != nil && g.Pkg == h.Pkg && !sx.Exported(g) && d < 6 {
			grows := map[int]bool{}
			rets := sx.Returns(g)
			for _, gr := range rets {
				if len(gr.Results) != 1 {
					return nil, false
				}
				if freshSlice(gr.Results[0], 0) {
					continue
				}
				r, ok := sliceParamRoots(g, gr.Results[0], map[ssa.Value]bool{}, d+1)
				if !ok {
					return nil, false
				}
				for k := range r {
					grows[k] = true
				}
			}
			if len(rets) == 0 {
				return nil, false
			}
			for j := range grows {
				if j >= len(x.Call.Args) {
					return nil, false
				}
				r, ok := sliceParamRoots(h, x.Call.Args[j], seen, d+1)
				if !ok {
					return nil, false
				}
				for k := range r {
					out[k] = true
				}
			}
			return out, true
		}
	}
	return nil, false
}

// ---------------------------------------------------------------------------
// R-FORMAT-ARG

var rFormatArg = &Rule{
	Name: "R-FORMAT-ARG",
	Doc:  "only format strings are used as format strings: the format argument of every printf-like call in module code (redact.Sprintf / HelperForErrorf / fmt.* / Printer.Printf and any function, in any package, with a (format string, args ...interface{}) tail) originates (E-ORIGIN) from constants or from API parameters that are themselves named format - a plain message parameter, a string received from the wire, an error text or a foreign field forwarded into a format position is mangled when it contains % (and is declared safe)",
	Run: func(c *core.Ctx) {
		e := originEngine(c)
		n := 0
		for _, fn := range c.P.HandFuncs() {
			if pk := load.FnPkg(fn); pk != nil && strings.HasSuffix(pk.Path(), "/testutils") {
				continue
			}
			sx.EachInstr(fn, func(in ssa.Instruction) {
				call, ok := in.(*ssa.Call)
				if !ok {
					return
				}
				var format ssa.Value
				what := ""
				if call.Call.IsInvoke() && isPrinterType(call.Call.Value.Type()) && call.Call.Method.Name() == "Printf" {
					format, what = call.Call.Args[0], "Printer.Printf"
				} else if f := sx.Callee(call); f != nil {
					rn := redactName(f)
					pk := ""
					if q := load.FnPkg(f); q != nil {
						pk = q.Path()
					}
					switch {
					case rn == "Sprintf" || rn == "HelperForErrorf":
						format, what = call.Call.Args[0], "redact."+rn
					case pk == "fmt" && (f.Name() == "Sprintf" || f.Name() == "Errorf"):
						format, what = call.Call.Args[0], "fmt."+f.Name()
					case pk == "fmt" && f.Name() == "Fprintf":
						format, what = call.Call.Args[1], "fmt.Fprintf"
					default:
						// any other printf-like function, in or outside the module: variadic ...interface{} preceded by a
						// string parameter named format
						if i := formatParamIndex(f); i >= 0 && i < len(call.Call.Args) {
							format, what = call.Call.Args[i], load.FnName(f)
						}
					}
				}
				if format == nil {
					return
				}
				if _, isConst := format.(*ssa.Const); isConst {
					return
				}
				n++
				var bad []string
				for _, o := range e.Trace(format).List() {
					if o.Kind == origin.APIParam && o.Fn != nil && o.Param < len(o.Fn.Params) && o.Fn.Params[o.Param].Name() != "format" {
						bad = append(bad, o.Desc)
					}
					if o.Kind == origin.Wire || o.Kind == origin.ErrText || o.Kind == origin.ForeignField {
						bad = append(bad, o.Key())
					}
				}
				c.Check(len(bad) == 0, load.FnName(fn)+": format of "+what, call.Pos(), "constant or a parameter named format", "a string that is not a format ("+strings.Join(dedupStr(bad), ", ")+") is used as a format string: a % in the message is interpreted, the text is mangled")
			})
		}
		c.Min("non-constant format arguments", n, 8)
	},
}

// formatParamIndex: index (in the SSA argument list, i.e. counting the receiver) of the format parameter of a
// printf-like function, or -1.
func formatParamIndex(f *ssa.Function) int {
	sig := f.Signature
	if sig == nil || !sig.Variadic() || sig.Params().Len() < 2 {
		return -1
	}
	n := sig.Params().Len()
	last, ok := sig.Params().At(n - 1).Type().(*types.Slice)
	if !ok {
		return -1
	}
	if it, ok := types.Unalias(last.Elem()).Underlying().(*types.Interface); !ok || it.NumMethods() != 0 {
		return -1
	}
	fp := sig.Params().At(n - 2)
	if fp.Name() != "format" {
		return -1
	}
	if b, ok := types.Unalias(fp.Type()).Underlying().(*types.Basic); !ok || b.Kind() != types.String {
		return -1
	}
	idx := n - 2
	if sig.Recv() != nil {
		idx++
	}
	return idx
}

// ---------------------------------------------------------------------------
// R-FMT-PATH

var rFmtPath = &Rule{
	Name: "R-FMT-PATH",
	Doc:  "the …f constructors always format: in NewWithDepthf every non-nil return is dominated by the redact.HelperForErrorf(format, args) call, and in WithMessagef by redact.Sprintf(format, args) - no shortcut path stores the format string verbatim",
	Run: func(c *core.Ctx) {
		for _, x := range []struct{ fn, call string }{{"NewWithDepthf", "HelperForErrorf"}, {"WithMessagef", "Sprintf"}} {
			fn := c.P.Func("errutil", x.fn)
			if fn == nil {
				c.Fail("errutil."+x.fn, token.NoPos, "constructor not found")
				continue
			}
			// the formatting call dominates every non-nil return, in the constructor itself or in a same-package
			// helper whose call dominates them and which itself formats on every path
			var always func(f *ssa.Function, depth int) bool
			always = func(f *ssa.Function, depth int) bool {
				found := false
				sx.EachInstr(f, func(in ssa.Instruction) {
					cl, isCall := in.(*ssa.Call)
					if !isCall || found {
						return
					}
					callee := sx.Callee(cl)
					direct := redactName(callee) == x.call
					viaHelper := !direct && depth < 2 && callee != nil && callee != f && callee.Blocks != nil && callee.Pkg == fn.Pkg && !sx.Exported(callee)
					if !direct && !viaHelper {
						return
					}
					for _, r := range sx.Returns(f) {
						if sx.IsNil(r.Results[0]) {
							continue
						}
						if !cl.Block().Dominates(r.Block()) {
							return
						}
					}
					if direct || always(callee, depth+1) {
						found = true
					}
				})
				return found
			}
			ok := always(fn, 0)
			c.Check(ok, "errutil."+x.fn+": formatting on every path", fn.Pos(), "redact."+x.call+" dominates every non-nil return", "some path builds the error without formatting (format, args): the text is not the fmt-formatted text")
		}
	},
}

// ---------------------------------------------------------------------------
// R-STACK-PARSE

var rStackParse = &Rule{
	Name: "R-STACK-PARSE",
	Doc:  "a printed stack entry is split into file and line at the LAST colon (strings.LastIndexByte / LastIndex with ':'): the line number follows the last colon while file paths may contain colons themselves (drive letters of a Windows peer)",
	Run: func(c *core.Ctx) {
		fn := c.P.Func("withstack", "parsePrintedStackEntry")
		if fn == nil {
			c.Fail("withstack.parsePrintedStackEntry", token.NoPos, "stack entry parser not found")
			return
		}
		found, other := false, ""
		regionOf(fn).each(func(in ssa.Instruction) {
			call, ok := in.(*ssa.Call)
			if !ok {
				return
			}
			f := sx.Callee(call)
			if f == nil || load.FnPkg(f) == nil || load.FnPkg(f).Path() != "strings" || len(call.Call.Args) != 2 {
				return
			}
			isColon := false
			if k, ok := sx.ConstInt(call.Call.Args[1]); ok && k == ':' {
				isColon = true
			}
			if s, ok := sx.ConstString(call.Call.Args[1]); ok && s == ":" {
				isColon = true
			}
			if !isColon {
				return
			}
			if strings.HasPrefix(f.Name(), "LastIndex") {
				found = true
			} else {
				other = f.Name()
			}
		})
		switch {
		case found && other == "":
			c.Ob("withstack.parsePrintedStackEntry: file/line split", fn.Pos(), true, "at the last colon")
		case other != "":
			c.Fail("withstack.parsePrintedStackEntry: file/line split", fn.Pos(), "the entry is split with strings."+other+" on ':' - not at the last colon: a path containing a colon yields a wrong file and line 0")
		default:
			c.Undecided("withstack.parsePrintedStackEntry: file/line split", fn.Pos(), "no search for the ':' separator recognised")
		}
	},
}

// cutBeforeConversion: v is (through phis and string/[]byte conversions) the result of a slice expression with at
// least one bound.
func cutBeforeConversion(v ssa.Value, seen map[ssa.Value]bool, d int) *ssa.Slice {
	if v == nil || seen[v] || d > 8 {
		return nil
	}
	seen[v] = true
	switch x := v.(type) {
	case *ssa.Slice:
		if x.Low != nil || x.High != nil {
			if k, isK := sx.ConstInt(x.Low); x.High == nil && isK && k == 0 {
				return cutBeforeConversion(x.X, seen, d+1)
			}
			return x
		}
		return cutBeforeConversion(x.X, seen, d+1)
	case *ssa.Phi:
		for _, e := range x.Edges {
			if s := cutBeforeConversion(e, seen, d+1); s != nil {
				return s
			}
		}
	case *ssa.Convert:
		return cutBeforeConversion(x.X, seen, d+1)
	case *ssa.ChangeType:
		return cutBeforeConversion(x.X, seen, d+1)
	}
	return nil
}

func fnPosStr(fn *ssa.Function, pos token.Pos) string {
	if fn == nil || fn.Prog == nil || !pos.IsValid() {
		return "?"
	}
	p := fn.Prog.Fset.Position(pos)
	return fmt.Sprintf("line %d", p.Line)
}
