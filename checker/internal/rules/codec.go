package rules

import (
	"fmt"
	"go/token"
	"go/types"
	"sort"
	"strings"

	"golang.org/x/tools/go/ssa"

	"verif/checker/internal/core"
	"verif/checker/internal/load"
	"verif/checker/internal/origin"
	"verif/checker/internal/sx"
)

// codecPair is one registered type key with its writer and reader.
type codecPair struct {
	Key     types.Type
	Name    string
	Enc     *ssa.Function // nil: generic encoder path
	EncKind string
	Dec     *ssa.Function
	DecKind string
	ET      *ErrType // module error type behind the key, if any
}

func codecPairs(c *core.Ctx) []*codecPair {
	cs := GetCensus(c)
	byKey := map[string]*codecPair{}
	var order []string
	for _, r := range cs.Regs {
		if r.Fn == nil {
			continue
		}
		for _, k := range r.KeyTypes {
			ks := types.TypeString(k, nil)
			cp := byKey[ks]
			if cp == nil {
				cp = &codecPair{Key: k, Name: load.TypeName(k), ET: cs.ErrTypeOf(k)}
				byKey[ks] = cp
				order = append(order, ks)
			}
			if r.IsEnc() {
				cp.Enc, cp.EncKind = r.Fn, r.Kind
			} else {
				cp.Dec, cp.DecKind = r.Fn, r.Kind
			}
		}
	}
	sort.Strings(order)
	var out []*codecPair
	for _, k := range order {
		out = append(out, byKey[k])
	}
	return out
}

// leafPaths enumerates field paths of a struct, descending into nested
// module structs (not into foreign or protobuf types).
func leafPaths(st *types.Struct, prefix []string, depth int) [][]string {
	var out [][]string
	for i := 0; i < st.NumFields(); i++ {
		f := st.Field(i)
		p := append(append([]string{}, prefix...), f.Name())
		if sub, ok := types.Unalias(f.Type()).Underlying().(*types.Struct); ok && depth < 2 && f.Pkg() != nil && load.IsModPath(f.Pkg().Path()) {
			if n := sx.NamedOf(f.Type()); n != nil && n.Obj().Pkg() != nil && load.IsModPath(n.Obj().Pkg().Path()) && !strings.HasSuffix(n.Obj().Pkg().Path(), "errorspb") {
				out = append(out, leafPaths(sub, p, depth+1)...)
				continue
			}
		}
		out = append(out, p)
	}
	return out
}

// slotOf renders a Wire origin of decoder d as a slot string.
func slotOf(o *origin.Origin) string {
	s := o.Slot
	for _, x := range o.Sub {
		if strings.HasPrefix(x, "[") {
			s += x
		} else {
			s += "." + x
		}
	}
	return s
}

func recvPath(o *origin.Origin) string { return strings.Join(o.Sub, ".") }

// resultAllocs finds the struct allocations a decoder returns.
func resultAllocs(fn *ssa.Function) []*ssa.Alloc {
	var out []*ssa.Alloc
	seen := map[ssa.Value]bool{}
	var walk func(v ssa.Value)
	walk = func(v ssa.Value) {
		if seen[v] {
			return
		}
		seen[v] = true
		switch x := v.(type) {
		case *ssa.MakeInterface:
			walk(x.X)
		case *ssa.ChangeInterface:
			walk(x.X)
		case *ssa.Phi:
			for _, e := range x.Edges {
				walk(e)
			}
		case *ssa.Alloc:
			if _, ok := sx.Deref(x.Type()).Underlying().(*types.Struct); ok {
				out = append(out, x)
			}
		}
	}
	for _, r := range sx.Returns(fn) {
		if len(r.Results) == 1 {
			walk(r.Results[0])
		}
	}
	return out
}

// detailsShape: the positional structure of a []string safe-details value:
// per-index dependency sets when it is a fixed literal on every path.
type detailsShape struct {
	positional bool
	elems      []map[string]bool // receiver field paths per index
	vals       [][]ssa.Value     // the SSA value(s) written at each index (one per return shape)
	all        map[string]bool
	why        string
}

func (c2 *codecCtx) detailsOf(v ssa.Value, depth int) detailsShape {
	ds := detailsShape{all: map[string]bool{}}
	addAll := func(val ssa.Value) {
		for _, o := range c2.e.TraceRecv(val, nil).List() {
			collectRecv(o, ds.all, 0)
		}
	}
	switch x := v.(type) {
	case *ssa.Const:
		ds.positional = true // nil: zero elements
		return ds
	case *ssa.Slice:
		if al, ok := x.X.(*ssa.Alloc); ok {
			if arr, ok := sx.Deref(al.Type()).Underlying().(*types.Array); ok && x.Low == nil && x.High == nil {
				els := varargs(x)
				ds.positional = true
				for i := 0; i < int(arr.Len()); i++ {
					m := map[string]bool{}
					if i < len(els) && els[i] != nil {
						for _, o := range c2.e.TraceRecv(els[i], nil).List() {
							collectRecv(o, m, 0)
							collectRecv(o, ds.all, 0)
						}
					}
					ds.elems = append(ds.elems, m)
					if i < len(els) {
						ds.vals = append(ds.vals, []ssa.Value{els[i]})
					} else {
						ds.vals = append(ds.vals, nil)
					}
				}
				return ds
			}
		}
	case *ssa.Call:
		// (SafeDetails() of the type, or an unexported helper of the package that builds the list for it)
		if callee := sx.Callee(x); callee != nil && callee.Blocks != nil && depth < 3 && (callee.Name() == "SafeDetails" || (!sx.Exported(callee) && x.Parent() != nil && callee.Pkg == x.Parent().Pkg)) {
			rets := sx.Returns(callee)
			var shapes []detailsShape
			for _, r := range rets {
				shapes = append(shapes, c2.detailsOf(r.Results[0], depth+1))
			}
			// the callee's receiver fields are expressed relative to its own receiver: same type, same paths
			if len(shapes) == 1 {
				return shapes[0]
			}
			// several returns: positional only if all are and agree in length
			ds.positional = len(shapes) > 0
			for _, s := range shapes {
				for k := range s.all {
					ds.all[k] = true
				}
				if !s.positional || len(s.elems) != len(shapes[0].elems) {
					ds.positional = false
				}
			}
			if ds.positional {
				ds.elems = shapes[0].elems
				ds.vals = shapes[0].vals
				for _, s := range shapes[1:] {
					for i := range s.elems {
						for k := range s.elems[i] {
							ds.elems[i][k] = true
						}
						if i < len(ds.vals) && i < len(s.vals) {
							ds.vals[i] = append(ds.vals[i], s.vals[i]...)
						}
					}
				}
			} else {
				ds.why = "SafeDetails() has several returns of different shapes"
			}
			return ds
		}
	case *ssa.UnOp:
		// a field holding the details as a whole (withSafeDetails.safeDetails, withTelemetry.keys)
		addAll(v)
		ds.why = "the details are a whole slice field (no fixed positions)"
		return ds
	}
	addAll(v)
	ds.why = "the details are not a fixed-position literal (built by append or conditionally)"
	return ds
}

type codecCtx struct {
	c *core.Ctx
	e *origin.Engine
}

var rCodec = &Rule{
	Name: "R-CODEC",
	Doc: "slot agreement between the writer and the reader of every registered type key (E-ORIGIN in both directions): A1 the decoder's payload assertion type is the encoder's payload type; A2 a decoder that reads safeDetails[i] requires the encoder's details (explicit, or the type's SafeDetails() on the generic path) to be a fixed-position literal with more than i elements; " +
		"A3 a decoder that uses the wire message requires a non-empty one; A4 every payload member read is written; A5 every field of the rebuilt struct is assigned from the wire (the cause from the cause argument); A6 every field of the type is read by its encoder or by SafeDetails()/Error() on the generic path; A7 for each field, the slot the decoder reads it from is a slot the encoder fills from that same field",
	Run: func(c *core.Ctx) { runCodec(c, nil) },
}

func runCodec(c *core.Ctx, keep func(*codecPair) bool) {
	e := originEngine(c)
	cc := &codecCtx{c: c, e: e}
	shapes := GetShapes(c)
	n := 0
	for _, cp := range codecPairs(c) {
		if cp.Dec == nil || cp.Dec.Blocks == nil {
			continue
		}
		if keep != nil && !keep(cp) {
			continue
		}
		n++
		pos := cp.Dec.Pos()
		decName := load.FnName(cp.Dec)
		// ---- reader side
		fieldSlots := map[string]map[string]bool{} // field path -> slots
		allSlots := map[string]bool{}
		fieldOrigins := map[string]map[string]bool{} // field path -> classes of every origin of the stored value
		allocs := resultAllocs(cp.Dec)
		var builtType *types.Struct
		var builtNamed types.Type
		for _, al := range allocs {
			st := sx.Deref(al.Type()).Underlying().(*types.Struct)
			builtType, builtNamed = st, sx.Deref(al.Type())
			for _, path := range leafPaths(st, nil, 0) {
				key := strings.Join(path, ".")
				if fieldSlots[key] == nil {
					fieldSlots[key] = map[string]bool{}
				}
				for _, o := range e.TraceWire(al, path).List() {
					collectWire(o, cp.Dec, fieldSlots[key], 0)
					if fieldOrigins[key] == nil {
						fieldOrigins[key] = map[string]bool{}
					}
					fieldOrigins[key][originClass(o, cp.Dec)] = true
				}
			}
		}
		for _, r := range sx.Returns(cp.Dec) {
			for _, o := range e.TraceWire(r.Results[0], nil).List() {
				collectWire(o, cp.Dec, allSlots, 0)
			}
		}
		for _, m := range fieldSlots {
			for s := range m {
				allSlots[s] = true
			}
		}
		// payload assertion type
		var payloadAssert types.Type
		sx.EachInstr(cp.Dec, func(in ssa.Instruction) {
			if ta, ok := in.(*ssa.TypeAssert); ok {
				if pp, ok := ta.X.(*ssa.Parameter); ok && pp == cp.Dec.Params[len(cp.Dec.Params)-1] {
					payloadAssert = ta.AssertedType
				}
			}
		})
		// ---- writer side
		msgDeps, msgConstEmpty := map[string]bool{}, false
		var det detailsShape
		payloadDeps := map[string]map[string]bool{}
		var payloadType types.Type
		payloadNil := true
		encName := "generic encoder"
		if cp.Enc != nil && cp.Enc.Blocks != nil {
			encName = load.FnName(cp.Enc)
			rets := sx.Returns(cp.Enc)
			msgConstEmpty = true
			var encShapes []detailsShape
			for _, r := range rets {
				if s, ok := sx.ConstString(r.Results[0]); !ok || s != "" {
					msgConstEmpty = false
				}
				for _, o := range e.TraceRecv(r.Results[0], nil).List() {
					collectRecv(o, msgDeps, 0)
				}
				encShapes = append(encShapes, cc.detailsOf(r.Results[1], 0))
				pv := r.Results[2]
				if !sx.IsNil(pv) {
					payloadNil = false
					payloadType = stripIface(pv).Type()
					if sx.IsInterface(payloadType) {
						if ts, ok := ConcreteTypes(c.P, pv); ok && len(ts) == 1 {
							payloadType = ts[0]
						} else {
							payloadType = nil // unresolved: not decided
						}
					}
				}
			}
			det = mergeDetailShapes(encShapes)
		} else if cp.ET != nil {
			sh := shapes[cp.ET.Named]
			for f := range sh.ErrFields {
				msgDeps[f.Name()] = true
			}
			if sd := methodFn(cp.ET, "SafeDetails"); sd != nil {
				rets := sx.Returns(sd)
				if len(rets) == 1 {
					det = cc.detailsOf(rets[0].Results[0], 1)
				} else {
					det = detailsShape{all: map[string]bool{}, why: "SafeDetails() has several returns"}
					for _, r := range rets {
						d2 := cc.detailsOf(r.Results[0], 1)
						for k := range d2.all {
							det.all[k] = true
						}
					}
				}
			} else {
				det = detailsShape{positional: true, all: map[string]bool{}}
			}
		} else {
			det = detailsShape{all: map[string]bool{}, why: "foreign type on the generic path"}
		}
		payloadMember := func(member string) map[string]bool {
			if m, ok := payloadDeps[member]; ok {
				return m
			}
			m := map[string]bool{}
			payloadDeps[member] = m
			if cp.Enc == nil {
				return m
			}
			for _, r := range sx.Returns(cp.Enc) {
				proj := strings.Split(member, ".")
				for _, o := range e.TraceRecv(r.Results[2], projOf(proj)).List() {
					collectRecv(o, m, 0)
					switch o.Kind {
					case origin.Recv:
						m[recvPath(o)] = true
					case origin.Const:
						if strings.HasPrefix(o.Desc, "zero") {
							continue
						}
						m["<const>"] = true
					default:
						m["<"+o.Kind.String()+">"] = true
					}
				}
			}
			return m
		}
		construct := func(clause string) string { return fmt.Sprintf("%s [%s <-> %s] %s", cp.Name, encName, decName, clause) }
		// A1
		if payloadAssert != nil {
			switch {
			case cp.Enc == nil:
				// generic path sends the error itself as payload only if it is a proto.Message
			case payloadNil:
				c.Fail(construct("A1 payload type"), pos, "decoder asserts a payload of type "+load.TypeName(payloadAssert)+" but the encoder sends none: the decoder always fails and the type is lost in transit")
			case payloadType != nil && !types.Identical(payloadType, payloadAssert):
				c.Fail(construct("A1 payload type"), pos, "decoder asserts payload type "+load.TypeName(payloadAssert)+" but the encoder sends "+load.TypeName(payloadType))
			default:
				c.Ob(construct("A1 payload type"), pos, true, load.TypeName(payloadAssert))
			}
		}
		// A2 / A3 / A4 per slot read
		var slots []string
		for s := range allSlots {
			slots = append(slots, s)
		}
		sort.Strings(slots)
		for _, s := range slots {
			switch {
			case strings.HasPrefix(s, "DETAILS["):
				var i int
				fmt.Sscanf(s, "DETAILS[%d]", &i)
				if strings.HasPrefix(s, "DETAILS[*]") {
					continue
				}
				switch {
				case !det.positional:
					c.Fail(construct("A2 "+s), pos, "decoder reads the safe details by position but on the writer side "+det.why)
				case i >= len(det.elems):
					c.Fail(construct("A2 "+s), pos, fmt.Sprintf("decoder reads safeDetails[%d] but the writer produces only %d element(s)", i, len(det.elems)))
				default:
					c.Ob(construct("A2 "+s), pos, true, fmt.Sprintf("writer's details literal has %d fixed positions", len(det.elems)))
				}
			case s == "MSG":
				if cp.Enc != nil {
					c.Check(!msgConstEmpty, construct("A3 MSG"), pos, "encoder sends a message", "decoder rebuilds from the wire message but the encoder always sends the empty string")
				}
			case strings.HasPrefix(s, "PAYLOAD."):
				member := strings.TrimPrefix(s, "PAYLOAD.")
				if cp.Enc == nil {
					continue
				}
				m := payloadMember(member)
				c.Check(len(m) > 0, construct("A4 "+s), pos, "payload member is written from "+setStr(m), "decoder reads payload member "+member+" which the encoder never sets")
			}
		}
		// A9: a field that travels ONLY in the wire message must be read back from the wire message
		if cp.Enc != nil && cp.Enc.Blocks != nil && !msgConstEmpty && len(msgDeps) > 0 {
			elsewhere := map[string]bool{}
			for _, r := range sx.Returns(cp.Enc) {
				for _, idx := range []int{1, 2} {
					if idx < len(r.Results) {
						for _, o := range e.TraceRecv(r.Results[idx], nil).List() {
							collectRecv(o, elsewhere, 0)
						}
					}
				}
			}
			var only []string
			for f := range msgDeps {
				if !elsewhere[f] {
					only = append(only, f)
				}
			}
			sort.Strings(only)
			if len(only) > 0 {
				c.Check(allSlots["MSG"], construct("A9 message-only fields"), pos, "the decoder rebuilds from the wire message what only the message carries ("+strings.Join(only, ", ")+")",
					"field(s) "+strings.Join(only, ", ")+" of the type travel only in the wire message, but the decoder does not use the message it receives: the value is recomputed from something else and the text can differ after a hop")
			}
		}
		// A5 / A6 / A7 need the struct view
		if builtType == nil {
			continue
		}
		isKeyType := cp.ET != nil && types.Identical(builtNamed, cp.ET.Named) || !isModuleType(builtNamed)
		if !isKeyType {
			// legacy upgrade decoders build another type: only A5 applies
		}
		var causeName string
		if cp.ET != nil {
			if sh := shapes[cp.ET.Named]; sh.CauseField != nil {
				causeName = sh.CauseField.Name()
			}
		}
		var paths []string
		for p := range fieldSlots {
			paths = append(paths, p)
		}
		sort.Strings(paths)
		for _, fp := range paths {
			sl := fieldSlots[fp]
			// A5
			if len(sl) == 0 {
				if isForeignCauseField(builtNamed, fp) {
					c.Fail(construct("A5 "+fp), pos, "field "+fp+" of the rebuilt value is not assigned from the wire")
					continue
				}
				c.Fail(construct("A5 "+fp), pos, "field "+fp+" of the rebuilt value is not assigned from any wire slot: it is lost in transit")
				continue
			}
			c.Ob(construct("A5 "+fp), pos, true, "assigned from "+setStr(sl))
			// A8: the restore is lossless - nothing but the wire contributes to the restored field
			var foreign []string
			for k := range fieldOrigins[fp] {
				if !strings.HasPrefix(k, "wire:") && !strings.HasPrefix(k, "CONST zero") && k != `CONST ""` && k != "CONST 0" && k != "CONST false" && k != "CONST nil" { // a zero value: the default for an absent member, or the companion of a false 'ok' result
					foreign = append(foreign, k)
				}
			}
			sort.Strings(foreign)
			c.Check(len(foreign) == 0, construct("A8 "+fp), pos, "restored from the wire alone",
				"the restored field "+fp+" can also take a value that does not come from the wire ("+strings.Join(foreign, ", ")+"): some received values are replaced on decode, so the field is not identical after a hop")
			if fp == causeName || sl["CAUSE"] || sl["CAUSES"] {
				continue
			}
			if !types.Identical(builtNamed, sx.Deref(cp.Key)) {
				continue // decoder builds another type than the key's (tabled by R-REGTYPE): no writer to compare with
			}
			// A7
			for s := range sl {
				var deps map[string]bool
				switch {
				case s == "MSG":
					deps = msgDeps
				case strings.HasPrefix(s, "DETAILS"):
					deps = det.all
					var i int
					if n, _ := fmt.Sscanf(s, "DETAILS[%d]", &i); n == 1 && det.positional && i < len(det.elems) {
						deps = det.elems[i]
					}
				case strings.HasPrefix(s, "PAYLOAD."):
					deps = payloadMember(strings.TrimPrefix(s, "PAYLOAD."))
				case s == "PAYLOAD":
					deps = payloadMember("")
				default:
					continue
				}
				ok := deps[fp] || hasPrefixKey(deps, fp)
				c.Check(ok, construct("A7 "+fp+" <- "+s), pos, "the writer fills "+s+" from field "+fp,
					fmt.Sprintf("decoder restores field %s from %s but the writer fills that slot from %s: the field comes back with another field's value (or none)", fp, s, setStr(deps)))
				// A10: a field that the decoder takes over verbatim from a fixed detail position must be written there
				// verbatim (conversions only): a writer that trims, prefixes or re-formats the value hands the decoder
				// another value than the field held
				var di int
				if nn, _ := fmt.Sscanf(s, "DETAILS[%d]", &di); ok && nn == 1 && det.positional && di < len(det.vals) && len(det.vals[di]) > 0 {
					if found, rVerb := readerVerbatim(cp.Dec, fp, di); found && rVerb {
						wVerb := true
						for _, wv := range det.vals[di] {
							if wv == nil || !verbatimOfField(wv, 0) {
								wVerb = false
							}
						}
						c.Check(wVerb, construct("A10 "+fp+" <- "+s), pos, "written and restored verbatim",
							fmt.Sprintf("decoder restores field %s verbatim from %s but the writer puts a transformed value of the field there (%s): the field comes back changed after a hop - for a field that takes part in the identity (a domain, a key) Is() fails between the original and the transferred error", fp, s, describeVals(det.vals[di])))
					}
				}
			}
		}
		// A6: every field of the key's struct is read by the writer
		if cp.ET != nil && cp.ET.Struct != nil && types.Identical(builtNamed, cp.ET.Named) {
			read := map[string]bool{}
			for k := range msgDeps {
				read[k] = true
			}
			for k := range det.all {
				read[k] = true
			}
			if cp.Enc != nil {
				for _, r := range sx.Returns(cp.Enc) {
					for _, o := range e.TraceRecv(r.Results[2], nil).List() {
						collectRecv(o, read, 0)
					}
					// members of the payload struct
					if al, ok := stripIface(r.Results[2]).(*ssa.Alloc); ok {
						if st, ok := sx.Deref(al.Type()).Underlying().(*types.Struct); ok {
							for i := 0; i < st.NumFields(); i++ {
								for _, o := range e.TraceRecv(al, []string{st.Field(i).Name()}).List() {
									collectRecv(o, read, 0)
								}
							}
						}
					}
				}
			}
			for _, path := range leafPaths(cp.ET.Struct, nil, 0) {
				fp := strings.Join(path, ".")
				if path[0] == causeName {
					continue
				}
				ok := read[fp] || hasPrefixKey(read, fp) || hasPrefixKey(read, path[0])

				c.Check(ok, construct("A6 "+fp), pos, "read by the writer", "field "+fp+" is never read by the encoder (nor by SafeDetails()/Error() on the generic path): it cannot survive a hop")
			}
		}
	}
	if keep == nil {
		c.Min("registered (type, writer, reader) triples", n, 28)
	} else {
		c.Min("registered (type, writer, reader) triples in scope", n, 1)
	}
}

func isModuleType(t types.Type) bool {
	n := sx.NamedOf(t)
	return n != nil && n.Obj().Pkg() != nil && load.IsModPath(n.Obj().Pkg().Path())
}

func isForeignCauseField(t types.Type, fp string) bool { return !isModuleType(t) && fp == "Err" }

func projOf(p []string) []string {
	var out []string
	for _, x := range p {
		if x == "" {
			continue
		}
		// "Details[0]" -> "Details", "[0]"
		if i := strings.Index(x, "["); i > 0 {
			out = append(out, x[:i], x[i:])
		} else {
			out = append(out, x)
		}
	}
	return out
}

func hasPrefixKey(m map[string]bool, fp string) bool {
	for k := range m {
		if strings.HasPrefix(k, fp+".") || strings.HasPrefix(fp, k+".") {
			return true
		}
	}
	return false
}

func setStr(m map[string]bool) string {
	var s []string
	for k := range m {
		s = append(s, k)
	}
	sort.Strings(s)
	if len(s) == 0 {
		return "{}"
	}
	return "{" + strings.Join(s, ", ") + "}"
}

// collectWire gathers wire slots of decoder d from an origin (descending
// into the dependencies of calls and redactable parts).
func collectWire(o *origin.Origin, d *ssa.Function, out map[string]bool, depth int) {
	if depth > 4 {
		return
	}
	if o.Kind == origin.Wire && o.Decoder == d {
		out[slotOf(o)] = true
	}
	for _, l := range [][]*origin.Origin{o.Of, o.Safe, o.Unsafe} {
		for _, x := range l {
			collectWire(x, d, out, depth+1)
		}
	}
}

func collectRecv(o *origin.Origin, out map[string]bool, depth int) {
	if depth > 4 {
		return
	}
	if o.Kind == origin.Recv && len(o.Sub) > 0 {
		out[recvPath(o)] = true
	}
	for _, l := range [][]*origin.Origin{o.Of, o.Safe, o.Unsafe} {
		for _, x := range l {
			collectRecv(x, out, depth+1)
		}
	}
}

// originClass: "wire:<slot>" for a slot of decoder d (also below conversions), otherwise kind and description.
func originClass(o *origin.Origin, d *ssa.Function) string {
	if o.Kind == origin.Wire && o.Decoder == d {
		return "wire:" + slotOf(o)
	}
	// a derived origin (conversion, sanitising, redactable wrapping) all of whose parts are wire slots
	var parts []*origin.Origin
	for _, l := range [][]*origin.Origin{o.Of, o.Safe, o.Unsafe} {
		parts = append(parts, l...)
	}
	if len(parts) > 0 {
		all := true
		for _, x := range parts {
			if !strings.HasPrefix(originClass(x, d), "wire:") {
				all = false
			}
		}
		if all {
			return "wire:derived"
		}
	}
	return o.Kind.String() + " " + o.Desc
}

// verbatimOfField: v is a field of the receiver (or of a struct it holds), possibly converted - no call, no operator.
func verbatimOfField(v ssa.Value, d int) bool {
	if d > 6 {
		return false
	}
	switch x := v.(type) {
	case *ssa.Convert:
		return verbatimOfField(x.X, d+1)
	case *ssa.ChangeType:
		return verbatimOfField(x.X, d+1)
	case *ssa.MakeInterface:
		return verbatimOfField(x.X, d+1)
	case *ssa.Field:
		return true
	case *ssa.UnOp:
		if x.Op == token.MUL {
			_, isFA := x.X.(*ssa.FieldAddr)
			return isFA
		}
	case *ssa.Phi:
		for _, e := range x.Edges {
			if !verbatimOfField(e, d+1) {
				return false
			}
		}
		return len(x.Edges) > 0
	case *ssa.Call:
		// an unexported one-argument accessor of the same package whose every return is such a field
		h := sx.Callee(x)
		if h == nil || h.Blocks == nil || sx.Exported(h) || len(x.Call.Args) != 1 || x.Parent() == nil || h.Pkg != x.Parent().Pkg {
			return false
		}
		rets := sx.Returns(h)
		for _, hr := range rets {
			if len(hr.Results) != 1 || !verbatimOfField(hr.Results[0], d+1) {
				return false
			}
		}
		return len(rets) > 0
	}
	return false
}

// readerVerbatim: the decoder stores into the field named by the last component of fp a value that is, up to
// conversions, the element #i of its details parameter.
func readerVerbatim(dec *ssa.Function, fp string, i int) (found, verbatim bool) {
	name := fp
	if k := strings.LastIndex(fp, "."); k >= 0 {
		name = fp[k+1:]
	}
	if len(dec.Params) < 3 {
		return false, false
	}
	details := dec.Params[len(dec.Params)-2]
	verbatim = true
	sx.EachInstr(dec, func(in ssa.Instruction) {
		st, ok := in.(*ssa.Store)
		if !ok {
			return
		}
		fa, ok := st.Addr.(*ssa.FieldAddr)
		if !ok || sx.FieldOf(fa).Name() != name {
			return
		}
		v := st.Val
		for {
			switch x := v.(type) {
			case *ssa.Convert:
				v = x.X
				continue
			case *ssa.ChangeType:
				v = x.X
				continue
			}
			break
		}
		ld, ok := v.(*ssa.UnOp)
		if !ok || ld.Op != token.MUL {
			if dependsOnValue(v, details, map[ssa.Value]bool{}, 0) {
				found, verbatim = true, false
			}
			return
		}
		ia, ok := ld.X.(*ssa.IndexAddr)
		if !ok || identity(ia.X) != ssa.Value(details) {
			return
		}
		if k, isK := sx.ConstInt(ia.Index); isK && int(k) == i {
			found = true
		}
	})
	return found, found && verbatim
}

func describeVals(vs []ssa.Value) string {
	var out []string
	for _, v := range vs {
		out = append(out, describeVal(v))
	}
	return strings.Join(out, ", ")
}

// mergeDetailShapes: the details an encoder can return over its several returns: every field that feeds any of
// them; fixed positions only when all returns have them and agree in length.
func mergeDetailShapes(shapes []detailsShape) detailsShape {
	if len(shapes) == 1 {
		return shapes[0]
	}
	ds := detailsShape{all: map[string]bool{}}
	ds.positional = len(shapes) > 0
	for _, s := range shapes {
		for k := range s.all {
			ds.all[k] = true
		}
		if !s.positional || len(s.elems) != len(shapes[0].elems) {
			ds.positional = false
		}
	}
	if ds.positional {
		for i := range shapes[0].elems {
			m := map[string]bool{}
			var vals []ssa.Value
			for _, s := range shapes {
				for k := range s.elems[i] {
					m[k] = true
				}
				if i < len(s.vals) {
					vals = append(vals, s.vals[i]...)
				}
			}
			ds.elems = append(ds.elems, m)
			ds.vals = append(ds.vals, vals)
		}
	} else if len(shapes) > 0 {
		ds.why = "the encoder's returns produce details of different shapes"
	}
	return ds
}
