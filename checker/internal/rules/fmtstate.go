package rules

import (
	"fmt"
	"go/token"
	"go/types"
	"strings"

	"golang.org/x/tools/go/ssa"

	"verif/checker/internal/core"
	"verif/checker/internal/load"
	"verif/checker/internal/sx"
)

// helpers about errbase.state ------------------------------------------------

func isStateField(v ssa.Value, name string) bool {
	fa, ok := v.(*ssa.FieldAddr)
	if !ok || sx.FieldOf(fa).Name() != name {
		return false
	}
	return sx.IsNamed(fa.X.Type(), errbasePath, "state")
}

// loadOfField: v is a load of field name of struct type owner (any base).
func loadOfField(v ssa.Value, owner, name string) bool {
	switch x := v.(type) {
	case *ssa.UnOp:
		if x.Op != token.MUL {
			return false
		}
		fa, ok := x.X.(*ssa.FieldAddr)
		return ok && sx.FieldOf(fa).Name() == name && sx.IsNamed(fa.X.Type(), errbasePath, owner)
	case *ssa.Field:
		return sx.FieldOf(x).Name() == name && sx.IsNamed(x.X.Type(), errbasePath, owner)
	}
	return false
}

// derivesFromEntryText: v is (a conversion/slice of) formatEntry.head/.details.
func derivesFromEntryText(v ssa.Value) (string, bool) {
	for i := 0; i < 6; i++ {
		switch x := v.(type) {
		case *ssa.Convert:
			v = x.X
		case *ssa.ChangeType:
			v = x.X
		case *ssa.Slice:
			v = x.X
		case *ssa.UnOp, *ssa.Field:
			for _, f := range []string{"head", "details"} {
				if loadOfField(v, "formatEntry", f) {
					return f, true
				}
			}
			return "", false
		default:
			return "", false
		}
	}
	return "", false
}

// guardEdge: the edge pred→b is taken only when the output is not
// redactable or the entry is redactable.
func guardEdge(pred, b *ssa.BasicBlock) bool {
	if len(pred.Instrs) == 0 {
		return false
	}
	ifi, ok := pred.Instrs[len(pred.Instrs)-1].(*ssa.If)
	if !ok || pred.Succs[0] == pred.Succs[1] {
		return false
	}
	truth := pred.Succs[0] == b
	cond := ifi.Cond
	if u, ok := cond.(*ssa.UnOp); ok && u.Op == token.NOT {
		cond, truth = u.X, !truth
	}
	if loadOfField(cond, "state", "redactableOutput") && !truth {
		return true
	}
	if loadOfField(cond, "formatEntry", "redactable") && truth {
		return true
	}
	if pp, ok := cond.(*ssa.Parameter); ok && escFlagParams[pp] && truth {
		return true // a helper's parameter that every caller binds to entry.redactable
	}
	return false
}

// escTextParams: parameters of errbase functions that receive layer text (formatEntry.head/.details) at some
// call site; escFlagParams: boolean parameters that every such call site binds to the entry's redactable bit.
// Recomputed by runEsc for the program at hand.
var escTextParams = map[*ssa.Parameter]string{}
var escFlagParams = map[*ssa.Parameter]bool{}
var escCallSites = map[*ssa.Function][]*ssa.Call{}

func baseOfBytes(v ssa.Value) ssa.Value {
	for i := 0; i < 6; i++ {
		switch x := v.(type) {
		case *ssa.Convert:
			v = x.X
		case *ssa.ChangeType:
			v = x.X
		case *ssa.Slice:
			v = x.X
		case *ssa.MakeInterface:
			v = x.X
		default:
			return v
		}
	}
	return v
}

func computeEscParams(p *load.Program) {
	escTextParams = map[*ssa.Parameter]string{}
	escFlagParams = map[*ssa.Parameter]bool{}
	escCallSites = map[*ssa.Function][]*ssa.Call{}
	notFlag := map[*ssa.Parameter]bool{}
	var fns []*ssa.Function
	for _, fn := range p.HandFuncs() {
		if pk := load.FnPkg(fn); pk != nil && pk.Path() == errbasePath {
			fns = append(fns, fn)
		}
	}
	for changed, round := true, 0; changed && round < 4; round++ {
		changed = false
		for _, fn := range fns {
			sx.EachInstr(fn, func(in ssa.Instruction) {
				call, ok := in.(*ssa.Call)
				if !ok {
					return
				}
				callee := sx.Callee(call)
				if callee == nil || callee.Blocks == nil || load.FnPkg(callee) == nil || load.FnPkg(callee).Path() != errbasePath {
					return
				}
				passes := false
				for i, a := range call.Call.Args {
					if i >= len(callee.Params) {
						break
					}
					which, isText := derivesFromEntryText(stripIface(a))
					if !isText {
						if pp, isP := baseOfBytes(a).(*ssa.Parameter); isP && escTextParams[pp] != "" {
							which, isText = escTextParams[pp], true
						}
					}
					if isText {
						passes = true
						if escTextParams[callee.Params[i]] == "" {
							escTextParams[callee.Params[i]] = which
							changed = true
						}
					}
				}
				if !passes {
					return
				}
				found := false
				for _, cs := range escCallSites[callee] {
					if cs == call {
						found = true
					}
				}
				if !found {
					escCallSites[callee] = append(escCallSites[callee], call)
				}
				for i, a := range call.Call.Args {
					if i >= len(callee.Params) || !isBoolType(callee.Params[i].Type()) {
						continue
					}
					isFlag := loadOfField(a, "formatEntry", "redactable")
					if pp, isP := a.(*ssa.Parameter); isP && escFlagParams[pp] {
						isFlag = true
					}
					if isFlag && !notFlag[callee.Params[i]] {
						if !escFlagParams[callee.Params[i]] {
							escFlagParams[callee.Params[i]] = true
							changed = true
						}
					} else {
						notFlag[callee.Params[i]] = true
						delete(escFlagParams, callee.Params[i])
					}
				}
			})
		}
	}
}

func isBoolType(t types.Type) bool {
	b, ok := types.Unalias(t).Underlying().(*types.Basic)
	return ok && b.Kind() == types.Bool
}

// allPathsGuarded: every way into block b goes through a guard edge
// (possibly through single-predecessor chains).
func allPathsGuarded(b *ssa.BasicBlock, depth int) bool {
	if depth > 6 || len(b.Preds) == 0 {
		return false
	}
	for _, p := range b.Preds {
		if guardEdge(p, b) {
			continue
		}
		// a pass-through block (no If of its own that matters): look further up
		if len(p.Succs) == 1 && allPathsGuarded(p, depth+1) {
			continue
		}
		return false
	}
	return true
}

var rEsc = &Rule{
	Name: "R-ESC",
	Doc: "in the formatter state machine (methods of errbase.state), text collected from a layer (formatEntry.head / .details) is written raw into the final buffer only on edges where the output is not redactable or the entry itself is redactable; " +
		"on every other path it goes through redact.EscapeBytes. Arbitrary (%#v) text is written only under !redactableOutput",
	Run: runEsc,
}

func runEsc(c *core.Ctx) {
	p := c.P
	st := p.Named("errbase", "state")
	if st == nil {
		c.InternalErr("errbase.state", "anchor type not found")
		return
	}
	n := 0
	computeEscParams(p)
	for _, fn := range p.HandFuncs() {
		if pk := load.FnPkg(fn); pk == nil || pk.Path() != errbasePath {
			continue
		}
		fn := fn
		sx.EachInstr(fn, func(in ssa.Instruction) {
			call, ok := in.(*ssa.Call)
			if !ok {
				return
			}
			callee := sx.Callee(call)
			if callee == nil || len(call.Call.Args) < 2 {
				return
			}
			// writes whose destination is state.finalBuf
			if !isStateField(call.Call.Args[0], "finalBuf") && !isIfaceOfFinalBuf(call.Call.Args[0]) {
				return
			}
			for _, a := range call.Call.Args[1:] {
				vals := []ssa.Value{a}
				if els, ok := varargsVals(a); ok {
					vals = els
				}
				for _, v := range vals {
					which, ok := derivesFromEntryText(stripIface(v))
					viaParam := false
					if !ok {
						if pp, isP := baseOfBytes(v).(*ssa.Parameter); isP && escTextParams[pp] != "" {
							which, ok, viaParam = escTextParams[pp]+" (as parameter "+pp.Name()+")", true, true
						}
					}
					if !ok {
						// escaped text?
						if esc, isEsc := escapedEntryText(stripIface(v)); isEsc {
							n++
							c.Ob(fmt.Sprintf("%s: finalBuf <- EscapeBytes(entry.%s)", load.FnName(fn), esc), call.Pos(), true, "escaped and enclosed before reaching the buffer")
						} else if f, w, isT := escapedTransformedText(stripIface(v)); isT {
							n++
							c.Fail(fmt.Sprintf("%s: finalBuf <- EscapeBytes(%s(entry.%s))", load.FnName(fn), f, w), call.Pos(),
								"layer text is transformed by "+f+" before it is escaped, on the redactable path only: the redactable rendering with its markers stripped is no longer the plain rendering")
						}
						continue
					}
					n++
					construct := fmt.Sprintf("%s: finalBuf <- entry.%s (raw)", load.FnName(fn), which)
					guarded := allPathsGuarded(call.Block(), 0)
					if !guarded && viaParam {
						// a helper that is itself only called on guarded edges
						sites := escCallSites[fn]
						guarded = len(sites) > 0
						for _, cs := range sites {
							if !allPathsGuarded(cs.Block(), 0) {
								guarded = false
							}
						}
					}
					c.Check(guarded, construct, call.Pos(), "raw write reachable only through !redactableOutput or entry.redactable edges",
						"layer text is written raw into the final buffer on a path where the output is redactable and the entry is not: unsafe text appears outside redaction markers")
				}
			}
		})
	}
	// the %#v arm: GoString()/pretty output only under !redactableOutput
	if fei := p.Func("errbase", "formatErrorInternal"); fei != nil && len(fei.Params) == 4 {
		sx.EachInstr(fei, func(in ssa.Instruction) {
			call, ok := in.(*ssa.Call)
			if !ok {
				return
			}
			arb := false
			if call.Call.IsInvoke() && call.Call.Method.Name() == "GoString" {
				arb = true
			}
			if f := sx.Callee(call); f != nil && f.Pkg != nil && strings.Contains(f.Pkg.Pkg.Path(), "kr/pretty") {
				arb = true
			}
			if !arb {
				return
			}
			n++
			ok2 := hasLit(dominatingLits(call.Block()), fei.Params[3], true)
			c.Check(ok2, "errbase.formatErrorInternal: Go-syntax dump ("+sx.TrimMod(sx.CalleeName(call))+")", call.Pos(), "only under !redactableOutput",
				"arbitrary Go-syntax text can be produced while the output is redactable")
		})
	}
	c.Min("final-buffer writes of layer text and %#v producers", n, 3) // 7 on the pinned tree; three of the blocks are copies that a helper can absorb (refactoring R02-1 leaves 2)
}

func isIfaceOfFinalBuf(v ssa.Value) bool {
	if mi, ok := v.(*ssa.MakeInterface); ok {
		return isStateField(mi.X, "finalBuf")
	}
	return false
}

// escapedEntryText: v = []byte(redact.EscapeBytes(entry.f)).
func escapedEntryText(v ssa.Value) (string, bool) {
	for i := 0; i < 4; i++ {
		switch x := v.(type) {
		case *ssa.Convert:
			v = x.X
			continue
		case *ssa.ChangeType:
			v = x.X
			continue
		case *ssa.Call:
			if f := sx.Callee(x); f != nil && f.Name() == "EscapeBytes" && len(x.Call.Args) == 1 {
				if w, ok := derivesFromEntryText(x.Call.Args[0]); ok {
					return w, true
				}
				if pp, isP := baseOfBytes(x.Call.Args[0]).(*ssa.Parameter); isP && escTextParams[pp] != "" {
					return escTextParams[pp] + " (as parameter " + pp.Name() + ")", true
				}
				return "", false
			}
		}
		break
	}
	return "", false
}

// escapedTransformedText: v is EscapeBytes(f(entry text, ...)) for some function f: the text is altered between
// collection and escaping.
func escapedTransformedText(v ssa.Value) (fn string, which string, ok bool) {
	for i := 0; i < 4; i++ {
		switch x := v.(type) {
		case *ssa.Convert:
			v = x.X
			continue
		case *ssa.ChangeType:
			v = x.X
			continue
		case *ssa.Call:
			f := sx.Callee(x)
			if f == nil || f.Name() != "EscapeBytes" || len(x.Call.Args) != 1 {
				return "", "", false
			}
			inner, isCall := baseOfBytes(x.Call.Args[0]).(*ssa.Call)
			if !isCall {
				return "", "", false
			}
			for _, a := range inner.Call.Args {
				if w, isText := derivesFromEntryText(stripIface(a)); isText {
					return sx.TrimMod(sx.CalleeName(inner)), w, true
				}
				if pp, isP := baseOfBytes(a).(*ssa.Parameter); isP && escTextParams[pp] != "" {
					return sx.TrimMod(sx.CalleeName(inner)), escTextParams[pp], true
				}
			}
			return "", "", false
		}
		break
	}
	return "", "", false
}

// ---------------------------------------------------------------------------
// R-BUFFLAG

var rBufFlag = &Rule{
	Name: "R-BUFFLAG",
	Doc: "in (*state).formatRecursive the 'buffer is redactable' flag becomes true only on arms whose every printer hand-out is the safe printer (*safePrinter)(s) " +
		"(never the plain printer, the raw fmt.State or formatSimple); in collectEntry formatEntry.redactable is set only under bufIsRedactable && redactableOutput, and the flag passed to collectEntry is that phi",
	Run: runBufFlag,
}

func runBufFlag(c *core.Ctx) {
	p := c.P
	fr := p.Method(p.Named("errbase", "state"), "formatRecursive")
	ce := p.Method(p.Named("errbase", "state"), "collectEntry")
	if fr == nil || ce == nil {
		c.InternalErr("errbase.(*state).formatRecursive/collectEntry", "anchor methods not found")
		return
	}
	// hand-outs
	type handout struct {
		in   ssa.Instruction
		safe bool
		what string
	}
	var hs []handout
	isSafePrinter := func(v ssa.Value) bool {
		return sx.IsNamed(stripIface(v).Type(), errbasePath, "safePrinter")
	}
	isPlain := func(v ssa.Value) bool {
		t := stripIface(v).Type()
		return sx.IsNamed(t, errbasePath, "printer") || sx.IsNamed(t, errbasePath, "state")
	}
	// the hand-outs of a function: dynamic calls that receive a printer; a static call of an unexported method of
	// the same type (other than the recursion and collectEntry) stands for the hand-outs made inside it
	var handoutsIn func(f *ssa.Function, at ssa.Instruction, depth int) []handout
	handoutsIn = func(f *ssa.Function, at ssa.Instruction, depth int) []handout {
		var out []handout
		sx.EachInstr(f, func(in ssa.Instruction) {
			call, ok := in.(*ssa.Call)
			if !ok {
				return
			}
			site := at
			if site == nil {
				site = in
			}
			if callee := sx.Callee(call); callee != nil {
				if callee.Name() == "formatSimple" {
					out = append(out, handout{site, false, "formatSimple (plain text)"})
					return
				}
				if depth < 2 && callee != fr && callee != ce && callee.Blocks != nil && callee.Pkg == fr.Pkg && !sx.Exported(callee) &&
					callee.Signature.Recv() != nil && types.Identical(callee.Signature.Recv().Type(), fr.Signature.Recv().Type()) {
					out = append(out, handoutsIn(callee, site, depth+1)...)
				}
				return
			}
			for _, a := range call.Call.Args {
				switch {
				case isSafePrinter(a):
					out = append(out, handout{site, true, "safe printer to " + sx.TrimMod(sx.CalleeName(call))})
				case isPlain(a):
					out = append(out, handout{site, false, "plain printer/state to " + sx.TrimMod(sx.CalleeName(call))})
				}
			}
		})
		return out
	}
	hs = handoutsIn(fr, nil, 0)
	// the flag: second argument of the collectEntry call
	var flag ssa.Value
	sx.EachInstr(fr, func(in ssa.Instruction) {
		if call, ok := in.(*ssa.Call); ok && sx.Callee(call) == ce && len(call.Call.Args) >= 3 {
			flag = call.Call.Args[2]
		}
	})
	if flag == nil {
		c.Undecided("errbase.(*state).formatRecursive", fr.Pos(), "call of collectEntry with the redactable flag not found")
		return
	}
	nTrue := 0
	var visit func(v ssa.Value, from *ssa.BasicBlock, seen map[ssa.Value]bool)
	visit = func(v ssa.Value, from *ssa.BasicBlock, seen map[ssa.Value]bool) {
		if seen[v] {
			return
		}
		seen[v] = true
		switch x := v.(type) {
		case *ssa.Phi:
			for i, e := range x.Edges {
				visit(e, x.Block().Preds[i], seen)
			}
		case *ssa.Const:
			if x.Value != nil && x.Value.String() == "true" {
				nTrue++
				nSafe, bad := 0, ""
				for _, h := range hs {
					hb := h.in.Block()
					if hb == from || hb.Dominates(from) {
						if h.safe {
							nSafe++
						} else {
							bad = h.what
						}
					}
				}
				construct := fmt.Sprintf("errbase.(*state).formatRecursive: bufIsRedactable = true (arm ending in block %d)", nTrue)
				switch {
				case bad != "":
					c.Fail(construct, fr.Pos(), "the redactable flag is set on an arm that hands out "+bad+": text printed without markers would be treated as already redactable")
				case nSafe == 0:
					c.Fail(construct, fr.Pos(), "the redactable flag is set on an arm with no safe-printer hand-out")
				default:
					c.Ob(construct, fr.Pos(), true, fmt.Sprintf("%d hand-out(s) on this arm, all of the safe printer", nSafe))
				}
			}
		default:
			c.Undecided("errbase.(*state).formatRecursive: redactable flag", fr.Pos(), "flag is not a phi of boolean constants ("+fmt.Sprintf("%T", v)+")")
		}
	}
	visit(flag, nil, map[ssa.Value]bool{})
	c.Min("arms setting the redactable flag", nTrue, 2)
	// collectEntry: redactable field set only under both conditions
	nSet := 0
	sx.EachInstr(ce, func(in ssa.Instruction) {
		st, ok := in.(*ssa.Store)
		if !ok {
			return
		}
		fa, ok := st.Addr.(*ssa.FieldAddr)
		if !ok || sx.FieldOf(fa).Name() != "redactable" || !sx.IsNamed(fa.X.Type(), errbasePath, "formatEntry") {
			return
		}
		if cst, isC := st.Val.(*ssa.Const); isC && cst.Value != nil && cst.Value.String() == "false" {
			return
		}
		nSet++
		flagOK, outOK := false, false
		for b := st.Block(); b != nil && b.Idom() != nil; b = b.Idom() {
			d := b.Idom()
			if len(b.Preds) != 1 || b.Preds[0] != d {
				continue
			}
			ifi, isIf := d.Instrs[len(d.Instrs)-1].(*ssa.If)
			if !isIf || d.Succs[0] != b {
				continue
			}
			if len(ce.Params) > 2 && ifi.Cond == ssa.Value(ce.Params[2]) {
				flagOK = true
			}
			if loadOfField(ifi.Cond, "state", "redactableOutput") {
				outOK = true
			}
		}
		c.Check(flagOK && outOK, "errbase.(*state).collectEntry: entry.redactable = true", st.Pos(), "only under bufIsRedactable && s.redactableOutput",
			"formatEntry.redactable is set outside the bufIsRedactable && redactableOutput guard")
	})
	c.Min("stores setting formatEntry.redactable", nSet, 1)
	// no other function sets it
	for _, fn := range p.HandFuncs() {
		if fn == ce {
			continue
		}
		sx.EachInstr(fn, func(in ssa.Instruction) {
			if st, ok := in.(*ssa.Store); ok {
				if fa, ok := st.Addr.(*ssa.FieldAddr); ok && sx.FieldOf(fa).Name() == "redactable" && sx.IsNamed(fa.X.Type(), errbasePath, "formatEntry") {
					if cst, isC := st.Val.(*ssa.Const); !isC || cst.Value == nil || cst.Value.String() != "false" {
						c.Fail(load.FnName(fn)+": entry.redactable = …", st.Pos(), "formatEntry.redactable is set outside collectEntry")
					}
				}
			}
		})
	}
}

var _ = types.Identical
