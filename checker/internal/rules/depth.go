package rules

import (
	"fmt"
	"go/token"
	"go/types"
	"strings"

	"golang.org/x/tools/go/ssa"

	"verif/checker/internal/core"
	"verif/checker/internal/load"
	"verif/checker/internal/sx"
)

// affine is c or p + c (coefficient exactly 1) over an int parameter.
type affine struct {
	ok    bool
	param *ssa.Parameter
	c     int64
}

func (a affine) String() string {
	switch {
	case !a.ok:
		return "non-affine"
	case a.param == nil:
		return fmt.Sprintf("%d", a.c)
	case a.c == 0:
		return a.param.Name()
	case a.c > 0:
		return fmt.Sprintf("%s+%d", a.param.Name(), a.c)
	}
	return fmt.Sprintf("%s%d", a.param.Name(), a.c)
}

func affineOf(v ssa.Value) affine {
	switch x := v.(type) {
	case *ssa.Const:
		if n, ok := sx.ConstInt(x); ok {
			return affine{ok: true, c: n}
		}
	case *ssa.Parameter:
		if b, ok := types.Unalias(x.Type()).Underlying().(*types.Basic); ok && b.Info()&types.IsInteger != 0 {
			return affine{ok: true, param: x}
		}
	case *ssa.Convert:
		return affineOf(x.X)
	case *ssa.ChangeType:
		return affineOf(x.X)
	case *ssa.BinOp:
		l, r := affineOf(x.X), affineOf(x.Y)
		if !l.ok || !r.ok {
			return affine{}
		}
		switch x.Op {
		case token.ADD:
			if l.param != nil && r.param != nil {
				return affine{}
			}
			p := l.param
			if p == nil {
				p = r.param
			}
			return affine{ok: true, param: p, c: l.c + r.c}
		case token.SUB:
			if r.param != nil {
				return affine{}
			}
			return affine{ok: true, param: l.param, c: l.c - r.c}
		}
	case *ssa.Phi:
		var first affine
		for i, e := range x.Edges {
			a := affineOf(e)
			if !a.ok {
				return affine{}
			}
			if i == 0 {
				first = a
			} else if a != first {
				return affine{}
			}
		}
		return first
	}
	return affine{}
}

// capture: somewhere below fn a stack/PC is captured whose first recorded
// frame is S frames above fn's own frame (S=0: fn itself, 1: fn's caller).
type capture struct {
	S    affine
	Site ssa.CallInstruction
	Via  []string
}

type depthEngine struct {
	p    *load.Program
	memo map[*ssa.Function][]capture
	busy map[*ssa.Function]bool
}

func (d *depthEngine) summary(fn *ssa.Function) []capture {
	if s, ok := d.memo[fn]; ok {
		return s
	}
	if d.busy[fn] || fn.Blocks == nil {
		return nil
	}
	d.busy[fn] = true
	defer delete(d.busy, fn)
	var out []capture
	primitive := false
	sx.EachInstr(fn, func(in ssa.Instruction) {
		call, ok := in.(ssa.CallInstruction)
		if !ok {
			return
		}
		if _, isGo := in.(*ssa.Go); isGo {
			return
		}
		callee := sx.Callee(call)
		if callee == nil {
			return
		}
		args := call.Common().Args
		switch {
		case sx.Is(callee, "runtime", "Callers") && len(args) == 2:
			a := affineOf(args[0])
			a.c--
			primitive = true
			out = append(out, capture{S: a, Site: call, Via: []string{"runtime.Callers(" + exprOf(args[0]) + ") in " + load.FnName(fn)}})
		case sx.Is(callee, "runtime", "Caller") && len(args) == 1:
			a := affineOf(args[0])
			primitive = true
			out = append(out, capture{S: a, Site: call, Via: []string{"runtime.Caller(" + exprOf(args[0]) + ") in " + load.FnName(fn)}})
		case d.p.InModule(callee):
			sub := d.summary(callee)
			if len(sub) == 0 {
				return
			}
			v, isVal := in.(ssa.Value)
			if !isVal || !flowsToReturn(v, fn) {
				return
			}
			for _, cg := range sub {
				s := cg.S
				if s.ok && s.param != nil {
					// substitute the callee parameter by the actual
					idx := -1
					for i, pp := range callee.Params {
						if pp == s.param {
							idx = i
						}
					}
					if idx < 0 || idx >= len(args) {
						s = affine{}
					} else {
						act := affineOf(args[idx])
						if !act.ok {
							s = affine{}
						} else {
							s = affine{ok: true, param: act.param, c: act.c + s.c}
						}
					}
				}
				s.c--
				via := append([]string{fmt.Sprintf("%s calls %s(%s)", load.FnName(fn), load.FnName(callee), argList(args))}, cg.Via...)
				out = append(out, capture{S: s, Site: call, Via: via})
			}
		}
	})
	_ = primitive
	d.memo[fn] = out
	return out
}

func exprOf(v ssa.Value) string {
	a := affineOf(v)
	if a.ok {
		return a.String()
	}
	return v.Name()
}

func argList(args []ssa.Value) string {
	var s []string
	for _, a := range args {
		if af := affineOf(a); af.ok {
			s = append(s, af.String())
		} else {
			s = append(s, "_")
		}
	}
	return strings.Join(s, ", ")
}

// flowsToReturn: does v (a call result) reach a Return of fn through
// value-preserving instructions, wrapper calls and stores into returned
// allocations?
func flowsToReturn(v ssa.Value, fn *ssa.Function) bool {
	seen := map[ssa.Value]bool{}
	var walk func(v ssa.Value) bool
	walk = func(v ssa.Value) bool {
		if seen[v] {
			return false
		}
		seen[v] = true
		refs := v.Referrers()
		if refs == nil {
			return false
		}
		for _, r := range *refs {
			switch x := r.(type) {
			case *ssa.Return:
				return true
			case *ssa.Phi, *ssa.MakeInterface, *ssa.ChangeInterface, *ssa.ChangeType, *ssa.Convert, *ssa.Extract, *ssa.UnOp, *ssa.Slice, *ssa.TypeAssert, *ssa.Field, *ssa.FieldAddr, *ssa.BinOp:
				if walk(x.(ssa.Value)) {
					return true
				}
			case *ssa.Call:
				if walk(x) {
					return true
				}
			case *ssa.Store:
				if x.Val == v {
					// stored into (a field of) a local allocation that is returned
					base := x.Addr
					for {
						if fa, ok := base.(*ssa.FieldAddr); ok {
							base = fa.X
							continue
						}
						if ia, ok := base.(*ssa.IndexAddr); ok {
							base = ia.X
							continue
						}
						break
					}
					if walk(base) {
						return true
					}
				}
			}
		}
		return false
	}
	return walk(v)
}

var rDepth = &Rule{
	Name: "R-DEPTH",
	Doc: "affine abstract interpretation of the skip arithmetic: primitives runtime.Callers(skip) (first frame skip-1 above the calling function) and runtime.Caller(skip) (skip above); summaries S(f) are composed through every static call chain (S of a call g(a) inside f contributes S_g(a)-1). " +
		"Every exported function of the root package, errutil, withstack and domains whose result carries a capture must have S = 1 (its caller) or S = 1 + depth with coefficient exactly 1 on its depth parameter - for all depths at once",
	Run: runDepth,
}

var depthScope = map[string]bool{"": true, "errutil": true, "withstack": true, "domains": true}

func runDepth(c *core.Ctx) {
	p := c.P
	d := &depthEngine{p: p, memo: map[*ssa.Function][]capture{}, busy: map[*ssa.Function]bool{}}
	nFns, nPrim := 0, 0
	for _, fn := range p.HandFuncs() {
		sx.EachInstr(fn, func(in ssa.Instruction) {
			if call, ok := in.(ssa.CallInstruction); ok {
				if cal := sx.Callee(call); cal != nil && (sx.Is(cal, "runtime", "Callers") || sx.Is(cal, "runtime", "Caller")) {
					nPrim++
				}
			}
		})
	}
	for _, fn := range publicAPI(p) {
		caps := d.summary(fn)
		if len(caps) == 0 {
			continue
		}
		rel := strings.TrimPrefix(strings.TrimPrefix(load.FnPkg(fn).Path(), load.ModPath), "/")
		name := load.FnName(fn)
		if !depthScope[rel] {
			for _, cp := range caps {
				c.Note("informational (outside the property's package scope): %s records the frame S=%s above itself", name, cp.S)
			}
			continue
		}
		nFns++
		// depth parameter: an int parameter named like *depth*
		var depthParam *ssa.Parameter
		for _, pp := range fn.Params {
			if b, ok := types.Unalias(pp.Type()).Underlying().(*types.Basic); ok && b.Kind() == types.Int && strings.Contains(strings.ToLower(pp.Name()), "depth") {
				depthParam = pp
			}
		}
		for i, cp := range caps {
			construct := name
			if len(caps) > 1 {
				construct = fmt.Sprintf("%s capture#%d", name, i+1)
			}
			pos := fn.Pos()
			switch {
			case !cp.S.ok:
				c.Undecided(construct, pos, "skip/depth expression is not of the form constant or parameter+constant along the forwarding chain", cp.Via...)
			case depthParam == nil && cp.S.param == nil && cp.S.c == 1:
				c.Ob(construct, pos, true, "S = 1: first recorded frame is the caller, via "+strings.Join(cp.Via, " -> "))
			case depthParam != nil && cp.S.param == depthParam && cp.S.c == 1:
				c.Ob(construct, pos, true, "S = 1 + "+depthParam.Name()+" for every depth, via "+strings.Join(cp.Via, " -> "))
			case depthParam != nil && cp.S.param == nil:
				c.Fail(construct, pos, fmt.Sprintf("function has a depth parameter but the recorded frame does not depend on it (S = %s, want 1+%s)", cp.S, depthParam.Name()), cp.Via...)
			default:
				want := "1"
				if depthParam != nil {
					want = "1+" + depthParam.Name()
				}
				c.Fail(construct, pos, fmt.Sprintf("recorded frame is off: S = %s, want %s (the caller%s)", cp.S, want, map[bool]string{true: " plus depth", false: ""}[depthParam != nil]), cp.Via...)
			}
		}
		// a function whose name says Depth must have a depth parameter that matters
		if strings.Contains(fn.Name(), "Depth") && depthParam == nil {
			c.Undecided(name, fn.Pos(), "name says Depth but no int depth parameter found")
		}
	}
	c.Min("runtime.Caller/Callers primitive call sites", nPrim, 2)
	c.Min("exported capturing functions in scope", nFns, 35)
}
