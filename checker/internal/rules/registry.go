package rules

import (
	"fmt"
	"runtime/debug"

	"verif/checker/internal/core"
)

// Rule is one named structural rule.
type Rule struct {
	Name string
	Doc  string
	Run  func(c *core.Ctx)
}

// Prop describes what is decided for one property.
type Prop struct {
	ID      string
	Rules   []*Rule
	Explain string   // coverage.explanation: what is decided and what is not
	Trusted []string // trusted base
}

var props = map[string]*Prop{}

func register(p *Prop) { props[p.ID] = p }

// Get returns the property description.
func Get(id string) *Prop { return props[id] }

// IDs lists the claimed properties.
func IDs() []string {
	var out []string
	for i := 1; i <= 20; i++ {
		id := fmt.Sprintf("C%02d", i)
		if props[id] != nil {
			out = append(out, id)
		}
	}
	return out
}

// RunRule runs one rule, converting a checker panic into an internal finding.
func RunRule(c *core.Ctx, r *Rule) {
	c.Rule = r.Name
	defer func() {
		if e := recover(); e != nil {
			c.InternalErr("checker", fmt.Sprintf("panic in rule %s: %v", r.Name, e))
			c.Note("panic in %s: %v\n%s", r.Name, e, debug.Stack())
		}
	}()
	r.Run(c)
}
