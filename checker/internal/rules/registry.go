package rules

import (
	"fmt"
	"runtime/debug"
	"strings"

	"verif/checker/internal/core"
)

// Rule is one named structural rule.
type Rule struct {
	Name string
	Doc  string
	Run  func(c *core.Ctx)
	// Keep, when set, restricts the rule to the constructs a property is about:
	// obligations and findings on other constructs are dropped (they belong to
	// the property that owns the rule unrestricted).
	Keep func(c *core.Ctx, construct string) bool
}

// scoped derives a restricted variant of a rule.
func scoped(r *Rule, scope string, keep func(c *core.Ctx, construct string) bool) *Rule {
	return &Rule{Name: r.Name, Doc: r.Doc + " [in this property restricted to: " + scope + "]", Run: r.Run, Keep: keep}
}

func containsAny(s string, subs ...string) bool {
	for _, x := range subs {
		if strings.Contains(s, x) {
			return true
		}
	}
	return false
}

// Prop describes what is decided for one property.
type Prop struct {
	ID      string
	Rules   []*Rule
	Explain string   // coverage.explanation: what is decided and what is not
	Trusted []string // trusted base
}

var props = map[string]*Prop{}

func register(p *Prop) {
	if x, ok := explainExtra[p.ID]; ok {
		p.Explain += " " + x
	}
	props[p.ID] = p
}

// explainExtra: clauses added after the third seeding round (appended to each property's explanation).
var explainExtra = map[string]string{
	"C01": "Also decided: wire strings / error texts are never used as format strings in encoders, decoders and opaque types (R-FORMAT-ARG); every restored field comes from the wire alone (R-CODEC A8); the encodings of the branches of a multi-cause node do not alias one loop variable (R-LOOP-ALIAS). After round 4: a field that travels only in the wire message is read back from it (R-CODEC A9); what an unknowing process stores is the received field verbatim. After round 5: the formatter state's Write passes every byte but the newline through (R-WRITE-FAITHFUL); errno predicates and the native/opaque decision (R-ERRNO-TABLE). After round 6: every message-ownership announcement in formatRecursive is followed by the elision of the causes' texts (R-ELIDE); decodeWrapper/decodeLeaf return a layer of their own for every received layer (R-DECODE-RESULT); the special-case printer's arms print the wrapped value's own Error() (R-SPECIAL-TEXT, two known findings). After round 7: decoding never writes into the message it decodes (R-DECODE-READONLY); the renderer gives back every newline it takes (R-WRITE-FAITHFUL, separator clause; D21 fixed). After round 8: the same multi-cause clause of R-ELIDE (the text of a wrapper above a foreign multi-cause Formatter is stable across a hop). The wire message of an encoder-less type is its Error() text itself, not a sanitised copy (R-GENERIC-MSG). After round 10: the cause handed to encodeWrapper is UnwrapOnce(err) itself - a one-branch multi-cause node is not sent as a wrapper (R-ENC-DISPATCH); an encoder never finds its prefix by a front search of the text (R-PREFIX-CUT).",
	"C02": "Also decided: the Error() shape of the opaque types (the text an unknowing process contributes to identity), no standard-library errors.Is/As inside the library (R-STD-IDENTITY), no wire text used as a format in codecs. After round 5: Mark always attaches the portable mark. After round 6: decoders decline on structural grounds only, never on the value of a member (R-DECLINE); no received layer is dropped (R-DECODE-RESULT). After round 7: a type-key extension is the annotation itself, not a shortened form (R-KEY-MARKER); the type-name part of a key is the type's own String() (R-TYPENAME-RAW). After round 8: the text that travels for an encoder-less type is the error's own text (R-GENERIC-MSG); errno predicates and the native/opaque decision (R-ERRNO-TABLE). After round 9: a field that a decoder takes over verbatim from a fixed detail position is written there verbatim (R-CODEC A10: the domain of withDomain). After round 10: every branch of a multi-cause node is encoded through EncodeError (R-WALK-MULTI, encoder clause); every layer of a chain contributes its type mark (R-MARK-LAYERS). After round 11: two type marks are equal only when family name and extension both are (R-MARK-EQUALS).",
	"C03": "Also decided: the special-case printer declares safe only a sentinel's own text - text equality, not an Is/IsAny match, which an Is(error) bool method can fake (R-SPECIAL-LEAF); a decoder that delegates to another brings its (legacy, encoder-less) keys along when the wire message is classified. After round 4: layer text handed to a helper is followed into it (raw writes into the final buffer stay guarded, R-ESC interprocedural). After round 8: what ReportError itself writes into the event (tags, extra) is part of the S5 sinks. After round 9: the redactable-mode printer writes into the state through redact only (R-SAFE-SINK). After round 10: formatRecursive probes SafeFormatter before Formatter (R-FMT-PROBE-ORDER). After round 12: no cut is taken from a buffer just before it is declared redactable (R-REDACTABLE-OPS, conversion clause: the finished redactable output is printed whole, whatever the verb's precision).",
	"C04": "Also decided: for standard-library wrappers with encoders (PathError, LinkError, SyscallError) the wire message equals the prefix part of the type's own Error(), read from the standard-library source (R-WIRE-MSG W3). After round 4: the opaque fallbacks store the received fields verbatim (no constant substituted on some path); a redactable prefix is sent in its StripMarkers() form. After round 5: one separator constant at every composer and decomposer (R-SEP). After round 6: no received layer is dropped or replaced by its cause (R-DECODE-RESULT); read-only operations never rewrite the details an opaque value stores (R-EFFECT, scoped). After round 7: decoding never writes into the received message (R-DECODE-READONLY); a forwarding encoder does not recompute reportable strings from a nested error it decoded (R-REENCODE-STABLE; D22 fixed). After round 8: the outgoing message is the stored / encoder's / Error() text itself (R-GENERIC-MSG). After round 9/10: R-PREFIX-CUT; the stripped own-text form of a leaf's message counts as its Error() text. After round 12: an opaque value that stores the received details member by member stores every member, the type mark's extension included (R-OPAQUE-TRANSPORT).",
	"C05": "Also decided: a payload that failed to unmarshal is never read (R-UNMARSHAL-OK). After round 4: a received opaque value is re-emitted from its stored fields and never handed to a registered encoder. After round 5: no member is read through a pointer field of a received message without a non-nil test (R-PB-NILPTR). After round 7: the codec registries never hold a nil function (R-REGISTRY-NONNIL). After round 8: no unchecked assertion on the result of a module function that can return nil (R-ASSERT-NIL); a fixed-size array is not indexed by a variable ranging over a received list (R-BOUNDS, array clause). After round 10: no adapter closure around a nil function in a codec registry (R-REGISTRY-CLOSURE; D27 fixed).",
	"C06": "Also decided: the wire message of a legacy key without an encoder is classified as plain text - never relabelled redactable. After round 4: layer text is never transformed between collection and escaping on the redactable path only; helpers that receive layer text are followed. After round 5: Write compares its input with the newline only and never takes buffered text back (R-WRITE-FAITHFUL). After round 8: Formattable always interposes the library's adapter (R-FORMATTABLE). After round 9: the redactable-mode printer writes into the state through redact only, so marker runes inside safe values are escaped too (R-SAFE-SINK).",
	"C07": "Also decided: for two non-nil errors WithSecondaryError/CombineErrors always build the wrapper holding both (R-SECONDARY-ATTACH); barrier / secondary constructors never skip on a condition computed from the error (R-ALWAYS-WRAPS); slot agreement, registered types and redactable conversions of the barrier and secondary-error types. After round 6: the hidden error is handed to the printer as a value in the verbose rendering, not rendered to text first (R-DETAIL-PRINT, as-a-value clause). After round 7: GetDomain reads the single-cause chain only (R-DOMAIN-GETTER); the renderer keeps empty lines, so Handled keeps the hidden text exactly (R-WRITE-FAITHFUL, separator clause). After round 8: every parameter of a hiding constructor reaches its result on every path (R-ARG-USED) - no fall-back to a sibling constructor for particular argument values. After round 9: an error among the format arguments becomes the cause only as the %w argument that redact.HelperForErrorf designates (R-ARG-NOT-CAUSE); WithSecondaryError with a nil primary returns nil (R-NIL, scoped). After round 10: the barrier sink returns a fresh barrier around the error it is given, never a re-labelled copy of an inner one (R-BARRIER-FRESH). After round 11: a code accessor reads the code from the layer that carries it (R-CODE-GETTER), never from relayed safe details. After round 12: the SafeDetails() of a barrier / secondary-error wrapper walks ALL layers of the hidden error, starting at the hidden error itself (R-HIDDEN-DETAILS).",
	"C08": "Also decided: Mark always wraps (R-ALWAYS-WRAPS); chain walks use the current layer, not the root of the walk (R-WALK-CURRENT); a memoised identity function is keyed by what its value is computed from (R-MEMO); no standard-library identity tests inside the library. After round 5: a layer's own Is method is asked for every pair, in Is and IsAny alike (R-IS-METHOD); Is/IsAny range over UnwrapMulti itself. After round 7: a type-key extension (ErrorKeyMarker) is the annotation itself (R-KEY-MARKER). After round 9: the type-name part of a key is the type's own String(), generic instantiations included (R-TYPENAME-RAW). After round 10: IsAny never recurses into a nil branch (R-ISANY-NIL; D25 fixed); a branch is handed to a function that runs both phases (R-WALK-FULL); every layer contributes its type mark (R-MARK-LAYERS). After round 11: two type marks are equal only when family name and extension both are (R-MARK-EQUALS).",
	"C09": "Also decided: the formatting state forwards Flag/Width/Precision of the caller's fmt.State unchanged (R-STATE-FLAGS); the special-case printer's arms for standard-library wrappers print what the wrapper's own Error() prints, by symbolic execution of both over the receiver's fields (R-SPECIAL-TEXT). After round 4: details that a decoder reads by position are written at fixed positions (R-CODEC A2). After round 5: the Formattable adapter hands every verb to FormatError; detail formatters print stored texts, never use them as formats; the whole-text arms of the special-case printer print Error(); Write is faithful. After round 6: message ownership is honoured at every site of formatRecursive (R-ELIDE); hidden errors are printed as values. After round 7: a layer prints its own detail whatever its cause chain contains (R-DETAIL-PRINT, cause-independence clause); separators written for pending newlines are never empty (R-WRITE-FAITHFUL; D21 fixed). After round 8: a foreign multi-cause error rendered through its own Format method or formatSimple always gets its branches elided (R-ELIDE, multi-cause clause; D23 fixed). After round 9: the rendered text reaches the caller's fmt.State as a string operand, and the %!verb(type) notation is copied verbatim (R-FINISH). After round 10: newlines are held back in the detail mode only (R-WRITE-FAITHFUL; D26 fixed); UnwrapOnce probes the single-cause protocols only (R-PROTOCOL, scoped).",
	"C10": "Also decided: no annotation constructor skips the annotation on a condition computed from the error (R-ALWAYS-WRAPS); walks use the current layer (R-WALK-CURRENT). After round 4: every layer of the chain looks into its branches in Is/IsAny/As; format strings are always formatted (R-FORMAT-STORED). After round 5: a join owns its branch slice (R-OWNED-BRANCHES). After round 6: no constructor boxes a pointer that can be nil into its error result (R-BOXED-NIL; constructor helpers that hand the wrapper out under its pointer type are part of the constructor census); the walks of Is/IsAny never end early (R-LOOP-EXITS). After round 7: the documented pass-through of WithSafeDetails / WithContextTags happens under exactly the documented condition (R-PASSTHROUGH-GUARD); UnwrapMulti answers by the protocol alone (R-MULTI-UNCOND). After round 8: every parameter of an annotation constructor reaches the returned wrapper on every path (R-ARG-USED). After round 9: Wrapf with an error among its arguments keeps the wrapped error as the primary one (R-BARRIER-CTOR, scoped). After round 10: the ': ' separator is cut as a unit (R-SEP); barrier constructors (R-BARRIER-CTOR, all constructs).",
	"C11": "Also decided: the code accessors return only the found code or the contract's constants (R-CODE-GETTER); a native errno is rebuilt only for an identical platform string; an empty printed stack is no stack (R-STACK-EMPTY); every restored field comes from the wire alone (A8). After round 4: every key that sends a payload has a decoder (R-PAYLOAD-DECODER); the safe details of encoder-less types go out untransformed (R-GENERIC-PATH); the printed stack is the whole stack (R-STACK-WHOLE). After round 6: decoders decline on structural grounds only (R-DECLINE); a list annotation that travels as the safe details is sent and restored as itself (R-LIST-ROUNDTRIP); every printed stack entry yields a frame (R-FRAME-PER-ENTRY). After round 7: the pkg/errors adapters send the whole StackTrace() (R-STACK-WHOLE). After round 9: R-CODEC A10; the server interceptor's status message is valid UTF-8, so the details travel (R-GRPC-FLOW; D24 fixed). After round 10: encoders apply no lossy string transformation to what they send (R-ENC-VERBATIM); decoders never use a received text as a format (R-FORMAT-ARG); no memo keyed by less than the value depends on (R-MEMO).",
	"C12": "Also decided: no standard-library identity test decides what is printed as safe; per-branch encodings do not alias one variable. After round 4: no safe-carrying constructor skips its annotation (R-ALWAYS-WRAPS). After round 5: a hidden error rendered into safe details is rendered verbosely; identity/type-name functions are not memoised under a lossy key. After round 6: read-only operations (accessors, SafeDetails, report building) never rewrite what an error carries as safe details (R-EFFECT, scoped). After round 7: WithSafeDetails returns the error unchanged only for an empty format AND no arguments (R-PASSTHROUGH-GUARD). After round 8: every parameter of the safe-detail-carrying constructors reaches the result (R-ARG-USED); a join owns its branch list. After round 9: depth forwarding of the stack-capturing constructors (R-DEPTH) and 'a constant message is never a format' (R-FORMAT-ARG, errutil) are counted here too. After round 10: SafeFormatter is probed before Formatter (R-FMT-PROBE-ORDER); no plain string relabelled as redactable (R-TAINT/redactable). After round 11: getDetails probes SafeDetailer before the StackTrace() fallback (R-DETAILS-ORDER). After round 12: the safe details of a hidden error are collected from all of its layers (R-HIDDEN-DETAILS).",
	"C13": "Also decided: the multi-cause types hand the whole node to the dispatcher through their own Format method; per-branch encodings do not alias one variable. After round 4: joining always yields a multi-cause node (R-JOIN-NODE); the join type renders live branch texts (R-SHAPE). After round 5: a declining multi-cause decoder falls back to the opaque leaf (R-DECODE-NONNIL); multi-cause errors are leaves for UnwrapOnce. After round 7: a join's branches are its arguments, never the spliced branches of a nested join (R-JOIN-ELEMENTS); UnwrapMulti returns the branches under no other condition than the type assertion (R-MULTI-UNCOND). After round 8: join.Join drops exactly the nil arguments (R-JOIN-FILTER); the formatter collects an entry for every node it enters (R-VISIT-ALL). After round 10: As tests every layer itself besides searching its branches (R-LOOP-EXITS for errutil.As). The dispatcher hands encodeWrapper the UnwrapOnce cause only (R-ENC-DISPATCH). After round 11: the elision clauses of formatRecursive (R-ELIDE) are counted here too.",
	"C14": "Also decided: UnwrapAll stops exactly where UnwrapOnce is nil - induction variable, exit condition and result (R-UNWRAPALL); no standard-library Is/As/Unwrap inside the library. After round 4: interface comparisons in Is/IsAny are guarded by the comparability of the right operand (R-CMP-GUARD). After round 5: the As target validation tests the element type (R-AS-TARGET); a layer's Is method is always asked; joins own their slices. After round 6: no interface value of unknown dynamic type is used as a map key (R-CMP-GUARD, hashing clause); Is/IsAny/As look into the branches of the chain variable itself, at every layer (R-WALK-MULTI). After round 7: UnwrapMulti answers by the protocol alone (R-MULTI-UNCOND). After round 8: join.Join keeps every non-nil argument, like the standard library (R-JOIN-FILTER). After round 10: a layer's Is method is asked whatever the receiver is (R-IS-DELEGATE); loop exits of Is / IsAny / As (R-LOOP-EXITS).",
	"C15": "Also decided: reverseExceptionOrder is a reversal - the swapped indices satisfy a+b = len-1 by induction over the loop (R-REVERSE); the function-name split is a partition of the runtime name outside type-argument brackets (R-FUNCNAME); an empty printed stack yields no frames. After round 4: a text is cut at a search result exactly when something was found (R-INDEX-FOUND); the message prefix is GetOneLineSource of the reported error. After round 5: no per-layer text is carried from one layer to the next (R-PER-LAYER); the synthetic exception is built exactly when no exception was collected. After round 6: every printed stack entry yields a frame (R-FRAME-PER-ENTRY). After round 7: GetDomain (the module of every exception) reads the single-cause chain only (R-DOMAIN-GETTER). After round 8: the report visitor is applied to every node (R-VISIT-ALL); the two stack accessors probe StackTraceProvider before SafeDetailer (R-PROBE-ORDER). After round 10: the type names a received layer reports (R-OPAQUE-TRANSPORT, getTypeDetails); GetOneLineSource asks the cause first (R-ORDER). After round 12: the reversal's bound is exact - len(ex)/2 (or the a < b form), not one pair short (R-REVERSE, bound clause).",
	"C16": "Also decided: domain and stack functions are not memoised under a lossy key (R-MEMO); the function-name split handles instantiated generic functions; an empty printed stack gives no location. After round 5: stack-capturing constructors never skip the capture on a condition computed from the error; the printed stack is the whole stack. After round 6: JoinWithDepth always goes through WithStackDepth (R-JOIN-NODE, scoped). After round 8: GetOneLineSource and GetReportableStackTrace ask a layer the same questions in the same order (R-PROBE-ORDER). After round 9: the package domain is computed from the caller's file, not from its function name (R-PKG-DOMAIN). After round 10: the recorded stack is the captured one, not a function of it (R-STACK-RAW).",
	"C17": "Also decided: the encoder/decoder registries are consulted under the family name, never the original type name (R-REGISTRY-KEY); RegisterTypeMigration keeps the registry transitively closed in both directions, so chained renames give the same registry in either order (CLOSE-BACK / CLOSE-FWD). After round 4: the previous name of a migration is a written-down constant. After round 7: the type-name part of a type key is reflect.TypeOf(err).String() itself (R-TYPENAME-RAW). After round 12: the package-path part of a live type's key is reflect.Type.PkgPath() itself, so it equals the key RegisterTypeMigration builds from the caller's strings (R-TYPENAME-RAW, package-path clause).",
	"C18": "Also decided: append into a re-sliced, non-fresh slice is a write into the shared backing array. After round 4: package-level sync.Map / sync.Pool updates reachable from read-only operations count as shared state. After round 6: package-level maps and slices are never stored into other objects, returned or passed out of the module (R-GLOBAL-ALIAS). After round 7: outside initialisers no address of a package-level variable is passed as an argument, except to the synchronisation types (R-GLOBAL-ADDR). After round 9: no append onto a slice that an interface method of an arbitrary error handed out (R-EFFECT). After round 10: the aggregating accessors hand out slices built by the call (R-RESULT-FRESH).",
	"C19": "Also decided: the hint/detail/link/key/tag/safe-detail constructors never skip on a condition computed from the error; the accessors traverse with errbase.UnwrapOnce (no standard-library Unwrap). After round 4: a format string is always formatted, also without arguments (R-FORMAT-STORED). After round 6: the per-layer accessor GetIssueLink answers by the type of the layer (R-LAYER-GETTER). After round 7: the documented pass-through conditions of the annotation constructors are exactly the documented ones (R-PASSTHROUGH-GUARD). After round 8: every parameter of the hint/detail/link/key constructors reaches the result (R-ARG-USED); the root API forwards each of them to its namesake. After round 9: GetContextTags returns a buffer unconverted only after a loop that tested every tag's value (R-TAGS-STRINGS); a Join of one error is still a node (R-JOIN-NODE). After round 10: exactly the documented types provide hints / details, promoted methods included (R-HINT-PROVIDERS).",
	"C20": "Also decided: GetGrpcCode returns only the attached code, OK for nil and Unknown otherwise (R-CODE-GETTER); the restored code comes from the wire alone. After round 4: the error returned by the server is the Err() of the status found in, or built for, the handler's error, never another status; a non-nil error never travels with status OK. After round 5: the client uses every decoded error unconditionally and passes the invoker's error through only where nothing was decoded. After round 6: the code decoders decline on structural grounds only - a zero code is a legal code (R-DECLINE, scoped). After round 8: the code given to WrapWithGrpcCode reaches the result on every path (R-ARG-USED). After round 9: the status message is the handler's text made valid UTF-8 (D24 fixed); the client examines every detail of the status, over the whole Details() list. After round 12: the status that receives the details is one the interceptor built with status.New - never the raw-text status that status.FromError prepared on its not-ok edge.",
}

// Get returns the property description.
func Get(id string) *Prop { return props[id] }

// IDs lists the claimed properties.
func IDs() []string {
	var out []string
	for i := 1; i <= 20; i++ {
		id := fmt.Sprintf("C%02d", i)
		if props[id] != nil {
			out = append(out, id)
		}
	}
	return out
}

// RunRule runs one rule, converting a checker panic into an internal finding.
func RunRule(c *core.Ctx, r *Rule) {
	c.Rule = r.Name
	defer func() {
		if e := recover(); e != nil {
			c.InternalErr("checker", fmt.Sprintf("panic in rule %s: %v", r.Name, e))
			c.Note("panic in %s: %v\n%s", r.Name, e, debug.Stack())
		}
	}()
	o0, f0 := len(c.Obligs), len(c.Findings)
	r.Run(c)
	if r.Keep != nil {
		obs := c.Obligs[:o0]
		for _, o := range c.Obligs[o0:] {
			if r.Keep(c, o.Construct) {
				obs = append(obs, o)
			}
		}
		c.Obligs = obs
		fs := c.Findings[:f0]
		for _, f := range c.Findings[f0:] {
			if f.Kind == core.Internal || r.Keep(c, f.Construct) {
				fs = append(fs, f)
			}
		}
		c.Findings = fs
	}
}
