package rules

import (
	"fmt"
	"runtime/debug"
	"strings"

	"verif/checker/internal/core"
)

// Rule is one named structural rule.
type Rule struct {
	Name string
	Doc  string
	Run  func(c *core.Ctx)
	// Keep, when set, restricts the rule to the constructs a property is about:
	// obligations and findings on other constructs are dropped (they belong to
	// the property that owns the rule unrestricted).
	Keep func(c *core.Ctx, construct string) bool
}

// scoped derives a restricted variant of a rule.
func scoped(r *Rule, scope string, keep func(c *core.Ctx, construct string) bool) *Rule {
	return &Rule{Name: r.Name, Doc: r.Doc + " [in this property restricted to: " + scope + "]", Run: r.Run, Keep: keep}
}

func containsAny(s string, subs ...string) bool {
	for _, x := range subs {
		if strings.Contains(s, x) {
			return true
		}
	}
	return false
}

// Prop describes what is decided for one property.
type Prop struct {
	ID      string
	Rules   []*Rule
	Explain string   // coverage.explanation: what is decided and what is not
	Trusted []string // trusted base
}

var props = map[string]*Prop{}

func register(p *Prop) { props[p.ID] = p }

// Get returns the property description.
func Get(id string) *Prop { return props[id] }

// IDs lists the claimed properties.
func IDs() []string {
	var out []string
	for i := 1; i <= 20; i++ {
		id := fmt.Sprintf("C%02d", i)
		if props[id] != nil {
			out = append(out, id)
		}
	}
	return out
}

// RunRule runs one rule, converting a checker panic into an internal finding.
func RunRule(c *core.Ctx, r *Rule) {
	c.Rule = r.Name
	defer func() {
		if e := recover(); e != nil {
			c.InternalErr("checker", fmt.Sprintf("panic in rule %s: %v", r.Name, e))
			c.Note("panic in %s: %v\n%s", r.Name, e, debug.Stack())
		}
	}()
	o0, f0 := len(c.Obligs), len(c.Findings)
	r.Run(c)
	if r.Keep != nil {
		obs := c.Obligs[:o0]
		for _, o := range c.Obligs[o0:] {
			if r.Keep(c, o.Construct) {
				obs = append(obs, o)
			}
		}
		c.Obligs = obs
		fs := c.Findings[:f0]
		for _, f := range c.Findings[f0:] {
			if f.Kind == core.Internal || r.Keep(c, f.Construct) {
				fs = append(fs, f)
			}
		}
		c.Findings = fs
	}
}
