package rules

import (
	"fmt"
	"go/token"
	"go/types"
	"strings"

	"golang.org/x/tools/go/ssa"

	"verif/checker/internal/absint"
	"verif/checker/internal/core"
	"verif/checker/internal/load"
	"verif/checker/internal/sx"
)

// ---------------------------------------------------------------------------
// R-CMP-GUARD

var rCmpGuard = &Rule{
	Name: "R-CMP-GUARD",
	Doc: "every == / != between two interface-typed operands in hand-written module code cannot panic on uncomparable dynamic types: one operand is nil, or the comparison is dominated by the true edge of a reflect.TypeOf(operand).Comparable() test, " +
		"or one operand is a package-level sentinel whose every stored value has a pointer dynamic type, or both operands have static type reflect.Type",
	Run: runCmpGuard,
}

func runCmpGuard(c *core.Ctx) {
	p := c.P
	n := 0
	for _, fn := range p.HandFuncs() {
		if pk := load.FnPkg(fn); pk != nil && strings.HasSuffix(pk.Path(), "/testutils") {
			continue
		}
		sx.EachInstr(fn, func(in ssa.Instruction) {
			bo, ok := in.(*ssa.BinOp)
			if !ok || (bo.Op != token.EQL && bo.Op != token.NEQ) {
				return
			}
			if !sx.IsInterface(bo.X.Type()) || !sx.IsInterface(bo.Y.Type()) {
				return
			}
			if sx.IsNil(bo.X) || sx.IsNil(bo.Y) {
				return
			}
			n++
			construct := fmt.Sprintf("%s: %s %s %s", load.FnName(fn), describeVal(bo.X), bo.Op, describeVal(bo.Y))
			pos := sx.InstrPos(bo)
			if sx.IsNamed(bo.X.Type(), "reflect", "Type") && sx.IsNamed(bo.Y.Type(), "reflect", "Type") {
				c.Ob(construct, pos, true, "both operands are reflect.Type (pointer-backed, always comparable)")
				return
			}
			for _, op := range []ssa.Value{bo.X, bo.Y} {
				if why, ok := pointerSentinel(p, op); ok {
					c.Ob(construct, pos, true, why)
					return
				}
			}
			if why, ok := comparableGuard(bo); ok {
				c.Ob(construct, pos, true, why)
				return
			}
			c.Fail(construct, pos, "interface values compared without a Comparable() guard: panics when both hold the same uncomparable dynamic type")
		})
	}
	c.Min("interface==interface comparisons", n, 5)
	// the same hazard through hashing: an interface value whose dynamic type the module does not fix, used as a map key
	nk := 0
	for _, fn := range p.HandFuncs() {
		if pk := load.FnPkg(fn); pk != nil && strings.HasSuffix(pk.Path(), "/testutils") {
			continue
		}
		sx.EachInstr(fn, func(in ssa.Instruction) {
			var m, key ssa.Value
			switch x := in.(type) {
			case *ssa.Lookup:
				m, key = x.X, x.Index
			case *ssa.MapUpdate:
				m, key = x.Map, x.Key
			default:
				return
			}
			mt, ok := types.Unalias(m.Type()).Underlying().(*types.Map)
			if !ok || !sx.IsInterface(mt.Key()) {
				return
			}
			if sx.IsNamed(mt.Key(), "reflect", "Type") {
				return // pointer-backed: always hashable
			}
			nk++
			construct := fmt.Sprintf("%s: map key %s", load.FnName(fn), describeVal(key))
			pos := sx.InstrPos(in)
			if mi, ok := key.(*ssa.MakeInterface); ok && !sx.IsInterface(mi.X.Type()) && types.Comparable(mi.X.Type()) {
				c.Ob(construct, pos, true, "the key is boxed from the comparable type "+load.TypeName(mi.X.Type()))
				return
			}
			if why, ok := comparableGuardAt(in.Block(), key); ok {
				c.Ob(construct, pos, true, why)
				return
			}
			c.Fail(construct, pos, "an interface value is used as a map key without a Comparable() guard: hashing panics when its dynamic type is not comparable (a slice- or map-based error type)")
		})
	}
	c.Note("R-CMP-GUARD: %d map operations keyed by an interface value", nk)
}

// pointerSentinel: op is a load of a package-level variable all of whose
// stored values have pointer dynamic types.
func pointerSentinel(p *load.Program, op ssa.Value) (string, bool) {
	ld, ok := identity(op).(*ssa.UnOp)
	if !ok || ld.Op != token.MUL {
		return "", false
	}
	g, ok := ld.X.(*ssa.Global)
	if !ok {
		return "", false
	}
	ts, ok := ConcreteTypes(p, ld)
	if !ok || len(ts) == 0 {
		return "", false
	}
	for _, t := range ts {
		if _, isPtr := types.Unalias(t).Underlying().(*types.Pointer); !isPtr {
			return "", false
		}
	}
	return fmt.Sprintf("operand is the sentinel %s whose dynamic type is always a pointer (%s): never an uncomparable pair", g.Name(), typeList(ts)), true
}

// comparableGuard: bo's block is dominated by the true edge of an If whose
// condition is reflect.TypeOf(X).Comparable() with X one of bo's operands.
func comparableGuard(bo *ssa.BinOp) (string, bool) {
	return comparableGuardAt(bo.Block(), bo.X, bo.Y)
}

// comparableGuardAt: block blk is dominated by the true edge of reflect.TypeOf(X).Comparable() for one of the operands.
func comparableGuardAt(blk *ssa.BasicBlock, ops ...ssa.Value) (string, bool) {
	isCmpOf := func(v ssa.Value) bool {
		call, ok := v.(*ssa.Call)
		if !ok || !call.Call.IsInvoke() || call.Call.Method.Name() != "Comparable" {
			return false
		}
		tcall, ok := call.Call.Value.(*ssa.Call)
		if !ok {
			return false
		}
		if f := sx.Callee(tcall); f == nil || !sx.Is(f, "reflect", "TypeOf") {
			return false
		}
		arg := tcall.Call.Args[0]
		if mi, ok := arg.(*ssa.MakeInterface); ok {
			arg = mi.X
		}
		arg = identity(arg)
		for _, op := range ops {
			if arg == identity(op) {
				return true
			}
		}
		return false
	}
	for b := blk; b != nil; b = b.Idom() {
		d := b.Idom()
		if d == nil {
			break
		}
		if len(b.Preds) != 1 || b.Preds[0] != d || len(d.Instrs) == 0 {
			continue
		}
		ifi, ok := d.Instrs[len(d.Instrs)-1].(*ssa.If)
		if !ok || d.Succs[0] != b {
			continue
		}
		if isCmpOf(ifi.Cond) {
			return "dominated by the true edge of reflect.TypeOf(operand).Comparable()", true
		}
		// the answer may be handed to an unexported helper as a boolean parameter: then every call site must pass
		// reflect.TypeOf(X).Comparable() for the argument X that becomes one of the compared operands
		if bp, isParam := ifi.Cond.(*ssa.Parameter); isParam && !sx.Exported(bp.Parent()) && bp.Parent().Pkg != nil {
			h := bp.Parent()
			bi := paramIndex(h, bp)
			var opIdx []int
			for _, op := range ops {
				if q, isP := identity(op).(*ssa.Parameter); isP && q.Parent() == h {
					opIdx = append(opIdx, paramIndex(h, q))
				}
			}
			sites, all := 0, true
			for _, mem := range h.Pkg.Members {
				f, isFn := mem.(*ssa.Function)
				if !isFn {
					continue
				}
				fns := append([]*ssa.Function{f}, f.AnonFuncs...)
				for _, g := range fns {
					sx.EachInstr(g, func(in ssa.Instruction) {
						call, isCall := in.(*ssa.Call)
						if !isCall || sx.Callee(call) != h || bi < 0 || bi >= len(call.Call.Args) {
							return
						}
						sites++
						cc, isC := call.Call.Args[bi].(*ssa.Call)
						okSite := false
						if isC && cc.Call.IsInvoke() && cc.Call.Method.Name() == "Comparable" {
							if tcall, isT := cc.Call.Value.(*ssa.Call); isT {
								if tf := sx.Callee(tcall); tf != nil && sx.Is(tf, "reflect", "TypeOf") {
									arg := tcall.Call.Args[0]
									if mi, isMI := arg.(*ssa.MakeInterface); isMI {
										arg = mi.X
									}
									for _, oi := range opIdx {
										if oi >= 0 && oi < len(call.Call.Args) && identity(arg) == identity(call.Call.Args[oi]) {
											okSite = true
										}
									}
								}
							}
						}
						if !okSite {
							all = false
						}
					})
				}
			}
			if sites > 0 && all {
				return "dominated by a boolean parameter for which every call site passes reflect.TypeOf(operand).Comparable()", true
			}
		}
	}
	return "", false
}

// ---------------------------------------------------------------------------
// R-RECOVER

var rRecover = &Rule{
	Name: "R-RECOVER",
	Doc:  "every Error() invocation reachable from markers.getMark (the text half of an error's identity mark) happens in a function that defers a recover(): a panicking foreign Error() cannot make Is/IsAny panic",
	Run: func(c *core.Ctx) {
		gm := c.P.Func("markers", "getMark")
		if gm == nil {
			c.InternalErr("markers.getMark", "anchor function not found")
			return
		}
		n := 0
		seen := map[*ssa.Function]bool{}
		var walk func(fn *ssa.Function, protected bool)
		walk = func(fn *ssa.Function, protected bool) {
			if seen[fn] || fn.Blocks == nil {
				return
			}
			seen[fn] = true
			prot := protected || fnRecovers(fn)
			sx.EachInstr(fn, func(in ssa.Instruction) {
				call, ok := in.(ssa.CallInstruction)
				if !ok {
					return
				}
				if sx.InvokeName(call) == "Error" {
					n++
					c.Check(prot, load.FnName(fn)+": invoke Error()", sx.InstrPos(in), "under deferred recover", "Error() of a foreign error invoked outside any deferred recover: a panicking Error() propagates out of Is/IsAny")
					return
				}
				if cal := sx.Callee(call); cal != nil && load.FnPkg(cal) != nil && load.FnPkg(cal).Path() == load.ModPath+"/markers" {
					walk(cal, prot)
				}
			})
		}
		walk(gm, false)
		c.Min("Error() invocations reachable from getMark inside markers", n, 1)
	},
}

func fnRecovers(fn *ssa.Function) bool {
	found := false
	sx.EachInstr(fn, func(in ssa.Instruction) {
		d, ok := in.(*ssa.Defer)
		if !ok {
			return
		}
		if f := sx.FuncOf(d.Call.Value); f != nil {
			sx.EachInstr(f, func(in2 ssa.Instruction) {
				if cl, ok := in2.(*ssa.Call); ok {
					if b, ok := cl.Call.Value.(*ssa.Builtin); ok && b.Name() == "recover" {
						found = true
					}
				}
			})
		}
	})
	return found
}

// ---------------------------------------------------------------------------
// R-NIL-SAFE

var rNilSafe = &Rule{
	Name: "R-NIL-SAFE",
	Doc: "nilness abstract interpretation: with err = nil (and separately reference = nil) no method invocation on, or dereference of, a definitely-nil value is reachable in Is, IsAny, As, If, HasType, HasInterface " +
		"nor in any exported Get*/Has*/Is*/Flatten* accessor taking an error - totality on nil inputs for the whole accessor surface",
	Run: runNilSafe,
}

func runNilSafe(c *core.Ctx) {
	p := c.P
	ev := nilEval(c)
	n := 0
	for _, fn := range publicAPI(p) {
		eps := errorParams(fn)
		if len(eps) == 0 {
			continue
		}
		nm := fn.Name()
		isObserver := nm == "Is" || nm == "IsAny" || nm == "As" || nm == "If" || nm == "HasType" || nm == "HasInterface" ||
			strings.HasPrefix(nm, "Get") || strings.HasPrefix(nm, "Has") || strings.HasPrefix(nm, "Is") || strings.HasPrefix(nm, "Flatten") ||
			nm == "UnwrapOnce" || nm == "UnwrapAll" || nm == "UnwrapMulti" || nm == "Unwrap" || nm == "Cause" || nm == "NotInDomain" || nm == "EnsureNotInDomain"
		if !isObserver {
			continue
		}
		if nm == "GetTypeKey" || nm == "GetTypeMark" || nm == "GetSafeDetails" {
			// per-layer type helpers: they describe the Go type of a non-nil
			// error; a nil argument is outside every listed property.
			continue
		}
		for _, pi := range eps {
			// only the first error parameter and (for Is) the reference are part of the claim
			if pi != eps[0] && nm != "Is" {
				continue
			}
			n++
			args := make([]absint.Nil, len(fn.Params))
			args[pi] = absint.IsNil
			s := ev.Call(fn, args)
			construct := fmt.Sprintf("%s(%s=nil)", load.FnName(fn), fn.Params[pi].Name())
			if len(s.Events) == 0 {
				c.Ob(construct, fn.Pos(), true, "no dereference of a nil value reachable")
				continue
			}
			for _, e := range s.Events {
				c.Fail(construct, fn.Pos(), fmt.Sprintf("nil input reaches a nil dereference: %s in %s", e.What, load.FnName(e.Fn)),
					"at "+p.Pos(sx.InstrPos(e.Instr)), "call path: "+sx.TrimMod(strings.Join(e.Stack, " -> ")))
			}
		}
	}
	c.Min("observer entry points evaluated with a nil error", n, 60)
}
