package rules

import (
	"fmt"
	"go/token"
	"go/types"
	"strings"

	"golang.org/x/tools/go/ssa"

	"verif/checker/internal/core"
	"verif/checker/internal/load"
	"verif/checker/internal/sx"
)

// ---------------------------------------------------------------------------
// R-PROTOCOL

// probe: function → interface literal it must test its node against.
type probe struct {
	rel, fn string
	method  string
	sig     string // "func() error"
}

var protocolProbes = []probe{
	{"errbase", "UnwrapOnce", "Cause", "func() error"},
	{"errbase", "UnwrapOnce", "Unwrap", "func() error"},
	{"errbase", "UnwrapMulti", "Unwrap", "func() []error"},
	{"markers", "tryDelegateToIsMethod", "Is", "func(error) bool"},
	{"errutil", "As", "As", "func(interface{}) bool"},
}

var rProtocol = &Rule{
	Name: "R-PROTOCOL",
	Doc: "the interfaces the library probes on foreign errors are exactly the standard protocols: UnwrapOnce tests Cause() error then Unwrap() error (and nothing that returns a multi-cause), UnwrapMulti tests Unwrap() []error, " +
		"Is delegates to Is(error) bool, As to As(interface{}) bool (single-method anonymous interfaces, exact signatures, comma-ok/type-switch form)",
	Run: func(c *core.Ctx) {
		p := c.P
		for _, pr := range protocolProbes {
			fn := p.Func(pr.rel, pr.fn)
			construct := fmt.Sprintf("%s.%s probes %s %s", pr.rel, pr.fn, pr.method, strings.TrimPrefix(pr.sig, "func"))
			if fn == nil {
				c.Fail(construct, token.NoPos, "anchor function not found: the protocol probe is gone")
				continue
			}
			found := false
			regionOf(fn).each(func(in ssa.Instruction) {
				ta, ok := in.(*ssa.TypeAssert)
				if !ok || !ta.CommaOk {
					return
				}
				it, ok := types.Unalias(ta.AssertedType).Underlying().(*types.Interface)
				if !ok || it.NumMethods() != 1 {
					return
				}
				m := it.Method(0)
				if m.Name() == pr.method && types.TypeString(m.Type(), nil) == pr.sig {
					found = true
				}
			})
			c.Check(found, construct, fn.Pos(), "comma-ok probe of the exact single-method interface present", "the standard protocol method is no longer probed with its exact signature: foreign errors implementing it are not recognised")
		}
		// As: assignability is tested before the node's own As method (stdlib order)
		if fn := p.Func("errutil", "As"); fn != nil {
			var assign, probe ssa.Instruction
			regionOf(fn).each(func(in ssa.Instruction) {
				switch x := in.(type) {
				case *ssa.Call:
					if x.Call.IsInvoke() && x.Call.Method.Name() == "AssignableTo" {
						assign = x
					}
				case *ssa.TypeAssert:
					if it, ok := types.Unalias(x.AssertedType).Underlying().(*types.Interface); ok && it.NumMethods() == 1 && it.Method(0).Name() == "As" {
						probe = x
					}
				}
			})
			ok := assign != nil && probe != nil && assign.Parent() == probe.Parent() && assign.Block() != probe.Block() && assign.Block().Dominates(probe.Block())
			c.Check(ok, "errutil.As: assignability before the As method", fn.Pos(), "reflect AssignableTo test dominates the As-method probe", "As consults a node's own As method before testing whether the node itself is assignable: a different value than the standard errors.As is assigned")
		}
		// UnwrapOnce: Cause is tested before Unwrap (pkg/errors precedence), returns the method's result
		if fn := p.Func("errbase", "UnwrapOnce"); fn != nil {
			var order []string
			for _, b := range fn.DomPreorder() {
				for _, in := range b.Instrs {
					if ta, ok := in.(*ssa.TypeAssert); ok && ta.CommaOk {
						if it, ok := types.Unalias(ta.AssertedType).Underlying().(*types.Interface); ok && it.NumMethods() == 1 {
							order = append(order, it.Method(0).Name())
						}
					}
				}
			}
			c.Check(len(order) == 2 && order[0] == "Cause" && order[1] == "Unwrap", "errbase.UnwrapOnce probe order", fn.Pos(), "Cause() before Unwrap(), nothing else", "UnwrapOnce must probe exactly Cause() then Unwrap() (got "+strings.Join(order, ",")+")")
			// every non-nil return is the result of the probed method on the same value
			okRet := true
			for _, r := range sx.Returns(fn) {
				v := r.Results[0]
				if sx.IsNil(v) {
					continue
				}
				call, ok := v.(*ssa.Call)
				if !ok || !call.Call.IsInvoke() || (call.Call.Method.Name() != "Cause" && call.Call.Method.Name() != "Unwrap") {
					okRet = false
				}
			}
			c.Check(okRet, "errbase.UnwrapOnce returns", fn.Pos(), "returns the probed method's result or nil", "UnwrapOnce returns something other than the probed method's result")
		}
	},
}

// ---------------------------------------------------------------------------
// R-WALK-MULTI

type walker struct {
	rel, recv, fn string
	loopVar       bool // the chain is walked with a loop variable (phi): UnwrapMulti must be applied to it
}

var multiWalkers = []walker{
	{"markers", "", "Is", true},
	{"markers", "", "IsAny", true},
	{"errutil", "", "As", true},
	{"errbase", "state", "formatRecursive", false},
	{"report", "", "visitAllMulti", false},
}

var rWalkMulti = &Rule{
	Name: "R-WALK-MULTI",
	Doc: "each tree walker (markers.Is, markers.IsAny, errutil.As, (*state).formatRecursive, report.visitAllMulti, and EncodeError/encodeLeaf across the wire) ranges forward over errbase.UnwrapMulti(node) - node being the chain loop variable where the chain is walked by a loop - " +
		"and applies itself recursively to each element; census: types with Unwrap() []error have no single-cause accessor",
	Run: runWalkMulti,
}

func runWalkMulti(c *core.Ctx) {
	p := c.P
	um := p.Func("errbase", "UnwrapMulti")
	if um == nil {
		c.InternalErr("errbase.UnwrapMulti", "anchor function not found")
		return
	}
	reaches := func(from, to *ssa.Function) bool {
		seen := map[*ssa.Function]bool{}
		var walk func(f *ssa.Function, d int) bool
		walk = func(f *ssa.Function, d int) bool {
			if f == to {
				return true
			}
			if f == nil || seen[f] || d > 3 || f.Blocks == nil || !p.InModule(f) {
				return false
			}
			seen[f] = true
			found := false
			sx.EachInstr(f, func(in ssa.Instruction) {
				if call, ok := in.(ssa.CallInstruction); ok && !found {
					if walk(sx.Callee(call), d+1) {
						found = true
					}
				}
			})
			return found
		}
		return walk(from, 0)
	}
	// elementRecursion: slice value sl is indexed in a loop and the element is
	// passed to a call that reaches target.
	// noSelf: the walker's own recursion does not count (encodeLeaf calling encodeLeaf skips the dispatch between leaf
	// and wrapper encoding that EncodeError makes for every node)
	noSelf := false
	var elementRecursionD func(fn *ssa.Function, sl ssa.Value, target *ssa.Function, depth int) (bool, bool)
	elementRecursion := func(fn *ssa.Function, sl ssa.Value, target *ssa.Function) (bool, bool) {
		return elementRecursionD(fn, sl, target, 0)
	}
	elementRecursionD = func(fn *ssa.Function, sl ssa.Value, target *ssa.Function, depth int) (bool, bool) {
		found, forward := false, false
		for _, ref := range *sl.Referrers() {
			// the slice handed whole to an unexported helper of the same package: the helper's loop counts
			if hc, isCall := ref.(*ssa.Call); isCall && depth < 2 {
				if h := sx.Callee(hc); h != nil && h != target && h.Blocks != nil && h.Pkg == fn.Pkg && !sx.Exported(h) {
					for ai, a := range hc.Call.Args {
						if a == sl && ai < len(h.Params) {
							if rec, fwd := elementRecursionD(h, h.Params[ai], target, depth+1); rec {
								found, forward = true, forward || fwd
							}
						}
					}
				}
				continue
			}
			ia, ok := ref.(*ssa.IndexAddr)
			if !ok {
				continue
			}
			// forward iteration: index is a phi incremented by +1 from -1/0
			if ph, ok := ia.Index.(*ssa.BinOp); ok && ph.Op == token.ADD {
				if k, ok := sx.ConstInt(ph.Y); ok && k == 1 {
					forward = true
				}
			} else if ph, ok := ia.Index.(*ssa.Phi); ok {
				for _, e := range ph.Edges {
					if bo, ok := e.(*ssa.BinOp); ok && bo.Op == token.ADD {
						if k, ok := sx.ConstInt(bo.Y); ok && k == 1 {
							forward = true
						}
					}
				}
			}
			for _, r2 := range *ia.Referrers() {
				ld, ok := r2.(*ssa.UnOp)
				if !ok {
					continue
				}
				for _, r3 := range *ld.Referrers() {
					call, ok := r3.(ssa.CallInstruction)
					if !ok {
						continue
					}
					callee := sx.Callee(call)
					if callee != nil && (callee == target || (callee == fn && !noSelf) || (callee != fn && reaches(callee, target))) {
						// (callee == fn: a helper of the walker that recurses into itself)
						found = true
					}
				}
			}
		}
		return found, forward
	}
	n := 0
	for _, w := range multiWalkers {
		var fn *ssa.Function
		name := w.rel + "." + w.fn
		if w.recv != "" {
			fn = p.Method(p.Named(w.rel, w.recv), w.fn)
			name = "(*" + w.rel + "." + w.recv + ")." + w.fn
		} else {
			fn = p.Func(w.rel, w.fn)
		}
		if fn == nil {
			c.Fail(name, token.NoPos, "tree walker not found")
			continue
		}
		n++
		ok, why := false, "no range over errbase.UnwrapMulti(node) with a recursive call on the element"
		// the walk may sit in an unexported helper of the walker (which then recurses into the walker or into itself).
		// EVERY place where the walker looks at a node's branches must walk them: a second range that only inspects the
		// branch heads (comparing their marks, say) misses what sits deeper in a branch
		nRanges, nBad := 0, 0
		wreg := regionOf(fn, um)
		wreg.each(func(in ssa.Instruction) {
			call, isCall := in.(*ssa.Call)
			if !isCall || sx.Callee(call) != um {
				return
			}
			nRanges++
			okBefore := ok
			ok = false
			defer func() {
				if !ok {
					nBad++
				}
				ok = ok || okBefore
			}()
			arg := call.Call.Args[0]
			if w.loopVar {
				// (the per-layer body may sit in a helper that receives the loop variable)
				if _, isParam := arg.(*ssa.Parameter); isParam {
					arg = wreg.resolve(arg)
				}
				ph, isPhi := arg.(*ssa.Phi)
				stepped := false
				if isPhi {
					// the induction variable of the chain walk: one of its edges is the UnwrapOnce step
					for _, e := range ph.Edges {
						if sc, ok := e.(*ssa.Call); ok && sx.Callee(sc) != nil && sx.Callee(sc).Name() == "UnwrapOnce" {
							stepped = true
						}
					}
				}
				if !isPhi || !stepped {
					why = "UnwrapMulti is applied to " + describeVal(arg) + ", not to the chain loop variable: multi-cause nodes are not searched at every layer of the chain (a node with both a single cause and branches, or a layer above the end of the chain, is skipped)"
					return
				}
			} else if _, isParam := arg.(*ssa.Parameter); !isParam {
				why = "UnwrapMulti is not applied to the walker's own node parameter"
				return
			}
			rec, fwd := elementRecursion(call.Parent(), call, fn)
			if rec && fwd {
				ok = true
			} else if rec {
				why = "branches are not visited in forward order"
			}
		})
		if nBad > 0 && ok {
			ok = false
			if !strings.Contains(why, "not") || why == "no range over errbase.UnwrapMulti(node) with a recursive call on the element" {
				why = fmt.Sprintf("%d of the %d places where the walker reads a node's branches do not walk them recursively (they look at the branch heads only)", nBad, nRanges)
			}
		}
		c.Check(ok, name, fn.Pos(), "forward range over UnwrapMulti(node), recursive call per element", why)
	}
	// EncodeError → encodeLeaf(…, UnwrapMulti(err)) → range causes → EncodeError
	if ee, el := p.Func("errbase", "EncodeError"), p.Func("errbase", "encodeLeaf"); ee != nil && el != nil {
		n++
		ok := false
		sx.EachInstr(ee, func(in ssa.Instruction) {
			call, isCall := in.(*ssa.Call)
			if !isCall || sx.Callee(call) != el {
				return
			}
			for ai, a := range call.Call.Args {
				if uc, isU := a.(*ssa.Call); isU && sx.Callee(uc) == um && uc.Call.Args[0] == ssa.Value(ee.Params[1]) {
					noSelf = true
					rec, fwd := elementRecursion(el, el.Params[ai], ee)
					noSelf = false
					ok = rec && fwd
				}
			}
		})
		c.Check(ok, "errbase.EncodeError/encodeLeaf", ee.Pos(), "UnwrapMulti(err) handed to encodeLeaf, which encodes each element in forward order with EncodeError", "the encoder no longer encodes every branch of a multi-cause node, in order, through EncodeError (the entry that decides between leaf and wrapper encoding for each node): a branch that is a wrapper travels as a leaf and its own cause chain is dropped")
	}
	// census clause
	for _, et := range GetCensus(c).ErrTypes {
		sh := GetShapes(c)[et.Named]
		if sh.MultiField != nil || et.Methods["Unwrap"] != nil && sh.MultiField == nil && !sh.HasUnwrap && et.Methods["Unwrap"].Signature.Results().Len() == 1 {
			if _, isSlice := types.Unalias(et.Methods["Unwrap"].Signature.Results().At(0).Type()).Underlying().(*types.Slice); isSlice {
				n++
				c.Check(!sh.HasCause && et.Methods["Cause"] == nil, et.Name()+" is a leaf for UnwrapOnce", et.Named.Obj().Pos(), "multi-cause type has no Cause()/Unwrap() error", "multi-cause type also exposes a single cause: Unwrap/UnwrapOnce would not treat it as a leaf")
			}
		}
	}
	c.Min("tree walkers and multi-cause types", n, 8)
}

// ---------------------------------------------------------------------------
// R-FORWARD

// forwardAliases: root function → differently named target, with reason.
var forwardAliases = map[string]string{
	"Cause":                            "UnwrapAll",            // pkg/errors.Cause compatibility: the root cause
	"Unwrap":                           "UnwrapOnce",           // stdlib errors.Unwrap compatibility: one layer
	"Errorf":                           "NewWithDepthf",        // alias of Newf
	"Newf":                             "NewWithDepthf",        //
	"New":                              "NewWithDepth",         //
	"Wrap":                             "WrapWithDepth",        //
	"Wrapf":                            "WrapWithDepthf",       //
	"Opaque":                           "Handled",              // documented alias
	"PackageDomain":                    "PackageDomainAtDepth", //
	"WithStack":                        "WithStackDepth",       //
	"Join":                             "JoinWithDepth",        //
	"AssertionFailedf":                 "AssertionFailedWithDepthf",
	"NewAssertionErrorWithWrappedErrf": "NewAssertionErrorWithWrappedErrDepthf",
	"HandleAsAssertionFailure":         "HandleAsAssertionFailureDepth",
}

var rForward = &Rule{
	Name: "R-FORWARD",
	Doc: "every exported function of the root package whose body is a single call into a sub-package forwards to the function of the same name (or its frozen documented alias: Cause→UnwrapAll, Unwrap→UnwrapOnce, Opaque→Handled, X→XWithDepth…) " +
		"and passes its own parameters in their declared order (int depth parameters may be offset; that arithmetic is R-DEPTH's)",
	Run: func(c *core.Ctx) { runForward(c, nil) },
}

func runForward(c *core.Ctx, keep func(name string) bool) {
	{
		p := c.P
		n := 0
		for _, fn := range publicAPI(p) {
			if load.FnPkg(fn).Path() != load.ModPath {
				continue
			}
			if keep != nil && !keep(fn.Name()) {
				continue
			}
			var calls []*ssa.Call
			other := false
			sx.EachInstr(fn, func(in ssa.Instruction) {
				switch x := in.(type) {
				case *ssa.Call:
					calls = append(calls, x)
				case *ssa.Return, *ssa.BinOp, *ssa.Extract, *ssa.DebugRef:
				default:
					other = true
				}
			})
			if len(calls) != 1 || other || len(fn.Blocks) != 1 {
				continue
			}
			callee := sx.Callee(calls[0])
			if callee == nil || !p.InModule(callee) || callee.Signature.Recv() != nil {
				continue
			}
			n++
			name := "errors." + fn.Name()
			want := fn.Name()
			if a, ok := forwardAliases[fn.Name()]; ok {
				want = a
			}
			if callee.Name() != want && callee.Name() != fn.Name() {
				c.Fail(name, fn.Pos(), fmt.Sprintf("forwards to %s, expected %s", load.FnName(callee), want))
				continue
			}
			// parameters must appear in order among the arguments
			next := 0
			okOrder := true
			for _, a := range calls[0].Call.Args {
				var pv *ssa.Parameter
				switch x := a.(type) {
				case *ssa.Parameter:
					pv = x
				case *ssa.BinOp:
					if px, ok := x.X.(*ssa.Parameter); ok {
						pv = px
					} else if py, ok := x.Y.(*ssa.Parameter); ok {
						pv = py
					}
				}
				if pv == nil {
					continue
				}
				idx := -1
				for i, fp := range fn.Params {
					if fp == pv {
						idx = i
					}
				}
				if idx < next {
					okOrder = false
				}
				next = idx + 1
			}
			used := 0
			for _, fp := range fn.Params {
				if len(*fp.Referrers()) > 0 {
					used++
				}
			}
			c.Check(okOrder && used == len(fn.Params), name, fn.Pos(), "forwards to "+load.FnName(callee)+" with its parameters in order",
				"forwarder does not pass all of its parameters in their declared order to "+load.FnName(callee))
		}
		if keep == nil {
			c.Min("root-package forwarders", n, 90)
		} else {
			c.Min("root-package forwarders in scope", n, 1)
		}
	}
}
