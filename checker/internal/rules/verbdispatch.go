package rules

import (
	"fmt"
	"go/ast"
	"go/constant"
	"go/token"
	"go/types"
	"sort"
	"strings"

	"verif/checker/internal/core"
)

// R-VERB-DISPATCH: the boolean guards of the verb dispatch are pure
// predicates over a finite atom space; they are extracted from the AST and
// evaluated exhaustively (an abstract evaluation of a predicate, not a run).
var rVerbDispatch = &Rule{
	Name: "R-VERB-DISPATCH",
	Doc: "the guards of the verb dispatch in formatErrorInternal (verb x Flag('+') x Flag('#') x redactableOutput = 48 cases) and of the width/precision path choice in finishDisplay (direct x width x precision = 32 cases) are extracted from the AST and evaluated over their whole finite atom space: " +
		"redactable output refuses %q/%x/%X and %#v; %+v takes the detail arm; %v/%s the simple arm; other verbs are refused; and the fmt re-formatting path is taken whenever a precision (including 0) or a positive width is given or the verb is not v/s",
	Run: runVerbDispatch,
}

type boolEnv struct {
	info  *types.Info
	atoms func(e ast.Expr) (string, bool) // recognise an atomic proposition
	subst map[types.Object]ast.Expr       // single-assignment local booleans
	val   map[string]bool
	verb  rune
	unk   []string
}

func (b *boolEnv) eval(e ast.Expr) (bool, bool) {
	e = ast.Unparen(e)
	switch x := e.(type) {
	case *ast.UnaryExpr:
		if x.Op == token.NOT {
			v, ok := b.eval(x.X)
			return !v, ok
		}
	case *ast.BinaryExpr:
		switch x.Op {
		case token.LAND:
			l, ok1 := b.eval(x.X)
			r, ok2 := b.eval(x.Y)
			return l && r, ok1 && ok2
		case token.LOR:
			l, ok1 := b.eval(x.X)
			r, ok2 := b.eval(x.Y)
			return l || r, ok1 && ok2
		case token.EQL, token.NEQ:
			// verb == 'c'
			if id, ok := ast.Unparen(x.X).(*ast.Ident); ok && id.Name == "verb" {
				if tv, ok := b.info.Types[x.Y]; ok && tv.Value != nil && tv.Value.Kind() == constant.Int {
					c, _ := constant.Int64Val(tv.Value)
					eq := rune(c) == b.verb
					if x.Op == token.NEQ {
						eq = !eq
					}
					return eq, true
				}
			}
		}
	case *ast.Ident:
		if obj := b.info.Uses[x]; obj != nil {
			if d, ok := b.subst[obj]; ok {
				return b.eval(d)
			}
		}
	}
	if k, ok := b.atoms(e); ok {
		return b.val[k], true
	}
	b.unk = append(b.unk, types.ExprString(e))
	return false, false
}

func findFunc(c *core.Ctx, rel, name string) (*ast.FuncDecl, *types.Info) {
	pk := c.P.Pkg(rel)
	if pk == nil {
		return nil, nil
	}
	for _, f := range pk.Syntax {
		for _, d := range f.Decls {
			if fd, ok := d.(*ast.FuncDecl); ok && fd.Name.Name == name && fd.Body != nil {
				return fd, pk.TypesInfo
			}
		}
	}
	return nil, nil
}

// classifyArm names a case body of the dispatch by what it calls, directly or
// through unexported functions/methods of the same package that the body
// hands its work to (followed two levels deep).
func classifyArm(c *core.Ctx, info *types.Info, body []ast.Stmt) string {
	return classifyArmD(c, info, body, 0)
}

func classifyArmD(c *core.Ctx, info *types.Info, body []ast.Stmt, depth int) string {
	arm := "refusal"
	upgrade := func(a string) {
		switch a {
		case "detail":
			arm = "detail"
		case "simple":
			if arm != "detail" {
				arm = "simple"
			}
		case "gosyntax":
			arm = "gosyntax"
		}
	}
	for _, s := range body {
		ast.Inspect(s, func(n ast.Node) bool {
			call, ok := n.(*ast.CallExpr)
			if !ok {
				return true
			}
			name := ""
			var id *ast.Ident
			switch f := call.Fun.(type) {
			case *ast.SelectorExpr:
				name, id = f.Sel.Name, f.Sel
			case *ast.Ident:
				name, id = f.Name, f
			}
			switch name {
			case "formatEntries":
				upgrade("detail")
			case "formatSingleLineOutput":
				upgrade("simple")
			case "GoString":
				upgrade("gosyntax")
			case "formatRecursive", "finishDisplay", "":
			default:
				if fn, ok := info.Uses[id].(*types.Func); ok && depth < 2 && !fn.Exported() && fn.Pkg() != nil && fn.Pkg().Path() == errbasePath {
					if hd, hinfo := findFunc(c, "errbase", name); hd != nil {
						upgrade(classifyArmD(c, hinfo, hd.Body.List, depth+1))
					}
				}
			}
			return true
		})
	}
	return arm
}

func runVerbDispatch(c *core.Ctx) {
	// ---- formatErrorInternal
	fd, info := findFunc(c, "errbase", "formatErrorInternal")
	if fd == nil {
		c.InternalErr("errbase.formatErrorInternal", "anchor function not found")
		return
	}
	var sw *ast.SwitchStmt
	ast.Inspect(fd.Body, func(n ast.Node) bool {
		if s, ok := n.(*ast.SwitchStmt); ok && s.Tag == nil && sw == nil {
			sw = s
		}
		return true
	})
	if sw == nil {
		c.Undecided("errbase.formatErrorInternal", fd.Pos(), "verb dispatch is not a tagless switch")
		return
	}
	atoms := func(e ast.Expr) (string, bool) {
		switch x := e.(type) {
		case *ast.Ident:
			if x.Name == "redactableOutput" {
				return "redactable", true
			}
		case *ast.CallExpr:
			if se, ok := x.Fun.(*ast.SelectorExpr); ok && se.Sel.Name == "Flag" && len(x.Args) == 1 {
				if tv, ok := info.Types[x.Args[0]]; ok && tv.Value != nil {
					cv, _ := constant.Int64Val(tv.Value)
					switch rune(cv) {
					case '+':
						return "plus", true
					case '#':
						return "sharp", true
					}
				}
			}
		}
		return "", false
	}
	want := func(verb rune, plus, sharp, red bool) string {
		switch {
		case verb == 'v' && plus && !sharp:
			return "detail"
		case verb == 'v' && sharp:
			if red {
				return "refusal"
			}
			return "gosyntax"
		case verb == 's' || verb == 'v':
			return "simple"
		case verb == 'q' || verb == 'x' || verb == 'X':
			if red {
				return "refusal"
			}
			return "simple"
		}
		return "refusal"
	}
	n, bad := 0, 0
	for _, verb := range []rune{'v', 's', 'q', 'x', 'X', 'd'} {
		for mask := 0; mask < 8; mask++ {
			plus, sharp, red := mask&1 != 0, mask&2 != 0, mask&4 != 0
			env := &boolEnv{info: info, atoms: atoms, val: map[string]bool{"plus": plus, "sharp": sharp, "redactable": red}, verb: verb}
			got := ""
			var defaultBody []ast.Stmt
			undecided := false
			for _, cl := range sw.Body.List {
				cc := cl.(*ast.CaseClause)
				if cc.List == nil {
					defaultBody = cc.Body
					continue
				}
				taken := false
				for _, e := range cc.List {
					v, ok := env.eval(e)
					if !ok {
						undecided = true
					}
					taken = taken || v
				}
				if taken && got == "" {
					got = classifyArm(c, info, cc.Body)
				}
			}
			if undecided {
				c.Undecided("errbase.formatErrorInternal: verb dispatch", sw.Pos(), "a case guard contains a proposition outside verb/Flag('+')/Flag('#')/redactableOutput: "+strings.Join(env.unk, ", "))
				return
			}
			if got == "" {
				got = classifyArm(c, info, defaultBody)
			}
			n++
			w := want(verb, plus, sharp, red)
			if got != w {
				bad++
				c.Fail(fmt.Sprintf("errbase.formatErrorInternal: %%%s%s%c redactable=%v", map[bool]string{true: "+", false: ""}[plus], map[bool]string{true: "#", false: ""}[sharp], verb, red),
					sw.Pos(), fmt.Sprintf("dispatch takes the %s arm, required %s", got, w))
			}
		}
	}
	if bad == 0 {
		c.Ob("errbase.formatErrorInternal: verb dispatch", sw.Pos(), true, fmt.Sprintf("all %d (verb, +, #, redactable) cases take the required arm", n))
	}
	c.Min("dispatch cases evaluated", n, 48)

	// ---- finishDisplay: when is the fmt re-formatting path taken?
	fd2, info2 := findFunc(c, "errbase", "finishDisplay")
	if fd2 == nil {
		c.InternalErr("errbase.(*state).finishDisplay", "anchor method not found")
		return
	}
	// single-assignment locals and the meaning of the results of Width()/Precision()
	subst := map[types.Object]ast.Expr{}
	atomOf := map[types.Object]string{}
	ast.Inspect(fd2.Body, func(nn ast.Node) bool {
		as, ok := nn.(*ast.AssignStmt)
		if !ok || as.Tok != token.DEFINE {
			return true
		}
		if len(as.Lhs) == 2 && len(as.Rhs) == 1 {
			if call, ok := as.Rhs[0].(*ast.CallExpr); ok {
				if se, ok := call.Fun.(*ast.SelectorExpr); ok {
					pre := map[string]string{"Width": "w", "Precision": "p"}[se.Sel.Name]
					if pre != "" {
						if id, ok := as.Lhs[0].(*ast.Ident); ok && id.Name != "_" {
							atomOf[info2.Defs[id]] = pre + "val"
						}
						if id, ok := as.Lhs[1].(*ast.Ident); ok && id.Name != "_" {
							atomOf[info2.Defs[id]] = pre + "ok"
						}
					}
				}
			}
			return true
		}
		if len(as.Lhs) == 1 && len(as.Rhs) == 1 {
			if id, ok := as.Lhs[0].(*ast.Ident); ok {
				if isBool(info2, as.Rhs[0]) {
					subst[info2.Defs[id]] = as.Rhs[0]
				}
			}
		}
		return true
	})
	atoms2 := func(e ast.Expr) (string, bool) {
		switch x := ast.Unparen(e).(type) {
		case *ast.Ident:
			if a, ok := atomOf[info2.Uses[x]]; ok && strings.HasSuffix(a, "ok") {
				return a, true
			}
		case *ast.BinaryExpr:
			// width > 0 / prec > 0
			if id, ok := ast.Unparen(x.X).(*ast.Ident); ok && x.Op == token.GTR {
				if a, ok := atomOf[info2.Uses[id]]; ok && strings.HasSuffix(a, "val") {
					if z, ok := intConst(info2, x.Y); ok && z == 0 {
						return a[:1] + "pos", true
					}
				}
			}
		}
		return "", false
	}
	// the if statement that chooses between io.Copy (fast path) and Fprintf
	// (formatted): either if/else, or an if whose body returns followed by the
	// other path in the rest of the function
	callsNamed := func(nodes []ast.Stmt, name string) bool {
		found := false
		for _, st := range nodes {
			ast.Inspect(st, func(nn ast.Node) bool {
				if call, ok := nn.(*ast.CallExpr); ok {
					if se, ok := call.Fun.(*ast.SelectorExpr); ok && se.Sel.Name == name {
						found = true
					}
				}
				return true
			})
		}
		return found
	}
	var ifs *ast.IfStmt
	thenFormatted := false
	for i, st := range fd2.Body.List {
		s, ok := st.(*ast.IfStmt)
		if !ok || s.Init != nil {
			continue
		}
		var other []ast.Stmt
		if s.Else != nil {
			other = []ast.Stmt{s.Else}
		} else if n := len(s.Body.List); n > 0 {
			if _, isRet := s.Body.List[n-1].(*ast.ReturnStmt); isRet {
				other = fd2.Body.List[i+1:]
			}
		}
		if other == nil {
			continue
		}
		tf, tc := callsNamed(s.Body.List, "Fprintf"), callsNamed(s.Body.List, "Copy")
		of, oc := callsNamed(other, "Fprintf"), callsNamed(other, "Copy")
		if tf && !tc && oc && !of {
			ifs, thenFormatted = s, true
		} else if tc && !tf && of && !oc {
			ifs, thenFormatted = s, false
		}
	}
	if ifs == nil {
		c.Undecided("errbase.(*state).finishDisplay", fd2.Pos(), "the width/precision path choice is not a two-way choice between io.Copy and Fprintf")
		return
	}
	n2, bad2 := 0, 0
	for _, verb := range []rune{'v', 'q'} {
		for mask := 0; mask < 16; mask++ {
			wok, wpos, pok, ppos := mask&1 != 0, mask&2 != 0, mask&4 != 0, mask&8 != 0
			if (!wok && wpos) || (!pok && ppos) {
				continue
			}
			env := &boolEnv{info: info2, atoms: atoms2, subst: subst, val: map[string]bool{"wok": wok, "wpos": wpos, "pok": pok, "ppos": ppos}, verb: verb}
			v, ok := env.eval(ifs.Cond)
			if !ok {
				sort.Strings(env.unk)
				c.Undecided("errbase.(*state).finishDisplay", ifs.Pos(), "path-choice condition contains a proposition outside verb/Width()/Precision(): "+strings.Join(env.unk, ", "))
				return
			}
			formatted := v == thenFormatted
			direct := verb == 'v' || verb == 's'
			wantFormatted := !direct || pok || (wok && wpos)
			n2++
			if formatted != wantFormatted {
				bad2++
				c.Fail(fmt.Sprintf("errbase.(*state).finishDisplay: verb=%c width{set:%v >0:%v} precision{set:%v >0:%v}", verb, wok, wpos, pok, ppos), ifs.Pos(),
					fmt.Sprintf("fmt re-formatting path taken=%v, required=%v (a given precision, even 0, and a positive width must be honoured like fmt does for the Error() string)", formatted, wantFormatted))
			}
		}
	}
	if bad2 == 0 {
		c.Ob("errbase.(*state).finishDisplay: width/precision path choice", ifs.Pos(), true, fmt.Sprintf("all %d (verb class, width, precision) cases choose the required path", n2))
	}
	c.Min("finishDisplay cases evaluated", n2, 18)
}
