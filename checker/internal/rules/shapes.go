package rules

import (
	"fmt"
	"go/token"
	"go/types"
	"strings"

	"golang.org/x/tools/go/ssa"

	"verif/checker/internal/core"
	"verif/checker/internal/load"
	"verif/checker/internal/sx"
)

// Shape vocabulary (DESIGN §4.4).
const (
	ShTransparent   = "Transparent"   // Error() = cause.Error()
	ShPrefixCause   = "PrefixCause"   // field + sep + cause, cause alone when field empty
	ShOwn           = "Own"           // own text from a field, cause ignored
	ShViaFormat     = "ViaFormat"     // Error() delegates to the formatter
	ShConst         = "Const"         // constant text
	ShByMessageType = "ByMessageType" // opaque wrapper: Own or PrefixCause by the wire flag
	ShUnknown       = "Unknown"
)

// TypeShape collects what the three sibling sites say about one error type.
type TypeShape struct {
	ET *ErrType

	CauseField       *types.Var // field returned by Cause()/Unwrap() error
	CauseWhy         string     // non-empty when Cause/Unwrap disagree or are unrecognised
	MultiField       *types.Var // field returned by Unwrap() []error
	HasCause         bool
	HasUnwrap        bool
	ErrShape         string
	ErrField         *types.Var // text field for PrefixCause/Own/ByMessageType
	ErrSep           string
	ErrWhy           string
	Formatter        *ssa.Function // SafeFormatError or FormatError
	FmtSafe          bool          // it is SafeFormatError
	HeadFields       []*types.Var  // fields printed outside the Detail() region
	HeadOther        []string      // other things printed outside the region
	HeadUncond       bool          // some head print is unconditional
	DetailPrints     int           // Print*/Printf calls inside the Detail() region
	DetailFields     map[*types.Var]bool
	DetailDirect     map[*types.Var]bool // fields handed to a detail Print/Printf as values (not as text rendered beforehand)
	DetailCauseGuard string              // non-empty: a detail print is guarded by a condition computed from the cause
	RetNil           bool                // formatter has a return nil
	RetCause         bool                // formatter has a return of the cause field
	RetOther         bool
	RetInDetail      bool                // some return of the formatter sits inside the p.Detail() region
	MsgTypeWhy       string              // ByMessageType: problem with the guards on the message type
	Inherited        *types.Named        // methods promoted from this embedded error type
	ErrFields        map[*types.Var]bool // receiver fields read by Error()
}

// GetShapes computes (once) the shapes of every census error type.
func GetShapes(c *core.Ctx) map[*types.Named]*TypeShape {
	if v, ok := c.Cache["shapes"]; ok {
		return v.(map[*types.Named]*TypeShape)
	}
	out := map[*types.Named]*TypeShape{}
	cs := GetCensus(c)
	for _, et := range cs.ErrTypes {
		out[et.Named] = computeShape(c.P, et)
	}
	// methods promoted from an embedded census error type: inherit its shape
	for _, et := range cs.ErrTypes {
		sh := out[et.Named]
		if et.Struct == nil || (sh.ErrShape != ShUnknown && sh.Formatter != nil) {
			continue
		}
		for i := 0; i < et.Struct.NumFields(); i++ {
			f := et.Struct.Field(i)
			if !f.Embedded() {
				continue
			}
			if en := sx.NamedOf(f.Type()); en != nil {
				if esh, ok := out[en]; ok {
					if sh.ErrShape == ShUnknown && esh.ErrShape != ShUnknown {
						sh.ErrShape, sh.ErrField, sh.ErrSep, sh.ErrWhy = esh.ErrShape, esh.ErrField, esh.ErrSep, ""
						sh.Inherited = en
					}
					if sh.Formatter == nil && esh.Formatter != nil {
						sh.Formatter, sh.FmtSafe, sh.HeadFields, sh.HeadOther, sh.HeadUncond = esh.Formatter, esh.FmtSafe, esh.HeadFields, esh.HeadOther, esh.HeadUncond
						sh.DetailPrints, sh.DetailFields, sh.DetailDirect, sh.DetailCauseGuard, sh.RetNil, sh.RetCause, sh.RetOther = esh.DetailPrints, esh.DetailFields, esh.DetailDirect, esh.DetailCauseGuard, esh.RetNil, esh.RetCause, esh.RetOther
						sh.Inherited = en
					}
				}
			}
		}
	}
	c.Cache["shapes"] = out
	return out
}

// recvFieldPath: if v is a load of (a field of ... of) the receiver, return
// the field path from the receiver.
func recvFieldPath(fn *ssa.Function, v ssa.Value) []*types.Var {
	if len(fn.Params) == 0 {
		return nil
	}
	recv := fn.Params[0]
	var addr ssa.Value
	switch x := v.(type) {
	case *ssa.UnOp:
		if x.Op != token.MUL {
			return nil
		}
		addr = x.X
	case *ssa.FieldAddr:
		addr = x
	default:
		return nil
	}
	var path []*types.Var
	for {
		fa, ok := addr.(*ssa.FieldAddr)
		if !ok {
			break
		}
		path = append([]*types.Var{sx.FieldOf(fa)}, path...)
		addr = fa.X
	}
	if sx.Unspill(addr) != ssa.Value(recv) {
		// embedded pointer: load of a receiver field that is itself a pointer
		if ld, ok := addr.(*ssa.UnOp); ok && ld.Op == token.MUL {
			if pre := recvFieldPath(fn, ld); pre != nil {
				return append(pre, path...)
			}
		}
		return nil
	}
	if len(path) == 0 {
		return nil
	}
	return path
}

// declaredOrPromoted returns the method's real body function (unwrapping a
// promotion wrapper is not attempted: promoted methods have no receiver
// field access of T itself).
func methodFn(et *ErrType, name string) *ssa.Function {
	fn := et.Methods[name]
	if fn == nil || fn.Blocks == nil {
		return nil
	}
	if fn.Synthetic != "" {
		return nil // promoted through embedding: not this type's own statement
	}
	return fn
}

func singleReturnField(fn *ssa.Function) (*types.Var, bool) {
	rets := sx.Returns(fn)
	if len(rets) != 1 || len(rets[0].Results) != 1 {
		return nil, false
	}
	p := recvFieldPath(fn, rets[0].Results[0])
	if len(p) != 1 {
		return nil, false
	}
	return p[0], true
}

func computeShape(p *load.Program, et *ErrType) *TypeShape {
	sh := &TypeShape{ET: et, ErrShape: ShUnknown, DetailFields: map[*types.Var]bool{}, DetailDirect: map[*types.Var]bool{}}
	// Cause / Unwrap
	var cf, uf *types.Var
	if fn := methodFn(et, "Cause"); fn != nil && fn.Signature.Results().Len() == 1 && sx.IsErrorType(fn.Signature.Results().At(0).Type()) {
		sh.HasCause = true
		f, ok := singleReturnField(fn)
		if !ok {
			sh.CauseWhy = "Cause() is not a plain return of a receiver field"
		}
		cf = f
	}
	if fn := methodFn(et, "Unwrap"); fn != nil && fn.Signature.Results().Len() == 1 {
		rt := fn.Signature.Results().At(0).Type()
		if sx.IsErrorType(rt) {
			sh.HasUnwrap = true
			f, ok := singleReturnField(fn)
			if !ok {
				sh.CauseWhy = "Unwrap() is not a plain return of a receiver field"
			}
			uf = f
		} else if sl, ok := types.Unalias(rt).Underlying().(*types.Slice); ok && sx.IsErrorType(sl.Elem()) {
			if f, ok := singleReturnField(fn); ok {
				sh.MultiField = f
			}
		}
	}
	// the library's own UnwrapOnce prefers Cause(): that field is "the cause";
	// a disagreeing Unwrap() is recorded for R-WRAP-DUAL only
	switch {
	case sh.HasCause && sh.HasUnwrap:
		sh.CauseField = cf
		if cf == nil {
			sh.CauseField = uf
		}
		if (cf == nil || cf != uf) && sh.CauseWhy == "" {
			sh.CauseWhy = "Cause() and Unwrap() do not return the same field"
		}
	case sh.HasCause:
		sh.CauseField = cf
	case sh.HasUnwrap:
		sh.CauseField = uf
	}
	classifyError(p, et, sh)
	classifyFormatter(p, et, sh)
	return sh
}

func isStripMarkers(fn *ssa.Function) bool {
	return fn != nil && fn.Name() == "StripMarkers" && fn.Pkg != nil && strings.HasPrefix(fn.Pkg.Pkg.Path(), redactPath)
}

// textField: v is load(recv.f) or load(recv.f).StripMarkers().
func textField(fn *ssa.Function, v ssa.Value) *types.Var {
	if call, ok := v.(*ssa.Call); ok {
		if isStripMarkers(sx.Callee(call)) && len(call.Call.Args) == 1 {
			v = call.Call.Args[0]
		}
	}
	if pth := recvFieldPath(fn, v); len(pth) == 1 {
		return pth[0]
	}
	return nil
}

func classifyError(p *load.Program, et *ErrType, sh *TypeShape) {
	fn := methodFn(et, "Error")
	if fn == nil {
		sh.ErrWhy = "no Error() method declared on the type itself"
		return
	}
	rets := sx.Returns(fn)
	// which receiver fields are loaded at all
	fields := map[*types.Var]bool{}
	sx.EachInstr(fn, func(in ssa.Instruction) {
		if v, ok := in.(ssa.Value); ok {
			if pth := recvFieldPath(fn, v); len(pth) >= 1 {
				if _, isLoad := v.(*ssa.UnOp); isLoad {
					fields[pth[0]] = true
				}
			}
		}
	})
	isCauseErr := func(v ssa.Value) bool {
		call, ok := v.(*ssa.Call)
		if !ok || !call.Call.IsInvoke() || call.Call.Method.Name() != "Error" {
			return false
		}
		pth := recvFieldPath(fn, call.Call.Value)
		return len(pth) == 1 && sh.CauseField != nil && pth[0] == sh.CauseField
	}
	sh.ErrFields = fields
	// Const
	if len(rets) == 1 {
		if _, ok := sx.ConstString(rets[0].Results[0]); ok && len(fields) == 0 {
			sh.ErrShape = ShConst
			return
		}
	}
	// Transparent: single return of cause.Error(), no other field
	if len(rets) == 1 && isCauseErr(rets[0].Results[0]) && len(fields) == 1 {
		sh.ErrShape = ShTransparent
		return
	}
	// errorFormatter-like: returns field.Error() where field is the only field
	// ViaFormat: redact.Sprint(recv).StripMarkers()
	if len(rets) == 1 {
		if call, ok := rets[0].Results[0].(*ssa.Call); ok && isStripMarkers(sx.Callee(call)) {
			if inner, ok := call.Call.Args[0].(*ssa.Call); ok {
				if f := sx.Callee(inner); f != nil && f.Name() == "Sprint" && f.Pkg != nil && f.Pkg.Pkg.Path() == redactPath {
					sh.ErrShape = ShViaFormat
					return
				}
			}
		}
	}
	// Own(f): every return is a text field (same one), cause not loaded
	if sh.CauseField == nil || !fields[sh.CauseField] {
		var f *types.Var
		ok := len(rets) > 0
		for _, r := range rets {
			tf := textField(fn, r.Results[0])
			if tf == nil || (f != nil && tf != f) {
				ok = false
			}
			f = tf
		}
		if ok && len(fields) == 1 {
			sh.ErrShape, sh.ErrField = ShOwn, f
			return
		}
	}
	// PrefixCause / ByMessageType
	if sh.CauseField != nil && fields[sh.CauseField] {
		var textF *types.Var
		var sep string
		nCause, nSprintf, nOwn, other := 0, 0, 0, 0
		for _, r := range rets {
			v := r.Results[0]
			switch {
			case isCauseErr(v):
				nCause++
			case textField(fn, v) != nil:
				nOwn++
				tf := textField(fn, v)
				if textF != nil && tf != textF {
					other++
				}
				textF = tf
			default:
				call, ok := v.(*ssa.Call)
				if ok {
					if f := sx.Callee(call); f != nil && sx.Is(f, "fmt", "Sprintf") {
						if format, ok := sx.ConstString(call.Call.Args[0]); ok {
							if s, ok := prefixFormatSep(format); ok {
								// the two operands: text field and cause
								ops := varargs(call.Call.Args[1])
								if len(ops) == 2 {
									tf := textField(fn, ops[0])
									cp := recvFieldPath(fn, stripIface(ops[1]))
									if tf != nil && len(cp) == 1 && cp[0] == sh.CauseField && (textF == nil || textF == tf) {
										textF, sep = tf, s
										nSprintf++
										continue
									}
								}
							}
						}
					}
				}
				other++
			}
		}
		if other == 0 && nSprintf == 1 && nCause == 1 && textF != nil {
			if nOwn == 0 && len(fields) == 2 {
				sh.ErrShape, sh.ErrField, sh.ErrSep = ShPrefixCause, textF, sep
				return
			}
			if nOwn == 1 && len(fields) == 3 {
				sh.ErrShape, sh.ErrField, sh.ErrSep = ShByMessageType, textF, sep
				// the cause-only and prefix+cause returns are taken only when the message
				// type is NOT FullMessage: a comparison of the message-type field must dominate them
				for _, r := range rets {
					v := r.Results[0]
					if textField(fn, v) != nil {
						continue // the own-text return
					}
					guarded := false
					for _, l := range dominatingLits(r.Block()) {
						if bo, ok := l.V.(*ssa.BinOp); ok && bo.Op == token.EQL && l.Neg {
							if pth := recvFieldPath(fn, bo.X); len(pth) == 1 && pth[0] != textF && pth[0] != sh.CauseField {
								guarded = true
							}
						}
					}
					if !guarded {
						sh.MsgTypeWhy = "a return that uses the cause's text is reachable without first excluding the full-message type: a full message that happens to be empty (or any full message) is rendered with its cause appended/substituted"
					}
				}
				return
			}
		}
	}
	sh.ErrWhy = "Error() is outside the recognised idioms (transparent, prefix: cause, own text, via formatter, constant)"
}

func stripIface(v ssa.Value) ssa.Value {
	for {
		switch x := v.(type) {
		case *ssa.MakeInterface:
			v = x.X
		case *ssa.ChangeInterface:
			v = x.X
		default:
			return v
		}
	}
}

// prefixFormatSep: "%s: %v" -> ": ".
func prefixFormatSep(format string) (string, bool) {
	if !strings.HasPrefix(format, "%") || len(format) < 5 {
		return "", false
	}
	rest := format[2:]
	i := strings.LastIndex(rest, "%")
	if i < 0 || i != len(rest)-2 {
		return "", false
	}
	return rest[:i], true
}

// varargs returns the elements stored into a variadic argument slice.
func varargs(v ssa.Value) []ssa.Value {
	sl, ok := v.(*ssa.Slice)
	if !ok {
		return nil
	}
	al, ok := sl.X.(*ssa.Alloc)
	if !ok {
		return nil
	}
	arr, ok := sx.Deref(al.Type()).Underlying().(*types.Array)
	if !ok {
		return nil
	}
	out := make([]ssa.Value, arr.Len())
	for _, ref := range *al.Referrers() {
		ia, ok := ref.(*ssa.IndexAddr)
		if !ok {
			continue
		}
		idx, ok := sx.ConstInt(ia.Index)
		if !ok || idx < 0 || idx >= arr.Len() {
			continue
		}
		for _, r2 := range *ia.Referrers() {
			if st, ok := r2.(*ssa.Store); ok && st.Addr == ia {
				out[idx] = stripIface(st.Val)
			}
		}
	}
	return out
}

// printerParam returns the Printer parameter of a formatter method.
func printerParam(fn *ssa.Function) *ssa.Parameter {
	for _, p := range fn.Params {
		if sx.IsNamed(p.Type(), errbasePath, "Printer") {
			return p
		}
	}
	return nil
}

// detailRegion computes the blocks dominated by the true edge of an If on
// p.Detail().
func detailRegion(fn *ssa.Function, pp *ssa.Parameter) map[*ssa.BasicBlock]bool {
	in := map[*ssa.BasicBlock]bool{}
	for _, b := range fn.Blocks {
		if len(b.Instrs) == 0 {
			continue
		}
		ifi, ok := b.Instrs[len(b.Instrs)-1].(*ssa.If)
		if !ok {
			continue
		}
		call, ok := ifi.Cond.(*ssa.Call)
		if !ok || !call.Call.IsInvoke() || call.Call.Method.Name() != "Detail" || sx.Unspill(call.Call.Value) != ssa.Value(pp) {
			continue
		}
		t := b.Succs[0]
		if len(t.Preds) != 1 {
			continue
		}
		for _, x := range fn.Blocks {
			if t.Dominates(x) {
				in[x] = true
			}
		}
	}
	return in
}

func classifyFormatter(p *load.Program, et *ErrType, sh *TypeShape) {
	fn := methodFn(et, "SafeFormatError")
	sh.FmtSafe = fn != nil
	if fn == nil {
		fn = methodFn(et, "FormatError")
	}
	if fn == nil {
		return
	}
	sh.Formatter = fn
	pp := printerParam(fn)
	if pp == nil {
		return
	}
	region := detailRegion(fn, pp)
	retIn, retOut := map[string]bool{}, map[string]bool{}
	// closures called with the printer captured (withContext) are treated as part of the region they are created in
	var scan func(f *ssa.Function, isPrinter func(ssa.Value) bool, inDetail func(*ssa.BasicBlock) bool)
	scan = func(f *ssa.Function, isPrinter func(ssa.Value) bool, inDetail func(*ssa.BasicBlock) bool) {
		sx.EachInstr(f, func(in ssa.Instruction) {
			switch x := in.(type) {
			case *ssa.Call:
				if x.Call.IsInvoke() && isPrinter(x.Call.Value) && (x.Call.Method.Name() == "Print" || x.Call.Method.Name() == "Printf") {
					args := x.Call.Args
					var vals []ssa.Value
					if x.Call.Method.Name() == "Printf" {
						vals = append(vals, args[0])
						vals = append(vals, varargs(args[1])...)
					} else {
						vals = varargs(args[0])
					}
					if inDetail(x.Block()) {
						sh.DetailPrints++
						if f == fn && sh.CauseField != nil {
							for _, l := range dominatingLits(x.Block()) {
								if dependsOnRecvField(fn, l.V, sh.CauseField, map[ssa.Value]bool{}, 0) {
									sh.DetailCauseGuard = "the print at " + p.Pos(x.Pos()) + " is guarded by " + describeVal(l.V)
								}
							}
						}
						for _, v := range vals {
							markFields(fn, f, v, sh.DetailFields, 0)
							if v != nil && f == fn {
								if pth := recvFieldPath(fn, stripIface(v)); len(pth) == 1 {
									sh.DetailDirect[pth[0]] = true
								}
							}
						}
						return
					}
					// head print
					entry := f.Blocks[0]
					if x.Block() == entry || postDominatesEntry(f, x.Block()) {
						sh.HeadUncond = true
					}
					for _, v := range vals {
						if v == nil {
							continue
						}
						v = unwrapSafe(v)
						if pth := recvFieldPath(f, v); len(pth) >= 1 && f == fn {
							sh.HeadFields = append(sh.HeadFields, pth[0])
						} else if s, ok := sx.ConstString(v); ok {
							sh.HeadOther = append(sh.HeadOther, fmt.Sprintf("%q", s))
						} else {
							sh.HeadOther = append(sh.HeadOther, describeVal(v))
						}
					}
					return
				}
				// calls that receive a closure capturing the printer
				for _, a := range x.Call.Args {
					if mc, ok := a.(*ssa.MakeClosure); ok {
						cf := mc.Fn.(*ssa.Function)
						for i, b := range mc.Bindings {
							bound := false
							if isPrinter(b) {
								bound = true
							} else if al, ok := b.(*ssa.Alloc); ok {
								for _, r := range *al.Referrers() {
									if st, ok := r.(*ssa.Store); ok && st.Addr == al && isPrinter(st.Val) {
										bound = true
									}
								}
							}
							if bound {
								det := inDetail(x.Block())
								fv := cf.FreeVars[i]
								scan(cf, func(v ssa.Value) bool {
									if v == ssa.Value(fv) {
										return true
									}
									ld, ok := v.(*ssa.UnOp)
									return ok && ld.Op == token.MUL && ld.X == ssa.Value(fv)
								}, func(*ssa.BasicBlock) bool { return det })
							}
						}
					}
				}
				// a module helper that receives the printer: its prints inside its own p.Detail() region (or all of
				// them, when the call itself is inside the region) are detail prints of this layer, fed by the arguments
				if h := sx.Callee(x); h != nil && h != f && h.Blocks != nil && p.InModule(h) && !x.Call.IsInvoke() {
					pi := -1
					for i, a := range x.Call.Args {
						if isPrinter(a) {
							pi = i
						}
					}
					if pi >= 0 && pi < len(h.Params) {
						hp := h.Params[pi]
						hreg := detailRegion(h, hp)
						det := inDetail(x.Block())
						nDet := 0
						sx.EachInstr(h, func(hin ssa.Instruction) {
							hc, ok := hin.(*ssa.Call)
							if !ok || !hc.Call.IsInvoke() || sx.Unspill(hc.Call.Value) != ssa.Value(hp) {
								return
							}
							if m := hc.Call.Method.Name(); m != "Print" && m != "Printf" {
								return
							}
							if det || hreg[hc.Block()] {
								nDet++
								// a helper METHOD of the same receiver prints the receiver's fields itself
								if h.Signature.Recv() != nil && len(x.Call.Args) > 0 && len(fn.Params) > 0 && identity(x.Call.Args[0]) == ssa.Value(fn.Params[0]) {
									for _, a2 := range hc.Call.Args {
										markFields(h, h, a2, sh.DetailFields, 0)
									}
								}
							} else {
								sh.HeadOther = append(sh.HeadOther, "printed by "+load.FnName(h))
							}
						})
						if nDet > 0 {
							sh.DetailPrints += nDet
							for _, a := range x.Call.Args {
								markFields(fn, f, a, sh.DetailFields, 0)
							}
						}
					}
				}
				if inDetail(x.Block()) {
					for _, a := range x.Call.Args {
						markFields(fn, f, a, sh.DetailFields, 0)
					}
				}
			case *ssa.Return:
				if f != fn {
					return
				}
				v := seeThroughReturn(x.Results[0])
				// class of the returned value, recorded separately for returns inside and outside the p.Detail()
				// region: the two renderings take different decisions only when the classes differ
				// (`if !p.Detail() { return e.cause }; ...; return e.cause` is the same decision twice)
				cls := "other"
				if sx.IsNil(v) {
					cls = "nil"
				} else if pth := recvFieldPath(fn, v); len(pth) == 1 && sh.CauseField != nil && pth[0] == sh.CauseField {
					cls = "cause"
				} else if _, isPhi := v.(*ssa.Phi); isPhi {
					cls = "phi@" + p.Pos(x.Pos())
				}
				if inDetail(x.Block()) {
					retIn[cls] = true
				} else {
					retOut[cls] = true
				}
				switch {
				case sx.IsNil(v):
					sh.RetNil = true
				default:
					pth := recvFieldPath(fn, v)
					if len(pth) == 1 && sh.CauseField != nil && pth[0] == sh.CauseField {
						sh.RetCause = true
					} else if ph, ok := v.(*ssa.Phi); ok {
						for _, e := range ph.Edges {
							if sx.IsNil(e) {
								sh.RetNil = true
							} else if pt := recvFieldPath(fn, e); len(pt) == 1 && sh.CauseField != nil && pt[0] == sh.CauseField {
								sh.RetCause = true
							} else {
								sh.RetOther = true
							}
						}
					} else {
						sh.RetOther = true
					}
				}
			}
		})
	}
	scan(fn, func(v ssa.Value) bool { return sx.Unspill(v) == ssa.Value(pp) }, func(b *ssa.BasicBlock) bool { return region[b] })
	if len(retIn) > 0 {
		same := len(retIn) == len(retOut)
		for k := range retIn {
			if !retOut[k] {
				same = false
			}
		}
		sh.RetInDetail = !same
	}
}

func isAllocOf(b ssa.Value, v ssa.Value) bool {
	al, ok := b.(*ssa.Alloc)
	if !ok {
		return false
	}
	for _, r := range *al.Referrers() {
		if st, ok := r.(*ssa.Store); ok && st.Addr == al && st.Val == v {
			return true
		}
	}
	return false
}

// postDominatesEntry: every path from entry to a return passes through b
// (cheap approximation: b dominates every return block).
func postDominatesEntry(f *ssa.Function, b *ssa.BasicBlock) bool {
	for _, r := range sx.Returns(f) {
		if !b.Dominates(r.Block()) {
			return false
		}
	}
	return true
}

// markFields records receiver fields that v is computed from (through
// conversions, calls and boxing), for the R-DETAIL-PRINT rule.
func markFields(root, f *ssa.Function, v ssa.Value, out map[*types.Var]bool, depth int) {
	if v == nil || depth > 6 {
		return
	}
	if pth := recvFieldPath(f, v); len(pth) >= 1 && f == root {
		out[pth[0]] = true
		return
	}
	switch x := v.(type) {
	case *ssa.MakeInterface:
		markFields(root, f, x.X, out, depth+1)
	case *ssa.ChangeInterface:
		markFields(root, f, x.X, out, depth+1)
	case *ssa.ChangeType:
		markFields(root, f, x.X, out, depth+1)
	case *ssa.Convert:
		markFields(root, f, x.X, out, depth+1)
	case *ssa.Call:
		for _, a := range x.Call.Args {
			markFields(root, f, a, out, depth+1)
		}
		if x.Call.IsInvoke() {
			markFields(root, f, x.Call.Value, out, depth+1)
		}
	case *ssa.Slice:
		for _, e := range varargs(x) {
			markFields(root, f, e, out, depth+1)
		}
		markFields(root, f, x.X, out, depth+1)
	case *ssa.UnOp:
		markFields(root, f, x.X, out, depth+1)
	case *ssa.IndexAddr:
		markFields(root, f, x.X, out, depth+1)
	case *ssa.Index:
		markFields(root, f, x.X, out, depth+1)
	case *ssa.Field:
		markFields(root, f, x.X, out, depth+1)
	case *ssa.FieldAddr:
		markFields(root, f, x.X, out, depth+1)
	case *ssa.Phi:
		for _, e := range x.Edges {
			markFields(root, f, e, out, depth+1)
		}
	case *ssa.BinOp:
		markFields(root, f, x.X, out, depth+1)
		markFields(root, f, x.Y, out, depth+1)
	case *ssa.Extract:
		markFields(root, f, x.Tuple, out, depth+1)
	case *ssa.Next:
		markFields(root, f, x.Iter, out, depth+1)
	case *ssa.Range:
		markFields(root, f, x.X, out, depth+1)
	}
}

func (sh *TypeShape) String() string {
	f := ""
	if sh.ErrField != nil {
		f = "(" + sh.ErrField.Name() + ")"
	}
	var heads []string
	for _, h := range sh.HeadFields {
		heads = append(heads, h.Name())
	}
	heads = append(heads, sh.HeadOther...)
	cause := "-"
	if sh.CauseField != nil {
		cause = sh.CauseField.Name()
	}
	return fmt.Sprintf("Error=%s%s cause=%s fmt.head=[%s] fmt.ret{nil:%v cause:%v other:%v} detailPrints=%d", sh.ErrShape, f, cause, strings.Join(heads, ","), sh.RetNil, sh.RetCause, sh.RetOther, sh.DetailPrints)
}

// unwrapSafe sees through redact.Safe(x) and conversions: the value printed.
func unwrapSafe(v ssa.Value) ssa.Value {
	for i := 0; i < 4; i++ {
		v = stripIface(v)
		switch x := v.(type) {
		case *ssa.Call:
			if f := sx.Callee(x); f != nil && f.Name() == "Safe" && f.Pkg != nil && f.Pkg.Pkg.Path() == redactPath && len(x.Call.Args) == 1 {
				v = x.Call.Args[0]
				continue
			}
		case *ssa.ChangeType:
			v = x.X
			continue
		case *ssa.Convert:
			v = x.X
			continue
		}
		break
	}
	return stripIface(v)
}

// dependsOnRecvField: v is computed from the receiver's field fld (through calls, operators, merges).
func dependsOnRecvField(fn *ssa.Function, v ssa.Value, fld *types.Var, seen map[ssa.Value]bool, d int) bool {
	if v == nil || seen[v] || d > 16 {
		return false
	}
	seen[v] = true
	if pth := recvFieldPath(fn, v); len(pth) >= 1 && pth[0] == fld {
		return true
	}
	in, ok := v.(ssa.Instruction)
	if !ok {
		return false
	}
	if al, isAlloc := v.(*ssa.Alloc); isAlloc && al.Referrers() != nil {
		// a local whose address is taken: what is stored into it
		for _, r := range *al.Referrers() {
			if st, isSt := r.(*ssa.Store); isSt && st.Addr == ssa.Value(al) && dependsOnRecvField(fn, st.Val, fld, seen, d+1) {
				return true
			}
		}
	}
	for _, op := range in.Operands(nil) {
		if *op != nil && dependsOnRecvField(fn, *op, fld, seen, d+1) {
			return true
		}
	}
	return false
}

// seeThroughReturn: v is the result of a module helper every return of which hands back one and the same of its
// parameters (a shared formatting helper that ends with `return cause`): then v stands for the argument passed for it.
func seeThroughReturn(v ssa.Value) ssa.Value {
	call, ok := v.(*ssa.Call)
	if !ok || call.Call.IsInvoke() {
		return v
	}
	h := sx.Callee(call)
	if h == nil || h.Blocks == nil || call.Parent() == nil || h.Pkg != call.Parent().Pkg || sx.Exported(h) {
		return v
	}
	idx := -1
	for _, r := range sx.Returns(h) {
		if len(r.Results) != 1 {
			return v
		}
		prm, isParam := identity(r.Results[0]).(*ssa.Parameter)
		if !isParam {
			return v
		}
		j := paramIndex(h, prm)
		if idx >= 0 && j != idx {
			return v
		}
		idx = j
	}
	if idx < 0 || idx >= len(call.Call.Args) {
		return v
	}
	return call.Call.Args[idx]
}
