package rules

import (
	"fmt"
	"go/ast"
	"go/constant"
	"go/token"
	"go/types"
	"sort"
	"strings"

	"golang.org/x/tools/go/cfg"
	"golang.org/x/tools/go/packages"
	"golang.org/x/tools/go/ssa"

	"verif/checker/internal/core"
	"verif/checker/internal/load"
	"verif/checker/internal/sx"
)

// R-BOUNDS. Decided on the AST with go/cfg must-facts.
//
// In scope (the three index shapes whose range does not follow from the
// loop that produced the index): constant index, len(x)-k, and an index
// variable produced by ranging over a *different* slice. Everything else
// (loop counters compared against len, indices computed by strings.Index*,
// callback parameters) is counted and listed as out of scope.
var rBounds = &Rule{
	Name: "R-BOUNDS",
	Doc: "every index expression x[c], x[len(x)-k] or x[i] with i ranging over another slice y, in hand-written module code, is dominated (go/cfg must-facts over if/switch/&&/|| guards, killed by reassignment) " +
		"by a length guard on the same access path that implies the index is in range (len(x) > c, len(x) >= k, len(x) == len(y)), or x was made with len(y) in the same function",
	Run: func(c *core.Ctx) { runBounds(c, nil) },
}

// boundsTabled lists index sites accepted with a reason (construct → reason).
var boundsTabled = map[string]string{
	"errbase.(*state).formatEntries: s.entries[len(s.entries) - 1]": "formatEntries is only called right after formatRecursive, which appends one entry on every path before returning",
}

type lenFacts struct {
	min   map[string]int      // access path -> proven lower bound of len
	eq    map[[2]string]bool  // pairs of access paths with equal len
	slack map[[2]string]int   // (index variable, access path) -> c+1 where i + c < len(path) is proven
	impl  map[string]implFact // boolean variable -> "when it is true, len(path) >= n" (postcondition of a (slice, ok) helper)
	sym   map[string]string   // access path -> identifier path: len(path) >= value of that identifier (only used to summarise helpers)
}

type implFact struct {
	path string
	n    int
}

func newFacts() *lenFacts {
	return &lenFacts{min: map[string]int{}, eq: map[[2]string]bool{}, slack: map[[2]string]int{}, impl: map[string]implFact{}, sym: map[string]string{}}
}

func (f *lenFacts) clone() *lenFacts {
	g := newFacts()
	for k, v := range f.min {
		g.min[k] = v
	}
	for k := range f.eq {
		g.eq[k] = true
	}
	for k, v := range f.slack {
		g.slack[k] = v
	}
	for k, v := range f.impl {
		g.impl[k] = v
	}
	for k, v := range f.sym {
		g.sym[k] = v
	}
	return g
}

// addSlack records i + c < len(p).
func (f *lenFacts) addSlack(i, p string, c int) {
	if i == "" || p == "" || c < 0 {
		return
	}
	if c+1 > f.slack[[2]string{i, p}] {
		f.slack[[2]string{i, p}] = c + 1
	}
}

func (f *lenFacts) addMin(p string, n int) {
	if p != "" && n > f.min[p] {
		f.min[p] = n
	}
}

func (f *lenFacts) addEq(a, b string) {
	if a == "" || b == "" || a == b {
		return
	}
	if a > b {
		a, b = b, a
	}
	f.eq[[2]string{a, b}] = true
}

func (f *lenFacts) hasEq(a, b string) bool {
	if a > b {
		a, b = b, a
	}
	return f.eq[[2]string{a, b}]
}

func (f *lenFacts) union(g *lenFacts) {
	for k, v := range g.slack {
		if v > f.slack[k] {
			f.slack[k] = v
		}
	}
	for k, v := range g.min {
		f.addMin(k, v)
	}
	for k := range g.eq {
		f.eq[k] = true
	}
	for k, v := range g.impl {
		f.impl[k] = v
	}
	for k, v := range g.sym {
		f.sym[k] = v
	}
}

// meet: keep what holds in both.
func meet(a, b *lenFacts) *lenFacts {
	if a == nil {
		return b.clone()
	}
	r := newFacts()
	for k, v := range a.min {
		if w, ok := b.min[k]; ok {
			if w < v {
				v = w
			}
			if v > 0 {
				r.min[k] = v
			}
		}
	}
	for k := range a.eq {
		if b.eq[k] {
			r.eq[k] = true
		}
	}
	for k, v := range a.slack {
		if w, ok := b.slack[k]; ok {
			if w < v {
				v = w
			}
			if v > 0 {
				r.slack[k] = v
			}
		}
	}
	for k, v := range a.impl {
		if w, ok := b.impl[k]; ok && w == v {
			r.impl[k] = v
		}
	}
	for k, v := range a.sym {
		if w, ok := b.sym[k]; ok && w == v {
			r.sym[k] = v
		}
	}
	return r
}

func (f *lenFacts) equal(g *lenFacts) bool {
	if len(f.min) != len(g.min) || len(f.eq) != len(g.eq) || len(f.slack) != len(g.slack) || len(f.impl) != len(g.impl) || len(f.sym) != len(g.sym) {
		return false
	}
	for k, v := range f.impl {
		if g.impl[k] != v {
			return false
		}
	}
	for k, v := range f.sym {
		if g.sym[k] != v {
			return false
		}
	}
	for k, v := range f.slack {
		if g.slack[k] != v {
			return false
		}
	}
	for k, v := range f.min {
		if g.min[k] != v {
			return false
		}
	}
	for k := range f.eq {
		if !g.eq[k] {
			return false
		}
	}
	return true
}

func (f *lenFacts) kill(root string, appendOnly bool) {
	for k := range f.min {
		if !appendOnly && pathHasRoot(k, root) {
			delete(f.min, k)
		}
	}
	for k := range f.eq {
		if pathHasRoot(k[0], root) || pathHasRoot(k[1], root) {
			delete(f.eq, k)
		}
	}
	for k := range f.slack {
		if pathHasRoot(k[0], root) || (!appendOnly && pathHasRoot(k[1], root)) {
			delete(f.slack, k)
		}
	}
	for k, v := range f.impl {
		if pathHasRoot(k, root) || (!appendOnly && pathHasRoot(v.path, root)) {
			delete(f.impl, k)
		}
	}
	for k, v := range f.sym {
		if (!appendOnly && pathHasRoot(k, root)) || pathHasRoot(v, root) {
			delete(f.sym, k)
		}
	}
}

func pathHasRoot(path, root string) bool {
	return path == root || strings.HasPrefix(path, root+".") || strings.HasPrefix(path, root+"[")
}

type boundsFn struct {
	pk   *packages.Package
	rel  string
	name string
	body *ast.BlockStmt
	obj  *types.Func // the declared function (nil for function literals)
}

// accessPath canonicalises x, x.f, (*x).f, x[i].f with resolved objects.
func accessPath(info *types.Info, e ast.Expr) string {
	switch x := e.(type) {
	case *ast.Ident:
		obj := info.Uses[x]
		if obj == nil {
			obj = info.Defs[x]
		}
		if obj == nil {
			return ""
		}
		return fmt.Sprintf("%s@%d", obj.Name(), obj.Pos())
	case *ast.ParenExpr:
		return accessPath(info, x.X)
	case *ast.StarExpr:
		return accessPath(info, x.X)
	case *ast.SelectorExpr:
		if sel, ok := info.Selections[x]; ok && sel.Kind() == types.FieldVal {
			b := accessPath(info, x.X)
			if b == "" {
				return ""
			}
			return b + "." + x.Sel.Name
		}
		// package-qualified identifier
		if obj := info.Uses[x.Sel]; obj != nil {
			if _, isVar := obj.(*types.Var); isVar {
				return fmt.Sprintf("%s@%d", obj.Name(), obj.Pos())
			}
		}
		return ""
	case *ast.CallExpr:
		// buf.Bytes() on a bytes.Buffer: a pure view whose length is buf.Len()
		if se, ok := x.Fun.(*ast.SelectorExpr); ok && len(x.Args) == 0 && se.Sel.Name == "Bytes" && isBytesBuffer(info.TypeOf(se.X)) {
			if b := accessPath(info, se.X); b != "" {
				return b + ".Bytes()"
			}
		}
		return ""
	case *ast.IndexExpr:
		b := accessPath(info, x.X)
		i := accessPath(info, x.Index)
		if b == "" || i == "" {
			return ""
		}
		return b + "[" + i + "]"
	}
	return ""
}

// varPlusConst: e is i or i + c (i a variable): returns its access path and c.
func varPlusConst(info *types.Info, e ast.Expr) (string, int, bool) {
	e = ast.Unparen(e)
	if be, ok := e.(*ast.BinaryExpr); ok && be.Op == token.ADD {
		if c, ok := intConst(info, be.Y); ok {
			if _, isC := intConst(info, be.X); !isC {
				if p := accessPath(info, be.X); p != "" {
					return p, c, true
				}
			}
		}
		return "", 0, false
	}
	if _, isC := intConst(info, e); isC {
		return "", 0, false
	}
	if id, ok := e.(*ast.Ident); ok {
		if p := accessPath(info, id); p != "" {
			return p, 0, true
		}
	}
	return "", 0, false
}

// lenMinusConst: e is len(P) or len(P) - c.
func lenMinusConst(info *types.Info, e ast.Expr) (string, int, bool) {
	e = ast.Unparen(e)
	if p, ok := lenArg(info, e); ok {
		return p, 0, true
	}
	if be, ok := e.(*ast.BinaryExpr); ok && be.Op == token.SUB {
		if p, ok := lenArg(info, be.X); ok {
			if c, ok := intConst(info, be.Y); ok {
				return p, c, true
			}
		}
	}
	return "", 0, false
}

func isBytesBuffer(t types.Type) bool {
	if t == nil {
		return false
	}
	if p, ok := types.Unalias(t).(*types.Pointer); ok {
		t = p.Elem()
	}
	n, ok := types.Unalias(t).(*types.Named)
	return ok && n.Obj().Pkg() != nil && n.Obj().Pkg().Path() == "bytes" && n.Obj().Name() == "Buffer"
}

func intConst(info *types.Info, e ast.Expr) (int, bool) {
	tv, ok := info.Types[e]
	if !ok || tv.Value == nil || tv.Value.Kind() != constant.Int {
		return 0, false
	}
	v, exact := constant.Int64Val(tv.Value)
	return int(v), exact
}

// lenArg returns the access path P if e is len(P).
func lenArg(info *types.Info, e ast.Expr) (string, bool) {
	call, ok := ast.Unparen(e).(*ast.CallExpr)
	if ok && len(call.Args) == 0 {
		// buf.Len() on a bytes.Buffer is len(buf.Bytes())
		if se, ok := call.Fun.(*ast.SelectorExpr); ok && se.Sel.Name == "Len" && isBytesBuffer(info.TypeOf(se.X)) {
			if b := accessPath(info, se.X); b != "" {
				return b + ".Bytes()", true
			}
		}
	}
	if !ok || len(call.Args) != 1 {
		return "", false
	}
	id, ok := call.Fun.(*ast.Ident)
	if !ok || id.Name != "len" {
		return "", false
	}
	if _, isB := info.Uses[id].(*types.Builtin); !isB {
		return "", false
	}
	p := accessPath(info, call.Args[0])
	return p, p != ""
}

// condFacts: facts established when cond evaluates to truth.
func condFacts(info *types.Info, cond ast.Expr, truth bool, out *lenFacts) {
	switch x := ast.Unparen(cond).(type) {
	case *ast.Ident:
		// `ok` of `x, ok := helper(...)`: the helper's postcondition
		if truth {
			if im, has := out.impl[accessPath(info, x)]; has {
				out.addMin(im.path, im.n)
			}
		}
	case *ast.UnaryExpr:
		if x.Op == token.NOT {
			condFacts(info, x.X, !truth, out)
		}
	case *ast.BinaryExpr:
		switch x.Op {
		case token.LAND:
			if truth {
				condFacts(info, x.X, true, out)
				condFacts(info, x.Y, true, out)
			}
		case token.LOR:
			if !truth {
				condFacts(info, x.X, false, out)
				condFacts(info, x.Y, false, out)
			}
		case token.GTR, token.GEQ, token.LSS, token.LEQ, token.EQL, token.NEQ:
			op := x.Op
			l, r := x.X, x.Y
			if lp, ok := lenArg(info, l); ok {
				if rp, ok2 := lenArg(info, r); ok2 {
					if (op == token.EQL && truth) || (op == token.NEQ && !truth) {
						out.addEq(lp, rp)
					}
					return
				}
			}
			// index-variable bounds: I < len(P) - c, I + c < len(P), I <= len(P) - c
			if iv, c1, ok1 := varPlusConst(info, l); ok1 {
				if lp, c2, ok2 := lenMinusConst(info, r); ok2 {
					eff := op
					if !truth {
						eff = map[token.Token]token.Token{token.GTR: token.LEQ, token.GEQ: token.LSS, token.LSS: token.GEQ, token.LEQ: token.GTR, token.EQL: token.NEQ, token.NEQ: token.EQL}[op]
					}
					switch eff {
					case token.LSS: // iv + c1 < len - c2  =>  iv + (c1+c2) < len
						out.addSlack(iv, lp, c1+c2)
					case token.LEQ: // iv + c1 <= len - c2 =>  iv + (c1+c2-1) < len
						out.addSlack(iv, lp, c1+c2-1)
					}
				}
			}
			// len(P) >= IDENT (a parameter): symbolic lower bound, used to summarise (slice, ok) helpers
			if lp, ok := lenArg(info, l); ok {
				if id, isId := ast.Unparen(r).(*ast.Ident); isId {
					if _, isC := intConst(info, r); !isC {
						eff := op
						if !truth {
							eff = map[token.Token]token.Token{token.GTR: token.LEQ, token.GEQ: token.LSS, token.LSS: token.GEQ, token.LEQ: token.GTR, token.EQL: token.NEQ, token.NEQ: token.EQL}[op]
						}
						if eff == token.GEQ || eff == token.EQL {
							if ip := accessPath(info, id); ip != "" {
								out.sym[lp] = ip
							}
						}
					}
				}
			}
			// normalise to len(P) op c
			p, okL := lenArg(info, l)
			cst, okC := intConst(info, r)
			if !okL || !okC {
				p, okL = lenArg(info, r)
				cst, okC = intConst(info, l)
				if !okL || !okC {
					return
				}
				op = map[token.Token]token.Token{token.GTR: token.LSS, token.GEQ: token.LEQ, token.LSS: token.GTR, token.LEQ: token.GEQ, token.EQL: token.EQL, token.NEQ: token.NEQ}[op]
			}
			if !truth {
				op = map[token.Token]token.Token{token.GTR: token.LEQ, token.GEQ: token.LSS, token.LSS: token.GEQ, token.LEQ: token.GTR, token.EQL: token.NEQ, token.NEQ: token.EQL}[op]
			}
			switch op {
			case token.GTR:
				out.addMin(p, cst+1)
			case token.GEQ:
				out.addMin(p, cst)
			case token.EQL:
				out.addMin(p, cst)
			case token.NEQ:
				if cst == 0 {
					out.addMin(p, 1)
				}
			}
		}
	}
}

// applyKills updates facts for an executed node.
func applyKills(info *types.Info, n ast.Node, f *lenFacts) {
	killLHS := func(lhs ast.Expr, rhs ast.Expr) {
		p := accessPath(info, lhs)
		if p == "" {
			if ix, ok := lhs.(*ast.IndexExpr); ok { // element store: lengths unchanged
				_ = ix
				return
			}
			return
		}
		if _, isIdx := ast.Unparen(lhs).(*ast.IndexExpr); isIdx {
			return // x[i] = v does not change len(x); facts about x[i].f are killed below
		}
		appendOnly := false
		if call, ok := rhs.(*ast.CallExpr); ok {
			if id, ok := call.Fun.(*ast.Ident); ok && id.Name == "append" && len(call.Args) > 0 && accessPath(info, call.Args[0]) == p {
				appendOnly = true
			}
		}
		f.kill(p, appendOnly)
	}
	switch s := n.(type) {
	case *ast.AssignStmt:
		for i, l := range s.Lhs {
			var r ast.Expr
			if len(s.Rhs) == len(s.Lhs) {
				r = s.Rhs[i]
			}
			killLHS(l, r)
		}
	case *ast.IncDecStmt:
		killLHS(s.X, nil)
	case *ast.RangeStmt:
		if s.Key != nil {
			killLHS(s.Key, nil)
		}
		if s.Value != nil {
			killLHS(s.Value, nil)
		}
	}
}

type idxSite struct {
	ie     *ast.IndexExpr
	fn     *boundsFn
	facts  *lenFacts
	parent map[ast.Node]ast.Node
}

// runBounds checks all in-scope index sites. filter (optional) restricts to
// functions for which it returns true.
func runBounds(c *core.Ctx, filter func(pkgRel, fn string) bool) {
	p := c.P
	total, inScope, outScope := 0, 0, 0
	tabledSeen := map[string]bool{}
	var allBodies []*boundsFn
	boundsHelperDecls = map[*types.Func]*boundsFn{}
	boundsHelperParams = map[*types.Func]*ast.FieldList{}
	boundsProgram = p
	for _, pk := range p.Mod {
		rel := strings.TrimPrefix(strings.TrimPrefix(pk.PkgPath, load.ModPath), "/")
		if rel == "testutils" {
			continue
		}
		if rel == "" {
			rel = "errors"
		}
		for _, file := range pk.Syntax {
			fname := p.Fset.Position(file.Pos()).Filename
			if strings.HasSuffix(fname, ".pb.go") {
				continue
			}
			for _, d := range file.Decls {
				fd, ok := d.(*ast.FuncDecl)
				if !ok || fd.Body == nil {
					continue
				}
				name := rel + "." + fd.Name.Name
				if fd.Recv != nil && len(fd.Recv.List) == 1 {
					name = rel + ".(" + types.ExprString(fd.Recv.List[0].Type) + ")." + fd.Name.Name
				}
				// the function body and every function literal inside get their own CFG
				bfn := &boundsFn{pk: pk, rel: rel, name: name, body: fd.Body}
				bfn.obj, _ = pk.TypesInfo.Defs[fd.Name].(*types.Func)
				allBodies = append(allBodies, bfn)
				if obj, ok := pk.TypesInfo.Defs[fd.Name].(*types.Func); ok && fd.Recv == nil {
					boundsHelperDecls[obj] = bfn
					boundsHelperParams[obj] = fd.Type.Params
				}
				ast.Inspect(fd.Body, func(n ast.Node) bool {
					if fl, ok := n.(*ast.FuncLit); ok {
						allBodies = append(allBodies, &boundsFn{pk: pk, rel: rel, name: name + "$lit", body: fl.Body})
					}
					return true
				})
			}
		}
	}
	for _, bf := range allBodies {
		if filter != nil && !filter(bf.rel, bf.name) {
			continue
		}
		t, in, out := boundsOneBody(c, bf, allBodies, tabledSeen)
		total += t
		inScope += in
		outScope += out
	}
	if filter == nil {
		for k := range boundsTabled {
			if !tabledSeen[k] {
				c.Note("tabled R-BOUNDS exception %q matches no construct any more (harmless; table can be pruned)", k)
			}
		}
		c.Min("index expressions inspected", total, 40)
		c.Min("index expressions in scope (constant / len-k / foreign-range index)", inScope, 15)
		c.Census[c.Rule+": index expressions out of scope (loop counters, computed indices)"] = outScope
	}
}

// bodyAnalysis is the must-facts solution for one function body.
type bodyAnalysis struct {
	bf      *boundsFn
	info    *types.Info
	g       *cfg.CFG
	in      []*lenFacts
	parent  map[ast.Node]ast.Node
	nodeLoc map[ast.Node][2]int // block index, node index
}

func analyseBody(bf *boundsFn) *bodyAnalysis {
	info := bf.pk.TypesInfo
	a := &bodyAnalysis{bf: bf, info: info, parent: map[ast.Node]ast.Node{}, nodeLoc: map[ast.Node][2]int{}}
	g := cfg.New(bf.body, func(*ast.CallExpr) bool { return true })
	a.g = g
	var stack []ast.Node
	ast.Inspect(bf.body, func(n ast.Node) bool {
		if n == nil {
			stack = stack[:len(stack)-1]
			return true
		}
		if _, isLit := n.(*ast.FuncLit); isLit {
			return false
		}
		if len(stack) > 0 {
			a.parent[n] = stack[len(stack)-1]
		}
		stack = append(stack, n)
		return true
	})
	in := make([]*lenFacts, len(g.Blocks))
	out := make([]*lenFacts, len(g.Blocks))
	preds := make([][]*cfg.Block, len(g.Blocks))
	for _, b := range g.Blocks {
		for _, s := range b.Succs {
			preds[s.Index] = append(preds[s.Index], b)
		}
	}
	edgeFacts := func(from *cfg.Block, to *cfg.Block) *lenFacts {
		f := out[from.Index].clone()
		if len(from.Succs) == 2 && len(from.Nodes) > 0 {
			cond, ok := from.Nodes[len(from.Nodes)-1].(ast.Expr)
			if ok && isBool(info, cond) && !isTaggedSwitchCase(from) {
				if from.Succs[0] == to && from.Succs[1] != to {
					condFacts(info, cond, true, f)
				} else if from.Succs[1] == to && from.Succs[0] != to {
					condFacts(info, cond, false, f)
				}
			}
		}
		return f
	}
	transfer := func(b *cfg.Block, f *lenFacts) *lenFacts {
		f = f.clone()
		for _, n := range b.Nodes {
			applyNode(info, n, f)
		}
		return f
	}
	in[0] = newFacts()
	out[0] = transfer(g.Blocks[0], in[0])
	for changed, iter := true, 0; changed && iter < 50; iter++ {
		changed = false
		for _, b := range g.Blocks {
			if b.Index == 0 || !b.Live {
				continue
			}
			var m *lenFacts
			for _, pr := range preds[b.Index] {
				if out[pr.Index] == nil {
					continue // not yet computed: optimistic (top)
				}
				m = meet(m, edgeFacts(pr, b))
			}
			if m == nil {
				continue
			}
			if in[b.Index] == nil || !in[b.Index].equal(m) {
				in[b.Index] = m
				out[b.Index] = transfer(b, m)
				changed = true
			}
		}
	}
	a.in = in
	for _, b := range g.Blocks {
		for i, n := range b.Nodes {
			a.nodeLoc[n] = [2]int{int(b.Index), i}
		}
	}
	return a
}

// applyNode: kills plus facts established by make().
func applyNode(info *types.Info, n ast.Node, f *lenFacts) {
	applyKills(info, n, f)
	if as, ok := n.(*ast.AssignStmt); ok && len(as.Lhs) == 2 && len(as.Rhs) == 1 {
		if call, ok := ast.Unparen(as.Rhs[0]).(*ast.CallExpr); ok {
			if k, has := helperLenPost(info, call); has {
				xp, okp := accessPath(info, as.Lhs[0]), accessPath(info, as.Lhs[1])
				if xp != "" && okp != "" {
					f.impl[okp] = implFact{xp, k}
				}
			}
		}
	}
	if as, ok := n.(*ast.AssignStmt); ok && len(as.Lhs) == len(as.Rhs) {
		for i := range as.Lhs {
			// x := []T{a, b}: a literal without keys has exactly len(elts) elements
			if cl, ok := ast.Unparen(as.Rhs[i]).(*ast.CompositeLit); ok {
				if t := info.TypeOf(cl); t != nil {
					if _, isSlice := types.Unalias(t).Underlying().(*types.Slice); isSlice {
						keyed := false
						for _, el := range cl.Elts {
							if _, isKV := el.(*ast.KeyValueExpr); isKV {
								keyed = true
							}
						}
						if !keyed {
							f.addMin(accessPath(info, as.Lhs[i]), len(cl.Elts))
						}
					}
				}
			}
			if call, ok := as.Rhs[i].(*ast.CallExpr); ok {
				if id, ok := call.Fun.(*ast.Ident); ok && id.Name == "make" && len(call.Args) == 2 {
					if lp, ok := lenArg(info, call.Args[1]); ok {
						f.addEq(accessPath(info, as.Lhs[i]), lp)
					}
					if cst, ok := intConst(info, call.Args[1]); ok {
						f.addMin(accessPath(info, as.Lhs[i]), cst)
					}
				}
			}
		}
	}
}

// factsAt returns the facts that hold whenever node n (inside this body) is
// evaluated.
func (a *bodyAnalysis) factsAt(n ast.Node) *lenFacts {
	facts := newFacts()
	for n != nil {
		if l, ok := a.nodeLoc[n]; ok {
			if a.in[l[0]] != nil {
				f := a.in[l[0]].clone()
				for k := 0; k < l[1]; k++ {
					applyNode(a.info, a.g.Blocks[l[0]].Nodes[k], f)
				}
				facts.union(f)
			}
			break
		}
		if pe, ok := a.parent[n].(*ast.BinaryExpr); ok && pe.Y == n {
			if pe.Op == token.LAND {
				condFacts(a.info, pe.X, true, facts)
			} else if pe.Op == token.LOR {
				condFacts(a.info, pe.X, false, facts)
			}
		}
		n = a.parent[n]
	}
	return facts
}

func boundsOneBody(c *core.Ctx, bf *boundsFn, all []*boundsFn, tabledSeen map[string]bool) (total, inScope, outScope int) {
	info := bf.pk.TypesInfo
	a := analyseBody(bf)
	parent := a.parent
	var sites []*ast.IndexExpr
	ast.Inspect(bf.body, func(n ast.Node) bool {
		if _, isLit := n.(*ast.FuncLit); isLit {
			return false
		}
		if ie, ok := n.(*ast.IndexExpr); ok {
			sites = append(sites, ie)
		}
		return true
	})
	for _, ie := range sites {
		xt := info.TypeOf(ie.X)
		if xt == nil {
			continue
		}
		switch u := types.Unalias(xt).Underlying().(type) {
		case *types.Slice:
		case *types.Basic:
			if u.Info()&types.IsString == 0 {
				continue
			}
		case *types.Array:
			// constant indices are checked by the compiler; an index that ranges over ANOTHER sequence is not
			if id, ok := ast.Unparen(ie.Index).(*ast.Ident); ok {
				if rs := rangeDefining(info, parent, ie, id); rs != nil {
					yp, xp := accessPath(info, rs.X), accessPath(info, ie.X)
					if yp == "" || yp != xp {
						total++
						inScope++
						construct := fmt.Sprintf("%s: %s", bf.name, types.ExprString(ie))
						facts := a.factsAt(ie)
						if iv := accessPath(info, id); xp != "" && iv != "" && facts.slack[[2]string{iv, xp}] >= 1 {
							c.Ob(construct, ie.Pos(), true, "dominated by a guard proving i < len(array)")
						} else {
							c.Fail(construct, ie.Pos(), fmt.Sprintf("index ranges over another sequence (%s) but the indexed array has %d elements and no dominating guard bounds that sequence's length: index out of range when it is longer", types.ExprString(rs.X), u.Len()))
						}
					}
				}
			}
			continue
		default:
			continue // maps: no bounds
		}
		total++
		xp := accessPath(info, ie.X)
		construct := fmt.Sprintf("%s: %s", bf.name, types.ExprString(ie))
		facts := a.factsAt(ie)
		// classify the index
		need, eqWith, scope := 0, "", ""
		if cst, ok := intConst(info, ie.Index); ok {
			need, scope = cst+1, "constant index"
		} else if be, ok := ast.Unparen(ie.Index).(*ast.BinaryExpr); ok && be.Op == token.SUB {
			if lp, ok := lenArg(info, be.X); ok && lp == xp && xp != "" {
				if k, ok := intConst(info, be.Y); ok && k >= 1 {
					need, scope = k, fmt.Sprintf("len(x)-%d", k)
				}
			}
		} else if iv, k, ok := varPlusConst(info, ie.Index); ok && k >= 1 {
			// x[i+k]: needs i + k < len(x)
			inScope++
			if xp != "" && facts.slack[[2]string{iv, xp}] >= k+1 {
				c.Ob(construct, ie.Pos(), true, fmt.Sprintf("index variable plus %d: dominated by a guard proving i+%d < len", k, k))
			} else {
				c.Fail(construct, ie.Pos(), fmt.Sprintf("index is a variable plus %d but no dominating guard proves i+%d < len on the same access path: out of range at the last element", k, k))
			}
			continue
		} else if id, ok := ast.Unparen(ie.Index).(*ast.Ident); ok {
			if rs := rangeDefining(info, parent, ie, id); rs != nil {
				yp := accessPath(info, rs.X)
				yt := info.TypeOf(rs.X)
				isSeq := false
				if yt != nil {
					switch u := types.Unalias(yt).Underlying().(type) {
					case *types.Slice, *types.Array, *types.Pointer:
						isSeq = true
					case *types.Basic:
						isSeq = u.Info()&types.IsString != 0
					}
				}
				if isSeq && (yp == "" || yp != xp) {
					eqWith, scope = yp, "index ranges over another sequence ("+types.ExprString(rs.X)+")"
					if yp == "" {
						eqWith = "?"
					}
				}
			}
		}
		if scope == "" {
			outScope++
			continue
		}
		inScope++
		if reason, ok := boundsTabled[construct]; ok {
			tabledSeen[construct] = true
			c.Ob(construct, ie.Pos(), true, "tabled: "+reason)
			continue
		}
		if srcDirsElement(info, parent, ie) {
			c.Ob(construct, ie.Pos(), true, "the indexed string is an element of go/build.Default.SrcDirs(): filepath.Join(root, \"src\"), never empty")
			continue
		}
		if xp == "" {
			c.Fail(construct, ie.Pos(), "index with "+scope+" on a base that is not a plain access path: no length guard can be matched")
			continue
		}
		if eqWith != "" {
			if facts.hasEq(xp, eqWith) {
				c.Ob(construct, ie.Pos(), true, scope+": lengths proven equal on every path")
			} else {
				c.Fail(construct, ie.Pos(), scope+" but no dominating guard or make() proves the two lengths equal: index out of range when the indexed slice is shorter")
			}
			continue
		}
		if facts.min[xp] >= need {
			c.Ob(construct, ie.Pos(), true, fmt.Sprintf("%s: dominated by a guard proving len >= %d", scope, need))
			continue
		}
		// field invariant: every write of the field stores a slice long enough
		if why, ok := fieldMinLenInvariant(info, ie.X, need, all); ok {
			c.Ob(construct, ie.Pos(), true, fmt.Sprintf("%s: %s", scope, why))
			continue
		} else if why != "" {
			c.Fail(construct, ie.Pos(), fmt.Sprintf("%s requires len >= %d but no dominating length guard proves it, and the field can hold a shorter slice: %s", scope, need, why))
			continue
		}
		c.Fail(construct, ie.Pos(), fmt.Sprintf("%s requires len >= %d but no dominating length guard on the same access path proves it", scope, need))
	}
	return
}

// fieldMinLenInvariant tries to prove that struct field X.f always holds a
// slice of at least need elements: every composite literal of the struct
// type and every assignment to the field, anywhere in the module, stores a
// value proven long enough at that site. Returns ("",false) when X is not
// a field of a module struct type.
func fieldMinLenInvariant(info *types.Info, x ast.Expr, need int, all []*boundsFn) (string, bool) {
	sel, ok := ast.Unparen(x).(*ast.SelectorExpr)
	if !ok {
		return "", false
	}
	s, ok := info.Selections[sel]
	if !ok || s.Kind() != types.FieldVal {
		return "", false
	}
	field, _ := s.Obj().(*types.Var)
	if field == nil || field.Pkg() == nil || !load.IsModPath(field.Pkg().Path()) {
		return "", false
	}
	if strings.HasSuffix(field.Pkg().Path(), "/errorspb") || strings.HasSuffix(field.Pkg().Path(), "/extgrpc") && strings.HasPrefix(field.Name(), "XXX") {
		// fields of protobuf messages are filled by the generated Unmarshal from
		// wire bytes: no construction-site invariant can hold for them
		return "", false
	}
	writes := 0
	boundsAllFns = all
	for _, bf := range all {
		var an *bodyAnalysis
		get := func() *bodyAnalysis {
			if an == nil {
				an = analyseBody(bf)
			}
			return an
		}
		binfo := bf.pk.TypesInfo
		var bad string
		long := func(v ast.Expr, at ast.Node) bool { return exprMinLen(binfo, v, need, get, at, field) }
		notOK := notOKZeroResults(bf)
		ast.Inspect(bf.body, func(n ast.Node) bool {
			if _, isLit := n.(*ast.FuncLit); isLit {
				return false
			}
			if bad != "" {
				return false
			}
			switch v := n.(type) {
			case *ast.CompositeLit:
				if notOK[v] {
					// the zero value that accompanies `false` in a (value, ok) result: no caller reads it
					return true
				}
				t := binfo.TypeOf(v)
				if t == nil {
					return true
				}
				st, ok := types.Unalias(t).Underlying().(*types.Struct)
				if !ok {
					return true
				}
				idx := -1
				for i := 0; i < st.NumFields(); i++ {
					if st.Field(i) == field {
						idx = i
					}
				}
				if idx < 0 {
					return true
				}
				writes++
				var val ast.Expr
				for i, el := range v.Elts {
					if kv, ok := el.(*ast.KeyValueExpr); ok {
						if id, ok := kv.Key.(*ast.Ident); ok && id.Name == field.Name() {
							val = kv.Value
						}
					} else if i == idx {
						val = el
					}
				}
				if val == nil {
					bad = fmt.Sprintf("%s builds the struct without setting %s", bf.name, field.Name())
				} else if !long(val, v) {
					bad = fmt.Sprintf("%s stores %s into %s without a length guard", bf.name, types.ExprString(val), field.Name())
				}
			case *ast.AssignStmt:
				for i, l := range v.Lhs {
					ls, ok := ast.Unparen(l).(*ast.SelectorExpr)
					if !ok {
						continue
					}
					if sl, ok := binfo.Selections[ls]; !ok || sl.Obj() != field {
						continue
					}
					writes++
					if len(v.Rhs) != len(v.Lhs) || !long(v.Rhs[i], v) {
						bad = fmt.Sprintf("%s assigns %s without a length guard", bf.name, field.Name())
					}
				}
			}
			return true
		})
		if bad != "" {
			return bad, false
		}
	}
	if writes == 0 {
		return "no write of the field found in the module", false
	}
	return fmt.Sprintf("field invariant len(%s) >= %d: all %d writes of the field in the module store a slice proven long enough at the write site", field.Name(), need, writes), true
}

// exprMinLen: is v a slice with at least need elements at node at?
// boundsAllFns / boundsDepth: the functions of the run (set by fieldMinLenInvariant) and the helper nesting depth,
// for exprMinLen's look into list-building helpers.
var (
	boundsAllFns []*boundsFn
	boundsDepth  int
)

func exprMinLen(info *types.Info, v ast.Expr, need int, an func() *bodyAnalysis, at ast.Node, self *types.Var) bool {
	switch e := ast.Unparen(v).(type) {
	case *ast.CompositeLit:
		return len(e.Elts) >= need
	case *ast.CallExpr:
		if id, ok := e.Fun.(*ast.Ident); ok && id.Name == "append" && len(e.Args) >= 1 && e.Ellipsis == token.NoPos {
			if len(e.Args)-1 >= need {
				return true
			}
			return exprMinLen(info, e.Args[0], need-(len(e.Args)-1), an, at, self)
		}
		// a function of the module every return of which is long enough (the list is built by a helper)
		var callee *types.Func
		switch f := e.Fun.(type) {
		case *ast.Ident:
			callee, _ = info.Uses[f].(*types.Func)
		case *ast.SelectorExpr:
			callee, _ = info.Uses[f.Sel].(*types.Func)
		}
		if callee != nil && boundsDepth < 3 {
			for _, bf := range boundsAllFns {
				if bf.obj != callee || bf.body == nil {
					continue
				}
				boundsDepth++
				defer func() { boundsDepth-- }()
				var han *bodyAnalysis
				hget := func() *bodyAnalysis {
					if han == nil {
						han = analyseBody(bf)
					}
					return han
				}
				nRet, okAll := 0, true
				ast.Inspect(bf.body, func(n ast.Node) bool {
					if _, isLit := n.(*ast.FuncLit); isLit {
						return false
					}
					if rs, isRet := n.(*ast.ReturnStmt); isRet {
						nRet++
						if len(rs.Results) != 1 || !exprMinLen(bf.pk.TypesInfo, rs.Results[0], need, hget, rs, self) {
							okAll = false
						}
					}
					return true
				})
				return nRet > 0 && okAll
			}
		}
		return false
	case *ast.SelectorExpr:
		if s, ok := info.Selections[e]; ok && s.Obj() == self {
			return true // same field of another value: invariant (co-inductive)
		}
	}
	if p := accessPath(info, v); p != "" {
		return an().factsAt(at).min[p] >= need
	}
	return false
}

func isBool(info *types.Info, e ast.Expr) bool {
	t := info.TypeOf(e)
	if t == nil {
		return false
	}
	b, ok := types.Unalias(t).Underlying().(*types.Basic)
	return ok && b.Info()&types.IsBoolean != 0
}

func isTaggedSwitchCase(b *cfg.Block) bool {
	for _, s := range b.Succs {
		if s.Kind == cfg.KindSwitchCaseBody {
			if cc, ok := s.Stmt.(*ast.CaseClause); ok {
				_ = cc
			}
		}
	}
	// The block that evaluates case expressions belongs to a switch; find it
	// through the successor's Stmt parent is not available, so use the block's
	// own Stmt when it is a SwitchStmt/CaseClause.
	switch st := b.Stmt.(type) {
	case *ast.SwitchStmt:
		return st.Tag != nil
	case *ast.CaseClause:
		// KindSwitchNextCase: cannot see the tag from here; be conservative
		// only when the case expression is not boolean (checked by caller).
		return false
	}
	return false
}

// rangeDefining returns the enclosing range statement whose key is id.
func rangeDefining(info *types.Info, parent map[ast.Node]ast.Node, at ast.Node, id *ast.Ident) *ast.RangeStmt {
	obj := info.Uses[id]
	if obj == nil {
		return nil
	}
	for n := parent[at]; n != nil; n = parent[n] {
		if rs, ok := n.(*ast.RangeStmt); ok {
			if k, ok := rs.Key.(*ast.Ident); ok {
				if info.Defs[k] == obj || info.Uses[k] == obj {
					return rs
				}
			}
		}
	}
	return nil
}

// srcDirsElement: the indexed value is the value variable of a range over (*go/build.Context).SrcDirs(),
// wherever that loop lives (a structural exception instead of one keyed by the enclosing function).
func srcDirsElement(info *types.Info, parent map[ast.Node]ast.Node, ie *ast.IndexExpr) bool {
	id, ok := ast.Unparen(ie.X).(*ast.Ident)
	if !ok {
		return false
	}
	obj := info.Uses[id]
	if obj == nil {
		return false
	}
	for n := parent[ie]; n != nil; n = parent[n] {
		rs, ok := n.(*ast.RangeStmt)
		if !ok {
			continue
		}
		v, ok := rs.Value.(*ast.Ident)
		if !ok || (info.Defs[v] != obj && info.Uses[v] != obj) {
			continue
		}
		call, ok := ast.Unparen(rs.X).(*ast.CallExpr)
		if !ok {
			return false
		}
		sel, ok := call.Fun.(*ast.SelectorExpr)
		if !ok {
			return false
		}
		f, ok := info.Uses[sel.Sel].(*types.Func)
		return ok && f.Name() == "SrcDirs" && f.Pkg() != nil && f.Pkg().Path() == "go/build"
	}
	return false
}

// ---------------------------------------------------------------------------
// postconditions of (slice, ok) helpers

// boundsProgram: the program under analysis (for the SSA side of notOKZeroResults); set by runBounds.
var boundsProgram *load.Program

// notOKZeroResults: the empty composite literals `T{}` of bf that are the first result of a `return T{}, false`
// of a declared (value, bool) function, provided every caller in the module reads the first result only where
// the second is established true (SSA dominance at every call site; a function used as a value disqualifies).
func notOKZeroResults(bf *boundsFn) map[*ast.CompositeLit]bool {
	out := map[*ast.CompositeLit]bool{}
	if bf.obj == nil || boundsProgram == nil {
		return out
	}
	sig, ok := bf.obj.Type().(*types.Signature)
	if !ok || sig.Results().Len() != 2 || !isBoolT(sig.Results().At(1).Type()) {
		return out
	}
	var cands []*ast.CompositeLit
	ast.Inspect(bf.body, func(n ast.Node) bool {
		if _, isLit := n.(*ast.FuncLit); isLit {
			return false
		}
		ret, isRet := n.(*ast.ReturnStmt)
		if !isRet || len(ret.Results) != 2 {
			return true
		}
		cl, isCL := ast.Unparen(ret.Results[0]).(*ast.CompositeLit)
		id, isID := ast.Unparen(ret.Results[1]).(*ast.Ident)
		if isCL && len(cl.Elts) == 0 && isID && id.Name == "false" {
			cands = append(cands, cl)
		}
		return true
	})
	if len(cands) == 0 {
		return out
	}
	fn := boundsProgram.SSA.FuncValue(bf.obj)
	if fn == nil {
		return out
	}
	sites := 0
	okAll := true
	for _, caller := range boundsProgram.ModFuncs() {
		sx.EachInstr(caller, func(in ssa.Instruction) {
			for _, op := range in.Operands(nil) {
				if *op != ssa.Value(fn) {
					continue
				}
				call, isCall := in.(*ssa.Call)
				if !isCall || call.Call.Value != ssa.Value(fn) {
					okAll = false // used as a value, deferred, ...
					continue
				}
				sites++
				var first, second *ssa.Extract
				for _, r := range *call.Referrers() {
					if ex, isEx := r.(*ssa.Extract); isEx {
						if ex.Index == 0 {
							first = ex
						} else {
							second = ex
						}
					}
				}
				if first == nil {
					continue
				}
				if second == nil {
					okAll = false
					continue
				}
				for _, use := range *first.Referrers() {
					if _, isDbg := use.(*ssa.DebugRef); isDbg {
						continue
					}
					blk := use.Block()
					if ph, isPhi := use.(*ssa.Phi); isPhi {
						// the value enters a phi on particular edges: the guard must hold on those edges
						for i, e := range ph.Edges {
							if e == ssa.Value(first) && !hasLit(append(dominatingLits(ph.Block().Preds[i]), edgeLits(ph.Block().Preds[i], ph.Block())...), second, false) {
								okAll = false
							}
						}
						continue
					}
					if !hasLit(dominatingLits(blk), second, false) {
						okAll = false
					}
				}
			}
		})
	}
	if !okAll || sites == 0 {
		return out
	}
	for _, cl := range cands {
		out[cl] = true
	}
	return out
}

// boundsHelperDecls maps the module's function objects to their declarations; filled by runBounds.
var boundsHelperDecls = map[*types.Func]*boundsFn{}
var boundsHelperParams = map[*types.Func]*ast.FieldList{}
var boundsHelperBusy = map[*types.Func]bool{}

// helperLenPost: call is f(args) of a module function with results (sequence, bool) such that on every
// `return E, true` the facts at that return prove len(E) >= k - k a constant, or the value of one of f's
// parameters for which the call passes a constant. Returns that k.
func helperLenPost(info *types.Info, call *ast.CallExpr) (int, bool) {
	var fobj *types.Func
	switch fn := ast.Unparen(call.Fun).(type) {
	case *ast.Ident:
		fobj, _ = info.Uses[fn].(*types.Func)
	case *ast.SelectorExpr:
		fobj, _ = info.Uses[fn.Sel].(*types.Func)
	}
	if fobj == nil {
		return 0, false
	}
	bf, ok := boundsHelperDecls[fobj]
	if !ok || boundsHelperBusy[fobj] {
		return 0, false
	}
	sig, ok := fobj.Type().(*types.Signature)
	if !ok || sig.Results().Len() != 2 || !isBoolT(sig.Results().At(1).Type()) {
		return 0, false
	}
	boundsHelperBusy[fobj] = true
	defer delete(boundsHelperBusy, fobj)
	a := analyseBody(bf)
	binfo := bf.pk.TypesInfo
	best, found := 1<<30, false
	okAll := true
	ast.Inspect(bf.body, func(n ast.Node) bool {
		if _, isLit := n.(*ast.FuncLit); isLit {
			return false
		}
		ret, isRet := n.(*ast.ReturnStmt)
		if !isRet || len(ret.Results) != 2 {
			if isRet {
				okAll = false // naked return / other arity: not summarised
			}
			return true
		}
		if id, isId := ast.Unparen(ret.Results[1]).(*ast.Ident); !isId || id.Name != "true" {
			if isId && id.Name == "false" {
				return true
			}
			okAll = false
			return true
		}
		ep := accessPath(binfo, ret.Results[0])
		if ep == "" {
			okAll = false
			return true
		}
		facts := a.factsAt(ret)
		k := facts.min[ep]
		if sp, has := facts.sym[ep]; has {
			// which parameter, and what does the call pass?
			idx := 0
			if pl := boundsHelperParams[fobj]; pl != nil {
				for _, fld := range pl.List {
					for _, nm := range fld.Names {
						if accessPath(binfo, nm) == sp && idx < len(call.Args) {
							if cst, isC := intConst(info, call.Args[idx]); isC && cst > k {
								k = cst
							}
						}
						idx++
					}
				}
			}
		}
		if k <= 0 {
			okAll = false
			return true
		}
		found = true
		if k < best {
			best = k
		}
		return true
	})
	if !found || !okAll {
		return 0, false
	}
	return best, true
}

func isBoolT(t types.Type) bool {
	b, ok := types.Unalias(t).Underlying().(*types.Basic)
	return ok && b.Kind() == types.Bool
}

var _ = sort.Strings
