package rules

import (
	"strings"

	"golang.org/x/tools/go/ssa"

	"verif/checker/internal/core"
)

func init() {
	register(&Prop{
		ID:    "C17",
		Rules: []*Rule{rTypeNameRaw, rMigration, rRegistryKey, scoped(rTypeKeyWho, "who may use the raw type name; GetTypeKey asks for the family", func(_ *core.Ctx, k string) bool { return containsAny(k, "getFullTypeName", "GetTypeKey") }), scoped(rOpaque, "type names kept and re-emitted", func(_ *core.Ctx, k string) bool { return containsAny(k, "getTypeDetails", "details", "Details") }), forwardScoped("RegisterTypeMigration"), {Name: "R-LOOP-EXITS", Doc: rLoopExits.Doc, Run: func(c *core.Ctx) { runLoopExits(c, map[string]bool{"errbase.RegisterTypeMigration": true}) }}},
		Explain: "Decides the registry discipline that the cross-version scenarios rest on: a migration target cannot be registered twice; getTypeDetails consults the registry on every call for every non-opaque error (no stale cached name); all identity consumers go through getTypeDetails; unknowing processes keep and re-emit the received (original) key; the module's own type keys of migrated types are computed after the migration is registered. " +
			"NOT decided: order-independence of chained renames registered by users and the five cross-version scenarios as such (registry algorithm semantics over runtime configurations; observation O1 in DESIGN §6: A->B then B->C leaves C mapped to B).",
		Trusted: []string{"go/ssa", "package initialisation order of the Go runtime"},
	})
	register(&Prop{
		ID: "C15",
		Rules: []*Rule{scoped(rOpaque, "the type names a received layer reports (getTypeDetails of the opaque types)", func(_ *core.Ctx, k string) bool { return strings.Contains(k, "getTypeDetails") }), rOrderOneLine, rProbeOrder, rVisitAll, rDomainGetter, rFramePerEntry, rReport, rReverse, rFuncName, rIndexFound, rPerLayer, scoped(rWalkMulti, "the report visitor", func(_ *core.Ctx, k string) bool { return strings.Contains(k, "visitAllMulti") }), rStackSlot, rStackParse, scoped(rStackEmpty, "the frame parser", func(_ *core.Ctx, k string) bool { return strings.Contains(k, "parsePrintedStack:") }), scoped(rOneParser, "GetReportableStackTrace", func(_ *core.Ctx, k string) bool { return containsAny(k, "GetReportableStackTrace", "convertPkgStack") }), rEffectReport, {Name: "R-TAINT/S5", Doc: "the S5 sub-class of R-TAINT: provenance of every value written into the Sentry message, exceptions and extras", Run: func(c *core.Ctx) { runTaintFiltered(c, func(s *Sink) bool { return s.Class == "S5" }) }},
			{Name: "R-LOOP-EXITS", Doc: rLoopExits.Doc, Run: func(c *core.Ctx) { runLoopExits(c, map[string]bool{"report.visitAllMulti": true}) }}},
		Explain: "Decides: nil gives (nil, nil); the layer walk visits every node of the tree; stacks and safe details are collected in lock-step per node; every exception's module is the error's domain; the message is laid out source location / redacted verbose rendering / composition; the 'error types' extra is the per-layer buffer; the stack re-parsing covers the same type keys as the one-line source; provenance of every event field (S5). " +
			"NOT decided: counting/ordering relations over runtime lists (exactly one exception per stack, one type line per layer).",
		Trusted: []string{"go/ssa", "sentry-go"},
	})
	register(&Prop{
		ID: "C20",
		Rules: []*Rule{rArgUsed, forwardScoped("EncodeError", "DecodeError"), scoped(rAlwaysWraps, "WrapWithGrpcCode and the status helpers always attach the code they are given", func(_ *core.Ctx, k string) bool { return containsAny(k, "Grpc", "status.") }), rGrpcFlow, scoped(rDecline, "the decoders of the gRPC code and status types", func(_ *core.Ctx, k string) bool { return containsAny(k, "extgrpc", "status") }), scoped(rCodeGetter, "the gRPC code accessor", func(_ *core.Ctx, k string) bool { return strings.Contains(k, "GetGrpcCode") }), {Name: "R-CODEC", Doc: rCodec.Doc + " (restricted to the gRPC code wrapper and the gRPC status types)", Run: func(c *core.Ctx) {
			runCodec(c, func(cp *codecPair) bool {
				return strings.Contains(cp.Name, "extgrpc") || strings.Contains(cp.Name, "status.")
			})
		}}},
		Explain: "Decides the value flow through both interceptors (which value is inspected, encoded, returned on each edge) and slot agreement for withGrpcCode. NOT decided: equality with the direct EncodeError/DecodeError path (protobuf Any round trip and the gRPC runtime are outside the analysis).",
		Trusted: []string{"go/ssa", "gogo/status, grpc"},
	})
	register(&Prop{
		ID: "C19",
		Rules: []*Rule{rTagsStrings, scoped(rJoinNode, "a Join of a single error is still a node: the accessors stop at it", nil), rArgUsed, forwardScoped("WithHint*", "WithDetail*", "WithIssueLink", "UnimplementedError*", "WithTelemetry", "WithContextTags", "WithSafeDetails", "GetAll*", "Flatten*", "GetTelemetryKeys", "GetContextTags", "HasIssueLink", "IsIssueLink", "HasUnimplementedError", "IsUnimplementedError"), scoped(rFormatArg, "a stored hint / link text is printed, never used as a format", func(_ *core.Ctx, k string) bool { return containsAny(k, "hintdetail", "issuelink", "telemetrykeys") }), scoped(rEffect, "the accessors never rewrite the annotation they read", func(_ *core.Ctx, k string) bool {
			return containsAny(k, "keys", "hint", "detail", "IssueLink", "tags", "telemetry", "SafeDetails")
		}), rPassThroughGuard, rLayerGetter, scoped(rOrder, "the hint/detail/link/tag/safe-detail accessors", func(_ *core.Ctx, k string) bool { return !strings.Contains(k, "GetOneLineSource") }), rHintProviders, rDedup, rFlattenSep, rGuardField, scoped(rFormatStored, "the hint and detail constructors", func(_ *core.Ctx, k string) bool { return containsAny(k, "Hint", "Detail", "printf-like") }), scoped(rAlwaysWraps, "the hint/detail/link/key/tag/safe-detail constructors", func(_ *core.Ctx, k string) bool {
			return containsAny(k, "WithHint", "WithDetail", "WithIssueLink", "WithTelemetry", "WithContextTags", "WithSafeDetails", "UnimplementedError")
		}), scoped(rStdIdentity, "the accessor packages", func(_ *core.Ctx, k string) bool {
			return containsAny(k, "hintdetail.", "issuelink.", "telemetrykeys.", "contexttags.", "safedetails.", "errbase.GetAllSafeDetails")
		}), {Name: "R-LOOP-EXITS", Doc: rLoopExits.Doc, Run: func(c *core.Ctx) {
			runLoopExits(c, map[string]bool{"telemetrykeys.GetTelemetryKeys": true, "issuelink.GetAllIssueLinks": true, "contexttags.GetContextTags": true, "errbase.GetAllSafeDetails": true})
		}}},
		Explain: "Decides the structural side of the aggregation contract: the standard-hint providers exist and use the exported texts; hints/details accessors descend before they emit (innermost-first) while links/tags/safe-details append from the outermost layer; hints are appended only on the not-seen edge of a set keyed by the hint, details are not de-duplicated; both Flatten functions use the documented separator; optional members are emitted under a test of that very member; the walking loops have no early exit (every layer and every key is seen). " +
			"NOT decided: exact list contents for all inputs.",
		Trusted: []string{"go/ssa"},
	})
	register(&Prop{
		ID: "C12",
		Rules: []*Rule{rHiddenDetails, rFill, rDetailsOrder, {Name: "R-TAINT/redactable", Doc: "a text the library declares safe stays safe as a whole: conversions to redact.RedactableString take only strings that were built as redactable - a constant message relabelled by a cast has the parts between marker runes treated as unsafe and redacted away", Run: func(c *core.Ctx) { runTaintFiltered(c, func(s *Sink) bool { return s.Mode == "redactable" }) }}, rFmtProbeOrder, rDepth, scoped(rFormatArg, "a constant message is stored as it is, never interpreted as a format", func(_ *core.Ctx, k string) bool { return containsAny(k, "errutil.") }), rOwnedBranches, rArgUsed, forwardScoped("WithSafeDetails", "GetAllSafeDetails", "GetSafeDetails", "WithTelemetry", "WithDomain", "New*", "Errorf", "Wrap*", "WithMessage*"), rPassThroughGuard, scoped(rEffect, "read-only operations (accessors, SafeDetails, report building) never rewrite what an error carries as safe details", func(_ *core.Ctx, k string) bool {
			return containsAny(k, "SafeDetails", "safeDetails", "tags", "keys", "details")
		}), rRetain, rErrRefs, rHideKeep, rLoopAlias, rAlwaysWraps, rMemo, scoped(rStdIdentity, "formatting and reporting code", func(_ *core.Ctx, k string) bool {
			return containsAny(k, "errutil.", "errbase.", "report.", "withstack.", "safedetails.", "barriers.", "secondary.")
		}), scoped(rCodec, "clauses A4-A6: every safe-carrying field is written, restored and read", func(_ *core.Ctx, k string) bool { return containsAny(k, "] A4 ", "] A5 ", "] A6 ") })},
		Explain: "Decides that every input the library declares PII-free reaches a SAFE position (redact format string, redact.Safe argument, or a field handed out by SafeDetails()/printed as Safe) through every forwarding layer - so it is not redacted away; that captured error arguments are attached as secondary errors on every path; that content behind barriers/secondary errors is folded into SafeDetails() and printed; and (R-CODEC) that those fields have wire-slot agreement so they are still there after a hop. " +
			"NOT decided: presence of a given token in the final report text (string-level), GetAllSafeDetails' per-layer walk beyond UnwrapOnce.",
		Trusted: []string{"go/ssa", "the safe-input contract of DESIGN §4.5"},
	})
	register(&Prop{
		ID:    "C18",
		Rules: []*Rule{rResultFresh, rGlobalAddr, rGlobalAlias, rEffect},
		Explain: "Decides, for every schedule at once, that no hand-written module function reachable from a read-only operation writes to state shared between goroutines: not to (anything reachable from) an error object through a non-fresh pointer, not to a package-level variable or map (unless under a dominating Lock()), and that no map iteration order can reach a result (determinism). " +
			"NOT decided: races inside dependencies (redact, sentry, fmt, logtags), foreign error types' methods, 'same result as alone' beyond absence of shared writes and map-order dependence.",
		Trusted: []string{"go/ssa + VTA call graph (no go/pointer: freshness is by allocation site and call-site check)", "dependencies are race-free for read-only use"},
	})
	register(&Prop{
		ID:    "C11",
		Rules: []*Rule{scoped(rFormatArg, "decoders: a received text is stored, never used as a format", func(_ *core.Ctx, k string) bool { return containsAny(k, ".decode") }), rEncVerbatim, rMemo, scoped(rGrpcFlow, "the gRPC code of an error is the same after the interceptors as after a direct transfer", nil), rProbeOrder, rOSPredicate, rFramePerEntry, rCodec, rPayloadDecoder, rGenericPath, rListRoundTrip, rDecline, rRegType, rErrnoTable, rStackSlot, rStackWhole, rStackParse, rStackEmpty, rTreeRec, rOneParser, rSiblingGuard, rCodeGetter},
		Explain: "Decides, for every registered type key, that each annotation field has a wire slot that the writer fills from that same field and the reader restores into that same field (payload members, positional safe details, message), that decoders rebuild the key's own type (so flag types recognised by Go type survive), that errno predicates travel in matching pairs, and that the printed-stack slot is re-parsed for the same key set by both stack accessors. " +
			"NOT decided: equality of re-parsed frames (text parsing), tag values rendered through ValueStr, OS predicates on foreign platforms beyond the pairing.",
		Trusted: []string{"go/ssa", "gogo/protobuf marshalling of the payload messages"},
	})
	register(&Prop{
		ID: "C01",
		Rules: []*Rule{rEncDispatch, rPrefixCut, scoped(rCmpGuard, "encoding and decoding never compare or hash error values of unknown dynamic type", func(_ *core.Ctx, k string) bool {
			return containsAny(k, "errbase.encode", "errbase.decode", "errbase.Encode", "errbase.Decode")
		}), rGenericMsg, scoped(rEffect, "encoding and decoding are functions of their argument: no package-level memo in the codec path", func(_ *core.Ctx, k string) bool { return containsAny(k, "ncode", "ecode", "extractPrefix") }), rDecodeReadonly, rSpecialText, scoped(rCodec, "fields that Error() reads, and the cause", codecTextFields), rOpaque, rDecodeResult, rElide, rTreeRec, rRegType, rSep, scoped(rShape, "the opaque types (what an unknowing process renders)", func(_ *core.Ctx, k string) bool { return strings.Contains(k, "opaque") }), scoped(rWalkMulti, "the encoder walk", func(_ *core.Ctx, k string) bool { return containsAny(k, "EncodeError", "is a leaf for UnwrapOnce") }), rSiblingGuard, rLoopAlias, rWriteFaithful, rErrnoTable, scoped(rFormatArg, "encoders, decoders and the opaque types", func(_ *core.Ctx, k string) bool { return containsAny(k, ".decode", ".encode", "opaque") })},
		Explain: "Decides the structural necessary conditions of text/shape preservation: writer/reader slot agreement for every field that Error() reads (R-CODEC), verbatim keep-and-re-emit of message, details, message type and causes by unknowing processes (R-OPAQUE-TRANSPORT), cause/branch recursion on both sides in index order with no branch dropped for any count (R-TREE-RECURSION, R-WALK-MULTI), decoders rebuilding the key's type (no drift after hop 1), one separator constant removed exactly (R-SEP), and Error()/formatter shape agreement. " +
			"NOT decided: equality of Error() strings for all messages (in particular suffix-matching ambiguity in extractPrefix for messages containing \": \"), protobuf marshalling itself.",
		Trusted: []string{"go/ssa", "gogo/protobuf"},
	})
	register(&Prop{
		ID:    "C02",
		Rules: []*Rule{rMarkEquals, scoped(rWalkMulti, "the encoder walk: every branch of a multi-cause node is encoded through EncodeError", func(_ *core.Ctx, k string) bool { return containsAny(k, "EncodeError") }), rErrnoTable, rGenericMsg, rMigration, rTypeNameRaw, rKeyMarker, scoped(rCodec, "identity-relevant fields: those Error() reads, explicit marks, domains", codecIdentityFields), rRegType, rDecodeResult, rDecline, rOpaque, rTypeKeyWho, rMarkLayers, rTreeRec, rSep, scoped(rShape, "the opaque types (the text an unknowing process contributes to identity)", func(_ *core.Ctx, k string) bool { return strings.Contains(k, "opaque") }), scoped(rFormatArg, "encoders, decoders and the opaque types", func(_ *core.Ctx, k string) bool { return containsAny(k, ".decode", ".encode", "opaque") }), scoped(rStdIdentity, "identity tests", func(_ *core.Ctx, k string) bool { return containsAny(k, "errors.Is", "errors.As") }), scoped(rAlwaysWraps, "Mark: the portable mark is always attached", func(_ *core.Ctx, k string) bool { return strings.Contains(k, "Mark(") })},
		Explain: "Identity = (Error() text, chain of (family name, extension)). Decides that every identity-relevant field has slot agreement (incl. withMark's explicit mark and withDomain's extension), decoders rebuild the key's type, unknowing hops keep and re-emit the received names, every consumer of identity goes through getTypeDetails with the full mark where the extension matters, and a mark has one full type mark per layer. " +
			"NOT decided: that text is preserved (C01's undecided part), semantics of foreign Is methods, 'never starts matching' over all pairs.",
		Trusted: []string{"go/ssa"},
	})
	register(&Prop{
		ID: "C04",
		Rules: []*Rule{rPrefixCut, scoped(rProtocol, "UnwrapOnce - the dispatch between leaf and wrapper encoding - probes the single-cause protocols only", func(_ *core.Ctx, k string) bool { return strings.Contains(k, "UnwrapOnce") }), rGenericMsg, rDecodeReadonly, rReencodeStable, scoped(rEffect, "reading or forwarding an error never rewrites the details it stores from the wire", func(_ *core.Ctx, k string) bool {
			return containsAny(k, "SafeDetails", "details", "opaque", "ReportablePayload")
		}), rOpaque, rDecodeResult, rWireMsg, rTreeRec, rRegType, rCodec, scoped(rShape, "the opaque types", func(_ *core.Ctx, k string) bool { return strings.Contains(k, "opaque") }), rSiblingGuard, rSep},
		Explain: "Decides that opaque values keep and re-emit exactly what was received (message, details incl. payload Any, message type, causes - R-OPAQUE-TRANSPORT, R-TREE-RECURSION), that the wire message each registered encoder sends is what an unknowing receiver needs to rebuild Error() for the type's Error() shape (R-WIRE-MSG), and that a later knowing receiver rebuilds from payload/details (R-CODEC, R-REGTYPE). " +
			"NOT decided: %+v equality at the final receiver; the renaming simulation (a runtime configuration). Known findings: barrier and gRPC-status encoders (see known_findings.json).",
		Trusted: []string{"go/ssa"},
	})
	register(&Prop{
		ID: "C07",
		Rules: []*Rule{scoped(rCodeGetter, "a code accessor reads the code from the layer that carries it, never from the safe details relayed by a barrier or secondary-error wrapper", nil), rBarrierFresh, rHiddenDetails, rFill, rArgNotCause, scoped(rNil, "WithSecondaryError with a nil primary error returns nil: the secondary error never becomes the result itself", func(_ *core.Ctx, k string) bool { return containsAny(k, "WithSecondaryError") }), rMarkLayers, rArgUsed, forwardScoped("Handled*", "Opaque", "HandleAsAssertionFailure*", "NewAssertionErrorWithWrappedErrf", "WithSecondaryError", "CombineErrors", "Mark"), rDomainGetter, scoped(rWriteFaithful, "the renderer gives back every newline it takes (Handled computes its message through it)", func(_ *core.Ctx, k string) bool { return strings.Contains(k, "separator") }), scoped(rDetailPrint, "the hidden errors of barriers and secondary-error wrappers are printed, as values, in the verbose rendering", func(_ *core.Ctx, k string) bool { return containsAny(k, "maskedErr", "secondaryError") }), rHide, rHideKeep, rBarrierCtor, rWrapDual, rErrRefs, rFormatArg, rSecondaryAttach, scoped(rRegType, "the barrier and secondary-error types", func(_ *core.Ctx, k string) bool { return containsAny(k, "barriers.", "secondary.") }), {Name: "R-CODEC", Doc: rCodec.Doc + " (restricted to the barrier and secondary-error types)", Run: func(c *core.Ctx) {
			runCodec(c, func(cp *codecPair) bool { return containsAny(cp.Name, "barriers.", "secondary.") })
		}}, {Name: "R-TAINT/redactable", Doc: "the hidden message of a barrier is carried as a redactable string: conversions to redact.RedactableString in package barriers (and what its decoders receive) only from strings that were built as redactable - a plain string relabelled as redactable, or a redactable one escaped again, changes the message text after a hop", Run: func(c *core.Ctx) {
			runTaintFiltered(c, func(s *Sink) bool { return s.Mode == "redactable" && strings.Contains(s.Name, "barriers.") })
		}}, scoped(rAlwaysWraps, "the barrier and secondary-error constructors", func(_ *core.Ctx, k string) bool {
			return containsAny(k, "Handled", "Opaque", "CombineErrors", "WithSecondaryError", "AssertionFailure", "AssertionError")
		})},
		Explain: "Decides, for all compositions and after decoding (decoders rebuild the same types; opaque fallbacks keep the payload inside an Any), that the error stored behind a barrier or as a secondary error cannot reach any Return, call, comparison or store other than printing, encoding and the safe-details walk (so no Unwrap/Cause/Is/As/accessor can see it); that it stays printed in %+v and folded into SafeDetails(); that every constructor which hides a parameter never also exposes it; and that Cause()/Unwrap() of every wrapper return the same, visible, field. " +
			"NOT decided: 'Handled keeps the hidden text exactly' (redact rendering = Error()), behaviour of foreign types embedded in the hidden content.",
		Trusted: []string{"go/ssa"},
	})
	register(&Prop{
		ID: "C06",
		Rules: []*Rule{rSafeSink, rFormattable, scoped(rFmtDelegate, "the Formattable adapter and the module types route every verb through the one dispatcher (no fast path that writes Error() directly)", nil), rEsc, rBufFlag, rWriteFaithful, rVerbDispatch, rRedactableOps, {Name: "R-TAINT/redactable", Doc: "the S3 sub-class of R-TAINT that concerns well-formedness: every conversion of a plain string/[]byte to redact.RedactableString/RedactableBytes takes a value that was BUILT as a redactable string (redact.Sprint*/Redact(), a typed RedactableString input, or the wire slot an encoder fills from one) - never a merely safe plain string, whose marker runes would not be escaped",
			Run: func(c *core.Ctx) { runTaintFiltered(c, func(s *Sink) bool { return s.Mode == "redactable" }) }}},
		Explain: "Decides the structural half of well-formedness and of the refusal clause: unsafe layer text reaches the redactable buffer only escaped-and-enclosed (R-ESC); the 'already redactable' flag is set only for text produced by the safe printer (R-BUFFLAG); plain strings are never re-labelled as redactable without escaping; the verb dispatch refuses %q/%x/%X/%#v under redactable output and honours width/precision in every case (exhaustive evaluation of the guard predicates). " +
			"NOT decided: balance/non-nesting/per-line balance for arbitrary input bytes (the redact package's escaping and state.Write's newline bookkeeping are loop arithmetic over runtime bytes), and marker-stripping congruence with the plain rendering.",
		Trusted: []string{"go/ssa, go/ast", "redact.EscapeBytes / redact.Sprint* produce well-formed markers"},
	})
	register(&Prop{
		ID:    "C03",
		Rules: []*Rule{rFmtProbeOrder, rSafeSink, rTaint, rSpecialLeaf, rEsc, rBufFlag, rRedactableOps},
		Explain: "Decides, for EVERY PII-free output position of the module and every value that can reach it (all compositions, hops and unknowing receivers at once, because decoders, opaque types and encoders are sources/sinks like any other), that its data origins lie in the library's documented safe classes: " +
			"S1 SafeDetails()/GetSafeDetails payloads, S2 encoders' reportable strings, S3 every redact.Safe/Safe*-conversion/format-string/RedactableString-conversion site, S4 the formatter's final buffer (raw layer text only under !redactable || entry.redactable, else escaped; redactable flag only on safe-printer arms), S5 every write into the Sentry message/exception/extras; the special-case printers declare whole texts safe only for true leaves. " +
			"NOT decided: the redact package's own escaping of marker runes and newlines inside strings (hostile alphabet), third-party SafeDetails()/SafeFormatter implementations (contract trusted).",
		Trusted: []string{"go/ssa"},
	})
	register(&Prop{
		ID: "C14",
		Rules: []*Rule{rIsDelegate, {Name: "R-LOOP-EXITS", Doc: rLoopExits.Doc + " (here: Is, IsAny and As test every layer itself before, or besides, searching its branches)", Run: func(c *core.Ctx) {
			runLoopExits(c, map[string]bool{"markers.Is": true, "markers.IsAny": true, "errutil.As": true})
		}}, rJoinFilter, rMultiUncond, rProtocol, rWrapDual, rStdIdentity, rUnwrapAll, rWalkCurrent, rCmpGuard, rIsMethod, rAsTarget, rOwnedBranches, scoped(rWalkMulti, "Is, IsAny, As", func(_ *core.Ctx, k string) bool {
			return containsAny(k, "markers.Is", "errutil.As", "is a leaf for UnwrapOnce")
		}), forwardScoped("Is", "IsAny", "As", "If", "HasType", "HasInterface", "Unwrap", "UnwrapOnce", "UnwrapAll", "UnwrapMulti", "Cause")},
		Explain: "Decides the structural side of drop-in compatibility: the library probes exactly the standard protocol methods (Is/As/Unwrap/Unwrap []error/Cause) with their exact signatures and precedence; every library wrapper implements both Cause() and Unwrap() over the same field so stdlib and pkg/errors traverse library chains; Is/As recurse into multi-cause branches in order; the root API forwards to the right implementation with parameters in order. " +
			"NOT decided: differential agreement with errors.Is/As/pkg-errors.Cause on all inputs.",
		Trusted: []string{"go/ssa", "the standard library's own Is/As/Unwrap semantics"},
	})
	register(&Prop{
		ID: "C13",
		Rules: []*Rule{rElide, rEncDispatch, rVisitAll, rJoinFilter, rMultiUncond, rJoinElements, rWalkMulti, rTreeRec, scoped(rOpaque, "the causes of multi-cause nodes", func(_ *core.Ctx, k string) bool {
			return containsAny(k, "causes", "MultierrorCauses", "opaqueLeafCauses")
		}), rOwnedBranches, rLoopAlias, rJoinNode, rDecodeNonNil, scoped(rProtocol, "multi-cause errors are leaves for UnwrapOnce", func(_ *core.Ctx, k string) bool {
			return containsAny(k, "UnwrapOnce", "UnwrapMulti", "Unwrap() []error")
		}), scoped(rShape, "the multi-cause types: Error() and the formatter render the same, live, branch texts", func(_ *core.Ctx, k string) bool { return containsAny(k, "join", "Causes") }), scoped(rFmtDelegate, "the multi-cause types (their own Format must hand the whole node to the dispatcher)", func(_ *core.Ctx, k string) bool { return containsAny(k, "opaqueLeafCauses", "joinError", "Causes") }), {Name: "R-LOOP-EXITS", Doc: rLoopExits.Doc, Run: func(c *core.Ctx) {
			runLoopExits(c, map[string]bool{"markers.Is": true, "markers.IsAny": true, "errutil.As": true, "report.visitAllMulti": true})
		}}},
		Explain: "Decides that every tree walker (Is, IsAny, As, formatter, report visitor, encoder) applies itself to each branch of every chain node's UnwrapMulti in forward order, and that multi-cause types are leaves for Unwrap/UnwrapOnce. " +
			"NOT decided: 'exactly when' (no false positives of the search), Join dropping nils / nil result, Error() = newline-joined branch texts.",
		Trusted: []string{"go/ssa"},
	})
	register(&Prop{
		ID:    "C09",
		Rules: []*Rule{scoped(rProtocol, "UnwrapOnce probes the single-cause protocols only, so the formatter enters every node once", func(_ *core.Ctx, k string) bool { return strings.Contains(k, "UnwrapOnce") }), rFinish, rVisitAll, rFormattable, rFmtDelegate, rShape, rDetailPrint, rElide, rVerbDispatch, rGuardField, rSep, rStateFlags, rWriteFaithful, scoped(rFormatArg, "the detail formatters: a stored text is printed, not used as a format", func(_ *core.Ctx, k string) bool { return containsAny(k, "FormatError", "SafeFormatError") }), rSpecialText, scoped(rCodec, "clause A2: details that a decoder reads by position are written at fixed positions, so each wrapper's own detail lands in its own field (and is printed under its own label) after a hop", func(_ *core.Ctx, k string) bool { return strings.Contains(k, "] A2 ") })},
		Explain: "Decides the code-level reasons the verbs are mutually consistent: every instantiated library type routes Format through the single dispatcher FormatError; Error() and the detail formatter of each type agree on the message shape (so %v/%s = Error() at every depth); each wrapper's annotation fields reach a Print inside the detail region. " +
			"NOT decided: width/precision/flag rendering (delegated to fmt), entry numbering/indentation and the 'Error types' line (loop arithmetic over runtime lists), comparison with reference renderings.",
		Trusted: []string{"go/ssa", "fmt and redact formatting semantics"},
	})
	register(&Prop{
		ID: "C08",
		Rules: []*Rule{rMarkEquals, rWalkFull, rIsAnyNil, rTypeNameRaw, scoped(rOpaque, "a received layer keeps the family name it came with (getTypeDetails of the opaque types)", func(_ *core.Ctx, k string) bool { return strings.Contains(k, "getTypeDetails") }), scoped(rEffect, "Is/IsAny are pure functions of their arguments: no package-level memo of marks", func(_ *core.Ctx, k string) bool { return containsAny(k, "markers.", "getMark", "Mark") }), rKeyMarker, rCmpGuard, {Name: "R-BOUNDS", Doc: rBounds.Doc + " (restricted to package markers: equalMarks' lock-step indexing is also the 'difference in chain length makes them different' clause)",
			Run: func(c *core.Ctx) {
				runBounds(c, func(rel, fn string) bool { return rel == "markers" })
			}}, rRecover, rNilSafe, rMarkLayers, rCtorCause, rWalkCurrent, rIsMethod, scoped(rWalkMulti, "Is and IsAny range over errbase.UnwrapMulti itself (no derived collection keyed by error values, which may be unhashable)", func(_ *core.Ctx, k string) bool { return strings.Contains(k, "markers.Is") }), rMemo, scoped(rAlwaysWraps, "Mark", func(_ *core.Ctx, k string) bool { return strings.Contains(k, "Mark(") }), scoped(rStdIdentity, "identity tests", func(_ *core.Ctx, k string) bool { return containsAny(k, "errors.Is", "errors.As") }), {Name: "R-LOOP-EXITS", Doc: rLoopExits.Doc, Run: func(c *core.Ctx) {
			runLoopExits(c, map[string]bool{"markers.Is": true, "markers.IsAny": true, "errutil.As": true})
		}}},
		Explain: "Decides the totality clauses of Is/IsAny and the chain-length clause of mark equivalence: no unguarded interface comparison, no unproven lock-step index in markers, Error() of foreign errors only under recover, and no nil dereference reachable with nil inputs over the whole accessor surface. " +
			"NOT decided: reflexivity, monotonicity under wrappers, IsAny = OR of Is, and 'exactly when' (semantic equivalences over all pairs of errors).",
		Trusted: []string{"go/ssa", "reflect.Type.Comparable semantics", "nilness lattice"},
	})
	register(&Prop{
		ID: "C16",
		Rules: []*Rule{rStackRaw, rPkgDomain, rProbeOrder, forwardScoped("New*", "Errorf", "Wrap*", "WithStack*", "Join*", "AssertionFailed*", "NewAssertionErrorWithWrappedErrf", "HandleAsAssertionFailure*", "UnimplementedError*", "GetOneLineSource", "GetReportableStackTrace"), rStackParse, scoped(rJoinNode, "JoinWithDepth always goes through WithStackDepth: no shortcut returns an argument without the stack of the call", func(_ *core.Ctx, k string) bool { return strings.Contains(k, "JoinWithDepth") }), rDepth, rMemo, rFuncName, rStackWhole, scoped(rAlwaysWraps, "the stack-capturing constructors: a stack is captured at every call, never skipped because of what the error already carries", func(_ *core.Ctx, k string) bool {
			return containsAny(k, "WithStack", "Wrap", "AssertionFail", "AssertionError", "HandleAsAssertion")
		}), scoped(rBarrierCtor, "the assertion-failure constructors", func(_ *core.Ctx, k string) bool { return containsAny(k, "Assertion") }), scoped(rStackEmpty, "the one-line source parser", func(_ *core.Ctx, k string) bool { return strings.Contains(k, "getOneLineSourceFromPrintedStack") }), rOrderOneLine, scoped(rOneParser, "GetOneLineSource", func(_ *core.Ctx, k string) bool {
			return containsAny(k, "GetOneLineSource", "getOneLineSourceFromPkgStack")
		})},
		Explain: "Decides the depth arithmetic of every exported stack-capturing or domain-computing function of the root package, errutil, withstack and domains, for ALL depths and all forwarding paths at once (affine equation S = 1 [+ depth]). " +
			"NOT decided: GetOneLineSource's text parsing; the Go runtime's skip semantics (inlined frames) are trusted.",
		Trusted: []string{"go/ssa", "semantics of runtime.Callers(skip)/runtime.Caller(skip) incl. inlined frames"},
	})
	register(&Prop{
		ID: "C10",
		Rules: []*Rule{rSep, scoped(rBarrierCtor, "Wrapf with an error among its arguments: the wrapped error stays the primary one (prefix: cause-text)", func(_ *core.Ctx, k string) bool {
			return containsAny(k, "WrapWithDepthf", "secondary", "Handled", "barriers")
		}), rArgUsed, rMultiUncond, rPassThroughGuard, {Name: "R-LOOP-EXITS", Doc: rLoopExits.Doc + " (here: the walks of Is and IsAny - a wrapper above a matching layer never ends the search early)", Run: func(c *core.Ctx) {
			runLoopExits(c, map[string]bool{"markers.Is": true, "markers.IsAny": true, "errutil.As": true})
		}}, rNil, rBoxedNil, rShape, rWrapDual, rCtorCause, rAlwaysWraps, rFormatStored, rOwnedBranches, scoped(rWalkCurrent, "Is, IsAny, If, As and the accessors", nil), scoped(rWalkMulti, "Is, IsAny, As: every layer of the chain looks into its branches, so a match inside a branch survives any wrapper", func(_ *core.Ctx, k string) bool { return containsAny(k, "markers.Is", "errutil.As") }), rFormatArg, rFmtPath, forwardScoped("New*", "Wrap*", "With*", "Errorf", "Handled*", "Opaque", "Mark", "CombineErrors", "Join*", "AssertionFailed*", "NewAssertionErrorWithWrappedErrf", "HandleAsAssertionFailure*", "UnimplementedError*")},
		Explain: "Decides the nil clauses of the property for every exported constructor on every path (nilness abstract interpretation, no execution). " +
			"NOT decided: equality of Error() strings with the compositional model, 'Join of only nils = nil' (a count over runtime arguments).",
		Trusted: []string{"go/ssa", "nilness lattice with branch refinement; unknown callees are Top"},
	})
	register(&Prop{
		ID:    "C05",
		Rules: []*Rule{rRegistryClosure, rAssertNil, rRegistryNonNil, rAssertOK, rBounds, rNilField, rDecodeNonNil, rTypedNil, rEnumTotal, rUnmarshalOK, rPbNilPtr, scoped(rOpaque, "the opaque arms of encodeLeaf/encodeWrapper: a received opaque value is re-emitted from its stored fields and never handed to a registered encoder (whose type assertion would panic)", func(_ *core.Ctx, k string) bool { return strings.Contains(k, "re-emits") })},
		Explain: "Decides, for every site in /repo's hand-written source, structural necessary conditions of 'DecodeError and the decoded error's methods never panic': " +
			"no unchecked type assertion on wire-controlled values (R-ASSERT-OK). " +
			"NOT decided: panics inside dependencies (gogo/protobuf UnmarshalAny, grpc status), arbitrary fuzzed bytes, and panic classes other than failed type assertions, out-of-range indexing and nil dereference of decoder-built fields.",
		Trusted: []string{"go/types + go/ssa (x/tools v0.29.0)", "registry census: Register* call sites resolved through SSA"},
	})
}

// scoped rule variants -------------------------------------------------------

func forwardScoped(names ...string) *Rule {
	set := map[string]bool{}
	for _, n := range names {
		set[n] = true
	}
	return &Rule{Name: "R-FORWARD", Doc: rForward.Doc + " (restricted to: " + strings.Join(names, ", ") + ")", Run: func(c *core.Ctx) {
		runForward(c, func(n string) bool {
			if set[n] {
				return true
			}
			for k := range set {
				if strings.HasSuffix(k, "*") && strings.HasPrefix(n, strings.TrimSuffix(k, "*")) {
					return true
				}
			}
			return false
		})
	}}
}

var rOrderOneLine = &Rule{Name: "R-ORDER", Doc: "GetOneLineSource descends (recursive call on UnwrapOnce(err)) before it inspects its own layer: the innermost stack wins, whether native or decoded", Run: func(c *core.Ctx) {
	saved := rOrder.Run
	_ = saved
	runOrderOnly(c, "GetOneLineSource")
}}

var rEffectReport = &Rule{Name: "R-EFFECT", Doc: rEffect.Doc + " (restricted to what report building reaches: BuildSentryReport, GetReportableStackTrace, GetOneLineSource)", Run: func(c *core.Ctx) {
	runEffect(c, func(f *ssa.Function) bool {
		n := f.Name()
		return n == "BuildSentryReport" || n == "GetReportableStackTrace" || n == "GetOneLineSource"
	})
}}

// codecTextFields keeps R-CODEC obligations about fields that make up the
// Error() text (and the cause / structural clauses A1, A3).
func codecTextFields(c *core.Ctx, k string) bool { return codecFieldScope(c, k, false) }

// codecIdentityFields additionally keeps marks and domains.
func codecIdentityFields(c *core.Ctx, k string) bool { return codecFieldScope(c, k, true) }

func codecFieldScope(c *core.Ctx, k string, identity bool) bool {
	// construct: "<type> [<enc> <-> <dec>] <clause> <field> ..."
	i := strings.Index(k, "] ")
	if i < 0 {
		return true
	}
	rest := strings.Fields(k[i+2:])
	if len(rest) == 0 {
		return true
	}
	clause := rest[0]
	if clause == "A1" || clause == "A3" || clause == "A9" {
		return true
	}
	if len(rest) < 2 {
		return true
	}
	field := rest[1]
	typ := strings.TrimPrefix(strings.Fields(k)[0], "*")
	if clause == "A2" || clause == "A4" {
		return false // slot-level clauses are accounted under the field-level ones here
	}
	top := strings.Split(field, ".")[0]
	for _, et := range GetCensus(c).ErrTypes {
		if et.Name() != typ {
			continue
		}
		sh := GetShapes(c)[et.Named]
		if sh.CauseField != nil && sh.CauseField.Name() == top {
			return true
		}
		for f := range sh.ErrFields {
			if f.Name() == top {
				return true
			}
		}
		if identity && (top == "mark" || top == "domain") {
			return true
		}
		// hidden errors are part of the tree's text only through their own Error(); not here
		return false
	}
	// foreign types (os.PathError …): all their fields make up the text
	return true
}
