package rules

func init() {
	register(&Prop{
		ID:    "C16",
		Rules: []*Rule{rDepth},
		Explain: "Decides the depth arithmetic of every exported stack-capturing or domain-computing function of the root package, errutil, withstack and domains, for ALL depths and all forwarding paths at once (affine equation S = 1 [+ depth]). " +
			"NOT decided: GetOneLineSource's text parsing; the Go runtime's skip semantics (inlined frames) are trusted.",
		Trusted: []string{"go/ssa", "semantics of runtime.Callers(skip)/runtime.Caller(skip) incl. inlined frames"},
	})
	register(&Prop{
		ID:    "C10",
		Rules: []*Rule{rNil},
		Explain: "Decides the nil clauses of the property for every exported constructor on every path (nilness abstract interpretation, no execution). " +
			"NOT decided: equality of Error() strings with the compositional model, 'Join of only nils = nil' (a count over runtime arguments).",
		Trusted: []string{"go/ssa", "nilness lattice with branch refinement; unknown callees are Top"},
	})
	register(&Prop{
		ID:    "C05",
		Rules: []*Rule{rAssertOK, rBounds, rNilField, rDecodeNonNil, rEnumTotal},
		Explain: "Decides, for every site in /repo's hand-written source, structural necessary conditions of 'DecodeError and the decoded error's methods never panic': " +
			"no unchecked type assertion on wire-controlled values (R-ASSERT-OK). " +
			"NOT decided: panics inside dependencies (gogo/protobuf UnmarshalAny, grpc status), arbitrary fuzzed bytes, and panic classes other than failed type assertions, out-of-range indexing and nil dereference of decoder-built fields.",
		Trusted: []string{"go/types + go/ssa (x/tools v0.29.0)", "registry census: Register* call sites resolved through SSA"},
	})
}
