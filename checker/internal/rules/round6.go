package rules

import (
	"fmt"
	"go/token"
	"go/types"
	"strings"

	"golang.org/x/tools/go/ssa"

	"verif/checker/internal/core"
	"verif/checker/internal/load"
	"verif/checker/internal/sx"
)

// ---------------------------------------------------------------------------
// R-BOXED-NIL

var rBoxedNil = &Rule{
	Name: "R-BOXED-NIL",
	Doc: "no nil pointer is boxed into an error: wherever module code converts a pointer to the error interface and returns it, the pointer is a fresh allocation, or - when it is the result of a module function that can return a nil pointer (a constructor helper with a `return nil` for a nil argument), or a merge with a nil constant - " +
		"the conversion happens only where the pointer has been tested non-nil. A boxed nil pointer is a non-nil error: `WithX(nil)` would stop being nil and defeat every `if err != nil` downstream",
	Run: func(c *core.Ctx) {
		p := c.P
		n := 0
		// canBeNil: v (of pointer type) may be the nil pointer
		var canBeNil func(v ssa.Value, d int) (bool, string)
		canBeNil = func(v ssa.Value, d int) (bool, string) {
			if d > 4 {
				return false, ""
			}
			switch x := v.(type) {
			case *ssa.Const:
				return x.IsNil(), "a nil constant"
			case *ssa.Phi:
				for _, e := range x.Edges {
					if nb, why := canBeNil(e, d+1); nb {
						return true, why
					}
				}
			case *ssa.Call:
				h := sx.Callee(x)
				if h == nil || h.Blocks == nil || !p.InModule(h) {
					return false, ""
				}
				for _, r := range sx.Returns(h) {
					if len(r.Results) == 1 {
						if nb, _ := canBeNil(r.Results[0], d+1); nb {
							return true, "the result of " + load.FnName(h) + ", which returns nil on some path"
						}
					}
				}
			}
			return false, ""
		}
		for _, fn := range p.HandFuncs() {
			sx.EachInstr(fn, func(in ssa.Instruction) {
				mi, ok := in.(*ssa.MakeInterface)
				if !ok || !sx.IsErrorType(mi.Type()) {
					return
				}
				if _, isPtr := types.Unalias(mi.X.Type()).Underlying().(*types.Pointer); !isPtr {
					return
				}
				// only values handed out as the function's result (a typed nil used as a type witness, as in
				// GetTypeKey((*T)(nil)), is not an error value anybody tests)
				returned := false
				var flows func(v ssa.Value, d int)
				flows = func(v ssa.Value, d int) {
					if d > 3 || v.Referrers() == nil {
						return
					}
					for _, r := range *v.Referrers() {
						switch y := r.(type) {
						case *ssa.Return:
							returned = true
						case *ssa.Phi:
							flows(y, d+1)
						}
					}
				}
				flows(mi, 0)
				if !returned {
					return
				}
				n++
				nb, why := canBeNil(mi.X, 0)
				if !nb {
					return
				}
				guarded := false
				for _, l := range dominatingLits(mi.Block()) {
					if bin, isBin := l.V.(*ssa.BinOp); isBin && ((bin.Op == token.NEQ && !l.Neg) || (bin.Op == token.EQL && l.Neg)) {
						if (bin.X == mi.X && sx.IsNil(bin.Y)) || (bin.Y == mi.X && sx.IsNil(bin.X)) {
							guarded = true
						}
					}
				}
				c.Check(guarded, load.FnName(fn)+": "+load.TypeName(mi.X.Type())+" boxed into error", sx.InstrPos(mi), "the pointer is known to be non-nil where it becomes an error",
					"a pointer that can be nil ("+why+") is converted to the error interface without a nil test: for that input the function returns a non-nil error holding a nil pointer")
			})
		}
		c.Min("pointer-to-error conversions returned as results", n, 40)
	},
}

var _ = fmt.Sprintf
var _ = strings.Contains

// ---------------------------------------------------------------------------
// R-ELIDE

var rElide = &Rule{
	Name: "R-ELIDE",
	Doc: "message ownership is honoured at every site of (*state).formatRecursive (and the unexported methods it hands work to): wherever a layer can announce that its text replaces its causes' - SafeFormatError / FormatError returning nil, a special-case printer returning a nil next error, formatSimple returning true - " +
		"there is a call of elideShortChildren on the edge where the announcement was made. Dropping the reaction at one site makes a layer of that kind print its causes' texts after its own full message: %v differs from Error(), and differs before and after a hop (where the layer becomes an opaque wrapper, which takes another site)",
	Run: func(c *core.Ctx) {
		p := c.P
		st := p.Named("errbase", "state")
		if st == nil {
			c.InternalErr("errbase.state", "type not found")
			return
		}
		fr, elide, fs := p.Method(st, "formatRecursive"), p.Method(st, "elideShortChildren"), p.Method(st, "formatSimple")
		if fr == nil || elide == nil || fs == nil {
			c.InternalErr("(*errbase.state).formatRecursive / elideShortChildren / formatSimple", "anchor methods not found")
			return
		}
		reg := regionOf(fr, elide, fs)
		// the elide calls and the literals that hold there
		type site struct {
			call *ssa.Call
			lits []lit
		}
		var elides []site
		reg.each(func(in ssa.Instruction) {
			if call, ok := in.(*ssa.Call); ok && sx.Callee(call) == elide {
				elides = append(elides, site{call, reg.lits(call.Block())})
			}
		})
		isNilTest := func(l lit, v ssa.Value) bool {
			bin, ok := l.V.(*ssa.BinOp)
			if !ok {
				return false
			}
			if !((bin.X == v && sx.IsNil(bin.Y)) || (bin.Y == v && sx.IsNil(bin.X))) {
				return false
			}
			return (bin.Op == token.EQL && !l.Neg) || (bin.Op == token.NEQ && l.Neg)
		}
		n := 0
		reg.each(func(in ssa.Instruction) {
			call, ok := in.(*ssa.Call)
			if !ok {
				return
			}
			var what string
			var holds func(l lit) bool
			switch {
			case sx.Callee(call) == fs:
				what = "formatSimple reporting that the layer owns the whole message"
				holds = func(l lit) bool {
					if l.Neg {
						return false
					}
					if l.V == ssa.Value(call) {
						return true
					}
					// merged with `true` on other edges (always elide for multi-cause nodes): the result still implies it
					if ph, ok := l.V.(*ssa.Phi); ok {
						has := false
						for _, e := range ph.Edges {
							if e == ssa.Value(call) {
								has = true
							} else if cst, ok := e.(*ssa.Const); !ok || cst.Value == nil || cst.Value.String() != "true" {
								return false
							}
						}
						return has
					}
					return false
				}
			case call.Call.IsInvoke() && (call.Call.Method.Name() == "SafeFormatError" || call.Call.Method.Name() == "FormatError") && len(call.Call.Args) == 1:
				what = call.Call.Method.Name() + " returning nil"
				holds = func(l lit) bool { return isNilTest(l, call) }
			case sx.Callee(call) == nil && !call.Call.IsInvoke() && call.Call.Signature().Results().Len() == 2 && sx.IsErrorType(call.Call.Signature().Results().At(1).Type()) && isBoolT(call.Call.Signature().Results().At(0).Type()) && call.Call.Signature().Params().Len() == 3:
				what = "a special-case printer returning a nil next error"
				var next ssa.Value
				for _, r := range *call.Referrers() {
					if ex, ok := r.(*ssa.Extract); ok && ex.Index == 1 {
						next = ex
					}
				}
				holds = func(l lit) bool { return next != nil && isNilTest(l, next) }
			default:
				return
			}
			n++
			found := false
			for _, e := range elides {
				for _, l := range e.lits {
					if holds(l) {
						found = true
					}
				}
			}
			if !found {
				// the announcement may be merged into a boolean (ownsMessage := formatSimple(...) || len(causes) > 0):
				// follow the edge on which it was made; every path from there must reach an elide call
				found = mustReachAfter(call.Parent(), holds, func(in ssa.Instruction) bool {
					cl, ok := in.(*ssa.Call)
					return ok && sx.Callee(cl) == elide
				})
			}
			c.Check(found, fmt.Sprintf("%s: reaction to %s", load.FnName(call.Parent()), what), call.Pos(), "elideShortChildren is called on the edge where the layer announced that it owns the message",
				"the announcement ("+what+") is not followed by elideShortChildren: for layers rendered at this site the causes' short messages are printed after a message that already contains or replaces them")
		})
		c.Min("message-ownership announcement sites", n, 5)
		// a foreign error is rendered through its own Format method or through formatSimple; when it is a multi-cause
		// node its text already accounts for its branches, so on every path from such a rendering site an elide call
		// is reached under the assumption len(causes) > 0
		isMultiTest := func(l lit) (bool, bool) { // (is a test of len(<[]error>) against 0, its truth when there are branches)
			bin, ok := l.V.(*ssa.BinOp)
			if !ok {
				return false, false
			}
			call, ok := bin.X.(*ssa.Call)
			if !ok {
				return false, false
			}
			b, ok := call.Call.Value.(*ssa.Builtin)
			if !ok || b.Name() != "len" {
				return false, false
			}
			sl, ok := types.Unalias(call.Call.Args[0].Type()).Underlying().(*types.Slice)
			if !ok || !sx.IsErrorType(sl.Elem()) {
				return false, false
			}
			k, isK := sx.ConstInt(bin.Y)
			if !isK {
				return false, false
			}
			var truth bool
			switch {
			case bin.Op == token.GTR && k == 0, bin.Op == token.NEQ && k == 0, bin.Op == token.GEQ && k == 1:
				truth = true
			case bin.Op == token.EQL && k == 0, bin.Op == token.LEQ && k == 0, bin.Op == token.LSS && k == 1:
				truth = false
			default:
				return false, false
			}
			if l.Neg {
				truth = !truth
			}
			return true, truth
		}
		// the test may reach a helper as a boolean parameter (`multiCause bool`): it is the same test when every call
		// site of the region passes one
		isMultiTestP := func(l lit) (bool, bool) {
			if is, truth := isMultiTest(l); is {
				return is, truth
			}
			prm, isParam := l.V.(*ssa.Parameter)
			if !isParam {
				return false, false
			}
			h := prm.Parent()
			pi := paramIndex(h, prm)
			sites := reg.sites[h]
			if pi < 0 || len(sites) == 0 {
				return false, false
			}
			var truth, first = false, true
			for _, site := range sites {
				if pi >= len(site.Call.Args) {
					return false, false
				}
				is, t := isMultiTest(lit{V: site.Call.Args[pi]})
				if !is || (!first && t != truth) {
					return false, false
				}
				truth, first = t, false
			}
			if l.Neg {
				truth = !truth
			}
			return true, truth
		}
		nForeign := 0
		reg.each(func(in ssa.Instruction) {
			call, ok := in.(*ssa.Call)
			if !ok {
				return
			}
			what := ""
			switch {
			case sx.Callee(call) == fs:
				what = "formatSimple"
			case call.Call.IsInvoke() && call.Call.Method.Name() == "Format" && len(call.Call.Args) == 2:
				what = "the error's own Format method"
			default:
				return
			}
			nForeign++
			ok = mustReachAssuming(call, isMultiTestP, func(x ssa.Instruction) bool {
				cl, isCall := x.(*ssa.Call)
				return isCall && sx.Callee(cl) == elide
			})
			c.Check(ok, fmt.Sprintf("%s: multi-cause node rendered through %s", load.FnName(call.Parent()), what), call.Pos(), "when the node has branches, elideShortChildren is reached on every path from the rendering",
				"a multi-cause error rendered at this site ("+what+") does not get its branches' short messages elided: its own text already lists them, so %v/%s print them twice and differ from Error()")
		})
		c.Min("foreign rendering sites", nForeign, 3)
	},
}

// mustReachAssuming: from the instruction after start, every path to a return reaches an instruction accepted by
// goal, where a branch on a test that assume recognises is followed only along the edge on which the assumption holds,
// and booleans merged by phis are followed with the constants they carry.
func mustReachAssuming(start ssa.Instruction, assume func(l lit) (bool, bool), goal func(ssa.Instruction) bool) bool {
	var reach func(b, pred *ssa.BasicBlock, from int, known map[ssa.Value]bool, seen map[*ssa.BasicBlock]bool, d int) bool
	reach = func(b, pred *ssa.BasicBlock, from int, known map[ssa.Value]bool, seen map[*ssa.BasicBlock]bool, d int) bool {
		if d > 16 || (from == 0 && seen[b]) {
			return false
		}
		seen2 := map[*ssa.BasicBlock]bool{}
		for k := range seen {
			seen2[k] = true
		}
		if from == 0 {
			seen2[b] = true
		}
		kn := map[ssa.Value]bool{}
		for k, v := range known {
			kn[k] = v
		}
		for i := from; i < len(b.Instrs); i++ {
			in := b.Instrs[i]
			if ph, ok := in.(*ssa.Phi); ok {
				for j, p := range b.Preds {
					if p != pred {
						continue
					}
					if cst, ok := ph.Edges[j].(*ssa.Const); ok && cst.Value != nil && (cst.Value.String() == "true" || cst.Value.String() == "false") {
						kn[ph] = cst.Value.String() == "true"
					} else if v, ok := kn[ph.Edges[j]]; ok {
						kn[ph] = v
					}
				}
				continue
			}
			if goal(in) {
				return true
			}
			switch x := in.(type) {
			case *ssa.Return:
				return false
			case *ssa.Jump:
				return reach(b.Succs[0], b, 0, kn, seen2, d+1)
			case *ssa.If:
				if v, ok := kn[x.Cond]; ok {
					i := 1
					if v {
						i = 0
					}
					return reach(b.Succs[i], b, 0, kn, seen2, d+1)
				}
				// does one edge contradict the assumption?
				take := []int{0, 1}
				for ei, truth := range []bool{true, false} {
					for _, l := range condLits(x.Cond, truth) {
						if is, want := assume(lit{V: l.V, Neg: false}); is {
							holdsHere := !l.Neg
							if holdsHere != want {
								// this edge is taken only when the assumption fails
								var keep []int
								for _, t := range take {
									if t != ei {
										keep = append(keep, t)
									}
								}
								take = keep
							}
						}
					}
				}
				for _, t := range take {
					kn2 := map[ssa.Value]bool{}
					for k, v := range kn {
						kn2[k] = v
					}
					for _, l := range condLits(x.Cond, t == 0) {
						kn2[l.V] = !l.Neg
					}
					if !reach(b.Succs[t], b, 0, kn2, seen2, d+1) {
						return false
					}
				}
				return len(take) > 0
			}
		}
		return false
	}
	b := start.Block()
	idx := 0
	for i, in := range b.Instrs {
		if in == start {
			idx = i + 1
		}
	}
	return reach(b, nil, idx, map[ssa.Value]bool{}, map[*ssa.BasicBlock]bool{}, 0)
}

// ---------------------------------------------------------------------------
// R-DECODE-RESULT

var rDecodeResult = &Rule{
	Name: "R-DECODE-RESULT",
	Doc: "every received layer yields a layer: each return of errbase.decodeWrapper / decodeLeaf (and their helpers) is the non-nil result of the registered decoder, the result of a nested region helper, or a freshly allocated opaque value - never the decoded cause itself or another existing error. " +
		"Returning the cause for 'empty' wrappers drops a layer: its type name and mark are gone for the next hop, Is() against the original fails (the mark chain is one type shorter) and annotation-only wrappers of unknown type vanish",
	Run: func(c *core.Ctx) {
		p := c.P
		n := 0
		for _, name := range []string{"decodeWrapper", "decodeLeaf"} {
			fn := p.Func("errbase", name)
			if fn == nil {
				c.InternalErr("errbase."+name, "anchor not found")
				continue
			}
			reg := regionOf(fn)
			nonNilHere := map[ssa.Value]bool{} // values tested non-nil where the return under inspection stands
			var okVal func(v ssa.Value, d int) (bool, string)
			okVal = func(v ssa.Value, d int) (bool, string) {
				if d > 5 {
					return false, "too deep"
				}
				switch x := v.(type) {
				case *ssa.MakeInterface:
					if al, ok := x.X.(*ssa.Alloc); ok {
						if nm := sx.NamedOf(al.Type()); nm != nil && strings.HasPrefix(nm.Obj().Name(), "opaque") {
							return true, ""
						}
					}
					return false, "a value of type " + load.TypeName(x.X.Type())
				case *ssa.Phi:
					for _, e := range x.Edges {
						if sx.IsNil(e) && nonNilHere[x] {
							continue // `var genErr error; if found { genErr = decoder(...) }; if genErr != nil { return genErr }`
						}
						if ok, why := okVal(e, d+1); !ok {
							return false, why
						}
					}
					return true, ""
				case *ssa.Call:
					if sx.Callee(x) == nil && !x.Call.IsInvoke() {
						return true, "" // the registered decoder's result
					}
					if h := sx.Callee(x); h != nil && reg.in[h] && h != fn {
						for _, r := range sx.Returns(h) {
							if len(r.Results) != 1 {
								return false, "a helper with several results"
							}
							if ok, why := okVal(r.Results[0], d+1); !ok {
								return false, why
							}
						}
						return true, ""
					}
					return false, "the result of " + sx.TrimMod(sx.CalleeName(x))
				case *ssa.Extract:
					// the shortcut for proto-encodable error types: the decoded payload is the error itself
					if ta, ok := x.Tuple.(*ssa.TypeAssert); ok && x.Index == 0 && sx.IsErrorType(ta.AssertedType) {
						if src, isCall := ta.X.(*ssa.Call); !isCall || sx.Callee(src) == nil || sx.Callee(src).Name() != "DecodeError" {
							return true, ""
						}
					}
				case *ssa.Parameter:
					return false, "the parameter " + x.Name()
				}
				return false, describeVal(v)
			}
			for _, f := range reg.funcs {
				if f != fn {
					continue // helpers are judged through the anchor's returns
				}
				for _, r := range sx.Returns(f) {
					if len(r.Results) != 1 {
						continue
					}
					n++
					for k := range nonNilHere {
						delete(nonNilHere, k)
					}
					for _, l := range dominatingLits(r.Block()) {
						if bin, isBin := l.V.(*ssa.BinOp); isBin && ((bin.Op == token.NEQ && !l.Neg) || (bin.Op == token.EQL && l.Neg)) {
							if sx.IsNil(bin.Y) {
								nonNilHere[bin.X] = true
							} else if sx.IsNil(bin.X) {
								nonNilHere[bin.Y] = true
							}
						}
					}
					ok, why := okVal(r.Results[0], 0)
					c.Check(ok, "errbase."+name+": returned value", r.Pos(), "the registered decoder's result or a fresh opaque value",
						"errbase."+name+" can return "+why+" instead of a layer of its own: the received layer is dropped (or replaced), so type name, mark and annotation of that layer are lost for this process and for the next hop")
				}
			}
		}
		c.Min("returns of decodeWrapper/decodeLeaf", n, 4)
	},
}

// ---------------------------------------------------------------------------
// R-DECLINE

// declineTabled: decline conditions that are part of a decoder's documented contract.
var declineTabled = map[string]string{
	"errbase.decodeErrno": "an errno is only meaningful on the platform that produced it: the decoder declines for another platform and the value stays an OpaqueErrno",
}

var rDecline = &Rule{
	Name: "R-DECLINE",
	Doc: "registered decoders decline (return nil, leaving the layer to the opaque fallback) only on structural grounds: the payload is not of the expected type (comma-ok assertion), a list is too short for the positions read from it (len tests), or a pointer member is absent (nil tests). " +
		"A decoder that also declines on the VALUE of a member - an empty text, a zero code - turns legal values into opaque layers: for those inputs the annotation (mark, code, ...) and everything computed from it (Is, GetGrpcCode, ...) is lost after the first hop although the same error works locally",
	Run: func(c *core.Ctx) {
		p := c.P
		n := 0
		seen := map[*ssa.Function]bool{}
		for _, r := range GetCensus(c).Regs {
			if !r.IsDec() || r.Fn == nil || r.Fn.Blocks == nil || seen[r.Fn] || !p.InModule(r.Fn) {
				continue
			}
			seen[r.Fn] = true
			name := load.FnName(r.Fn)
			reg := regionOf(r.Fn)
			for _, f := range reg.funcs {
				for _, ret := range sx.Returns(f) {
					if f == r.Fn {
						if len(ret.Results) != 1 || !sx.IsNil(ret.Results[0]) {
							continue
						}
					} else {
						// a helper's "not usable" return: (zero, false)
						last := ret.Results[len(ret.Results)-1]
						if cst, ok := last.(*ssa.Const); !ok || cst.Value == nil || cst.Value.String() != "false" {
							continue
						}
					}
					n++
					// what decides that this return is taken: the tests that dominate it and the tests on the edges
					// that lead into its block (the operands of a `||` arrive on separate edges)
					lits := dominatingLits(ret.Block())
					for _, pb := range ret.Block().Preds {
						lits = append(lits, edgeLits(pb, ret.Block())...)
					}
					for _, l := range lits {
						kind, desc := declineKind(l)
						if kind == "structural" {
							continue
						}
						if why, ok := declineTabled[name]; ok {
							c.Ob(name+": declines on "+desc, ret.Pos(), true, "tabled: "+why)
							continue
						}
						c.Fail(name+": declines on "+desc, ret.Pos(), "the decoder gives up on the value of a received member ("+desc+"), not on the structure of the message: errors carrying that (legal) value arrive as opaque layers and lose the annotation after a hop")
					}
				}
			}
		}
		c.Min("decline returns of registered decoders", n, 10)
	},
}

// declineKind classifies a literal that guards a decoder's `return nil`.
func declineKind(l lit) (string, string) {
	switch x := l.V.(type) {
	case *ssa.Extract:
		if _, ok := x.Tuple.(*ssa.TypeAssert); ok && x.Index == 1 {
			return "structural", "type assertion"
		}
		if call, ok := x.Tuple.(*ssa.Call); ok && x.Index == 1 {
			return "structural", "ok result of " + sx.TrimMod(sx.CalleeName(call))
		}
	case *ssa.BinOp:
		isLen := func(v ssa.Value) bool {
			call, ok := v.(*ssa.Call)
			if !ok {
				return false
			}
			b, ok := call.Call.Value.(*ssa.Builtin)
			if !ok || b.Name() != "len" {
				return false
			}
			// the length of a list (of a string: a value test)
			return !isStringType(call.Call.Args[0].Type())
		}
		if isLen(x.X) || isLen(x.Y) {
			return "structural", "length test"
		}
		if sx.IsNil(x.X) || sx.IsNil(x.Y) {
			return "structural", "nil test"
		}
		if isBoolT(x.X.Type()) {
			return "structural", "boolean"
		}
		return "value", litShape(l)
	case *ssa.Call:
		return "value", "the result of " + sx.TrimMod(sx.CalleeName(x))
	}
	return "structural", "other"
}

// ---------------------------------------------------------------------------
// R-LIST-ROUNDTRIP

var rListRoundTrip = &Rule{
	Name: "R-LIST-ROUNDTRIP",
	Doc: "a list annotation that travels as the safe details travels as itself: when a registered decoder restores a []string field of its type from the received safe-details list, it stores the received list itself (no re-tokenising, joining, filtering), and when the type has no encoder of its own its SafeDetails() returns that field itself. " +
		"Joining on one side and splitting on the other is only the identity for elements without the separator: keys containing it are split, empty ones vanish",
	Run: func(c *core.Ctx) {
		p := c.P
		cs := GetCensus(c)
		hasEnc := map[string]bool{}
		for _, r := range cs.Regs {
			if r.IsEnc() {
				for _, k := range r.KeyTypes {
					hasEnc[load.TypeName(k)] = true
				}
			}
		}
		n := 0
		seen := map[*ssa.Function]bool{}
		for _, r := range cs.Regs {
			if !r.IsDec() || r.Fn == nil || r.Fn.Blocks == nil || seen[r.Fn] || !p.InModule(r.Fn) {
				continue
			}
			seen[r.Fn] = true
			var det *ssa.Parameter
			for _, prm := range r.Fn.Params {
				if sl, ok := types.Unalias(prm.Type()).Underlying().(*types.Slice); ok && isStringType(sl.Elem()) {
					det = prm
				}
			}
			if det == nil {
				continue
			}
			sx.EachInstr(r.Fn, func(in ssa.Instruction) {
				st, ok := in.(*ssa.Store)
				if !ok {
					return
				}
				fa, ok := st.Addr.(*ssa.FieldAddr)
				if !ok {
					return
				}
				fld := sx.FieldOf(fa)
				sl, isSl := types.Unalias(fld.Type()).Underlying().(*types.Slice)
				if !isSl || !isStringType(sl.Elem()) {
					return
				}
				owner := sx.NamedOf(fa.X.Type())
				if owner == nil || owner.Obj().Pkg() == nil || !load.IsModPath(owner.Obj().Pkg().Path()) {
					return
				}
				if !dependsOnValue(st.Val, det, map[ssa.Value]bool{}, 0) {
					return
				}
				n++
				construct := load.FnName(r.Fn) + ": " + load.TypeName(owner) + "." + fld.Name() + " <- received safe details"
				c.Check(sameListAs(st.Val, func(v ssa.Value) bool { return v == ssa.Value(det) }), construct, st.Pos(), "the received list itself (or a plain copy of it)",
					"the list restored into "+fld.Name()+" is computed from the received safe details ("+describeVal(st.Val)+") instead of being the received list: elements are re-tokenised / filtered on arrival, so a list is not identical after a hop")
				// the sending side: SafeDetails() of an encoder-less type returns the field itself
				if hasEnc[load.TypeName(types.NewPointer(owner))] || hasEnc[load.TypeName(owner)] {
					return
				}
				sd := p.Method(owner, "SafeDetails")
				if sd == nil || sd.Blocks == nil {
					return
				}
				for _, ret := range sx.Returns(sd) {
					isField := func(v ssa.Value) bool {
						pth := recvFieldPath(sd, v)
						return len(pth) == 1 && pth[0] == fld
					}
					c.Check(sameListAs(ret.Results[0], isField), load.FnName(sd)+": list sent as safe details", ret.Pos(), "the field "+fld.Name()+" itself (or a plain copy of it)",
						"SafeDetails() of a type without an encoder is what travels; it returns something computed from "+fld.Name()+" ("+describeVal(ret.Results[0])+") while the decoder restores the field from the received list: the list changes shape on the way")
				}
			})
		}
		c.Min("list fields restored from the safe details", n, 1)
	},
}

// ---------------------------------------------------------------------------
// R-FRAME-PER-ENTRY

var rFramePerEntry = &Rule{
	Name: "R-FRAME-PER-ENTRY",
	Doc: "every entry of a printed stack yields a frame: in withstack.parsePrintedStack the append of the composed frame lies on every path through the body of the loop that calls parsePrintedStackEntry (its block dominates every back edge). " +
		"A frame appended only for some entries (say, not for the ones printed as `unknown`) makes the reported stack shorter than the captured one, and a stack made only of such entries produces no exception at all",
	Run: func(c *core.Ctx) {
		fn := c.P.Func("withstack", "parsePrintedStack")
		entry := c.P.Func("withstack", "parsePrintedStackEntry")
		if fn == nil || entry == nil {
			c.InternalErr("withstack.parsePrintedStack / parsePrintedStackEntry", "anchor functions not found")
			return
		}
		n := 0
		for _, l := range naturalLoops(fn) {
			parses := false
			var apps []*ssa.Call
			for b := range l.Body {
				for _, in := range b.Instrs {
					call, ok := in.(*ssa.Call)
					if !ok {
						continue
					}
					if h := sx.Callee(call); h != nil && (h == entry || regionOf(h).in[entry]) {
						parses = true
					}
					if bi, ok := call.Call.Value.(*ssa.Builtin); ok && bi.Name() == "append" {
						apps = append(apps, call)
					}
				}
			}
			if !parses {
				continue
			}
			n++
			var latches []*ssa.BasicBlock
			for b := range l.Body {
				for _, s := range b.Succs {
					if s == l.Header {
						latches = append(latches, b)
					}
				}
			}
			ok := false
			for _, a := range apps {
				all := true
				for _, lt := range latches {
					if !a.Block().Dominates(lt) {
						all = false
					}
				}
				if all {
					ok = true
				}
			}
			c.Check(ok, "withstack.parsePrintedStack: one frame per entry", l.Header.Instrs[0].Pos(), "the frame is appended on every path through the loop body",
				"the frame of a parsed entry is appended only on some paths through the loop body: entries of that kind are dropped from the reported stack")
		}
		c.Min("entry-parsing loops", n, 1)
	},
}

// ---------------------------------------------------------------------------
// R-LAYER-GETTER

var rLayerGetter = &Rule{
	Name: "R-LAYER-GETTER",
	Doc: "the per-layer accessor issuelink.GetIssueLink answers by the TYPE of the layer: every arm that matched a link-carrying type returns that layer's link together with the constant true, and the fall-through returns false. " +
		"GetAllIssueLinks lists one entry per carrying layer by asking this accessor; a found-flag computed from the link's value drops the entries of layers whose link is empty",
	Run: func(c *core.Ctx) {
		fn := c.P.Func("issuelink", "GetIssueLink")
		if fn == nil {
			c.InternalErr("issuelink.GetIssueLink", "anchor function not found")
			return
		}
		n := 0
		for _, r := range sx.Returns(fn) {
			if len(r.Results) != 2 {
				continue
			}
			n++
			found := r.Results[1]
			cst, isC := found.(*ssa.Const)
			okFlag := isC && cst.Value != nil
			c.Check(okFlag, "issuelink.GetIssueLink: found flag", r.Pos(), "a constant (true for a carrying layer, false otherwise)",
				"whether a layer counts as carrying an issue link is computed from a value ("+describeVal(found)+"), not from the layer's type: layers of a carrying type are skipped for some link values")
			if okFlag && cst.Value.String() == "true" {
				// the link is the matched layer's field
				_, isLoad := r.Results[0].(*ssa.UnOp)
				c.Check(isLoad, "issuelink.GetIssueLink: returned link", r.Pos(), "the matched layer's own link", "a carrying layer does not return its own link")
			}
		}
		c.Min("returns of GetIssueLink", n, 3)
	},
}

// ---------------------------------------------------------------------------
// R-GLOBAL-ALIAS

var rGlobalAlias = &Rule{
	Name: "R-GLOBAL-ALIAS",
	Doc: "package-level maps and slices of the module are never handed out: a value loaded from a module-level variable of map or slice type is only read in place (looked up, ranged over, indexed, measured) or updated by the registration functions - it is never stored into a field of another object, returned, or passed to code outside the module. " +
		"An event or error that carries a reference to a package-level map shares it with every other event: a later write through one of them (by the reporting SDK, say) is a data race and leaks one report's data into the next",
	Run: func(c *core.Ctx) {
		p := c.P
		n := 0
		for _, fn := range p.HandFuncs() {
			if pk := load.FnPkg(fn); pk != nil && strings.HasSuffix(pk.Path(), "/testutils") {
				continue
			}
			sx.EachInstr(fn, func(in ssa.Instruction) {
				ld, ok := in.(*ssa.UnOp)
				if !ok || ld.Op != token.MUL {
					return
				}
				g, ok := ld.X.(*ssa.Global)
				if !ok || g.Pkg == nil || !load.IsModPath(g.Pkg.Pkg.Path()) {
					return
				}
				switch types.Unalias(ld.Type()).Underlying().(type) {
				case *types.Map, *types.Slice:
				default:
					return
				}
				n++
				for _, r := range *ld.Referrers() {
					bad := ""
					switch x := r.(type) {
					case *ssa.Store:
						if x.Val == ssa.Value(ld) {
							// (a save/restore of the registry through a local variable is not a hand-out)
							switch a := x.Addr.(type) {
							case *ssa.FieldAddr:
								bad = "stored into the field " + sx.FieldOf(a).Name() + " of another object"
							case *ssa.IndexAddr:
								bad = "stored into an element of another container"
							}
						}
					case *ssa.Return:
						if fn.Object() != nil && fn.Object().Exported() {
							bad = "returned to the caller"
						}
					case *ssa.Call:
						if callee := sx.Callee(x); callee != nil && !p.InModule(callee) {
							if _, isBuiltin := x.Call.Value.(*ssa.Builtin); !isBuiltin && !isStdlibPath(pkgPathOf(callee)) {
								bad = "passed to " + sx.TrimMod(sx.CalleeName(x))
							}
						}
					}
					if bad != "" {
						c.Fail(load.FnName(fn)+": package-level "+g.Name(), sx.InstrPos(r), "the package-level "+load.TypeName(ld.Type())+" "+g.Name()+" is "+bad+": every holder shares (and can write) the same map/slice")
					}
				}
			})
		}
		c.Min("loads of package-level maps and slices", n, 10)
	},
}

// sameListAs: v is the list recognised by is, or a plain copy of it: append(<nil or empty fresh slice>, list...).
func sameListAs(v ssa.Value, is func(ssa.Value) bool) bool {
	if is(v) {
		return true
	}
	call, ok := v.(*ssa.Call)
	if !ok {
		return false
	}
	b, ok := call.Call.Value.(*ssa.Builtin)
	if !ok || b.Name() != "append" || len(call.Call.Args) != 2 || !is(call.Call.Args[1]) {
		return false
	}
	switch base := call.Call.Args[0].(type) {
	case *ssa.Const:
		return base.IsNil()
	case *ssa.MakeSlice:
		k, isK := sx.ConstInt(base.Len)
		return isK && k == 0
	case *ssa.Slice:
		// s[:0] of a fresh slice
		_, fresh := base.X.(*ssa.MakeSlice)
		return fresh
	}
	return false
}

// mustReachAfter: in fn, on the edge of a branch where a literal accepted by holds is established, every path
// reaches an instruction accepted by goal before the function returns. Booleans merged by phis are followed with
// the constant they carry on the edge taken (the value form of && and ||).
func mustReachAfter(fn *ssa.Function, holds func(l lit) bool, goal func(ssa.Instruction) bool) bool {
	var reach func(b, pred *ssa.BasicBlock, known map[ssa.Value]bool, seen map[*ssa.BasicBlock]bool, d int) bool
	reach = func(b, pred *ssa.BasicBlock, known map[ssa.Value]bool, seen map[*ssa.BasicBlock]bool, d int) bool {
		if d > 12 || seen[b] {
			return false
		}
		seen2 := map[*ssa.BasicBlock]bool{b: true}
		for k := range seen {
			seen2[k] = true
		}
		kn := map[ssa.Value]bool{}
		for k, v := range known {
			kn[k] = v
		}
		for _, in := range b.Instrs {
			if ph, ok := in.(*ssa.Phi); ok {
				for i, p := range b.Preds {
					if p != pred {
						continue
					}
					if cst, ok := ph.Edges[i].(*ssa.Const); ok && cst.Value != nil && (cst.Value.String() == "true" || cst.Value.String() == "false") {
						kn[ph] = cst.Value.String() == "true"
					} else if v, ok := kn[ph.Edges[i]]; ok {
						kn[ph] = v
					}
				}
				continue
			}
			if goal(in) {
				return true
			}
			switch x := in.(type) {
			case *ssa.Return:
				return false
			case *ssa.Jump:
				return reach(b.Succs[0], b, kn, seen2, d+1)
			case *ssa.If:
				if v, ok := kn[x.Cond]; ok {
					i := 1
					if v {
						i = 0
					}
					return reach(b.Succs[i], b, kn, seen2, d+1)
				}
				return reach(b.Succs[0], b, kn, seen2, d+1) && reach(b.Succs[1], b, kn, seen2, d+1)
			}
		}
		return false
	}
	// the announcement kept in a boolean: where a value that IS the announcement (the call's result, its comparison
	// with nil) flows into a merge, follow that edge with the value known
	for _, b := range fn.Blocks {
		for _, in := range b.Instrs {
			v, isVal := in.(ssa.Value)
			if !isVal || !isBoolT(v.Type()) || v.Referrers() == nil {
				continue
			}
			var truth, est bool
			if holds(lit{V: v, Neg: false}) {
				truth, est = true, true
			} else if holds(lit{V: v, Neg: true}) {
				truth, est = false, true
			}
			if !est {
				continue
			}
			for _, r := range *v.Referrers() {
				ph, isPhi := r.(*ssa.Phi)
				if !isPhi {
					continue
				}
				for i, e := range ph.Edges {
					if e == v && reach(ph.Block(), ph.Block().Preds[i], map[ssa.Value]bool{v: truth}, map[*ssa.BasicBlock]bool{}, 0) {
						return true
					}
				}
			}
		}
	}
	for _, b := range fn.Blocks {
		if len(b.Instrs) == 0 {
			continue
		}
		ifi, ok := b.Instrs[len(b.Instrs)-1].(*ssa.If)
		if !ok {
			continue
		}
		for i, truth := range []bool{true, false} {
			est := false
			known := map[ssa.Value]bool{}
			for _, l := range condLits(ifi.Cond, truth) {
				if holds(l) {
					est = true
				}
				known[l.V] = !l.Neg
			}
			if est && reach(b.Succs[i], b, known, map[*ssa.BasicBlock]bool{}, 0) {
				return true
			}
		}
	}
	return false
}

// ---------------------------------------------------------------------------
// R-REENCODE-STABLE

var rReencodeStable = &Rule{
	Name: "R-REENCODE-STABLE",
	Doc: "forwarding does not recompute: when the decoder registered for a type rebuilds a nested error with DecodeError and stores it in a field, the encoder of that type does not derive the reportable strings it sends from that nested error - except where a field that the decoder fills from the received strings is absent (the value was created locally). " +
		"A process that knows the outer type but not every type inside the nested error decodes the nested error into opaque stand-ins; whatever it computes from them (a verbose rendering, collected safe details) differs from what the origin computed, so the message it forwards is not the message it received",
	Run: func(c *core.Ctx) {
		p := c.P
		e := originEngine(c)
		cs := GetCensus(c)
		n := 0
		for _, er := range cs.Regs {
			if !er.IsEnc() || er.Fn == nil || er.Fn.Blocks == nil || !p.InModule(er.Fn) {
				continue
			}
			for _, kt := range er.KeyTypes {
				named := sx.NamedOf(kt)
				if named == nil {
					continue
				}
				// the decoder(s) of the same key: fields filled from DecodeError, and fields filled from the received strings
				nested, fromDetails := map[string]bool{}, map[string]bool{}
				for _, dr := range cs.Regs {
					if !dr.IsDec() || dr.Fn == nil || dr.Fn.Blocks == nil {
						continue
					}
					same := false
					for _, dk := range dr.KeyTypes {
						if types.Identical(dk, kt) {
							same = true
						}
					}
					if !same {
						continue
					}
					var det *ssa.Parameter
					for _, prm := range dr.Fn.Params {
						if sl, ok := types.Unalias(prm.Type()).Underlying().(*types.Slice); ok && isStringType(sl.Elem()) {
							det = prm
						}
					}
					dreg := regionOf(dr.Fn)
					dreg.each(func(in ssa.Instruction) {
						st, ok := in.(*ssa.Store)
						if !ok {
							return
						}
						fa, ok := st.Addr.(*ssa.FieldAddr)
						if !ok || sx.NamedOf(fa.X.Type()) == nil || sx.NamedOf(fa.X.Type()).Obj() != named.Obj() {
							return
						}
						if call, ok := st.Val.(*ssa.Call); ok && sx.Callee(call) != nil && sx.Callee(call).Name() == "DecodeError" {
							nested[sx.FieldOf(fa).Name()] = true
						}
						if det != nil && (st.Val == ssa.Value(det) || dreg.resolve(st.Val) == ssa.Value(det)) {
							fromDetails[sx.FieldOf(fa).Name()] = true
						}
					})
				}
				if len(nested) == 0 {
					continue
				}
				n++
				tname := named.Obj().Name()
				usesNested := func(v ssa.Value) string {
					for k := range recvSubs(e, v, nil) {
						for f := range nested {
							if k == tname+"."+f || strings.HasPrefix(k, tname+"."+f+".") {
								return f
							}
						}
					}
					// the result of a method of the type itself (e.SafeDetails()): does what the method returns depend
					// on the nested field (also through the chain walk that starts at it)?
					if call, ok := v.(*ssa.Call); ok {
						if m := sx.Callee(call); m != nil && m.Blocks != nil && m.Signature.Recv() != nil && sx.NamedOf(m.Signature.Recv().Type()) != nil && sx.NamedOf(m.Signature.Recv().Type()).Obj() == named.Obj() {
							if st, ok := named.Underlying().(*types.Struct); ok {
								for i := 0; i < st.NumFields(); i++ {
									if !nested[st.Field(i).Name()] {
										continue
									}
									for _, r := range sx.Returns(m) {
										for _, res := range r.Results {
											if dependsOnRecvField(m, res, st.Field(i), map[ssa.Value]bool{}, 0) {
												return st.Field(i).Name()
											}
										}
									}
								}
							}
						}
					}
					return ""
				}
				// guardedByAbsence: the literals say that a field filled from the received strings is nil
				guardedByAbsence := func(lits []lit) bool {
					for _, l := range lits {
						bin, ok := l.V.(*ssa.BinOp)
						if !ok || !((bin.Op == token.EQL && !l.Neg) || (bin.Op == token.NEQ && l.Neg)) {
							continue
						}
						var other ssa.Value
						if sx.IsNil(bin.Y) {
							other = bin.X
						} else if sx.IsNil(bin.X) {
							other = bin.Y
						}
						if other == nil {
							continue
						}
						if pth := recvFieldPathOf(other); pth != "" && fromDetails[pth] {
							return true
						}
					}
					return false
				}
				for _, ret := range sx.Returns(er.Fn) {
					if len(ret.Results) < 2 {
						continue
					}
					construct := load.FnName(er.Fn) + ": reportable strings of a forwarded " + tname
					var check func(v ssa.Value, lits []lit, d int)
					check = func(v ssa.Value, lits []lit, d int) {
						if d > 4 {
							return
						}
						if ph, ok := v.(*ssa.Phi); ok {
							for i, ev := range ph.Edges {
								pb := ph.Block().Preds[i]
								check(ev, append(append([]lit{}, dominatingLits(pb)...), edgeLits(pb, ph.Block())...), d+1)
							}
							return
						}
						f := usesNested(v)
						if f == "" {
							c.Ob(construct, ret.Pos(), true, "not computed from the nested error")
							return
						}
						c.Check(guardedByAbsence(lits), construct, ret.Pos(), "taken from what was received, recomputed only for a value created locally",
							"the encoder computes the reportable strings from the nested error in field "+f+", which the decoder rebuilds with DecodeError: a process that does not know every type inside it computes other strings than the origin did, so the forwarded message differs from the received one")
					}
					check(ret.Results[1], dominatingLits(ret.Block()), 0)
				}
			}
		}
		c.Min("encoders of types that carry a nested encoded error", n, 2)
	},
}

// recvFieldPathOf: v is a load of x.f - returns f (the owner is not checked: used with field names of one type).
func recvFieldPathOf(v ssa.Value) string {
	ld, ok := v.(*ssa.UnOp)
	if !ok || ld.Op != token.MUL {
		return ""
	}
	fa, ok := ld.X.(*ssa.FieldAddr)
	if !ok {
		return ""
	}
	return sx.FieldOf(fa).Name()
}

// ---------------------------------------------------------------------------
// R-KEY-MARKER

var rKeyMarker = &Rule{
	Name: "R-KEY-MARKER",
	Doc: "a type-key extension is the annotation itself: every ErrorKeyMarker() method of a module type returns a field of the receiver converted to string (or a constant) - not a value computed from it. The marker is what makes two errors of the same Go type different for Is() (two domains, two codes); " +
		"a shortened or normalised marker makes distinct annotations collide: errors that differ in exactly that annotation start to match",
	Run: func(c *core.Ctx) {
		n := 0
		for _, et := range GetCensus(c).ErrTypes {
			fn := et.Methods["ErrorKeyMarker"]
			if fn == nil || fn.Blocks == nil || !c.P.InModule(fn) {
				continue
			}
			for _, ret := range sx.Returns(fn) {
				if len(ret.Results) != 1 {
					continue
				}
				n++
				v := ret.Results[0]
				for i := 0; i < 3; i++ {
					switch x := v.(type) {
					case *ssa.Convert:
						v = x.X
					case *ssa.ChangeType:
						v = x.X
					}
				}
				_, isConst := v.(*ssa.Const)
				ok := isConst || len(recvFieldPath(fn, v)) >= 1
				// an unexported accessor of the same receiver that returns the field (converted)
				if call, isCall := v.(*ssa.Call); !ok && isCall {
					if h := sx.Callee(call); h != nil && h.Blocks != nil && h.Pkg == fn.Pkg && !sx.Exported(h) && len(call.Call.Args) == 1 && len(fn.Params) > 0 && identity(call.Call.Args[0]) == ssa.Value(fn.Params[0]) {
						all := true
						rets := sx.Returns(h)
						for _, hr := range rets {
							if len(hr.Results) != 1 || !verbatimOfField(hr.Results[0], 0) {
								all = false
							}
						}
						ok = all && len(rets) > 0
					}
				}
				c.Check(ok, load.FnName(fn)+": returned marker", ret.Pos(), "a field of the receiver itself (converted), or a constant",
					"the type-key extension is computed from the annotation ("+describeVal(v)+") instead of being the annotation: distinct annotations can yield the same marker, and errors that differ only in that annotation become equivalent for Is/IsAny and for the network mark")
			}
		}
		c.Min("ErrorKeyMarker returns", n, 1)
	},
}

// ---------------------------------------------------------------------------
// R-DECODE-READONLY

var rDecodeReadonly = &Rule{
	Name: "R-DECODE-READONLY",
	Doc: "decoding does not write into what it decodes: in errbase.DecodeError / decodeLeaf / decodeWrapper and their helpers no store goes through the received message (an address derived from the enc parameter, or from a pointer handed down from it). " +
		"The opaque stand-ins keep the received details by copying them; a default written into the received message (a family name filled in, say) is then kept and re-emitted, so an unknowing process forwards something it never received, and the caller's message is changed under its feet",
	Run: func(c *core.Ctx) {
		p := c.P
		n := 0
		for _, name := range []string{"DecodeError", "decodeLeaf", "decodeWrapper"} {
			fn := p.Func("errbase", name)
			if fn == nil {
				c.InternalErr("errbase."+name, "anchor not found")
				continue
			}
			reg := regionOf(fn)
			// values that address (parts of) the received message: pointer-typed or message-typed parameters of the
			// anchor, and helper parameters that receive such a value
			fromEnc := func(v ssa.Value) bool {
				for d := 0; d < 12 && v != nil; d++ {
					v = reg.resolve(v)
					switch x := v.(type) {
					case *ssa.Parameter:
						if x.Parent() != fn {
							return false
						}
						nm := sx.NamedOf(x.Type())
						return nm != nil && nm.Obj().Pkg() != nil && strings.HasSuffix(nm.Obj().Pkg().Path(), "/errorspb")
					case *ssa.FieldAddr:
						v = x.X
					case *ssa.IndexAddr:
						v = x.X
					case *ssa.UnOp:
						v = x.X
					case *ssa.Field:
						v = x.X
					case *ssa.Alloc:
						// the spilled copy of a by-value parameter (DecodeError's enc): writes to it stay local
						return false
					default:
						return false
					}
				}
				return false
			}
			reg.each(func(in ssa.Instruction) {
				st, ok := in.(*ssa.Store)
				if !ok {
					return
				}
				n++
				if _, local := st.Addr.(*ssa.Alloc); local {
					return
				}
				c.Check(!fromEnc(st.Addr), load.FnName(st.Parent())+": store through the received message", st.Pos(), "the received message is only read",
					"a store goes through the received message ("+describeVal(st.Addr)+"): decoding rewrites its input, the opaque types keep and forward the rewritten details, and the caller's message changes")
			})
		}
		c.Min("stores in the decode path", n, 5)
	},
}

// ---------------------------------------------------------------------------
// R-REGISTRY-NONNIL

var rRegistryNonNil = &Rule{
	Name: "R-REGISTRY-NONNIL",
	Doc: "the codec registries never hold a nil function: every update of a package-level registry map of errbase (keyed by TypeKey, function-valued) stores a value that is known non-nil where it is stored (the registration functions delete the entry for a nil argument). " +
		"decodeLeaf / decodeWrapper / encodeLeaf / encodeWrapper call whatever the lookup finds; a nil entry (left by 'unregistering' with nil) makes DecodeError / EncodeError panic for that type key instead of falling back to the opaque types",
	Run: func(c *core.Ctx) {
		p := c.P
		n := 0
		for _, fn := range p.HandFuncs() {
			pk := load.FnPkg(fn)
			if pk == nil || !strings.HasSuffix(pk.Path(), "/errbase") {
				continue
			}
			sx.EachInstr(fn, func(in ssa.Instruction) {
				mu, ok := in.(*ssa.MapUpdate)
				if !ok {
					return
				}
				if globalOfLoad(mu.Map) == nil {
					// the update may sit in a shared helper that receives the registry: judged at its call sites
					if mp, isParam := mu.Map.(*ssa.Parameter); isParam {
						n += registryUpdateViaHelper(c, p, fn, mu, mp)
					}
					return
				}
				mt, ok := types.Unalias(mu.Map.Type()).Underlying().(*types.Map)
				if !ok || !sx.IsNamed(mt.Key(), load.ModPath+"/errbase", "TypeKey") {
					return
				}
				if _, isFunc := types.Unalias(mt.Elem()).Underlying().(*types.Signature); !isFunc {
					return
				}
				n++
				nonNil := false
				switch mu.Value.(type) {
				case *ssa.Function, *ssa.MakeClosure:
					nonNil = true
				}
				for _, l := range dominatingLits(mu.Block()) {
					if bin, isBin := l.V.(*ssa.BinOp); isBin && ((bin.Op == token.NEQ && !l.Neg) || (bin.Op == token.EQL && l.Neg)) {
						if (bin.X == mu.Value && sx.IsNil(bin.Y)) || (bin.Y == mu.Value && sx.IsNil(bin.X)) {
							nonNil = true
						}
					}
				}
				c.Check(nonNil, load.FnName(fn)+": registry update of "+globalOfLoad(mu.Map).Name(), mu.Pos(), "the stored function is known non-nil",
					"a possibly nil function is stored in the registry "+globalOfLoad(mu.Map).Name()+": after a registration with nil (the documented way to unregister) the next error with that type key makes DecodeError/EncodeError call a nil function")
			})
		}
		c.Min("registry updates in errbase", n, 5)
	},
}

// registryUpdateViaHelper: mu stores into a map that helper h receives as parameter mp. For every call of h that passes
// a package-level registry of errbase, the stored value must be known non-nil: h stores its parameter v only where a
// boolean parameter u is false, and the call passes `v == nil` for u (or a non-nil function for v).
func registryUpdateViaHelper(c *core.Ctx, p *load.Program, h *ssa.Function, mu *ssa.MapUpdate, mp *ssa.Parameter) int {
	mi := paramIndex(h, mp)
	vi := -1
	if vp, ok := mu.Value.(*ssa.Parameter); ok {
		vi = paramIndex(h, vp)
	}
	// boolean parameters known false / true at the update
	known := map[int]bool{}
	for _, l := range dominatingLits(mu.Block()) {
		if bp, ok := l.V.(*ssa.Parameter); ok {
			if k := paramIndex(h, bp); k >= 0 {
				known[k] = !l.Neg
			}
		}
	}
	n := 0
	for _, caller := range p.HandFuncs() {
		sx.EachInstr(caller, func(in ssa.Instruction) {
			call, ok := in.(*ssa.Call)
			if !ok || sx.Callee(call) != h || mi >= len(call.Call.Args) {
				return
			}
			g := globalOfLoad(call.Call.Args[mi])
			if g == nil {
				return
			}
			mt, ok := types.Unalias(call.Call.Args[mi].Type()).Underlying().(*types.Map)
			if !ok || !sx.IsNamed(mt.Key(), load.ModPath+"/errbase", "TypeKey") {
				return
			}
			if _, isFunc := types.Unalias(mt.Elem()).Underlying().(*types.Signature); !isFunc {
				return
			}
			n++
			nonNil := false
			if vi >= 0 && vi < len(call.Call.Args) {
				val := call.Call.Args[vi]
				switch val.(type) {
				case *ssa.Function, *ssa.MakeClosure:
					nonNil = true
				}
				for k, truth := range known {
					if k >= len(call.Call.Args) {
						continue
					}
					bin, isBin := call.Call.Args[k].(*ssa.BinOp)
					if !isBin {
						continue
					}
					isNilCmp := (bin.X == val && sx.IsNil(bin.Y)) || (bin.Y == val && sx.IsNil(bin.X))
					if isNilCmp && ((bin.Op == token.EQL && !truth) || (bin.Op == token.NEQ && truth)) {
						nonNil = true
					}
				}
				for _, l := range dominatingLits(call.Block()) {
					if bin, isBin := l.V.(*ssa.BinOp); isBin && ((bin.Op == token.NEQ && !l.Neg) || (bin.Op == token.EQL && l.Neg)) {
						if (bin.X == val && sx.IsNil(bin.Y)) || (bin.Y == val && sx.IsNil(bin.X)) {
							nonNil = true
						}
					}
				}
			}
			c.Check(nonNil, load.FnName(caller)+": registry update of "+g.Name(), call.Pos(), "the stored function is known non-nil",
				"a possibly nil function is stored in the registry "+g.Name()+" (through "+load.FnName(h)+"): after a registration with nil the next error with that type key makes DecodeError/EncodeError call a nil function")
		})
	}
	return n
}
