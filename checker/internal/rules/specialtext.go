package rules

import (
	"fmt"
	"go/token"
	"go/types"
	"sort"
	"strings"

	"golang.org/x/tools/go/ssa"

	"verif/checker/internal/core"
	"verif/checker/internal/load"
	"verif/checker/internal/sx"
)

// R-SPECIAL-TEXT: the typed arms of the special-case printer print the text of
// the type's own Error() (cause part excluded), decided by symbolic execution
// of both functions over the receiver's fields - no execution.

var rSpecialText = &Rule{
	Name: "R-SPECIAL-TEXT",
	Doc: "the special-case printer renders a standard-library wrapper exactly as the wrapper renders itself: for each typed arm of a registered special-case printer whose type is a wrapper defined outside the module (os.PathError, os.LinkError, os.SyscallError, net.OpError), both the arm and the type's own Error() method (standard-library source, loaded with the program) are executed SYMBOLICALLY over the receiver's fields - every acyclic path, with the field tests taken (Net != \"\", Source != nil, Addr != nil) as path condition and the produced text as a sequence of constants and field references - " +
		"and for every path condition the arm's text must equal Error()'s text minus its final \": \" + Err.Error(). Otherwise %v / %s of a library error wrapping such a value differs from its Error() string",
	Run: runSpecialText,
}

// symText is a symbolic string: constants and references to receiver fields.
type symText []textAtom

func (t symText) norm() string {
	var out []textAtom
	for _, a := range t {
		if a.Field == "" && a.ErrText == "" && a.Other == "" {
			if a.Const == "" {
				continue
			}
			if n := len(out); n > 0 && out[n-1].Field == "" && out[n-1].ErrText == "" && out[n-1].Other == "" {
				out[n-1].Const += a.Const
				continue
			}
		}
		out = append(out, a)
	}
	return atomsString(out)
}

// symPath is one path: the field tests taken and the text produced.
type symPath struct {
	conds map[string]bool // "Net != \"\"" -> truth
	text  symText
	skip  bool // path for a nil receiver / not interesting
}

func condKey(conds map[string]bool) string {
	var ks []string
	for k, v := range conds {
		ks = append(ks, fmt.Sprintf("%s=%v", k, v))
	}
	sort.Strings(ks)
	return strings.Join(ks, " && ")
}

// symExec enumerates the acyclic paths of fn from block start to any Return (or to stop(b) blocks), evaluating
// string values symbolically relative to the receiver value recv.
type symExec struct {
	fn      *ssa.Function
	recv    ssa.Value
	printer ssa.Value // parameter receiving Print/Printf (nil: collect the returned string instead)
	paths   []symPath
	limit   int
	bad     string
}

func (se *symExec) fieldOfRecv(v ssa.Value) (string, bool) {
	ld, ok := v.(*ssa.UnOp)
	if !ok || ld.Op != token.MUL {
		return "", false
	}
	fa, ok := ld.X.(*ssa.FieldAddr)
	if !ok || fa.X != se.recv {
		return "", false
	}
	return fieldNameOf(fa), true
}

// evalText evaluates a string-typed (or printable) value along a path; pred is the block we came from (for phis).
func (se *symExec) evalText(v ssa.Value, env map[ssa.Value]symText, d int) symText {
	if t, ok := env[v]; ok {
		return t
	}
	if d > 12 {
		return symText{{Other: "deep"}}
	}
	switch x := v.(type) {
	case *ssa.Const:
		if s, ok := sx.ConstString(x); ok {
			return symText{{Const: s}}
		}
	case *ssa.BinOp:
		if x.Op == token.ADD {
			return append(append(symText{}, se.evalText(x.X, env, d+1)...), se.evalText(x.Y, env, d+1)...)
		}
	case *ssa.UnOp:
		if f, ok := se.fieldOfRecv(x); ok {
			return symText{{Field: f}}
		}
	case *ssa.MakeInterface:
		return se.evalText(x.X, env, d+1)
	case *ssa.ChangeInterface:
		return se.evalText(x.X, env, d+1)
	case *ssa.Call:
		// x.String() / x.Error() of a receiver field; redact.Safe(x)
		if x.Call.IsInvoke() && len(x.Call.Args) == 0 {
			if f, ok := se.fieldOfRecv(x.Call.Value); ok {
				switch x.Call.Method.Name() {
				case "String":
					return symText{{Field: f}}
				case "Error":
					return symText{{ErrText: f}}
				}
			}
		}
		if f := sx.Callee(x); f != nil && f.Name() == "Safe" && f.Pkg != nil && f.Pkg.Pkg.Path() == redactPath && len(x.Call.Args) == 1 {
			return se.evalText(x.Call.Args[0], env, d+1)
		}
	}
	return symText{{Other: fmt.Sprintf("%T", v)}}
}

// condOf describes an If condition as a test of a receiver field; ok=false when it is something else.
func (se *symExec) condOf(c ssa.Value) (key string, positive bool, ok bool) {
	bin, isBin := c.(*ssa.BinOp)
	if !isBin || (bin.Op != token.EQL && bin.Op != token.NEQ) {
		return "", false, false
	}
	for _, pr := range [][2]ssa.Value{{bin.X, bin.Y}, {bin.Y, bin.X}} {
		if pr[0] == se.recv && sx.IsNil(pr[1]) {
			return "recv != nil", bin.Op == token.NEQ, true
		}
		f, isF := se.fieldOfRecv(pr[0])
		if !isF {
			continue
		}
		if sx.IsNil(pr[1]) {
			return f + " != nil", bin.Op == token.NEQ, true
		}
		if s, isS := sx.ConstString(pr[1]); isS && s == "" {
			return f + ` != ""`, bin.Op == token.NEQ, true
		}
	}
	return "", false, false
}

func (se *symExec) run(start *ssa.BasicBlock, initial symText) {
	se.runFrom(start, initial, map[string]bool{}, 0)
}

type symFrame struct {
	b     *ssa.BasicBlock
	idx   int // first instruction to execute
	pred  *ssa.BasicBlock
	env   map[ssa.Value]symText
	conds map[string]bool
	out   symText
	seen  map[*ssa.BasicBlock]bool
}

func (se *symExec) runFrom(start *ssa.BasicBlock, initial symText, conds map[string]bool, depth int) {
	var walk func(f symFrame)
	walk = func(f symFrame) {
		if se.bad != "" {
			return
		}
		if len(se.paths) > se.limit {
			se.bad = "too many paths"
			return
		}
		seen := f.seen
		env := f.env
		if f.idx == 0 {
			if f.seen[f.b] {
				se.bad = "loop in " + load.FnName(se.fn)
				return
			}
			seen = map[*ssa.BasicBlock]bool{f.b: true}
			for k := range f.seen {
				seen[k] = true
			}
			env = map[ssa.Value]symText{}
			for k, v := range f.env {
				env[k] = v
			}
		}
		out := append(symText{}, f.out...)
		for ii := f.idx; ii < len(f.b.Instrs); ii++ {
			in := f.b.Instrs[ii]
			switch x := in.(type) {
			case *ssa.Phi:
				for i, p := range f.b.Preds {
					if p == f.pred {
						env[x] = se.evalText(x.Edges[i], env, 0)
					}
				}
			case *ssa.Call:
				if se.printer != nil && x.Call.IsInvoke() && x.Call.Value == se.printer {
					switch x.Call.Method.Name() {
					case "Print":
						for _, a := range varargs(x.Call.Args[0]) {
							out = append(out, se.evalText(a, env, 0)...)
						}
					case "Printf":
						format, ok := sx.ConstString(x.Call.Args[0])
						if !ok {
							se.bad = "non-constant format"
							return
						}
						out = append(out, se.printfText(format, varargs(x.Call.Args[1]), env)...)
					}
					continue
				}
				// a helper of the module that receives the value being printed and the printer: execute it in line
				if se.printer != nil && depth < 3 {
					if callee := sx.Callee(x); callee != nil && callee.Blocks != nil && load.IsModPath(pkgPathOf(callee)) {
						ri, pi := -1, -1
						for i, a := range x.Call.Args {
							if a == se.recv {
								ri = i
							}
							if a == se.printer {
								pi = i
							}
						}
						if ri >= 0 && pi >= 0 && ri < len(callee.Params) && pi < len(callee.Params) {
							sub := &symExec{fn: callee, recv: callee.Params[ri], printer: callee.Params[pi], limit: se.limit}
							sub.runFrom(callee.Blocks[0], out, f.conds, depth+1)
							if sub.bad != "" {
								se.bad = sub.bad
								return
							}
							for _, sp := range sub.paths {
								walk(symFrame{f.b, ii + 1, f.pred, env, sp.conds, sp.text, seen})
							}
							return
						}
					}
				}
			case *ssa.Return:
				p := symPath{conds: f.conds, text: out}
				if se.printer == nil {
					if len(x.Results) == 1 {
						p.text = se.evalText(x.Results[0], env, 0)
					}
				}
				se.paths = append(se.paths, p)
				return
			case *ssa.If:
				key, pos, ok := se.condOf(x.Cond)
				for i, s := range f.b.Succs {
					conds := map[string]bool{}
					for k, v := range f.conds {
						conds[k] = v
					}
					if ok {
						truth := (i == 0) == pos
						if prev, had := conds[key]; had && prev != truth {
							continue // infeasible: contradicts an earlier test of the same field
						}
						conds[key] = truth
					} else if se.printer == nil {
						se.bad = "condition not over receiver fields: " + describeVal(x.Cond)
						return
					}
					walk(symFrame{s, 0, f.b, env, conds, out, seen})
				}
				return
			case *ssa.Jump:
				walk(symFrame{f.b.Succs[0], 0, f.b, env, f.conds, out, seen})
				return
			}
		}
	}
	walk(symFrame{start, 0, nil, map[ssa.Value]symText{}, conds, initial, nil})
}

func pkgPathOf(fn *ssa.Function) string {
	if pk := load.FnPkg(fn); pk != nil {
		return pk.Path()
	}
	return ""
}

// printfText renders a constant format with symbolic arguments.
func (se *symExec) printfText(format string, args []ssa.Value, env map[ssa.Value]symText) symText {
	var out symText
	ai := 0
	for len(format) > 0 {
		i := strings.IndexByte(format, '%')
		if i < 0 {
			out = append(out, textAtom{Const: format})
			break
		}
		out = append(out, textAtom{Const: format[:i]})
		if i+1 >= len(format) {
			break
		}
		verb := format[i+1]
		format = format[i+2:]
		switch verb {
		case '%':
			out = append(out, textAtom{Const: "%"})
		case 's', 'v', 'd':
			if ai < len(args) {
				out = append(out, se.evalText(args[ai], env, 0)...)
			} else {
				out = append(out, textAtom{Other: "missing argument"})
			}
			ai++
		default:
			out = append(out, textAtom{Other: "verb %" + string(verb)})
		}
	}
	return out
}

func runSpecialText(c *core.Ctx) {
	p := c.P
	cs := GetCensus(c)
	n, nWhole := 0, 0
	for _, sp := range cs.Specials {
		if len(sp.Params) != 3 {
			continue
		}
		errP, prP := sp.Params[0], sp.Params[1]
		// typed arms: comma-ok assertions of the error parameter to a foreign pointer-to-struct type that wraps an error
		sx.EachInstr(sp, func(in ssa.Instruction) {
			ta, ok := in.(*ssa.TypeAssert)
			if !ok || !ta.CommaOk || ta.X != ssa.Value(errP) {
				return
			}
			if _, isIface := types.Unalias(ta.AssertedType).Underlying().(*types.Interface); isIface {
				// an interface arm (runtime.Error, redact.SafeMessager - an alias of an interface literal): the arm prints
				// the whole text, which must be the value's own Error()
				checkWholeTextArm(c, sp, ta, prP)
				nWhole++
				return
			}
			named := sx.NamedOf(ta.AssertedType)
			if named == nil || named.Obj().Pkg() == nil || load.IsModPath(named.Obj().Pkg().Path()) {
				return
			}
			if _, isPtr := types.Unalias(ta.AssertedType).(*types.Pointer); !isPtr {
				// an interface or a non-pointer leaf type (runtime.Error, syscall.Errno, redact.SafeMessager): the arm
				// prints the whole text, which must be the value's own Error()
				checkWholeTextArm(c, sp, ta, prP)
				nWhole++
				return
			}
			if _, isStruct := named.Underlying().(*types.Struct); !isStruct {
				return
			}
			errFn := p.Method(named, "Error")
			if errFn == nil || errFn.Blocks == nil {
				return
			}
			construct := load.FnName(sp) + ": arm for " + load.TypeName(ta.AssertedType)
			// the arm: successor taken when ok is true
			var armStart *ssa.BasicBlock
			var recv ssa.Value
			for _, r := range *ta.Referrers() {
				ex, ok := r.(*ssa.Extract)
				if !ok {
					continue
				}
				if ex.Index == 0 {
					recv = ex
				}
				if ex.Index == 1 {
					for _, u := range *ex.Referrers() {
						if ifi, ok := u.(*ssa.If); ok {
							armStart = ifi.Block().Succs[0]
						}
					}
				}
			}
			if armStart == nil || recv == nil {
				c.Undecided(construct, ta.Pos(), "typed arm not recognised (no branch on the assertion result)")
				return
			}
			n++
			// the type's own Error()
			own := &symExec{fn: errFn, recv: errFn.Params[0], limit: 64}
			own.run(errFn.Blocks[0], nil)
			if own.bad != "" {
				c.Note("R-SPECIAL-TEXT: %s of %s is not symbolically executable (%s): listed, not decided", load.FnName(errFn), load.TypeName(ta.AssertedType), own.bad)
				return
			}
			arm := &symExec{fn: sp, recv: recv, printer: prP, limit: 64}
			arm.run(armStart, nil)
			if arm.bad != "" {
				c.Undecided(construct, ta.Pos(), "the arm is not symbolically executable: "+arm.bad)
				return
			}
			// table of Error(): condition -> prefix text
			want := map[string]string{}
			var wantConds []map[string]bool
			for _, pth := range own.paths {
				if v, has := pth.conds["recv != nil"]; has && !v {
					continue
				}
				t := pth.text
				nn := len(t)
				if nn < 1 || t[nn-1].ErrText == "" {
					c.Note("R-SPECIAL-TEXT: a path of %s does not end with the cause's text (%s): listed, not decided", load.FnName(errFn), t.norm())
					return
				}
				t = append(symText{}, t[:nn-1]...)
				s := t.norm()
				if !strings.HasSuffix(s, `: "`) && !strings.HasSuffix(s, `": "`) {
					// strip the trailing ": " of the last constant
				}
				// remove trailing ": " from the last constant atom
				if k := len(t); k > 0 && t[k-1].Field == "" && t[k-1].ErrText == "" && strings.HasSuffix(t[k-1].Const, ": ") {
					t[k-1].Const = strings.TrimSuffix(t[k-1].Const, ": ")
				} else {
					c.Note("R-SPECIAL-TEXT: %s does not separate the cause with \": \": listed, not decided", load.FnName(errFn))
					return
				}
				cnd := map[string]bool{}
				for k, v := range pth.conds {
					if k != "recv != nil" {
						cnd[k] = v
					}
				}
				want[condKey(cnd)] = t.norm()
				wantConds = append(wantConds, cnd)
			}
			// every arm path must agree with the Error() row(s) compatible with its condition
			okAll := true
			var diffs []string
			for _, ap := range arm.paths {
				for _, wc := range wantConds {
					compatible := true
					for k, v := range wc {
						if av, has := ap.conds[k]; has && av != v {
							compatible = false
						}
					}
					if !compatible {
						continue
					}
					// the arm must have decided at least the same tests, or print the same text regardless
					got := ap.text.norm()
					if got != want[condKey(wc)] {
						okAll = false
						diffs = append(diffs, fmt.Sprintf("when %s: the arm prints %s but Error() is %s", orAlways(condKey(wc)), got, want[condKey(wc)]))
					}
				}
			}
			sort.Strings(diffs)
			diffs = dedupStr(diffs)
			if okAll {
				c.Ob(construct, ta.Pos(), true, fmt.Sprintf("prints the text of %s on all %d path conditions", load.FnName(errFn), len(wantConds)))
			} else {
				// the differences are part of the finding's identity: a different discrepancy is a different finding
				c.Fail(construct, ta.Pos(), "the special-case printer does not print this type the way its own Error() does (standard-library source), so %v/%s of a library error wrapping it differs from Error(): "+strings.Join(diffs, "; "))
			}
		})
	}
	c.Min("typed arms for foreign wrappers", n, 3)
	c.Min("whole-text arms (interfaces and leaf types)", nWhole, 2)
}

// checkWholeTextArm: on the arm taken when err is asserted to the (interface or leaf) type T, everything printed is
// v.Error() of the asserted value, possibly declared safe.
func checkWholeTextArm(c *core.Ctx, sp *ssa.Function, ta *ssa.TypeAssert, printer *ssa.Parameter) {
	construct := load.FnName(sp) + ": arm for " + load.TypeName(ta.AssertedType)
	var armStart *ssa.BasicBlock
	var recv ssa.Value
	for _, r := range *ta.Referrers() {
		ex, ok := r.(*ssa.Extract)
		if !ok {
			continue
		}
		if ex.Index == 0 {
			recv = ex
		}
		if ex.Index == 1 {
			for _, u := range *ex.Referrers() {
				if ifi, ok := u.(*ssa.If); ok {
					armStart = ifi.Block().Succs[0]
				}
			}
		}
	}
	if armStart == nil || recv == nil {
		c.Undecided(construct, ta.Pos(), "typed arm not recognised (no branch on the assertion result)")
		return
	}
	// the arm's blocks: dominated by armStart
	var what []string
	for _, b := range sp.Blocks {
		if !armStart.Dominates(b) {
			continue
		}
		for _, in := range b.Instrs {
			call, ok := in.(*ssa.Call)
			if !ok || !call.Call.IsInvoke() || call.Call.Value != ssa.Value(printer) {
				continue
			}
			var vals []ssa.Value
			switch call.Call.Method.Name() {
			case "Print":
				vals = varargs(call.Call.Args[0])
			case "Printf":
				vals = append(vals, varargs(call.Call.Args[1])...)
				if f, isC := sx.ConstString(call.Call.Args[0]); !isC || f != "%s" && f != "%v" {
					what = append(what, "a formatted text")
				}
			default:
				continue
			}
			for _, v := range vals {
				v = stripIface(v)
				if sc, isCall := v.(*ssa.Call); isCall {
					if f := sx.Callee(sc); f != nil && f.Name() == "Safe" && len(sc.Call.Args) == 1 {
						v = stripIface(sc.Call.Args[0])
					}
				}
				ec, isCall := v.(*ssa.Call)
				isErrText := false
				if isCall {
					if ec.Call.IsInvoke() && ec.Call.Method.Name() == "Error" && ec.Call.Value == recv {
						isErrText = true
					}
					if f := sx.Callee(ec); f != nil && f.Name() == "Error" && len(ec.Call.Args) == 1 && ec.Call.Args[0] == recv {
						isErrText = true
					}
				}
				if !isErrText {
					d := describeVal(v)
					if isCall && ec.Call.IsInvoke() {
						d = "the value's " + ec.Call.Method.Name() + "()"
					}
					what = append(what, d)
				}
			}
		}
	}
	sort.Strings(what)
	what = dedupStr(what)
	if len(what) == 0 {
		c.Ob(construct, ta.Pos(), true, "prints the value's own Error()")
	} else {
		c.Fail(construct, ta.Pos(), "the special-case printer prints "+strings.Join(what, ", ")+" instead of the value's Error() text, so %v/%s of a library error wrapping such a value differs from its Error() string")
	}
}

func orAlways(s string) string {
	if s == "" {
		return "always"
	}
	return s
}
