package rules

import (
	"fmt"
	"go/token"
	"go/types"
	"sort"
	"strings"

	"golang.org/x/tools/go/ssa"

	"verif/checker/internal/core"
	"verif/checker/internal/load"
	"verif/checker/internal/sx"
)

// R-SPECIAL-TEXT: the typed arms of the special-case printer print the text of
// the type's own Error() (cause part excluded), decided by symbolic execution
// of both functions over the receiver's fields - no execution.

var rSpecialText = &Rule{
	Name: "R-SPECIAL-TEXT",
	Doc: "the special-case printer renders a standard-library wrapper exactly as the wrapper renders itself: for each typed arm of a registered special-case printer whose type is a wrapper defined outside the module (os.PathError, os.LinkError, os.SyscallError, net.OpError), both the arm and the type's own Error() method (standard-library source, loaded with the program) are executed SYMBOLICALLY over the receiver's fields - every acyclic path, with the field tests taken (Net != \"\", Source != nil, Addr != nil) as path condition and the produced text as a sequence of constants and field references - " +
		"and for every path condition the arm's text must equal Error()'s text minus its final \": \" + Err.Error(). Otherwise %v / %s of a library error wrapping such a value differs from its Error() string",
	Run: runSpecialText,
}

// symText is a symbolic string: constants and references to receiver fields.
type symText []textAtom

func (t symText) norm() string {
	var out []textAtom
	for _, a := range t {
		if a.Field == "" && a.ErrText == "" && a.Other == "" {
			if a.Const == "" {
				continue
			}
			if n := len(out); n > 0 && out[n-1].Field == "" && out[n-1].ErrText == "" && out[n-1].Other == "" {
				out[n-1].Const += a.Const
				continue
			}
		}
		out = append(out, a)
	}
	return atomsString(out)
}

// symPath is one path: the field tests taken and the text produced.
type symPath struct {
	conds map[string]bool // "Net != \"\"" -> truth
	text  symText
	skip  bool // path for a nil receiver / not interesting
}

func condKey(conds map[string]bool) string {
	var ks []string
	for k, v := range conds {
		ks = append(ks, fmt.Sprintf("%s=%v", k, v))
	}
	sort.Strings(ks)
	return strings.Join(ks, " && ")
}

// symExec enumerates the acyclic paths of fn from block start to any Return (or to stop(b) blocks), evaluating
// string values symbolically relative to the receiver value recv.
type symExec struct {
	fn      *ssa.Function
	recv    ssa.Value
	printer ssa.Value // parameter receiving Print/Printf (nil: collect the returned string instead)
	paths   []symPath
	limit   int
	steps   int
	bad     string
}

func (se *symExec) fieldOfRecv(v ssa.Value) (string, bool) {
	ld, ok := v.(*ssa.UnOp)
	if !ok || ld.Op != token.MUL {
		return "", false
	}
	fa, ok := ld.X.(*ssa.FieldAddr)
	if !ok || fa.X != se.recv {
		return "", false
	}
	return fieldNameOf(fa), true
}

// evalText evaluates a string-typed (or printable) value along a path; pred is the block we came from (for phis).
func (se *symExec) evalText(v ssa.Value, env map[ssa.Value]symText, d int) symText {
	if t, ok := env[v]; ok {
		return t
	}
	if d > 12 {
		return symText{{Other: "deep"}}
	}
	switch x := v.(type) {
	case *ssa.Const:
		if s, ok := sx.ConstString(x); ok {
			return symText{{Const: s}}
		}
	case *ssa.BinOp:
		if x.Op == token.ADD {
			return append(append(symText{}, se.evalText(x.X, env, d+1)...), se.evalText(x.Y, env, d+1)...)
		}
	case *ssa.UnOp:
		if f, ok := se.fieldOfRecv(x); ok {
			return symText{{Field: f}}
		}
	case *ssa.MakeInterface:
		return se.evalText(x.X, env, d+1)
	case *ssa.ChangeInterface:
		return se.evalText(x.X, env, d+1)
	case *ssa.Call:
		// x.String() / x.Error() of a receiver field; redact.Safe(x)
		if x.Call.IsInvoke() && len(x.Call.Args) == 0 {
			if f, ok := se.fieldOfRecv(x.Call.Value); ok {
				switch x.Call.Method.Name() {
				case "String":
					return symText{{Field: f}}
				case "Error":
					return symText{{ErrText: f}}
				}
			}
		}
		if f := sx.Callee(x); f != nil && f.Name() == "Safe" && f.Pkg != nil && f.Pkg.Pkg.Path() == redactPath && len(x.Call.Args) == 1 {
			return se.evalText(x.Call.Args[0], env, d+1)
		}
	}
	return symText{{Other: fmt.Sprintf("%T", v)}}
}

// condOf describes an If condition as a test of a receiver field; ok=false when it is something else.
func (se *symExec) condOf(c ssa.Value) (key string, positive bool, ok bool) {
	bin, isBin := c.(*ssa.BinOp)
	if !isBin || (bin.Op != token.EQL && bin.Op != token.NEQ) {
		return "", false, false
	}
	for _, pr := range [][2]ssa.Value{{bin.X, bin.Y}, {bin.Y, bin.X}} {
		if pr[0] == se.recv && sx.IsNil(pr[1]) {
			return "recv != nil", bin.Op == token.NEQ, true
		}
		f, isF := se.fieldOfRecv(pr[0])
		if !isF {
			continue
		}
		if sx.IsNil(pr[1]) {
			return f + " != nil", bin.Op == token.NEQ, true
		}
		if s, isS := sx.ConstString(pr[1]); isS && s == "" {
			return f + ` != ""`, bin.Op == token.NEQ, true
		}
	}
	return "", false, false
}

func (se *symExec) run(start *ssa.BasicBlock, initial symText) {
	se.runFrom(start, initial, map[string]bool{}, 0, newSymState())
}

// symState is what a path knows besides the text printed so far: symbolic strings, concrete integers and booleans
// (loop counters over argument lists of known length), slices whose elements are known (variadic argument lists,
// argument lists built by append) and the arrays behind them.
type symState struct {
	env    map[ssa.Value]symText
	ints   map[ssa.Value]int64
	bools  map[ssa.Value]bool
	slices map[ssa.Value][]symText
	arrs   map[ssa.Value]map[int64]symText
}

func newSymState() *symState {
	return &symState{map[ssa.Value]symText{}, map[ssa.Value]int64{}, map[ssa.Value]bool{}, map[ssa.Value][]symText{}, map[ssa.Value]map[int64]symText{}}
}

func (st *symState) clone() *symState {
	n := newSymState()
	for k, v := range st.env {
		n.env[k] = v
	}
	for k, v := range st.ints {
		n.ints[k] = v
	}
	for k, v := range st.bools {
		n.bools[k] = v
	}
	for k, v := range st.slices {
		n.slices[k] = v
	}
	for k, v := range st.arrs {
		m := map[int64]symText{}
		for i, t := range v {
			m[i] = t
		}
		n.arrs[k] = m
	}
	return n
}

func (st *symState) intOf(v ssa.Value) (int64, bool) {
	if k, ok := st.ints[v]; ok {
		return k, true
	}
	if c, ok := v.(*ssa.Const); ok {
		return sx.ConstInt(c)
	}
	return 0, false
}

// sliceOf: the known elements of a slice value (a nil constant is the empty slice).
func (se *symExec) sliceOf(v ssa.Value, st *symState) ([]symText, bool) {
	if el, ok := st.slices[v]; ok {
		return el, true
	}
	if c, ok := v.(*ssa.Const); ok && c.IsNil() {
		return nil, true
	}
	// a literal argument list whose stores are all in straight-line code
	if sl, ok := v.(*ssa.Slice); ok {
		if _, isAlloc := sl.X.(*ssa.Alloc); isAlloc && sl.Low == nil && sl.High == nil {
			if _, tracked := st.arrs[sl.X]; !tracked {
				var out []symText
				for _, a := range varargs(v) {
					if a == nil {
						return nil, false
					}
					out = append(out, se.evalText(a, st.env, 0))
				}
				return out, true
			}
		}
	}
	return nil, false
}

type symFrame struct {
	b     *ssa.BasicBlock
	idx   int // first instruction to execute
	pred  *ssa.BasicBlock
	st    *symState
	conds map[string]bool
	out   symText
}

func (se *symExec) runFrom(start *ssa.BasicBlock, initial symText, conds map[string]bool, depth int, st0 *symState) {
	var walk func(f symFrame)
	walk = func(f symFrame) {
		if se.bad != "" {
			return
		}
		if len(se.paths) > se.limit {
			se.bad = "too many paths"
			return
		}
		se.steps++
		if se.steps > 4000 {
			se.bad = "loop in " + load.FnName(se.fn) + " whose trip count is not fixed by the arguments"
			return
		}
		st := f.st
		if f.idx == 0 {
			st = f.st.clone()
			// the phis of a block are assigned simultaneously
			type upd struct {
				phi *ssa.Phi
				t   symText
				n   int64
				isN bool
				sl  []symText
				isS bool
			}
			var ups []upd
			for _, in := range f.b.Instrs {
				x, ok := in.(*ssa.Phi)
				if !ok {
					break
				}
				for i, p := range f.b.Preds {
					if p != f.pred {
						continue
					}
					u := upd{phi: x}
					if n, ok := st.intOf(x.Edges[i]); ok {
						u.n, u.isN = n, true
					} else if sl, ok := se.sliceOf(x.Edges[i], st); ok && isSliceT(x.Type()) {
						u.sl, u.isS = sl, true
					} else {
						u.t = se.evalText(x.Edges[i], st.env, 0)
					}
					ups = append(ups, u)
				}
			}
			for _, u := range ups {
				delete(st.env, u.phi)
				delete(st.ints, u.phi)
				delete(st.slices, u.phi)
				switch {
				case u.isN:
					st.ints[u.phi] = u.n
				case u.isS:
					st.slices[u.phi] = u.sl
				default:
					st.env[u.phi] = u.t
				}
			}
		}
		env := st.env
		out := append(symText{}, f.out...)
		for ii := f.idx; ii < len(f.b.Instrs); ii++ {
			in := f.b.Instrs[ii]
			switch x := in.(type) {
			case *ssa.Phi:
				// assigned on block entry
			case *ssa.Alloc:
				if _, isArr := sx.Deref(x.Type()).Underlying().(*types.Array); isArr {
					st.arrs[x] = map[int64]symText{}
				}
			case *ssa.Store:
				if ia, ok := x.Addr.(*ssa.IndexAddr); ok {
					if cells, tracked := st.arrs[ia.X]; tracked {
						if k, ok := st.intOf(ia.Index); ok {
							cells[k] = se.evalText(x.Val, env, 0)
						} else {
							se.bad = "store at an index that is not fixed by the arguments"
							return
						}
					}
				}
			case *ssa.Slice:
				if cells, tracked := st.arrs[x.X]; tracked && x.Low == nil && x.High == nil {
					arr := sx.Deref(x.X.Type()).Underlying().(*types.Array)
					el := make([]symText, arr.Len())
					for i := range el {
						if t, ok := cells[int64(i)]; ok {
							el[i] = t
						} else {
							el[i] = symText{{Other: "unset element"}}
						}
					}
					st.slices[x] = el
				}
			case *ssa.UnOp:
				// an element of a known slice
				if ia, ok := x.X.(*ssa.IndexAddr); ok && x.Op == token.MUL {
					if el, ok := se.sliceOf(ia.X, st); ok {
						if k, ok := st.intOf(ia.Index); ok && k >= 0 && int(k) < len(el) {
							env[x] = el[k]
						}
					}
				}
			case *ssa.BinOp:
				a, okA := st.intOf(x.X)
				b, okB := st.intOf(x.Y)
				if okA && okB {
					switch x.Op {
					case token.ADD:
						st.ints[x] = a + b
					case token.SUB:
						st.ints[x] = a - b
					case token.LSS:
						st.bools[x] = a < b
					case token.LEQ:
						st.bools[x] = a <= b
					case token.GTR:
						st.bools[x] = a > b
					case token.GEQ:
						st.bools[x] = a >= b
					case token.EQL:
						st.bools[x] = a == b
					case token.NEQ:
						st.bools[x] = a != b
					}
				} else if x.Op == token.ADD && isStringType(x.Type()) {
					// evaluated where it stands: its operands may be loop-carried
					delete(env, x)
					env[x] = se.evalText(x, env, 0)
				}
			case *ssa.Call:
				if b, ok := x.Call.Value.(*ssa.Builtin); ok {
					switch b.Name() {
					case "len":
						if el, ok := se.sliceOf(x.Call.Args[0], st); ok {
							st.ints[x] = int64(len(el))
						}
					case "append":
						base, ok1 := se.sliceOf(x.Call.Args[0], st)
						add, ok2 := se.sliceOf(x.Call.Args[1], st)
						if ok1 && ok2 {
							st.slices[x] = append(append([]symText{}, base...), add...)
						}
					}
					continue
				}
				if se.printer != nil && x.Call.IsInvoke() && x.Call.Value == se.printer {
					switch x.Call.Method.Name() {
					case "Print":
						el, ok := se.sliceOf(x.Call.Args[0], st)
						if !ok {
							se.bad = "argument list of Print is not known"
							return
						}
						for _, t := range el {
							out = append(out, t...)
						}
					case "Printf":
						format, ok := constText(se.evalText(x.Call.Args[0], env, 0))
						if !ok {
							se.bad = "non-constant format"
							return
						}
						el, ok := se.sliceOf(x.Call.Args[1], st)
						if !ok {
							se.bad = "argument list of Printf is not known"
							return
						}
						out = append(out, printfText(format, el)...)
					}
					continue
				}
				// a helper of the module that receives the printer: execute it in line, its parameters bound to what
				// the arguments are known to be (the value being printed, texts, argument lists)
				if se.printer != nil {
					callee := sx.Callee(x)
					pi := -1
					for i, a := range x.Call.Args {
						if a == se.printer {
							pi = i
						}
					}
					if pi >= 0 {
						if callee == nil || callee.Blocks == nil || !load.IsModPath(pkgPathOf(callee)) || depth >= 3 || pi >= len(callee.Params) {
							se.bad = "the printer is handed to " + sx.TrimMod(sx.CalleeName(x)) + ", which cannot be followed"
							return
						}
						sub := &symExec{fn: callee, printer: callee.Params[pi], limit: se.limit}
						sst := newSymState()
						for i, a := range x.Call.Args {
							if i >= len(callee.Params) || i == pi {
								continue
							}
							prm := callee.Params[i]
							switch {
							case a == se.recv:
								sub.recv = prm
							case isSliceT(prm.Type()):
								if el, ok := se.sliceOf(a, st); ok {
									sst.slices[prm] = el
								}
							default:
								if n, ok := st.intOf(a); ok {
									sst.ints[prm] = n
								} else {
									sst.env[prm] = se.evalText(a, env, 0)
								}
							}
						}
						sub.runFrom(callee.Blocks[0], out, f.conds, depth+1, sst)
						se.steps += sub.steps
						if sub.bad != "" {
							se.bad = sub.bad
							return
						}
						for _, sp := range sub.paths {
							walk(symFrame{f.b, ii + 1, f.pred, st.clone(), sp.conds, sp.text})
						}
						return
					}
				}
			case *ssa.Return:
				p := symPath{conds: f.conds, text: out}
				if se.printer == nil {
					if len(x.Results) == 1 {
						p.text = se.evalText(x.Results[0], env, 0)
					}
				}
				se.paths = append(se.paths, p)
				return
			case *ssa.If:
				if truth, known := st.bools[x.Cond]; known {
					i := 1
					if truth {
						i = 0
					}
					walk(symFrame{f.b.Succs[i], 0, f.b, st, f.conds, out})
					return
				}
				key, pos, ok := se.condOf(x.Cond)
				if !ok {
					// a test of a text this path knows: decided when the text is a constant
					if bin, isBin := x.Cond.(*ssa.BinOp); isBin && (bin.Op == token.EQL || bin.Op == token.NEQ) && isStringType(bin.X.Type()) {
						l, okL := constText(se.evalText(bin.X, env, 0))
						r, okR := constText(se.evalText(bin.Y, env, 0))
						if okL && okR {
							i := 1
							if (l == r) == (bin.Op == token.EQL) {
								i = 0
							}
							walk(symFrame{f.b.Succs[i], 0, f.b, st, f.conds, out})
							return
						}
					}
				}
				for i, s := range f.b.Succs {
					conds := map[string]bool{}
					for k, v := range f.conds {
						conds[k] = v
					}
					if ok {
						truth := (i == 0) == pos
						if prev, had := conds[key]; had && prev != truth {
							continue // infeasible: contradicts an earlier test of the same field
						}
						conds[key] = truth
					} else if se.printer == nil {
						se.bad = "condition not over receiver fields: " + describeVal(x.Cond)
						return
					}
					walk(symFrame{s, 0, f.b, st, conds, out})
				}
				return
			case *ssa.Jump:
				walk(symFrame{f.b.Succs[0], 0, f.b, st, f.conds, out})
				return
			}
		}
	}
	walk(symFrame{start, 0, nil, st0, conds, initial})
}

func isSliceT(t types.Type) bool {
	_, ok := types.Unalias(t).Underlying().(*types.Slice)
	return ok
}

// constText: the text consists of constants only.
func constText(t symText) (string, bool) {
	var sb strings.Builder
	for _, a := range t {
		if a.Field != "" || a.ErrText != "" || a.Other != "" {
			return "", false
		}
		sb.WriteString(a.Const)
	}
	return sb.String(), true
}

func pkgPathOf(fn *ssa.Function) string {
	if pk := load.FnPkg(fn); pk != nil {
		return pk.Path()
	}
	return ""
}

// printfText renders a constant format with symbolic arguments.
func printfText(format string, args []symText) symText {
	var out symText
	ai := 0
	for len(format) > 0 {
		i := strings.IndexByte(format, '%')
		if i < 0 {
			out = append(out, textAtom{Const: format})
			break
		}
		out = append(out, textAtom{Const: format[:i]})
		if i+1 >= len(format) {
			break
		}
		verb := format[i+1]
		format = format[i+2:]
		switch verb {
		case '%':
			out = append(out, textAtom{Const: "%"})
		case 's', 'v', 'd':
			if ai < len(args) {
				out = append(out, args[ai]...)
			} else {
				out = append(out, textAtom{Other: "missing argument"})
			}
			ai++
		default:
			out = append(out, textAtom{Other: "verb %" + string(verb)})
		}
	}
	return out
}

func runSpecialText(c *core.Ctx) {
	p := c.P
	cs := GetCensus(c)
	n, nWhole := 0, 0
	for _, sp := range cs.Specials {
		if len(sp.Params) != 3 {
			continue
		}
		errP, prP := sp.Params[0], sp.Params[1]
		// typed arms: comma-ok assertions of the error parameter to a foreign pointer-to-struct type that wraps an error
		sx.EachInstr(sp, func(in ssa.Instruction) {
			ta, ok := in.(*ssa.TypeAssert)
			if !ok || !ta.CommaOk || ta.X != ssa.Value(errP) {
				return
			}
			if _, isIface := types.Unalias(ta.AssertedType).Underlying().(*types.Interface); isIface {
				// an interface arm (runtime.Error, redact.SafeMessager - an alias of an interface literal): the arm prints
				// the whole text, which must be the value's own Error()
				checkWholeTextArm(c, sp, ta, prP)
				nWhole++
				return
			}
			named := sx.NamedOf(ta.AssertedType)
			if named == nil || named.Obj().Pkg() == nil || load.IsModPath(named.Obj().Pkg().Path()) {
				return
			}
			if _, isPtr := types.Unalias(ta.AssertedType).(*types.Pointer); !isPtr {
				// an interface or a non-pointer leaf type (runtime.Error, syscall.Errno, redact.SafeMessager): the arm
				// prints the whole text, which must be the value's own Error()
				checkWholeTextArm(c, sp, ta, prP)
				nWhole++
				return
			}
			if _, isStruct := named.Underlying().(*types.Struct); !isStruct {
				return
			}
			errFn := p.Method(named, "Error")
			if errFn == nil || errFn.Blocks == nil {
				return
			}
			construct := load.FnName(sp) + ": arm for " + load.TypeName(ta.AssertedType)
			// the arm: successor taken when ok is true
			var armStart *ssa.BasicBlock
			var recv ssa.Value
			for _, r := range *ta.Referrers() {
				ex, ok := r.(*ssa.Extract)
				if !ok {
					continue
				}
				if ex.Index == 0 {
					recv = ex
				}
				if ex.Index == 1 {
					for _, u := range *ex.Referrers() {
						if ifi, ok := u.(*ssa.If); ok {
							armStart = ifi.Block().Succs[0]
						}
					}
				}
			}
			if armStart == nil || recv == nil {
				c.Undecided(construct, ta.Pos(), "typed arm not recognised (no branch on the assertion result)")
				return
			}
			n++
			// the type's own Error()
			own := &symExec{fn: errFn, recv: errFn.Params[0], limit: 64}
			own.run(errFn.Blocks[0], nil)
			if own.bad != "" {
				c.Note("R-SPECIAL-TEXT: %s of %s is not symbolically executable (%s): listed, not decided", load.FnName(errFn), load.TypeName(ta.AssertedType), own.bad)
				return
			}
			arm := &symExec{fn: sp, recv: recv, printer: prP, limit: 64}
			arm.run(armStart, nil)
			if arm.bad != "" {
				c.Undecided(construct, ta.Pos(), "the arm is not symbolically executable: "+arm.bad)
				return
			}
			// table of Error(): condition -> prefix text
			want := map[string]string{}
			var wantConds []map[string]bool
			for _, pth := range own.paths {
				if v, has := pth.conds["recv != nil"]; has && !v {
					continue
				}
				t := pth.text
				nn := len(t)
				if nn < 1 || t[nn-1].ErrText == "" {
					c.Note("R-SPECIAL-TEXT: a path of %s does not end with the cause's text (%s): listed, not decided", load.FnName(errFn), t.norm())
					return
				}
				t = append(symText{}, t[:nn-1]...)
				s := t.norm()
				if !strings.HasSuffix(s, `: "`) && !strings.HasSuffix(s, `": "`) {
					// strip the trailing ": " of the last constant
				}
				// remove trailing ": " from the last constant atom
				if k := len(t); k > 0 && t[k-1].Field == "" && t[k-1].ErrText == "" && strings.HasSuffix(t[k-1].Const, ": ") {
					t[k-1].Const = strings.TrimSuffix(t[k-1].Const, ": ")
				} else {
					c.Note("R-SPECIAL-TEXT: %s does not separate the cause with \": \": listed, not decided", load.FnName(errFn))
					return
				}
				cnd := map[string]bool{}
				for k, v := range pth.conds {
					if k != "recv != nil" {
						cnd[k] = v
					}
				}
				want[condKey(cnd)] = t.norm()
				wantConds = append(wantConds, cnd)
			}
			// every arm path must agree with the Error() row(s) compatible with its condition
			okAll := true
			var diffs []string
			for _, ap := range arm.paths {
				for _, wc := range wantConds {
					compatible := true
					for k, v := range wc {
						if av, has := ap.conds[k]; has && av != v {
							compatible = false
						}
					}
					if !compatible {
						continue
					}
					// the arm must have decided at least the same tests, or print the same text regardless
					got := ap.text.norm()
					if got != want[condKey(wc)] {
						okAll = false
						diffs = append(diffs, fmt.Sprintf("when %s: the arm prints %s but Error() is %s", orAlways(condKey(wc)), got, want[condKey(wc)]))
					}
				}
			}
			sort.Strings(diffs)
			diffs = dedupStr(diffs)
			if okAll {
				c.Ob(construct, ta.Pos(), true, fmt.Sprintf("prints the text of %s on all %d path conditions", load.FnName(errFn), len(wantConds)))
			} else {
				// the differences are part of the finding's identity: a different discrepancy is a different finding
				c.Fail(construct, ta.Pos(), "the special-case printer does not print this type the way its own Error() does (standard-library source), so %v/%s of a library error wrapping it differs from Error(): "+strings.Join(diffs, "; "))
			}
		})
	}
	c.Min("typed arms for foreign wrappers", n, 3)
	c.Min("whole-text arms (interfaces and leaf types)", nWhole, 2)
}

// checkWholeTextArm: on the arm taken when err is asserted to the (interface or leaf) type T, everything printed is
// v.Error() of the asserted value, possibly declared safe.
func checkWholeTextArm(c *core.Ctx, sp *ssa.Function, ta *ssa.TypeAssert, printer *ssa.Parameter) {
	construct := load.FnName(sp) + ": arm for " + load.TypeName(ta.AssertedType)
	var armStart *ssa.BasicBlock
	var recv ssa.Value
	for _, r := range *ta.Referrers() {
		ex, ok := r.(*ssa.Extract)
		if !ok {
			continue
		}
		if ex.Index == 0 {
			recv = ex
		}
		if ex.Index == 1 {
			for _, u := range *ex.Referrers() {
				if ifi, ok := u.(*ssa.If); ok {
					armStart = ifi.Block().Succs[0]
				}
			}
		}
	}
	if armStart == nil || recv == nil {
		c.Undecided(construct, ta.Pos(), "typed arm not recognised (no branch on the assertion result)")
		return
	}
	// the arm's blocks: dominated by armStart
	var what []string
	for _, b := range sp.Blocks {
		if !armStart.Dominates(b) {
			continue
		}
		for _, in := range b.Instrs {
			call, ok := in.(*ssa.Call)
			if !ok || !call.Call.IsInvoke() || call.Call.Value != ssa.Value(printer) {
				continue
			}
			var vals []ssa.Value
			switch call.Call.Method.Name() {
			case "Print":
				vals = varargs(call.Call.Args[0])
			case "Printf":
				vals = append(vals, varargs(call.Call.Args[1])...)
				if f, isC := sx.ConstString(call.Call.Args[0]); !isC || f != "%s" && f != "%v" {
					what = append(what, "a formatted text")
				}
			default:
				continue
			}
			for _, v := range vals {
				v = stripIface(v)
				if sc, isCall := v.(*ssa.Call); isCall {
					if f := sx.Callee(sc); f != nil && f.Name() == "Safe" && len(sc.Call.Args) == 1 {
						v = stripIface(sc.Call.Args[0])
					}
				}
				ec, isCall := v.(*ssa.Call)
				isErrText := false
				if isCall {
					// (in a merged arm - case A, B: - the switch variable is the error itself)
					if ec.Call.IsInvoke() && ec.Call.Method.Name() == "Error" && (ec.Call.Value == recv || (len(sp.Params) > 0 && ec.Call.Value == ssa.Value(sp.Params[0]))) {
						isErrText = true
					}
					if f := sx.Callee(ec); f != nil && f.Name() == "Error" && len(ec.Call.Args) == 1 && ec.Call.Args[0] == recv {
						isErrText = true
					}
				}
				if !isErrText {
					d := describeVal(v)
					if isCall && ec.Call.IsInvoke() {
						d = "the value's " + ec.Call.Method.Name() + "()"
					}
					what = append(what, d)
				}
			}
		}
	}
	sort.Strings(what)
	what = dedupStr(what)
	if len(what) == 0 {
		c.Ob(construct, ta.Pos(), true, "prints the value's own Error()")
	} else {
		c.Fail(construct, ta.Pos(), "the special-case printer prints "+strings.Join(what, ", ")+" instead of the value's Error() text, so %v/%s of a library error wrapping such a value differs from its Error() string")
	}
}

func orAlways(s string) string {
	if s == "" {
		return "always"
	}
	return s
}
