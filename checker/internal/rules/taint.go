package rules

import (
	"fmt"
	"go/token"
	"go/types"
	"sort"
	"strings"

	"golang.org/x/tools/go/ssa"

	"verif/checker/internal/core"
	"verif/checker/internal/load"
	"verif/checker/internal/origin"
	"verif/checker/internal/sx"
)

// originEngine builds (once) the E-ORIGIN engine with the registry census.
func originEngine(c *core.Ctx) *origin.Engine {
	if v, ok := c.Cache["origin"]; ok {
		return v.(*origin.Engine)
	}
	cs := GetCensus(c)
	dec, enc := map[*ssa.Function]string{}, map[*ssa.Function]string{}
	for _, r := range cs.Regs {
		if r.Fn == nil {
			continue
		}
		if r.IsDec() {
			dec[r.Fn] = r.Kind
		} else {
			enc[r.Fn] = r.Kind
		}
	}
	e := origin.New(c.P, dec, enc)
	e.RegisterStructs()
	c.Cache["origin"] = e
	return e
}

// Sink is one PII-free output position.
type Sink struct {
	Class string // S1..S5
	Name  string
	Pos   token.Pos
	Val   ssa.Value
	Mode  string // "safe" (must be fully safe) or "redactable" (must be a redactable string)
	Fn    *ssa.Function
}

func init() {
	dumpers["origins"] = func(c *core.Ctx) {
		e := originEngine(c)
		for _, s := range taintSinks(c) {
			set := e.Trace(s.Val)
			fmt.Printf("%s %s @%s [%s]\n", s.Class, s.Name, c.P.Pos(s.Pos), s.Mode)
			for _, o := range set.List() {
				ok, why := safeOrigin(c, o, s.Mode)
				fmt.Printf("    %-5v %s   %s\n", ok, o, why)
			}
		}
	}
}

var _ = sort.Strings
var _ = strings.Join
var _ = types.Identical
var _ = load.ModPath
var _ = sx.IsNil

// ---------------------------------------------------------------------------
// sinks

func isPrinterType(t types.Type) bool { return sx.IsNamed(t, errbasePath, "Printer") }

func redactName(f *ssa.Function) string {
	if f == nil {
		return ""
	}
	if pk := load.FnPkg(f); pk != nil && strings.HasPrefix(pk.Path(), redactPath) {
		return f.Name()
	}
	return ""
}

func isSafeValueType(t types.Type) bool {
	n := sx.NamedOf(t)
	if n == nil || n.Obj().Pkg() == nil || !strings.HasPrefix(n.Obj().Pkg().Path(), redactPath) {
		return false
	}
	switch n.Obj().Name() {
	case "SafeString", "SafeInt", "SafeUint", "SafeFloat", "SafeRune":
		return true
	}
	return false
}

func isRedactableStringType(t types.Type) bool {
	n := sx.NamedOf(t)
	if n == nil || n.Obj().Pkg() == nil || !strings.HasPrefix(n.Obj().Pkg().Path(), redactPath) {
		return false
	}
	return n.Obj().Name() == "RedactableString" || n.Obj().Name() == "RedactableBytes"
}

func taintSinks(c *core.Ctx) []*Sink {
	if v, ok := c.Cache["taintsinks"]; ok {
		return v.([]*Sink)
	}
	p := c.P
	cs := GetCensus(c)
	var out []*Sink
	// S1: SafeDetails() of module types
	for _, et := range cs.ErrTypes {
		fn := methodFn(et, "SafeDetails")
		if fn == nil {
			continue
		}
		for i, r := range sx.Returns(fn) {
			out = append(out, &Sink{Class: "S1", Name: fmt.Sprintf("%s.SafeDetails() return#%d", et.Name(), i+1), Pos: r.Pos(), Val: r.Results[0], Mode: "safe", Fn: fn})
		}
	}
	// S2: registered encoders' safe details
	seenEnc := map[*ssa.Function]bool{}
	for _, r := range cs.Regs {
		if !r.IsEnc() || r.Fn == nil || seenEnc[r.Fn] || r.Fn.Blocks == nil {
			continue
		}
		seenEnc[r.Fn] = true
		for i, ret := range sx.Returns(r.Fn) {
			if len(ret.Results) >= 2 {
				out = append(out, &Sink{Class: "S2", Name: fmt.Sprintf("%s safeDetails return#%d", load.FnName(r.Fn), i+1), Pos: ret.Pos(), Val: ret.Results[1], Mode: "safe", Fn: r.Fn})
			}
		}
	}
	// S3: safe-declaration sites
	for _, fn := range p.HandFuncs() {
		if pk := load.FnPkg(fn); pk != nil && strings.HasSuffix(pk.Path(), "/testutils") {
			continue
		}
		n := 0
		sx.EachInstr(fn, func(in ssa.Instruction) {
			switch x := in.(type) {
			case *ssa.Call:
				callee := sx.Callee(x)
				args := x.Call.Args
				if x.Call.IsInvoke() && isPrinterType(x.Call.Value.Type()) && x.Call.Method.Name() == "Printf" {
					n++
					out = append(out, &Sink{Class: "S3", Name: fmt.Sprintf("%s: Printer.Printf format #%d", load.FnName(fn), n), Pos: x.Pos(), Val: args[0], Mode: "safe", Fn: fn})
					return
				}
				switch redactName(callee) {
				case "Safe":
					if len(args) == 1 {
						n++
						out = append(out, &Sink{Class: "S3", Name: fmt.Sprintf("%s: redact.Safe(%s) #%d", load.FnName(fn), describeVal(stripIface(args[0])), n), Pos: x.Pos(), Val: stripIface(args[0]), Mode: "safe", Fn: fn})
					}
				case "Sprintf", "HelperForErrorf":
					n++
					out = append(out, &Sink{Class: "S3", Name: fmt.Sprintf("%s: redact.%s format #%d", load.FnName(fn), callee.Name(), n), Pos: x.Pos(), Val: args[0], Mode: "safe", Fn: fn})
				case "Fprintf":
					if len(args) >= 2 {
						n++
						out = append(out, &Sink{Class: "S3", Name: fmt.Sprintf("%s: redact.Fprintf format #%d", load.FnName(fn), n), Pos: x.Pos(), Val: args[1], Mode: "safe", Fn: fn})
					}
				}
			case *ssa.Convert, *ssa.ChangeType:
				v := in.(ssa.Value)
				var src ssa.Value
				if cv, ok := in.(*ssa.Convert); ok {
					src = cv.X
				} else {
					src = in.(*ssa.ChangeType).X
				}
				switch {
				case isSafeValueType(v.Type()) && !isSafeValueType(src.Type()):
					if _, isConst := src.(*ssa.Const); isConst {
						return
					}
					n++
					out = append(out, &Sink{Class: "S3", Name: fmt.Sprintf("%s: conversion to %s #%d", load.FnName(fn), load.TypeName(v.Type()), n), Pos: sx.InstrPos(in), Val: src, Mode: "safe", Fn: fn})
				case isRedactableStringType(v.Type()) && !isRedactableStringType(src.Type()):
					if fn.Signature.Recv() != nil && sx.IsNamed(fn.Signature.Recv().Type(), errbasePath, "state") {
						return // the formatter's own buffers: decided by R-ESC / R-BUFFLAG (S4)
					}
					n++
					out = append(out, &Sink{Class: "S3", Name: fmt.Sprintf("%s: conversion to %s #%d", load.FnName(fn), load.TypeName(v.Type()), n), Pos: sx.InstrPos(in), Val: src, Mode: "redactable", Fn: fn})
				}
			}
		})
	}
	// S1b: what GetSafeDetails hands out (the per-layer payload)
	if sdp := p.Named("errbase", "SafeDetailPayload"); sdp != nil {
		for _, fn := range p.HandFuncs() {
			n := 0
			sx.EachInstr(fn, func(in ssa.Instruction) {
				st, ok := in.(*ssa.Store)
				if !ok {
					return
				}
				fa, ok := st.Addr.(*ssa.FieldAddr)
				if !ok || !types.Identical(sx.Deref(fa.X.Type()), sdp) {
					return
				}
				n++
				out = append(out, &Sink{Class: "S1", Name: fmt.Sprintf("%s: SafeDetailPayload.%s = … #%d", load.FnName(fn), sx.FieldOf(fa).Name(), n), Pos: st.Pos(), Val: st.Val, Mode: "safe", Fn: fn})
			})
		}
	}
	// S5: the Sentry report
	if pk := p.Pkg("report"); pk != nil {
		for _, fn := range p.HandFuncs() {
			if load.FnPkg(fn) != pk.Types || fn.Name() == "PrintStackTrace" {
				continue
			}
			n := 0
			add := func(what string, pos token.Pos, v ssa.Value) {
				if v == nil {
					return
				}
				n++
				out = append(out, &Sink{Class: "S5", Name: fmt.Sprintf("%s: %s #%d", load.FnName(fn), what, n), Pos: pos, Val: v, Mode: "s5:safe", Fn: fn})
			}
			sx.EachInstrDeep(fn, func(f *ssa.Function, in ssa.Instruction) {
				switch x := in.(type) {
				case *ssa.Call:
					callee := sx.Callee(x)
					if callee == nil {
						return
					}
					args := x.Call.Args
					pkp := ""
					if q := load.FnPkg(callee); q != nil {
						pkp = q.Path()
					}
					switch {
					case (pkp == "strings" || pkp == "bytes") && callee.Signature.Recv() != nil && strings.HasPrefix(callee.Name(), "Write") && len(args) == 2:
						add("write into "+describeVal(args[0]), x.Pos(), args[1])
					case pkp == "fmt" && (callee.Name() == "Fprintf" || callee.Name() == "Fprint" || callee.Name() == "Fprintln"):
						for _, a := range args[1:] {
							if elems, ok := varargsVals(a); ok {
								for _, el := range elems {
									add("fmt."+callee.Name()+" into a report buffer", x.Pos(), el)
								}
							} else {
								add("fmt."+callee.Name()+" into a report buffer", x.Pos(), a)
							}
						}
					}
				case *ssa.Store:
					if fa, ok := x.Addr.(*ssa.FieldAddr); ok {
						owner := sx.NamedOf(fa.X.Type())
						if owner != nil && owner.Obj().Pkg() != nil && strings.Contains(owner.Obj().Pkg().Path(), "sentry-go") {
							add("sentry."+owner.Obj().Name()+"."+sx.FieldOf(fa).Name()+" = …", x.Pos(), x.Val)
						}
					}
				case *ssa.MapUpdate:
					add("extras map value", x.Pos(), x.Value)
				}
			})
		}
	}
	c.Cache["taintsinks"] = out
	return out
}

func varargsVals(v ssa.Value) ([]ssa.Value, bool) {
	if _, ok := v.(*ssa.Slice); !ok {
		return nil, false
	}
	els := varargs(v)
	if els == nil {
		return nil, false
	}
	var out []ssa.Value
	for _, e := range els {
		if e != nil {
			out = append(out, e)
		}
	}
	return out, true
}

// ---------------------------------------------------------------------------
// classification (DESIGN §4.5)

// contractSafeParams: API inputs the documentation declares PII-free.
// key: "<func>.<param>[.<field>]" with func relative to the module.
var contractSafeParamNames = map[string]string{
	"format":     "every format string is declared safe by the API documentation (like a constant)",
	"domainName": "domain names are declared safe for reporting",
}

var contractSafeFuncParams = map[string]string{
	"New.msg": "New(msg): 'the message is considered safe for reporting'", "NewWithDepth.msg": "same as New",
	"Wrap.msg": "Wrap(err, msg): the message is a safe constant prefix", "WrapWithDepth.msg": "same as Wrap",
	"WithMessage.message": "WithMessage: message is a safe constant prefix", "WithMessage.msg": "same",
	"Error.msg": "grpc/status.Error forwards msg to errors.New", "WrapErr.msg": "grpc/status.WrapErr forwards msg to errors.Wrap",
	"WithTelemetry.keys":  "telemetry keys are declared PII-free",
	"Safe.v":              "safedetails.Safe / errors.Safe: the caller declares the value safe",
	"Safe.a":              "same",
	"WithIssueLink.issue": "IssueLink{IssueURL, Detail} are declared safe for reporting", "UnimplementedError.issueLink": "same", "UnimplementedErrorf.issueLink": "same",
	"UnimplementedError.issue": "same", "UnimplementedErrorf.issue": "same",
}

var contractSafeForeignFields = map[string]string{
	"os.PathError.Op": "operation name (open, read…), a fixed vocabulary", "io/fs.PathError.Op": "same", "os.LinkError.Op": "same", "os.SyscallError.Syscall": "syscall name",
	"net.OpError.Op": "operation name", "net.OpError.Net": "network kind (tcp, udp…)",
	"github.com/gogo/protobuf/types.Any.TypeUrl": "names a protobuf message type",
}

var contractSafeCalls = map[string]string{
	"call (github.com/cockroachdb/logtags.Tag).Key":  "logtags keys are declared safe",
	"call (*github.com/cockroachdb/logtags.Tag).Key": "logtags keys are declared safe",
	"call runtime.FuncForPC":                         "function names",
	"call runtime.Caller":                            "source file path / line of the calling code, like a stack frame",
}

var contractSafeErrText = map[string]string{
	"runtime.Error": "runtime errors carry no user data", "syscall.Errno": "errno messages are a fixed OS table",
}

type classCtx struct {
	c            *core.Ctx
	busy         map[string]bool
	localBuffers bool // S5: local strings.Builder contents are checked at their write sites
}

// safeOrigin decides whether an origin is acceptable for a sink of the given mode.
func safeOrigin(c *core.Ctx, o *origin.Origin, mode string) (bool, string) {
	cc := &classCtx{c: c, busy: map[string]bool{}}
	if strings.HasPrefix(mode, "s5:") {
		cc.localBuffers = true
		mode = strings.TrimPrefix(mode, "s5:")
	}
	return cc.safe(o, mode)
}

func (cc *classCtx) all(os []*origin.Origin, mode string) (bool, string) {
	for _, o := range os {
		if ok, why := cc.safe(o, mode); !ok {
			return false, why
		}
	}
	return true, ""
}

func (cc *classCtx) safe(o *origin.Origin, mode string) (bool, string) {
	if mode == "redactable" {
		// a plain string may be *converted* to RedactableString only if it was
		// built as one (its markers are then well-formed): safe-but-plain strings
		// may contain marker runes
		switch o.Kind {
		case origin.Redactable, origin.Sanitized, origin.Const, origin.Fresh, origin.Wire, origin.APIParam:
		default:
			return false, "a plain string of origin " + o.Key() + " is converted to a redactable string without going through redact.Sprint*/Safe (markers it contains would not be escaped)"
		}
		if o.Kind == origin.APIParam {
			if o.Fn != nil && o.Param < len(o.Fn.Params) && isRedactableStringType(o.Fn.Params[o.Param].Type()) && len(o.Sub) == 0 {
				return true, "the caller passes a redact.RedactableString: redactable by type"
			}
			return false, "the plain string parameter " + o.Desc + " is converted to a redactable string without escaping: marker runes in it break well-formedness (and it would be printed unredacted)"
		}
		if o.Kind == origin.Wire && (strings.HasPrefix(o.Slot, "PB:") || o.Slot == "DETAILS") {
			return false, "a reportable string from the wire (" + o.Key() + ") is converted to a redactable string: it is safe but not marker-escaped"
		}
	}
	switch o.Kind {
	case origin.Const, origin.Numeric, origin.TypeName, origin.Stack, origin.Sanitized, origin.SafeContract, origin.EncDetails, origin.Fresh:
		return true, ""
	case origin.Redactable:
		if mode == "redactable" {
			return true, ""
		}
		if len(o.Unsafe) == 0 {
			return cc.all(o.Safe, mode)
		}
		return false, "a redactable string (with unsafe parts " + originList(o.Unsafe) + ") is used where a fully safe string is required, without Redact()"
	case origin.APIParam:
		if o.Fn != nil && o.Param < len(o.Fn.Params) {
			pn := o.Fn.Params[o.Param].Name()
			pt := o.Fn.Params[o.Param].Type()
			if mode == "redactable" && isRedactableStringType(pt) && len(o.Sub) == 0 {
				return true, "the caller passes a redact.RedactableString: redactable by type"
			}
			if why, ok := contractSafeParamNames[pn]; ok {
				return true, why
			}
			if sx.IsNamed(pt, load.ModPath+"/domains", "Domain") {
				return true, "values of type domains.Domain are declared safe"
			}
			if why, ok := contractSafeFuncParams[o.Fn.Name()+"."+pn]; ok {
				return true, why
			}
		}
		return false, "API input " + o.Desc + " is not declared safe by the library's contract"
	case origin.ForeignField:
		if cc.localBuffers && strings.Contains(o.Desc, "sentry-go.") {
			return true, "field of the sentry event under construction: every store the module makes into it is itself an S5 sink"
		}
		k := strings.TrimPrefix(o.Desc, "")
		if why, ok := contractSafeForeignFields[k]; ok {
			return true, why
		}
		return false, "field " + o.Desc + " of a foreign type is not declared safe"
	case origin.ErrText:
		if o.Type != nil {
			n := sx.NamedOf(o.Type)
			if n != nil && n.Obj().Pkg() != nil {
				if why, ok := contractSafeErrText[n.Obj().Pkg().Path()+"."+n.Obj().Name()]; ok {
					return true, why
				}
			}
		}
		return false, "Error() text of " + o.Desc + " is unsafe"
	case origin.Wire:
		return cc.wire(o, mode)
	case origin.Unknown:
		if why, ok := contractSafeCalls[o.Desc]; ok {
			return true, why
		}
		if cc.localBuffers && strings.HasPrefix(o.Desc, "buffer content ") {
			return true, "content of a local builder of the report function: every write into it is itself an S5 sink"
		}
		return false, "unknown origin: " + o.Desc
	case origin.EncMsg:
		return false, "wire message produced by a registered encoder is not a safe string"
	}
	return false, o.Kind.String() + " " + o.Desc + " is not a safe origin"
}

func originList(os []*origin.Origin) string {
	var s []string
	for _, o := range os {
		s = append(s, o.Key())
	}
	if len(s) > 4 {
		s = append(s[:4], "…")
	}
	return strings.Join(s, ", ")
}

// pbSafeFields: protobuf message fields that are safe by induction on the
// sender (its S1/S2 sinks) or are type names.
var pbSafeFields = map[string]string{
	"PB:errorspb.EncodedErrorDetails.ReportablePayload": "the sender's safe details (S1/S2 sinks of the sending process)",
	"PB:errorspb.EncodedErrorDetails.OriginalTypeName":  "Go type name",
	"PB:errorspb.ErrorTypeMark.FamilyName":              "Go type name",
	"PB:errorspb.ErrorTypeMark.Extension":               "type extension (domain), declared safe",
	"PB:errorspb.EncodedErrorDetails.ErrorTypeMark":     "type mark",
}

// wire: classify a wire slot through what the matching encoder writes.
type wireVerdict struct {
	ok  bool
	why string
}

func (cc *classCtx) wire(o *origin.Origin, mode string) (bool, string) {
	memo, _ := cc.c.Cache["wirememo"].(map[string]wireVerdict)
	if memo == nil {
		memo = map[string]wireVerdict{}
		cc.c.Cache["wirememo"] = memo
	}
	mk := o.Key() + "|" + mode
	if v, ok := memo[mk]; ok {
		return v.ok, v.why
	}
	ok, why := cc.wire1(o, mode)
	if len(cc.busy) == 0 {
		memo[mk] = wireVerdict{ok, why}
	}
	return ok, why
}

func (cc *classCtx) wire1(o *origin.Origin, mode string) (bool, string) {
	if why, ok := pbSafeFields[o.Slot]; ok {
		return true, why
	}
	if strings.HasPrefix(o.Slot, "PB:") {
		// nested below a safe container?
		return false, "protobuf field " + o.Slot + " is wire-controlled and not a safe slot"
	}
	if o.Slot == "DETAILS" {
		return true, "the sender's safe details"
	}
	if o.Slot == "CTX" || o.Slot == "CAUSE" || o.Slot == "CAUSES" {
		return false, "decoder argument " + o.Slot
	}
	key := o.Key() + "|" + mode
	if cc.busy[key] {
		return true, "co-inductive"
	}
	cc.busy[key] = true
	defer delete(cc.busy, key)
	c := cc.c
	cs := GetCensus(c)
	e := originEngine(c)
	// registrations of this decoder → key types → encoders
	var encs []*ssa.Function
	var keys []types.Type
	for _, r := range cs.Regs {
		if r.Fn == o.Decoder {
			keys = append(keys, r.KeyTypes...)
		}
	}
	// a registered decoder that delegates to this one (forwarding its own arguments) brings its keys along:
	// what arrives in the slot is then also what the senders of those keys wrote
	for _, r := range cs.Regs {
		if !r.IsDec() || r.Fn == nil || r.Fn == o.Decoder || r.Fn.Blocks == nil {
			continue
		}
		delegates := false
		sx.EachInstr(r.Fn, func(in ssa.Instruction) {
			call, ok := in.(ssa.CallInstruction)
			if !ok || sx.Callee(call) != o.Decoder {
				return
			}
			for _, a := range call.Common().Args {
				if _, isParam := a.(*ssa.Parameter); isParam {
					delegates = true
				}
			}
		})
		if delegates {
			keys = append(keys, r.KeyTypes...)
		}
	}
	generic := false
	for _, k := range keys {
		found := false
		for _, r := range cs.RegsFor(k) {
			if r.IsEnc() && r.Fn != nil {
				encs = append(encs, r.Fn)
				found = true
			}
		}
		if !found {
			generic = true
		}
	}
	if len(keys) == 0 {
		return false, "decoder " + load.FnName(o.Decoder) + " has no resolvable registration"
	}
	if generic {
		switch o.Slot {
		case "MSG":
			return false, "wire message written by the generic encoder is the error's Error() text (unsafe)"
		default:
			return false, "payload of a type encoded by the generic path"
		}
	}
	for _, enc := range encs {
		for _, r := range sx.Returns(enc) {
			var set *origin.Set
			switch o.Slot {
			case "MSG":
				set = e.Trace(r.Results[0])
			case "PAYLOAD":
				if len(r.Results) < 3 {
					continue
				}
				set = e.TraceField(r.Results[2], o.Sub)
			}
			if set == nil {
				continue
			}
			for _, eo := range set.List() {
				if ok, why := cc.safe(eo, mode); !ok {
					return false, fmt.Sprintf("wire slot %s is written by %s from %s: %s", o.Slot+subStr(o.Sub), load.FnName(enc), eo.Key(), why)
				}
			}
		}
	}
	return true, "every value the matching encoder writes into " + o.Slot + subStr(o.Sub) + " is acceptable"
}

func subStr(sub []string) string {
	if len(sub) == 0 {
		return ""
	}
	return "." + strings.Join(sub, ".")
}

// ---------------------------------------------------------------------------
// R-TAINT

var rTaint = &Rule{
	Name: "R-TAINT",
	Doc: "allow-list origin discipline (E-ORIGIN, field-sensitive interprocedural data dependence): every value reaching a PII-free output position - S1 elements returned by SafeDetails() methods, S2 safe details returned by registered encoders, " +
		"S3 every safe-declaration site (argument of redact.Safe, conversion to redact.Safe*, format string of Printer.Printf / redact.Sprintf / Fprintf, conversion of a plain string to RedactableString) - originates only from safe classes: " +
		"constants, numbers, type names, stack frames, Redact()ed strings, SafeDetails()/SafeMessage() contracts, the sender's safe details on the wire, and API inputs the documentation declares PII-free; wire slots are classified through what the matching encoder writes",
	Run: runTaint,
}

func runTaint(c *core.Ctx) { runTaintFiltered(c, nil) }

func runTaintFiltered(c *core.Ctx, keep func(*Sink) bool) {
	e := originEngine(c)
	cs := GetCensus(c)
	// the special-case printers and the helpers they hand part of their work to: function -> the parameter
	// that holds the printer's error there
	special := map[*ssa.Function]bool{}
	specialErr := map[*ssa.Function]*ssa.Parameter{}
	for _, f := range cs.Specials {
		if len(f.Params) == 0 {
			continue
		}
		reg := regionOf(f)
		for _, h := range reg.funcs {
			special[h] = true
			specialErr[h] = reg.paramFor(h, f.Params[0])
		}
	}
	counts := map[string]int{}
	for _, s := range taintSinks(c) {
		if keep != nil && !keep(s) {
			continue
		}
		counts[s.Class]++
		// the whole-text Safe(err.Error()) of a special-case printer is decided by R-SPECIAL-LEAF
		if special[s.Fn] && len(s.Fn.Params) > 0 {
			if call, ok := s.Val.(*ssa.Call); ok && call.Call.IsInvoke() && call.Call.Method.Name() == "Error" {
				if ep := specialErr[s.Fn]; ep != nil && call.Call.Value == ssa.Value(ep) {
					c.Ob(s.Name, s.Pos, true, "whole error text declared safe: guard decided by R-SPECIAL-LEAF")
					continue
				}
				if why, ok := sentinelValue(c.P, call.Call.Value); ok {
					c.Ob(s.Name, s.Pos, true, "constant text of a standard-library sentinel ("+why+")")
					continue
				}
			}
		}
		set := e.Trace(s.Val)
		var bad []string
		var badKeys []string
		for _, o := range set.List() {
			if ok, why := safeOrigin(c, o, s.Mode); !ok {
				bad = append(bad, o.Key()+": "+why)
				badKeys = append(badKeys, shortKey(o))
			}
		}
		if len(bad) == 0 {
			c.Ob(s.Name, s.Pos, true, fmt.Sprintf("%d origin(s), all in safe classes: %s", set.Len(), trunc200(set.String())))
			continue
		}
		sort.Strings(badKeys)
		c.Fail(stableSinkName(s), s.Pos, "unsafe origin reaches a PII-free output ("+s.Mode+" position): "+strings.Join(dedupStr(badKeys), "; "), bad...)
	}
	if keep != nil {
		tot := 0
		for _, n := range counts {
			tot += n
		}
		c.Min("filtered sinks", tot, 1)
		return
	}
	c.Min("S1 SafeDetails() return sites", counts["S1"], 13)
	c.Min("S2 encoder safe-details return sites", counts["S2"], 20)
	c.Min("S3 safe-declaration sites", counts["S3"], 80)
	c.Min("S5 Sentry report write sites", counts["S5"], 30)
}

func trunc200(s string) string {
	if len(s) > 200 {
		return s[:197] + "..."
	}
	return s
}

func dedupStr(ss []string) []string {
	var out []string
	seen := map[string]bool{}
	for _, s := range ss {
		if !seen[s] {
			seen[s] = true
			out = append(out, s)
		}
	}
	return out
}

// shortKey: stable, line-free identity of an origin for the finding text.
func shortKey(o *origin.Origin) string {
	d := o.Desc
	if i := strings.Index(d, "@"); i >= 0 {
		d = d[:i]
	}
	s := o.Kind.String() + "(" + d
	if len(o.Sub) > 0 {
		s += "." + strings.Join(o.Sub, ".")
	}
	return s + ")"
}

// stableSinkName drops the running number so that findings survive edits elsewhere in the function.
func stableSinkName(s *Sink) string {
	n := s.Name
	if i := strings.LastIndex(n, " #"); i >= 0 {
		n = n[:i]
	}
	return n
}
