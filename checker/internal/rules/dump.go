package rules

import (
	"fmt"

	"verif/checker/internal/core"
	"verif/checker/internal/load"
)

var dumpers = map[string]func(*core.Ctx){}

// Dump prints debugging views.
func Dump(c *core.Ctx, what string) {
	if f, ok := dumpers[what]; ok {
		f(c)
		return
	}
	switch what {
	case "census":
		cs := GetCensus(c)
		fmt.Printf("%d error types\n", len(cs.ErrTypes))
		for _, e := range cs.ErrTypes {
			fmt.Printf("  %s ptr=%v methods=%d\n", e.Name(), e.Ptr, len(e.Methods))
		}
		fmt.Printf("%d registrations\n", len(cs.Regs))
		for _, r := range cs.Regs {
			fmt.Printf("  %-12s key=%s ok=%v fn=%s at %s\n", r.Kind, r.KeyName(), r.KeyOK, load.FnName(r.Fn), c.P.Pos(r.Site.Pos()))
		}
		fmt.Printf("%d migrations, %d special printers\n", len(cs.Migs), len(cs.Specials))
	}
}

func init() {
	dumpers["shapes"] = func(c *core.Ctx) {
		cs := GetCensus(c)
		sh := GetShapes(c)
		for _, et := range cs.ErrTypes {
			s := sh[et.Named]
			fmt.Printf("%-36s %s", et.Name(), s)
			if s.ErrWhy != "" || s.CauseWhy != "" {
				fmt.Printf("  !! %s %s", s.ErrWhy, s.CauseWhy)
			}
			var df []string
			for f := range s.DetailFields {
				df = append(df, f.Name())
			}
			fmt.Printf(" detailFields=%v\n", df)
		}
	}
}

// DumpProps prints the per-property rule catalogue (markdown).
func DumpProps() {
	for _, id := range IDs() {
		p := Get(id)
		fmt.Printf("### %s\n\n", id)
		fmt.Printf("*Decides / does not decide:* %s\n\n", p.Explain)
		for _, r := range p.Rules {
			fmt.Printf("* **%s** — %s\n", r.Name, r.Doc)
		}
		n := 0
		for _, ct := range Controls {
			if ct.Prop == id && ct.Rule != "" {
				n++
			}
		}
		fmt.Printf("\n*Control mutants (thorough tier):* %d. *Trusted:* %v\n\n", n, p.Trusted)
	}
}
