package rules

import (
	"fmt"

	"verif/checker/internal/core"
	"verif/checker/internal/load"
)

// Dump prints debugging views.
func Dump(c *core.Ctx, what string) {
	switch what {
	case "census":
		cs := GetCensus(c)
		fmt.Printf("%d error types\n", len(cs.ErrTypes))
		for _, e := range cs.ErrTypes {
			fmt.Printf("  %s ptr=%v methods=%d\n", e.Name(), e.Ptr, len(e.Methods))
		}
		fmt.Printf("%d registrations\n", len(cs.Regs))
		for _, r := range cs.Regs {
			fmt.Printf("  %-12s key=%s ok=%v fn=%s at %s\n", r.Kind, r.KeyName(), r.KeyOK, load.FnName(r.Fn), c.P.Pos(r.Site.Pos()))
		}
		fmt.Printf("%d migrations, %d special printers\n", len(cs.Migs), len(cs.Specials))
	}
}
