package rules

import (
	"fmt"
	"go/token"
	"go/types"
	"sort"
	"strings"

	"golang.org/x/tools/go/ssa"

	"verif/checker/internal/absint"
	"verif/checker/internal/core"
	"verif/checker/internal/load"
	"verif/checker/internal/sx"
)

// ---------------------------------------------------------------------------
// R-NILFIELD

var rNilField = &Rule{
	Name: "R-NILFIELD",
	Doc: "for every pointer-like field of a module error type: either no construction site can store nil into it (every store evaluated NonNil by the nilness interpreter, no literal omits it), " +
		"or every dereference of the field - including calls of methods that dereference a nil receiver, summarised from the dependency's SSA - is unreachable when the field is nil (what-if evaluation with the field forced to nil)",
	Run: runNilField,
}

func runNilField(c *core.Ctx) {
	p := c.P
	cs := GetCensus(c)
	// candidate fields: pointer/map/func-typed fields of module error structs
	type cand struct {
		et *ErrType
		f  *types.Var
	}
	var cands []cand
	for _, et := range cs.ErrTypes {
		if et.Struct == nil {
			continue
		}
		for i := 0; i < et.Struct.NumFields(); i++ {
			f := et.Struct.Field(i)
			switch types.Unalias(f.Type()).Underlying().(type) {
			case *types.Pointer, *types.Map, *types.Signature:
				cands = append(cands, cand{et, f})
			}
		}
	}
	tested := 0
	for _, cd := range cands {
		name := cd.et.Name() + "." + cd.f.Name()
		// 1. is the field compared with nil anywhere?
		var testPos token.Pos
		var loaders []*ssa.Function
		for _, fn := range p.HandFuncs() {
			loads := false
			sx.EachInstr(fn, func(in ssa.Instruction) {
				if fa, ok := in.(*ssa.FieldAddr); ok && sx.FieldOf(fa) == cd.f {
					for _, r := range *fa.Referrers() {
						if ld, ok := r.(*ssa.UnOp); ok && ld.Op == token.MUL {
							loads = true
							for _, r2 := range *ld.Referrers() {
								if bo, ok := r2.(*ssa.BinOp); ok && (bo.Op == token.EQL || bo.Op == token.NEQ) && (sx.IsNil(bo.X) || sx.IsNil(bo.Y)) {
									testPos = bo.Pos()
								}
							}
						}
					}
				}
			})
			if loads {
				loaders = append(loaders, fn)
			}
		}
		tested++
		// 2. can a construction site leave it nil?
		ev := nilEval(c)
		var nilStores []string
		nStores := 0
		for _, fn := range p.HandFuncs() {
			var view *absint.FnView
			sx.EachInstr(fn, func(in ssa.Instruction) {
				switch x := in.(type) {
				case *ssa.Store:
					fa, ok := x.Addr.(*ssa.FieldAddr)
					if !ok || sx.FieldOf(fa) != cd.f {
						return
					}
					nStores++
					if view == nil {
						view = ev.Analyze(fn, nil)
					}
					if !view.Reachable(x.Block()) {
						return
					}
					if n := view.NilOf(x.Val, x.Block()); n != absint.NonNil {
						nilStores = append(nilStores, fmt.Sprintf("%s stores a %s value (%s)", load.FnName(fn), n, p.Pos(x.Pos())))
					}
				case *ssa.Alloc:
					if !types.Identical(sx.Deref(x.Type()), cd.et.Named) {
						return
					}
					if onlyTypeKeyProbe(x) {
						return // &T{} built only to compute its type key: never used as an error value
					}
					set := false
					for _, r := range *x.Referrers() {
						if fa, ok := r.(*ssa.FieldAddr); ok && sx.FieldOf(fa) == cd.f {
							for _, r2 := range *fa.Referrers() {
								if st, ok := r2.(*ssa.Store); ok && st.Addr == fa {
									set = true
								}
							}
						}
					}
					if !set {
						nilStores = append(nilStores, fmt.Sprintf("%s builds the struct without setting the field (%s)", load.FnName(fn), p.Pos(x.Pos())))
					}
				}
			})
		}
		if len(nilStores) == 0 {
			c.Ob(name, cd.et.Named.Obj().Pos(), true, fmt.Sprintf("pointer field can never be nil: all %d stores are non-nil and no literal omits it", nStores))
			continue
		}
		// 3. what-if: force the field to nil and look for reachable dereferences.
		wev := absint.NewNilEval(p.InModule)
		wev.FieldOverride = func(f *types.Var) absint.Nil {
			if f == cd.f {
				return absint.IsNil
			}
			return absint.Bot
		}
		found := 0
		for _, fn := range loaders {
			s := wev.Call(fn, nil)
			seen := map[string]bool{}
			for _, e := range s.Events {
				construct := fmt.Sprintf("%s: %s is nil", load.FnName(fn), name)
				what := fmt.Sprintf("field can be nil (a construction site stores a possibly-nil value), but here it is dereferenced unguarded: %s in %s", e.What, load.FnName(e.Fn))
				if seen[what] {
					continue
				}
				seen[what] = true
				found++
				path := append([]string{}, nilStores...)
				if testPos.IsValid() {
					path = append(path, "nil test elsewhere at "+p.Pos(testPos))
				}
				path = append(path, "dereference at "+p.Pos(sx.InstrPos(e.Instr)))
				c.Fail(construct, fn.Pos(), what, path...)
			}
			if len(s.Events) == 0 {
				c.Ob(fmt.Sprintf("%s: %s is nil", load.FnName(fn), name), fn.Pos(), true, "no dereference reachable when the field is nil")
			}
		}
	}
	c.Census[c.Rule+": pointer-like fields of module error types"] = len(cands)
	c.Min("pointer-like fields of module error types examined", tested, 3)
}

// ---------------------------------------------------------------------------
// R-DECODE-NONNIL

var rDecodeNonNil = &Rule{
	Name: "R-DECODE-NONNIL",
	Doc:  "nilness abstract interpretation of errbase.DecodeError / decodeLeaf / decodeWrapper: every reachable return yields a non-nil error (a registered decoder's nil result can only fall through to the opaque fallback)",
	Run: func(c *core.Ctx) {
		ev := nilEval(c)
		n := 0
		for _, name := range []string{"DecodeError", "decodeLeaf", "decodeWrapper"} {
			fn := c.P.Func("errbase", name)
			if fn == nil {
				c.InternalErr("errbase."+name, "anchor function not found")
				continue
			}
			n++
			s := ev.Call(fn, nil)
			if s.Results[0] == absint.NonNil {
				c.Ob("errbase."+name, fn.Pos(), true, fmt.Sprintf("non-nil on all %d reachable returns", len(s.Returns)))
				continue
			}
			var path []string
			for _, r := range s.Returns {
				if r.Results[0] != absint.NonNil {
					path = append(path, fmt.Sprintf("return at %s yields %s", c.P.Pos(r.Ret.Pos()), r.Results[0]))
				}
			}
			c.Fail("errbase."+name, fn.Pos(), "may return a nil error for a structurally complete EncodedError (result "+s.Results[0].String()+")", path...)
		}
		c.Min("decode entry points", n, 3)
	},
}

// ---------------------------------------------------------------------------
// R-ENUM-TOTAL

var rEnumTotal = &Rule{
	Name: "R-ENUM-TOTAL",
	Doc:  "values of the wire enum MessageType are never used as an index or map key in hand-written code (only compared, converted, stored, passed): an undefined enum value cannot select out of a table",
	Run: func(c *core.Ctx) {
		n := 0
		isMT := func(t types.Type) bool {
			return sx.IsNamed(t, errbasePath, "MessageType") || sx.IsNamed(t, load.ModPath+"/errorspb", "MessageType")
		}
		var derived func(v ssa.Value, d int) bool
		derived = func(v ssa.Value, d int) bool {
			if d > 4 {
				return false
			}
			if isMT(v.Type()) {
				return true
			}
			switch x := v.(type) {
			case *ssa.Convert:
				return derived(x.X, d+1)
			case *ssa.ChangeType:
				return derived(x.X, d+1)
			case *ssa.BinOp:
				return derived(x.X, d+1) || derived(x.Y, d+1)
			}
			return false
		}
		for _, fn := range c.P.HandFuncs() {
			sx.EachInstr(fn, func(in ssa.Instruction) {
				var idx ssa.Value
				switch x := in.(type) {
				case *ssa.IndexAddr:
					idx = x.Index
				case *ssa.Index:
					idx = x.Index
				case *ssa.Lookup:
					idx = x.Index
				default:
					if v, ok := in.(ssa.Value); ok && isMT(v.Type()) {
						n++
					}
					return
				}
				if derived(idx, 0) {
					c.Fail(load.FnName(fn)+": index by MessageType", sx.InstrPos(in), "wire enum value used as index/key: an undefined MessageType selects outside the table")
				}
			})
		}
		c.Ob("all hand-written functions", token.NoPos, true, fmt.Sprintf("%d MessageType-typed values inspected, none used as index", n))
		c.Min("MessageType-typed values", n, 5)
	},
}

var _ = sort.Strings
var _ = strings.Join

// onlyTypeKeyProbe: the allocation is only boxed and handed to GetTypeKey.
func onlyTypeKeyProbe(al *ssa.Alloc) bool {
	n := 0
	for _, r := range *al.Referrers() {
		switch x := r.(type) {
		case *ssa.MakeInterface:
			for _, r2 := range *x.Referrers() {
				call, ok := r2.(*ssa.Call)
				if !ok || sx.Callee(call) == nil || sx.Callee(call).Name() != "GetTypeKey" {
					return false
				}
				n++
			}
		case *ssa.DebugRef:
		default:
			return false
		}
	}
	return n > 0
}
