package rules

import (
	"fmt"
	"go/constant"
	"go/token"
	"go/types"
	"sort"
	"strings"

	"golang.org/x/tools/go/ssa"

	"verif/checker/internal/absint"
	"verif/checker/internal/core"
	"verif/checker/internal/load"
	"verif/checker/internal/sx"
)

// Rules added after the third round of independently seeded changes.

// ---------------------------------------------------------------------------
// R-CODE-GETTER

// codeGetter describes one "innermost/outermost attached code" accessor.
type codeGetter struct {
	pkg, fn   string
	wrapper   string // the wrapper type whose field carries the code
	constsOK  map[int64]string
	nilConst  int64 // constant returned on the err == nil edge (-1: none)
	paramIdx  int   // parameter that may be returned as the default (-1: none)
	wantConst []int64
}

var codeGetters = []codeGetter{
	{pkg: "extgrpc", fn: "GetGrpcCode", wrapper: "withGrpcCode", constsOK: map[int64]string{0: "codes.OK", 2: "codes.Unknown"}, nilConst: 0, paramIdx: -1, wantConst: []int64{0, 2}},
	{pkg: "exthttp", fn: "GetHTTPCode", wrapper: "withHTTPCode", constsOK: map[int64]string{}, nilConst: -1, paramIdx: 1},
}

var rCodeGetter = &Rule{
	Name: "R-CODE-GETTER",
	Doc: "the code accessors return only what the contract names. extgrpc.GetGrpcCode: the constant codes.OK on (and only on) the err == nil edge, the code field of the *withGrpcCode layer that markers.If found (its visitor returns that field and true, or nil and false, nothing else), and the constant codes.Unknown otherwise - no value computed from the error in any other way (e.g. a mapping of context errors). " +
		"exthttp.GetHTTPCode: the found layer's code field or the defaultCode parameter itself",
	Run: runCodeGetter,
}

func runCodeGetter(c *core.Ctx) {
	for _, g := range codeGetters {
		fn := c.P.Func(g.pkg, g.fn)
		if fn == nil {
			c.InternalErr(g.pkg+"."+g.fn, "anchor function not found")
			continue
		}
		name := load.FnName(fn)
		seenConst := map[int64]bool{}
		nIf := 0
		// the function whose frame is being read (the accessor, or a helper it hands the lookup to) and the
		// parameter that holds the caller's error there
		cur, ep := fn, fn.Params[0]
		for _, ret := range sx.Returns(fn) {
			if len(ret.Results) != 1 {
				continue
			}
			var visit func(v ssa.Value, from *ssa.BasicBlock, d int)
			visit = func(v ssa.Value, from *ssa.BasicBlock, d int) {
				if d > 6 {
					c.Undecided(name, ret.Pos(), "returned value too deep to classify")
					return
				}
				switch x := v.(type) {
				case *ssa.Phi:
					for i, e := range x.Edges {
						visit(e, x.Block().Preds[i], d+1)
					}
				case *ssa.Const:
					k, ok := constant.Int64Val(constant.ToInt(x.Value))
					if x.Value == nil || !ok {
						c.Fail(name+": returned constant", ret.Pos(), "a non-integer constant is returned as the code")
						return
					}
					seenConst[k] = true
					label, allowed := g.constsOK[k]
					c.Check(allowed, fmt.Sprintf("%s: returned constant %d", name, k), ret.Pos(), "one of the constants the contract names ("+label+")",
						fmt.Sprintf("the accessor returns the constant %d, which the contract does not name (only OK for nil and Unknown when no code is attached)", k))
					if allowed && g.nilConst >= 0 {
						// OK exactly on the nil edge, everything else on non-nil edges.
						onNil := edgeIsNilParam(cur, from, ep)
						if k == g.nilConst {
							c.Check(onNil, name+": "+label+" edge", ret.Pos(), "returned only when err == nil", label+" is returned on an edge where the error is not known to be nil: a failing call would be reported as success")
						} else {
							c.Check(!onNil, name+": "+label+" edge", ret.Pos(), "returned only for a non-nil error", label+" is returned for the nil error")
						}
					}
				case *ssa.Parameter:
					ok := g.paramIdx >= 0 && g.paramIdx < len(fn.Params) && x == fn.Params[g.paramIdx]
					c.Check(ok, name+": returned parameter "+x.Name(), ret.Pos(), "the caller's default", "a parameter other than the documented default is returned as the code")
				case *ssa.Extract:
					// a result of an unexported helper of the package that receives the caller's error: what the helper
					// returns at that position (its found flag is the helper's business)
					hc, _ := x.Tuple.(*ssa.Call)
					var h *ssa.Function
					if hc != nil {
						h = sx.Callee(hc)
					}
					pj := -1
					if h != nil && h.Blocks != nil && h.Pkg == fn.Pkg && !sx.Exported(h) {
						for j, a := range hc.Call.Args {
							if a == ssa.Value(ep) && j < len(h.Params) {
								pj = j
							}
						}
					}
					if pj < 0 || d > 3 {
						c.Fail(name+": returned value "+describeVal(v), ret.Pos(), "the accessor returns a value that is neither a contract constant, the default, nor the code field found in the chain ("+fmt.Sprintf("%T", v)+"): codes are computed from the error in a way the contract does not describe")
						return
					}
					saveCur, saveEP := cur, ep
					cur, ep = h, h.Params[pj]
					for _, hr := range sx.Returns(h) {
						if x.Index >= len(hr.Results) {
							continue
						}
						// (value, false): the companion of a false found-flag is never looked at by the accessor
						giveUp := false
						for oi, other := range hr.Results {
							if oi == x.Index {
								continue
							}
							if k, isK := other.(*ssa.Const); isK && k.Value != nil && k.Value.String() == "false" {
								giveUp = true
							}
						}
						if giveUp {
							// ... provided the accessor hands the value on only under the found-flag
							underFound := false
							lits := dominatingLits(ret.Block())
							if from != nil {
								lits = append(lits, dominatingLits(from)...)
							}
							for _, l := range lits {
								if fx, isEx := l.V.(*ssa.Extract); isEx && fx.Tuple == x.Tuple && fx.Index != x.Index && !l.Neg {
									underFound = true
								}
							}
							if underFound {
								continue
							}
						}
						visit(hr.Results[x.Index], hr.Block(), d+1)
					}
					cur, ep = saveCur, saveEP
				case *ssa.TypeAssert:
					ex, _ := x.X.(*ssa.Extract)
					var call *ssa.Call
					if ex != nil {
						call, _ = ex.Tuple.(*ssa.Call)
					}
					ok := call != nil && ex.Index == 0 && sx.Callee(call) != nil && sx.Callee(call).Name() == "If" && len(call.Call.Args) == 2 && call.Call.Args[0] == ssa.Value(ep)
					c.Check(ok, name+": returned found value", ret.Pos(), "the value markers.If found in the error given by the caller", "the returned code is asserted out of something other than markers.If(err, ...) applied to the caller's error")
					if ok {
						nIf++
						checkCodeVisitor(c, name, g, call.Call.Args[1])
					}
				case *ssa.UnOp:
					// the explicit form of the lookup: a walk from the caller's error along UnwrapOnce that returns
					// the code field of the first layer of the wrapper type
					fa, _ := x.X.(*ssa.FieldAddr)
					var ta *ssa.TypeAssert
					if fa != nil {
						if ex, ok := fa.X.(*ssa.Extract); ok && ex.Index == 0 {
							ta, _ = ex.Tuple.(*ssa.TypeAssert)
						} else {
							ta, _ = fa.X.(*ssa.TypeAssert)
						}
					}
					wt := c.P.Named(g.pkg, g.wrapper)
					ok := x.Op == token.MUL && fa != nil && ta != nil && wt != nil && types.Identical(sx.Deref(ta.AssertedType), wt) &&
						isStructField(fa, wt, "code") && isChainPosition(ta.X, ep, map[ssa.Value]bool{}, 0)
					if ok && blockReachesItself(x.Block()) {
						// the walk goes on after a match: a later (inner) layer's code would overwrite the outer one
						ok = false
					}
					if ok && ta.CommaOk {
						guarded := false
						for _, l := range dominatingLits(x.Block()) {
							if ex, isEx := l.V.(*ssa.Extract); isEx && ex.Tuple == ssa.Value(ta) && ex.Index == 1 && !l.Neg {
								guarded = true
							}
						}
						ok = guarded
					}
					c.Check(ok, name+": returned found value", ret.Pos(), "the code field of the first "+g.wrapper+" layer met walking the caller's error with UnwrapOnce",
						"the returned code is not the code field of a layer of the caller's error reached by UnwrapOnce")
					if ok {
						nIf++
					}
				default:
					c.Fail(name+": returned value "+describeVal(v), ret.Pos(), "the accessor returns a value that is neither a contract constant, the default, nor the code field found in the chain ("+fmt.Sprintf("%T", v)+"): codes are computed from the error in a way the contract does not describe")
				}
			}
			visit(ret.Results[0], ret.Block(), 0)
		}
		c.Check(nIf >= 1, name+": lookup", fn.Pos(), "returns the code found by markers.If", "no return path yields the code found in the chain")
		for _, k := range g.wantConst {
			c.Check(seenConst[k], fmt.Sprintf("%s: constant %s", name, g.constsOK[k]), fn.Pos(), "returned on some path", "the accessor no longer returns "+g.constsOK[k]+" on any path")
		}
	}
}

// edgeIsNilParam: is block b (or the unique chain of predecessors leading to it) entered only on the true edge
// of `p == nil`?
func edgeIsNilParam(fn *ssa.Function, b *ssa.BasicBlock, p *ssa.Parameter) bool {
	for d := 0; b != nil && d < 4; d++ {
		if len(b.Preds) != 1 {
			return false
		}
		pred := b.Preds[0]
		if iff, ok := pred.Instrs[len(pred.Instrs)-1].(*ssa.If); ok {
			if bin, ok := iff.Cond.(*ssa.BinOp); ok && (bin.Op == token.EQL || bin.Op == token.NEQ) {
				var other ssa.Value
				if bin.X == ssa.Value(p) {
					other = bin.Y
				} else if bin.Y == ssa.Value(p) {
					other = bin.X
				}
				if other != nil && sx.IsNil(other) {
					trueEdge := pred.Succs[0] == b
					return (bin.Op == token.EQL) == trueEdge
				}
			}
		}
		b = pred
	}
	return false
}

// checkCodeVisitor: the closure given to markers.If returns (w.code, true) for a successfully asserted *wrapper and
// (nil, false) otherwise.
func checkCodeVisitor(c *core.Ctx, name string, g codeGetter, v ssa.Value) {
	var cl *ssa.Function
	switch x := v.(type) {
	case *ssa.MakeClosure:
		cl, _ = x.Fn.(*ssa.Function)
	case *ssa.Function:
		cl = x
	}
	if cl == nil || cl.Blocks == nil {
		c.Undecided(name+": visitor", v.Pos(), "the visitor passed to markers.If is not a function literal")
		return
	}
	nField := 0
	for _, ret := range sx.Returns(cl) {
		if len(ret.Results) != 2 {
			continue
		}
		val, okv := ret.Results[0], ret.Results[1]
		okConst, isConst := okv.(*ssa.Const)
		if !isConst || okConst.Value == nil {
			c.Undecided(name+": visitor", ret.Pos(), "the visitor's ok result is not a constant")
			continue
		}
		found := constant.BoolVal(okConst.Value)
		if !found {
			continue
		}
		mi, _ := val.(*ssa.MakeInterface)
		var fieldOK bool
		if mi != nil {
			if ld, ok := mi.X.(*ssa.UnOp); ok && ld.Op == token.MUL {
				if fa, ok := ld.X.(*ssa.FieldAddr); ok {
					st := sx.NamedOf(fa.X.Type())
					fname := ""
					if ptr, ok := types.Unalias(fa.X.Type()).Underlying().(*types.Pointer); ok {
						if s, ok := ptr.Elem().Underlying().(*types.Struct); ok {
							fname = s.Field(fa.Field).Name()
						}
					}
					if st != nil && st.Obj().Name() == g.wrapper && fname == "code" {
						// the struct must be the comma-ok assertion of the visitor's own parameter
						if ex, ok := fa.X.(*ssa.Extract); ok {
							if ta, ok := ex.Tuple.(*ssa.TypeAssert); ok && ta.CommaOk && len(cl.Params) > 0 && ta.X == ssa.Value(cl.Params[len(cl.Params)-1]) {
								fieldOK = true
							}
						}
					}
				}
			}
		}
		nField++
		c.Check(fieldOK, name+": visitor found-result", ret.Pos(), "the code field of the *"+g.wrapper+" layer being visited", "the visitor reports 'found' with a value other than the visited *"+g.wrapper+" layer's code field")
	}
	c.Check(nField >= 1, name+": visitor", cl.Pos(), "reports the code of a "+g.wrapper+" layer", "the visitor never reports a found code")
	_ = strings.Contains
}

// ---------------------------------------------------------------------------
// R-STD-IDENTITY

var rStdIdentity = &Rule{
	Name: "R-STD-IDENTITY",
	Doc:  "who-may-call: hand-written library code never applies the standard library's errors.Is / errors.As / errors.Unwrap to an error. Those compare by pointer identity and follow Unwrap() only; the library's contract (equivalence by network mark, traversal through Cause()-only layers, multi-cause awareness) is implemented by markers.Is/IsAny/As and errbase.UnwrapOnce/UnwrapMulti, and every internal consumer goes through them",
	Run: func(c *core.Ctx) {
		n := 0
		for _, fn := range c.P.HandFuncs() {
			sx.EachInstr(fn, func(in ssa.Instruction) {
				call, ok := in.(ssa.CallInstruction)
				if !ok {
					return
				}
				f := sx.Callee(call)
				if f == nil {
					return
				}
				n++
				if f.Pkg == nil || f.Pkg.Pkg.Path() != "errors" {
					return
				}
				switch f.Name() {
				case "Is", "As", "Unwrap":
					c.Fail(load.FnName(fn)+": stdlib errors."+f.Name(), sx.InstrPos(in), "the standard library's errors."+f.Name()+" is applied inside the library: it matches by pointer identity / follows Unwrap() only, so errors that crossed the network, marks, and Cause()-only layers are not seen the way markers.Is / errbase.UnwrapOnce see them")
				}
			})
		}
		c.Ob("all hand-written functions", token.NoPos, true, fmt.Sprintf("no call of stdlib errors.Is/As/Unwrap (%d static calls inspected)", n))
		c.Min("static calls inspected", n, 900)
	},
}

// ---------------------------------------------------------------------------
// R-LOOP-ALIAS

var rLoopAlias = &Rule{
	Name: "R-LOOP-ALIAS",
	Doc:  "no collection of per-iteration results aliases one variable: inside a loop, the address of a variable that is allocated outside the loop and re-assigned inside it is never stored into a slice/array element, a map, a field, or passed to append. (Every element would point to the value of the last iteration: e.g. every encoded branch of a multi-cause error would be the last branch.)",
	Run: func(c *core.Ctx) {
		nLoops, nStores := 0, 0
		for _, fn := range c.P.HandFuncs() {
			for _, l := range naturalLoops(fn) {
				nLoops++
				// variables allocated outside the loop and assigned inside it
				assigned := map[*ssa.Alloc]bool{}
				for b := range l.Body {
					for _, in := range b.Instrs {
						if st, ok := in.(*ssa.Store); ok {
							if al, ok := st.Addr.(*ssa.Alloc); ok && !l.Body[al.Block()] {
								assigned[al] = true
							}
						}
					}
				}
				if len(assigned) == 0 {
					continue
				}
				for b := range l.Body {
					for _, in := range b.Instrs {
						var val ssa.Value
						var where string
						switch x := in.(type) {
						case *ssa.Store:
							switch x.Addr.(type) {
							case *ssa.IndexAddr:
								where = "a slice/array element"
							case *ssa.FieldAddr:
								where = "a field"
							default:
								continue
							}
							val = x.Val
						case *ssa.MapUpdate:
							val, where = x.Value, "a map"
						default:
							continue
						}
						nStores++
						if mi, ok := val.(*ssa.MakeInterface); ok {
							val = mi.X
						}
						al, ok := val.(*ssa.Alloc)
						if !ok || !assigned[al] {
							continue
						}
						// a varargs slice element that feeds a non-append call is a use, not a retention
						if st, ok := in.(*ssa.Store); ok {
							if ia, ok := st.Addr.(*ssa.IndexAddr); ok && isVarargsOfNonAppend(ia) {
								continue
							}
						}
						c.Fail(load.FnName(fn)+": &"+al.Comment+" stored into "+where+" inside a loop", sx.InstrPos(in),
							"the address of variable "+al.Comment+", which is declared outside the loop and re-assigned on every iteration, is stored into "+where+": all stored pointers alias the value of the last iteration")
					}
				}
			}
		}
		c.Ob("all loops of hand-written functions", token.NoPos, true, fmt.Sprintf("no per-iteration pointer aliases a loop-invariant variable (%d loops, %d element/field/map stores inside loops)", nLoops, nStores))
		c.Min("loops inspected", nLoops, 60)
	},
}

// isVarargsOfNonAppend: the IndexAddr addresses the implicit varargs array of a call other than append
// (e.g. fmt.Fprintf(w, "...", &x)): the pointer is consumed during the iteration, not retained.
func isVarargsOfNonAppend(ia *ssa.IndexAddr) bool {
	al, ok := ia.X.(*ssa.Alloc)
	if !ok || al.Comment != "varargs" {
		return false
	}
	for _, r := range *al.Referrers() {
		if sl, ok := r.(*ssa.Slice); ok {
			for _, u := range *sl.Referrers() {
				if call, ok := u.(ssa.CallInstruction); ok {
					if b, ok := call.Common().Value.(*ssa.Builtin); ok && b.Name() == "append" {
						return false
					}
				}
			}
		}
	}
	return true
}

// ---------------------------------------------------------------------------
// R-UNMARSHAL-OK

var rUnmarshalOK = &Rule{
	Name: "R-UNMARSHAL-OK",
	Doc:  "a payload that failed to unmarshal is never handed to a decoder: every read of the DynamicAny filled by types.UnmarshalAny is dominated by the err == nil edge of that very call. (UnmarshalAny allocates the message of the registered type before parsing the bytes, so on failure the message is non-nil, of the expected type, and half-read: decoders would accept it and dereference unset members instead of falling back to the opaque type.)",
	Run: func(c *core.Ctx) {
		n := 0
		for _, fn := range c.P.HandFuncs() {
			sx.EachInstr(fn, func(in ssa.Instruction) {
				call, ok := in.(*ssa.Call)
				if !ok {
					return
				}
				f := sx.Callee(call)
				if f == nil || f.Name() != "UnmarshalAny" || len(call.Call.Args) != 2 {
					return
				}
				dst := call.Call.Args[1]
				if mi, ok := dst.(*ssa.MakeInterface); ok {
					dst = mi.X
				}
				al, ok := dst.(*ssa.Alloc)
				if !ok {
					c.Undecided(load.FnName(fn)+": UnmarshalAny destination", call.Pos(), "the destination of UnmarshalAny is not a local variable")
					return
				}
				for _, r := range *al.Referrers() {
					var readPos token.Pos
					var readBlock *ssa.BasicBlock
					switch x := r.(type) {
					case *ssa.FieldAddr:
						for _, u := range *x.Referrers() {
							if ld, ok := u.(*ssa.UnOp); ok && ld.Op == token.MUL {
								readPos, readBlock = ld.Pos(), ld.Block()
								if !readPos.IsValid() {
									readPos = x.Pos()
								}
							}
						}
					case *ssa.UnOp:
						if x.Op == token.MUL {
							readPos, readBlock = x.Pos(), x.Block()
						}
					}
					if readBlock == nil {
						continue
					}
					n++
					ok := false
					for _, l := range dominatingLits(readBlock) {
						bin, isBin := l.V.(*ssa.BinOp)
						if !isBin {
							continue
						}
						var other ssa.Value
						if bin.X == ssa.Value(call) {
							other = bin.Y
						} else if bin.Y == ssa.Value(call) {
							other = bin.X
						}
						if other == nil || !sx.IsNil(other) {
							continue
						}
						if (bin.Op == token.NEQ && l.Neg) || (bin.Op == token.EQL && !l.Neg) {
							ok = true
						}
					}
					c.Check(ok, load.FnName(fn)+": read of the unmarshalled payload", readPos, "only on the err == nil edge of UnmarshalAny",
						"the message filled by types.UnmarshalAny is read on a path where the call may have failed: a corrupt payload with a registered type URL yields a non-nil, half-read message that decoders accept (then dereference unset members) instead of the opaque fallback")
				}
			})
		}
		c.Min("reads of unmarshalled payloads", n, 2)
	},
}

// ---------------------------------------------------------------------------
// R-SECONDARY-ATTACH

var rSecondaryAttach = &Rule{
	Name: "R-SECONDARY-ATTACH",
	Doc:  "a secondary error is always attached: under the assumption that both arguments are non-nil (nilness interpreter, infeasible paths pruned), every return of secondary.WithSecondaryError is a freshly allocated *withSecondaryError whose cause and secondaryError fields are the two parameters themselves, and every return of secondary.CombineErrors is the result of WithSecondaryError(err, otherErr) applied to its own two parameters - no path decides from the errors' contents (equivalence, text, type) to drop the secondary error",
	Run: func(c *core.Ctx) {
		p := c.P
		ev := nilEval(c)
		with, comb := p.Func("secondary", "WithSecondaryError"), p.Func("secondary", "CombineErrors")
		if with == nil || comb == nil {
			c.InternalErr("secondary.WithSecondaryError / CombineErrors", "anchor functions not found")
			return
		}
		eachReturned := func(fn *ssa.Function, visit func(v ssa.Value, pos token.Pos)) int {
			view := ev.Analyze(fn, []absint.Nil{absint.NonNil, absint.NonNil})
			n := 0
			for _, ret := range sx.Returns(fn) {
				if view != nil && !view.Reachable(ret.Block()) {
					continue
				}
				var walk func(v ssa.Value, d int)
				walk = func(v ssa.Value, d int) {
					if ph, ok := v.(*ssa.Phi); ok && d < 6 {
						for i, e := range ph.Edges {
							if view == nil || view.Reachable(ph.Block().Preds[i]) {
								walk(e, d+1)
							}
						}
						return
					}
					n++
					visit(v, ret.Pos())
				}
				walk(ret.Results[0], 0)
			}
			return n
		}
		// a returned value is acceptable when it is a fresh wrapper holding exactly the two parameters, or the result
		// of WithSecondaryError applied to them
		var attached func(fn *ssa.Function, v ssa.Value) (bool, string)
		depthA := 0
		attached = func(fn *ssa.Function, v ssa.Value) (bool, string) {
			if call, isCall := v.(*ssa.Call); isCall {
				sameArgs := len(call.Call.Args) == 2 && call.Call.Args[0] == ssa.Value(fn.Params[0]) && call.Call.Args[1] == ssa.Value(fn.Params[1])
				if sx.Callee(call) == with && fn != with && sameArgs {
					return true, ""
				}
				// an unexported helper of the package that receives the two errors in order: judged by its own returns
				if h := sx.Callee(call); h != nil && h != fn && h.Blocks != nil && h.Pkg == fn.Pkg && !sx.Exported(h) && len(h.Params) == 2 && sameArgs && depthA < 3 {
					depthA++
					defer func() { depthA-- }()
					okAll, whyNot := true, ""
					n := eachReturned(h, func(hv ssa.Value, _ token.Pos) {
						if ok, why := attached(h, hv); !ok {
							okAll, whyNot = false, "in "+load.FnName(h)+": "+why
						}
					})
					if n == 0 {
						return false, "no reachable return in " + load.FnName(h)
					}
					return okAll, whyNot
				}
				return false, "the returned value is " + describeVal(v)
			}
			mi, isMI := v.(*ssa.MakeInterface)
			if !isMI {
				return false, "the returned value is " + describeVal(v)
			}
			al, isAl := mi.X.(*ssa.Alloc)
			if !isAl || !sx.IsNamed(al.Type(), load.ModPath+"/secondary", "withSecondaryError") {
				return false, "the returned value is " + describeVal(v)
			}
			got := map[string]ssa.Value{}
			for _, r := range *al.Referrers() {
				if fa, isFA := r.(*ssa.FieldAddr); isFA {
					for _, u := range *fa.Referrers() {
						if st, isSt := u.(*ssa.Store); isSt && st.Addr == ssa.Value(fa) {
							got[fieldNameOf(fa)] = st.Val
						}
					}
				}
			}
			if got["cause"] == ssa.Value(fn.Params[0]) && got["secondaryError"] == ssa.Value(fn.Params[1]) {
				return true, ""
			}
			return false, "the new wrapper's cause / secondaryError fields are not the two parameters themselves"
		}
		n1 := eachReturned(with, func(v ssa.Value, pos token.Pos) {
			ok, why := attached(with, v)
			c.Check(ok, "secondary.WithSecondaryError: result for two non-nil errors", pos, "a fresh *withSecondaryError{cause: err, secondaryError: additionalErr}",
				"with both errors non-nil, WithSecondaryError can return something other than a new wrapper holding both: "+why+" - the secondary error (its details, stack, safe strings) is dropped")
		})
		c.Check(n1 >= 1, "secondary.WithSecondaryError: reachable returns", with.Pos(), "at least one", "no return is reachable for two non-nil errors")
		// CombineErrors
		n2 := eachReturned(comb, func(v ssa.Value, pos token.Pos) {
			ok, why := attached(comb, v)
			c.Check(ok, "secondary.CombineErrors: result for two non-nil errors", pos, "WithSecondaryError(err, otherErr) or the wrapper it builds",
				"with both errors non-nil, CombineErrors can return something that does not hold both errors ("+why+"): the secondary error is silently dropped on that path")
		})
		c.Check(n2 >= 1, "secondary.CombineErrors: reachable returns", comb.Pos(), "at least one", "no return is reachable for two non-nil errors")
	},
}

// ---------------------------------------------------------------------------
// R-ALWAYS-WRAPS

// conditionalWrappers: exported constructors that are documented to return the error unchanged for some
// non-error argument values. key: package-relative function name; value: the reason (checked by reading).
var conditionalWrappers = map[string]string{
	"contexttags.WithContextTags": "documented: 'the error is returned unchanged' when the context carries no tags",
	"errors.WithContextTags":      "forwards to contexttags.WithContextTags",
	"safedetails.WithSafeDetails": "documented: with an empty format and no arguments 'the error argument is returned unchanged'",
	"errors.WithSafeDetails":      "forwards to safedetails.WithSafeDetails",
}

var rAlwaysWraps = &Rule{
	Name: "R-ALWAYS-WRAPS",
	Doc: "annotation is unconditional: for every exported wrapper constructor (a function whose returned error stores its error parameter in a field, found by dataflow), under the assumption that the wrapped error is non-nil (nilness interpreter, infeasible paths pruned), every reachable return is a freshly allocated wrapper or the result of another such constructor applied to the same error - never the error parameter itself. " +
		"A constructor that inspects the error (equivalence with the reference, an existing annotation, its text) and decides to skip the annotation loses the mark / code / secondary error / hint the caller asked for. Passing the error through is accepted when no dominating condition (other than the nil test) is computed from the error: skipping for particular *non-error* arguments (no tags in the context, an empty format) is documented behaviour",
	Run: func(c *core.Ctx) {
		p := c.P
		ev := nilEval(c)
		wmemo := map[string]bool{}
		type key struct {
			fn *ssa.Function
			pi int
		}
		memo := map[key]string{}        // "" = always wraps; otherwise the reason it does not
		passThrough := map[key]string{} // constructors that return the error itself under an error-independent condition
		var always func(fn *ssa.Function, pi int, depth int) string
		always = func(fn *ssa.Function, pi int, depth int) string {
			k := key{fn, pi}
			if v, ok := memo[k]; ok {
				return v
			}
			memo[k] = ""
			if depth > 8 || fn.Blocks == nil {
				memo[k] = "too deep"
				return memo[k]
			}
			args := make([]absint.Nil, len(fn.Params))
			for _, e := range errorParams(fn) {
				args[e] = absint.NonNil
			}
			view := ev.Analyze(fn, args)
			ei := errorResult(fn)
			res := ""
			for _, ret := range sx.Returns(fn) {
				if view != nil && !view.Reachable(ret.Block()) {
					continue
				}
				var walk func(v ssa.Value, lits []lit, d int)
				walk = func(v ssa.Value, lits []lit, d int) {
					if res != "" || d > 8 {
						return
					}
					switch x := v.(type) {
					case *ssa.Phi:
						for i, e := range x.Edges {
							if view == nil || view.Reachable(x.Block().Preds[i]) {
								walk(e, edgeLits(x.Block().Preds[i], x.Block()), d+1)
							}
						}
					case *ssa.ChangeInterface:
						walk(x.X, lits, d+1)
					case *ssa.MakeInterface:
						switch x.X.(type) {
						case *ssa.Alloc:
						case *ssa.Call, *ssa.Phi:
							// a wrapper handed out under its pointer type by a constructor helper
							walk(x.X, lits, d+1)
						default:
							res = "returns a boxed " + describeVal(x.X) + " at " + p.Pos(ret.Pos())
						}
					case *ssa.Alloc:
						// a fresh wrapper under its pointer type (in a constructor helper)
					case *ssa.Parameter:
						if x == fn.Params[pi] {
							// passing the error through is acceptable only when the decision does not look at the error
							// (beyond its nilness): e.g. no tags in the context, an empty format.
							if passThrough[k] == "" {
								passThrough[k] = "returns the error parameter itself at " + p.Pos(ret.Pos())
							}
							for _, l := range lits {
								if isNilTestOf(l.V, fn.Params[pi]) {
									continue
								}
								if dependsOnValue(l.V, fn.Params[pi], map[ssa.Value]bool{}, 0) {
									res = "returns the error parameter itself at " + p.Pos(ret.Pos()) + " under a condition computed from that error (" + describeVal(l.V) + ")"
								}
							}
						} else {
							res = "returns parameter " + x.Name() + " at " + p.Pos(ret.Pos())
						}
					case *ssa.Const:
						res = "returns nil at " + p.Pos(ret.Pos())
					case *ssa.Call:
						callee := sx.Callee(x)
						if callee == nil || !p.InModule(callee) {
							res = "returns the result of " + describeVal(x) + " at " + p.Pos(ret.Pos())
							return
						}
						// which argument carries our parameter (possibly already wrapped)?
						found := false
						for j, a := range x.Call.Args {
							if j < len(callee.Params) && sx.IsErrorType(callee.Params[j].Type()) && wrapsParam(p, callee, j, wmemo, 0) && derivesFrom(a, fn.Params[pi], 0) {
								found = true
								if r := always(callee, j, depth+1); r != "" {
									res = "through " + load.FnName(callee) + ": " + r
								} else if pt := passThrough[key{callee, j}]; pt != "" && passThrough[k] == "" {
									passThrough[k] = "through " + load.FnName(callee) + ": " + pt
								}
								break
							}
						}
						if !found {
							res = "returns the result of " + load.FnName(callee) + ", which does not wrap the error, at " + p.Pos(ret.Pos())
						}
					default:
						res = "returns " + describeVal(v) + " at " + p.Pos(ret.Pos())
					}
				}
				ri := ei
				if ri < 0 {
					ri = 0 // a constructor helper returning the wrapper's pointer type
				}
				if ri >= len(ret.Results) {
					continue
				}
				walk(ret.Results[ri], dominatingLits(ret.Block()), 0)
			}
			memo[k] = res
			return res
		}
		n := 0
		for _, fn := range publicAPI(p) {
			ei := errorResult(fn)
			if ei < 0 {
				continue
			}
			var wrapped []int
			for _, pi := range errorParams(fn) {
				if wrapsParam(p, fn, pi, wmemo, 0) {
					wrapped = append(wrapped, pi)
				}
			}
			if len(wrapped) == 0 {
				continue
			}
			pi := wrapped[0]
			n++
			name := load.FnName(fn)
			construct := fmt.Sprintf("%s(%s non-nil)", name, fn.Params[pi].Name())
			why := always(fn, pi, 0)
			// a pass-through on a condition that does not look at the error is acceptable only where the API documents
			// it (frozen table); everywhere else the caller asked for an annotation and gets none
			if why == "" && passThrough[key{fn, pi}] != "" {
				if reason, tabled := conditionalWrappers[name]; tabled {
					c.Ob(construct, fn.Pos(), true, "documented conditional annotation ("+reason+"), decided by a condition that does not look at the error")
					continue
				}
				why = passThrough[key{fn, pi}] + " under a condition on the other arguments that the API does not document"
			}
			c.Check(why == "", construct, fn.Pos(), "always a new wrapper around the error", "for a non-nil error the constructor can skip the annotation: "+why)
		}
		c.Min("wrapper constructors", n, 60)
	},
}

// isNilTestOf: v is `p == nil` / `p != nil`.
func isNilTestOf(v ssa.Value, p *ssa.Parameter) bool {
	bin, ok := v.(*ssa.BinOp)
	if !ok || (bin.Op != token.EQL && bin.Op != token.NEQ) {
		return false
	}
	return (bin.X == ssa.Value(p) && sx.IsNil(bin.Y)) || (bin.Y == ssa.Value(p) && sx.IsNil(bin.X))
}

// dependsOnValue: the computation of v uses p (operands, transitively; through phis, calls, loads of locals).
func dependsOnValue(v ssa.Value, p ssa.Value, seen map[ssa.Value]bool, d int) bool {
	if v == p {
		return true
	}
	if v == nil || seen[v] || d > 40 {
		return false
	}
	seen[v] = true
	in, ok := v.(ssa.Instruction)
	if !ok {
		return false
	}
	for _, op := range in.Operands(nil) {
		if *op != nil && dependsOnValue(*op, p, seen, d+1) {
			return true
		}
	}
	// a load of a local: whatever was stored into it
	if ld, ok := v.(*ssa.UnOp); ok && ld.Op == token.MUL {
		if al, ok := ld.X.(*ssa.Alloc); ok {
			for _, r := range *al.Referrers() {
				if st, ok := r.(*ssa.Store); ok && st.Addr == ssa.Value(al) && dependsOnValue(st.Val, p, seen, d+1) {
					return true
				}
			}
		}
	}
	return false
}

// derivesFrom: v is p, or a phi / interface change / module call over values deriving from p.
func derivesFrom(v ssa.Value, p *ssa.Parameter, d int) bool {
	if d > 6 {
		return false
	}
	switch x := v.(type) {
	case *ssa.Parameter:
		return x == p
	case *ssa.Phi:
		for _, e := range x.Edges {
			if derivesFrom(e, p, d+1) {
				return true
			}
		}
	case *ssa.ChangeInterface:
		return derivesFrom(x.X, p, d+1)
	case *ssa.Call:
		for _, a := range x.Call.Args {
			if derivesFrom(a, p, d+1) {
				return true
			}
		}
	case *ssa.MakeInterface:
		if al, ok := x.X.(*ssa.Alloc); ok {
			for _, r := range *al.Referrers() {
				if fa, ok := r.(*ssa.FieldAddr); ok {
					for _, u := range *fa.Referrers() {
						if st, ok := u.(*ssa.Store); ok && st.Addr == ssa.Value(fa) && derivesFrom(st.Val, p, d+1) {
							return true
						}
					}
				}
			}
		}
	}
	return false
}

// ---------------------------------------------------------------------------
// R-WALK-CURRENT

var rWalkCurrent = &Rule{
	Name: "R-WALK-CURRENT",
	Doc:  "a chain walk looks at the current layer: in every loop whose induction variable c starts at an error value e0 and advances with errbase.UnwrapOnce(c) (or Unwrap/Cause of c), no instruction inside the loop body uses e0 itself (the root of the walk) as an operand - every per-layer computation (mark, type assertion, method probe, comparison) takes c. Using the root inside the body repeats the outermost layer's answer at every depth, so matches under a wrapper are lost",
	Run: func(c *core.Ctx) {
		n := 0
		for _, fn := range c.P.HandFuncs() {
			for _, l := range naturalLoops(fn) {
				for _, in := range l.Header.Instrs {
					phi, ok := in.(*ssa.Phi)
					if !ok {
						break
					}
					if !sx.IsErrorType(phi.Type()) {
						continue
					}
					var init ssa.Value
					step := false
					for i, e := range phi.Edges {
						if l.Body[l.Header.Preds[i]] {
							if call, ok := e.(*ssa.Call); ok {
								if f := sx.Callee(call); f != nil && (f.Name() == "UnwrapOnce" || f.Name() == "Unwrap" || f.Name() == "Cause") && len(call.Call.Args) == 1 && call.Call.Args[0] == ssa.Value(phi) {
									step = true
								}
							}
						} else {
							init = e
						}
					}
					if !step || init == nil {
						continue
					}
					if _, isConst := init.(*ssa.Const); isConst {
						continue
					}
					n++
					construct := load.FnName(fn) + ": walk over " + describeVal(init)
					bad := false
					for b := range l.Body {
						for _, bi := range b.Instrs {
							if bi == ssa.Instruction(phi) {
								continue
							}
							for _, op := range bi.Operands(nil) {
								if *op == init {
									bad = true
									c.Fail(construct, sx.InstrPos(bi), "inside the walking loop the root of the walk ("+describeVal(init)+") is used where the current layer is meant: the outermost layer's answer is repeated at every depth")
								}
							}
						}
					}
					if !bad {
						c.Ob(construct, phi.Pos(), true, "the loop body uses only the current layer")
					}
				}
			}
		}
		c.Min("chain walks", n, 8)
	},
}

// ---------------------------------------------------------------------------
// R-MEMO

var rMemo = &Rule{
	Name: "R-MEMO",
	Doc: "a memoised function stays a function of its inputs: wherever hand-written code looks a value up in package-level state (sync.Map.Load / a package-level map) and, on a miss, computes and stores it, the key of the store is the key of the lookup and the stored value is computed from that key ALONE - its backward slice, cut at the key, reaches no parameter, no free variable and no other lookup. " +
		"A lossy key (a type's short name instead of the reflect.Type, a program counter one frame off the frame the result is computed from) makes two different inputs share one answer: two distinct error types get the same type mark, two packages the same domain. (No instance on the pinned tree: the identity- and domain-computing functions are not memoised; the rule is exercised by control mutants.)",
	Run: func(c *core.Ctx) {
		nFn, nMemo := 0, 0
		for _, fn := range c.P.HandFuncs() {
			nFn++
			type site struct {
				state string
				key   ssa.Value
				val   ssa.Value
				in    ssa.Instruction
			}
			var loads, stores []site
			sx.EachInstr(fn, func(in ssa.Instruction) {
				switch x := in.(type) {
				case *ssa.Call:
					f := sx.Callee(x)
					if f == nil || f.Signature.Recv() == nil || !sx.IsNamed(f.Signature.Recv().Type(), "sync", "Map") || len(x.Call.Args) < 2 {
						return
					}
					g, ok := x.Call.Args[0].(*ssa.Global)
					if !ok {
						return
					}
					switch f.Name() {
					case "Load":
						loads = append(loads, site{g.Name(), stripIface(x.Call.Args[1]), nil, in})
					case "Store":
						if len(x.Call.Args) == 3 {
							stores = append(stores, site{g.Name(), stripIface(x.Call.Args[1]), stripIface(x.Call.Args[2]), in})
						}
					case "LoadOrStore":
						if len(x.Call.Args) == 3 {
							loads = append(loads, site{g.Name(), stripIface(x.Call.Args[1]), nil, in})
							stores = append(stores, site{g.Name(), stripIface(x.Call.Args[1]), stripIface(x.Call.Args[2]), in})
						}
					}
				case *ssa.Lookup:
					if g := globalOfLoad(x.X); g != nil {
						loads = append(loads, site{g.Name(), stripIface(x.Index), nil, in})
					}
				case *ssa.MapUpdate:
					if g := globalOfLoad(x.Map); g != nil {
						stores = append(stores, site{g.Name(), stripIface(x.Key), stripIface(x.Value), in})
					}
				}
			})
			for _, st := range stores {
				var ld *site
				for i := range loads {
					if loads[i].state == st.state {
						ld = &loads[i]
					}
				}
				if ld == nil || !reachesReturn(ld.in) {
					continue // a registry write (nothing looked up is handed back), not a memo
				}
				nMemo++
				construct := load.FnName(fn) + ": memo in " + st.state
				if !sameExpr(ld.key, st.key, 0) {
					c.Fail(construct, sx.InstrPos(st.in), "the value is stored under a key ("+describeVal(st.key)+") that is not the key it is looked up with ("+describeVal(ld.key)+")")
					continue
				}
				// backward slice of the stored value, cut at the key
				var leak string
				seen := map[ssa.Value]bool{}
				var walk func(v ssa.Value, d int)
				walk = func(v ssa.Value, d int) {
					if v == nil || leak != "" || seen[v] || v == st.key || d > 60 || sameExpr(v, st.key, 0) {
						return
					}
					seen[v] = true
					switch x := v.(type) {
					case *ssa.Parameter:
						leak = "parameter " + x.Name()
						return
					case *ssa.FreeVar:
						leak = "captured variable " + x.Name()
						return
					case *ssa.Global:
						if x.Name() != st.state {
							leak = "package-level variable " + x.Name()
						}
						return
					case *ssa.Const, *ssa.Function, *ssa.Builtin:
						return
					}
					in, ok := v.(ssa.Instruction)
					if !ok {
						return
					}
					if call, ok := v.(*ssa.Call); ok {
						if f := sx.Callee(call); f != nil && f.Pkg != nil && f.Pkg.Pkg.Path() == "runtime" && strings.HasPrefix(f.Name(), "Caller") {
							leak = "the call stack (runtime." + f.Name() + ")"
							return
						}
					}
					for _, op := range in.Operands(nil) {
						if *op != nil {
							walk(*op, d+1)
						}
					}
					// a merge of values chosen by tests: the tests are part of what the value is computed from
					if ph, ok := v.(*ssa.Phi); ok {
						for i := range ph.Edges {
							pred := ph.Block().Preds[i]
							for _, l := range append(edgeLits(pred, ph.Block()), dominatingLits(pred)...) {
								walk(l.V, d+1)
							}
						}
					}
					if ldv, ok := v.(*ssa.UnOp); ok && ldv.Op == token.MUL {
						if al, ok := ldv.X.(*ssa.Alloc); ok {
							for _, r := range *al.Referrers() {
								if s2, ok := r.(*ssa.Store); ok && s2.Addr == ssa.Value(al) {
									walk(s2.Val, d+1)
								}
							}
						}
					}
				}
				walk(st.val, 0)
				c.Check(leak == "", construct, sx.InstrPos(st.in), "the memoised value is computed from the key alone",
					"the memoised value also depends on "+leak+", which is not part of the key ("+describeVal(st.key)+"): different inputs that share a key get the first one's answer")
			}
		}
		c.Ob("all hand-written functions", token.NoPos, true, fmt.Sprintf("%d functions inspected, %d memoisation sites", nFn, nMemo))
		c.Min("functions inspected", nFn, 400)
	},
}

// sameExpr: a and b are the same SSA value, or two evaluations of the same side-effect-free expression: loads of
// the same field / constant-index element of the same base, conversions of the same value, len of the same value.
func sameExpr(a, b ssa.Value, d int) bool {
	if a == b {
		return true
	}
	if a == nil || b == nil || d > 6 {
		return false
	}
	switch x := a.(type) {
	case *ssa.UnOp:
		y, ok := b.(*ssa.UnOp)
		return ok && x.Op == y.Op && sameExpr(x.X, y.X, d+1)
	case *ssa.IndexAddr:
		y, ok := b.(*ssa.IndexAddr)
		if !ok || !sameExpr(x.X, y.X, d+1) {
			return false
		}
		kx, okx := sx.ConstInt(x.Index)
		ky, oky := sx.ConstInt(y.Index)
		return (okx && oky && kx == ky) || sameExpr(x.Index, y.Index, d+1)
	case *ssa.FieldAddr:
		y, ok := b.(*ssa.FieldAddr)
		return ok && x.Field == y.Field && sameExpr(x.X, y.X, d+1)
	case *ssa.Convert:
		y, ok := b.(*ssa.Convert)
		return ok && types.Identical(x.Type(), y.Type()) && sameExpr(x.X, y.X, d+1)
	case *ssa.MakeInterface:
		y, ok := b.(*ssa.MakeInterface)
		return ok && sameExpr(x.X, y.X, d+1)
	case *ssa.Const:
		y, ok := b.(*ssa.Const)
		return ok && x.Value != nil && y.Value != nil && x.Value.ExactString() == y.Value.ExactString() && types.Identical(x.Type(), y.Type())
	}
	return false
}

func globalOfLoad(v ssa.Value) *ssa.Global {
	if ld, ok := v.(*ssa.UnOp); ok && ld.Op == token.MUL {
		if g, ok := ld.X.(*ssa.Global); ok {
			return g
		}
	}
	return nil
}

// reachesReturn: the value produced by the lookup instruction flows (extract, assertion, phi, conversion,
// load of a local it was stored into) into a Return of its function.
func reachesReturn(in ssa.Instruction) bool {
	v, ok := in.(ssa.Value)
	if !ok {
		return false
	}
	seen := map[ssa.Value]bool{}
	var walk func(v ssa.Value, d int) bool
	walk = func(v ssa.Value, d int) bool {
		if seen[v] || d > 12 || v.Referrers() == nil {
			return false
		}
		seen[v] = true
		for _, r := range *v.Referrers() {
			switch x := r.(type) {
			case *ssa.Return:
				return true
			case *ssa.Extract:
				if x.Index == 0 && walk(x, d+1) {
					return true
				}
			case *ssa.TypeAssert, *ssa.Phi, *ssa.ChangeInterface, *ssa.ChangeType, *ssa.Convert, *ssa.MakeInterface:
				if walk(x.(ssa.Value), d+1) {
					return true
				}
			case *ssa.Store:
				if al, ok := x.Addr.(*ssa.Alloc); ok && x.Val == v {
					for _, u := range *al.Referrers() {
						if ld, ok := u.(*ssa.UnOp); ok && walk(ld, d+1) {
							return true
						}
					}
				}
			}
		}
		return false
	}
	return walk(v, 0)
}

// ---------------------------------------------------------------------------
// R-UNWRAPALL

var rUnwrapAll = &Rule{
	Name: "R-UNWRAPALL",
	Doc:  "errbase.UnwrapAll (and so errors.Cause) is pkg/errors' Cause: its loop advances c = UnwrapOnce(c), every edge that leaves the loop is decided by the nil test of UnwrapOnce(c) for the current c and by nothing else, and the value returned is the current c - the last error for which UnwrapOnce is nil. Any additional stop condition (the next cause being a multi-error, a type, a depth) returns a wrapper where pkg/errors returns the root",
	Run: func(c *core.Ctx) {
		fn := c.P.Func("errbase", "UnwrapAll")
		if fn == nil {
			c.InternalErr("errbase.UnwrapAll", "anchor not found")
			return
		}
		loops := naturalLoops(fn)
		if len(loops) != 1 {
			c.Undecided("errbase.UnwrapAll", fn.Pos(), fmt.Sprintf("expected one loop, found %d (recursive or unrolled form not recognised)", len(loops)))
			return
		}
		l := loops[0]
		// Two spellings are recognised.
		//  (A) c = φ(err, UnwrapOnce(c));                       leave when UnwrapOnce(c) == nil
		//  (B) c = φ(err, n), n = φ(UnwrapOnce(err), UnwrapOnce(n));  leave when n == nil   (n is always UnwrapOnce(c))
		var phis []*ssa.Phi
		for _, in := range l.Header.Instrs {
			if ph, ok := in.(*ssa.Phi); ok && sx.IsErrorType(ph.Type()) {
				phis = append(phis, ph)
			}
		}
		stepOf := func(v ssa.Value) ssa.Value {
			call, ok := v.(*ssa.Call)
			if ok && sx.Callee(call) != nil && sx.Callee(call).Name() == "UnwrapOnce" && len(call.Call.Args) == 1 {
				return call.Call.Args[0]
			}
			return nil
		}
		edges := func(ph *ssa.Phi) (init, back ssa.Value, ok bool) {
			ok = true
			for i, e := range ph.Edges {
				if l.Body[l.Header.Preds[i]] {
					if back != nil && back != e {
						ok = false
					}
					back = e
				} else {
					if init != nil && init != e {
						ok = false
					}
					init = e
				}
			}
			return init, back, ok && init != nil && back != nil
		}
		var cur *ssa.Phi
		var next ssa.Value // the value that is UnwrapOnce(cur) and decides the exit
		isStep := func(v ssa.Value) bool { return cur != nil && stepOf(v) == ssa.Value(cur) }
		for _, ph := range phis {
			init, back, ok := edges(ph)
			if !ok || init != ssa.Value(fn.Params[0]) {
				continue
			}
			if stepOf(back) == ssa.Value(ph) { // (A)
				cur = ph
				continue
			}
			if nph, isPhi := back.(*ssa.Phi); isPhi && nph.Block() == l.Header { // (B)
				ni, nb, ok2 := edges(nph)
				if ok2 && stepOf(ni) == ssa.Value(fn.Params[0]) && stepOf(nb) == ssa.Value(nph) {
					cur, next = ph, nph
				}
			}
		}
		c.Check(cur != nil, "errbase.UnwrapAll: induction", fn.Pos(), "c starts at err and advances with UnwrapOnce(c)", "the walk does not start at the argument or does not advance with UnwrapOnce of the current error")
		if cur == nil {
			return
		}
		for _, e := range l.exitEdges() {
			from := e[0]
			ifi, ok := from.Instrs[len(from.Instrs)-1].(*ssa.If)
			good := false
			if ok {
				if bin, isBin := ifi.Cond.(*ssa.BinOp); isBin && (bin.Op == token.EQL || bin.Op == token.NEQ) {
					dec := func(v ssa.Value) bool { return isStep(v) || (next != nil && v == next) }
					good = (dec(bin.X) && sx.IsNil(bin.Y)) || (dec(bin.Y) && sx.IsNil(bin.X))
				}
			}
			c.Check(good, "errbase.UnwrapAll: loop exit", lastPos(from), "decided by UnwrapOnce(c) == nil alone", "the loop can be left on a condition other than UnwrapOnce(c) == nil: the result is not the root cause that pkg/errors.Cause returns")
		}
		for _, ret := range sx.Returns(fn) {
			c.Check(ret.Results[0] == ssa.Value(cur), "errbase.UnwrapAll: result", ret.Pos(), "the current error of the walk", "the function returns something other than the error the walk stopped at")
		}
	},
}

// ---------------------------------------------------------------------------
// R-REVERSE

// linForm is a linear form over SSA values (phis, len(x)) and the constant 1 (key nil).
type linForm map[ssa.Value]int64

func (a linForm) add(b linForm, k int64) linForm {
	out := linForm{}
	for v, c := range a {
		out[v] += c
	}
	for v, c := range b {
		out[v] += k * c
	}
	for v, c := range out {
		if c == 0 {
			delete(out, v)
		}
	}
	return out
}

func (a linForm) String() string {
	var parts []string
	for v, c := range a {
		n := "1"
		if v != nil {
			n = describeVal(v)
		}
		parts = append(parts, fmt.Sprintf("%d*%s", c, n))
	}
	sort.Strings(parts)
	if len(parts) == 0 {
		return "0"
	}
	return strings.Join(parts, " + ")
}

// affineOf evaluates v as a linear form; atoms are phis and len() calls. ok=false when v is not linear.
func linOf(v ssa.Value, d int) (linForm, bool) {
	if d > 10 {
		return nil, false
	}
	switch x := v.(type) {
	case *ssa.Const:
		if k, ok := sx.ConstInt(x); ok {
			if k == 0 {
				return linForm{}, true
			}
			return linForm{nil: k}, true
		}
	case *ssa.Phi:
		return linForm{x: 1}, true
	case *ssa.Call:
		if b, ok := x.Call.Value.(*ssa.Builtin); ok && b.Name() == "len" {
			return linForm{lenKey(x): 1}, true
		}
	case *ssa.BinOp:
		a, ok1 := linOf(x.X, d+1)
		b, ok2 := linOf(x.Y, d+1)
		if !ok1 || !ok2 {
			return nil, false
		}
		switch x.Op {
		case token.ADD:
			return a.add(b, 1), true
		case token.SUB:
			return a.add(b, -1), true
		}
	case *ssa.Convert:
		return linOf(x.X, d+1)
	}
	return nil, false
}

// lenKey canonicalises len(x) calls of the same x to one atom.
var lenAtoms = map[ssa.Value]ssa.Value{}

func lenKey(call *ssa.Call) ssa.Value {
	arg := call.Call.Args[0]
	if k, ok := lenAtoms[arg]; ok {
		return k
	}
	lenAtoms[arg] = call
	return call
}

var rReverse = &Rule{
	Name: "R-REVERSE",
	Doc:  "report.reverseExceptionOrder reverses: its loop swaps ex[a] and ex[b] where a + b = len(ex) - 1 is an invariant (affine evaluation of both indices over the loop's induction variables: either b is written as len-1-a, or a and b are two induction variables whose initial values sum to len-1 and whose steps cancel), and it runs while a < len/2 or a < b. A loop that forgets to move one index swaps every element with the same slot, which leaves lists of up to two exceptions correct and permutes longer ones",
	Run: func(c *core.Ctx) {
		fn := c.P.Func("report", "reverseExceptionOrder")
		if fn == nil {
			c.InternalErr("report.reverseExceptionOrder", "anchor not found")
			return
		}
		name := "report.reverseExceptionOrder"
		loops := naturalLoops(fn)
		if len(loops) != 1 {
			c.Undecided(name, fn.Pos(), fmt.Sprintf("expected one loop, found %d", len(loops)))
			return
		}
		l := loops[0]
		// the swap: two stores into elements of the parameter, each storing the load of the other element
		type st struct {
			idx ssa.Value
			src ssa.Value
		}
		var swaps []st
		for b := range l.Body {
			for _, in := range b.Instrs {
				s, ok := in.(*ssa.Store)
				if !ok {
					continue
				}
				ia, ok := s.Addr.(*ssa.IndexAddr)
				if !ok || ia.X != ssa.Value(fn.Params[0]) {
					continue
				}
				var from ssa.Value
				if ld, ok := s.Val.(*ssa.UnOp); ok && ld.Op == token.MUL {
					if ia2, ok := ld.X.(*ssa.IndexAddr); ok && ia2.X == ssa.Value(fn.Params[0]) {
						from = ia2.Index
					}
				}
				swaps = append(swaps, st{ia.Index, from})
			}
		}
		if len(swaps) != 2 || swaps[0].src == nil || swaps[1].src == nil {
			c.Undecided(name, fn.Pos(), "the loop body is not a two-element swap of the argument's elements")
			return
		}
		ia, ok1 := linOf(swaps[0].idx, 0)
		ib, ok2 := linOf(swaps[1].idx, 0)
		sa, ok3 := linOf(swaps[0].src, 0)
		sb, ok4 := linOf(swaps[1].src, 0)
		if !(ok1 && ok2 && ok3 && ok4) {
			c.Undecided(name, fn.Pos(), "swap indices are not linear in the induction variables")
			return
		}
		cross := ia.add(sb, -1).String() == "0" && ib.add(sa, -1).String() == "0"
		c.Check(cross, name+": swap", fn.Pos(), "ex[a] receives ex[b] and ex[b] receives ex[a]", "the two stores do not exchange the two elements")
		// invariant a + b = len - 1
		sum := ia.add(ib, 1)
		var lenAtom ssa.Value
		for v := range sum {
			if call, ok := v.(*ssa.Call); ok {
				lenAtom = call
				_ = call
			}
		}
		// substitute induction variables: check by induction
		holds := true
		why := ""
		initSum, stepDelta := linForm{}, linForm{}
		for v, coef := range sum {
			ph, isPhi := v.(*ssa.Phi)
			if !isPhi {
				initSum = initSum.add(linForm{v: 1}, coef)
				continue
			}
			for i, e := range ph.Edges {
				ea, ok := linOf(e, 0)
				if !ok {
					holds, why = false, "an induction variable is not updated linearly"
					continue
				}
				if l.Body[ph.Block().Preds[i]] {
					stepDelta = stepDelta.add(ea.add(linForm{ph: 1}, -1), coef)
				} else {
					initSum = initSum.add(ea, coef)
				}
			}
		}
		want := linForm{}
		if lenAtom != nil {
			want = linForm{lenAtom: 1, nil: -1}
		} else {
			// len may only appear in the initial value of an induction variable
			for v := range initSum {
				if call, ok := v.(*ssa.Call); ok {
					want = linForm{call: 1, nil: -1}
				}
			}
		}
		if holds && initSum.add(want, -1).String() != "0" {
			holds, why = false, "initially a + b = "+initSum.String()+", not len(ex) - 1"
		}
		if holds && stepDelta.String() != "0" {
			holds, why = false, "one iteration changes a + b by "+stepDelta.String()+" (an index is not moved, or moved the wrong way)"
		}
		c.Check(holds, name+": invariant a + b = len(ex) - 1", fn.Pos(), "holds initially and is preserved by every iteration ("+sum.String()+")",
			"the swapped positions are not mirror images of each other: "+why+" - lists of three or more exceptions are permuted instead of reversed, so the innermost stack is no longer last and frames are attributed to the wrong layer")
		// bound: header condition a < len/2 or a < b
		okBound := false
		if ifi, ok := l.Header.Instrs[len(l.Header.Instrs)-1].(*ssa.If); ok {
			if bin, ok := ifi.Cond.(*ssa.BinOp); ok && bin.Op == token.LSS {
				la, okA := linOf(bin.X, 0)
				if okA && (la.add(ia, -1).String() == "0" || la.add(ib, -1).String() == "0") {
					if q, ok := bin.Y.(*ssa.BinOp); ok && q.Op == token.QUO {
						if k, ok := sx.ConstInt(q.Y); ok && k == 2 {
							// the dividend is len(ex) itself (or len(ex)+1, which only adds the middle element's swap with
							// itself): (len(ex)-1)/2 stops one pair short for every even length - two exceptions stay unreversed
							if qx, ok := linOf(q.X, 0); ok {
								lenOK, rest := false, true
								for v, coef := range qx {
									switch {
									case v == nil:
										if coef != 0 && coef != 1 {
											rest = false
										}
									case isLenOf(v, fn.Params[0]):
										lenOK = coef == 1
									default:
										if coef != 0 {
											rest = false
										}
									}
								}
								okBound = lenOK && rest
							}
						}
					} else if ra, ok := linOf(bin.Y, 0); ok && (ra.add(ia, -1).String() == "0" || ra.add(ib, -1).String() == "0") {
						okBound = true
					}
				}
			}
		}
		c.Check(okBound, name+": bound", fn.Pos(), "runs while a < len(ex)/2 or a < b", "the loop bound is not one of the two forms that cover exactly the first half (a < len(ex)/2, a < b): some pair of exceptions is left unswapped (or swapped back), so for some number of stack-carrying layers the exceptions are not outermost-first")
	},
}

// ---------------------------------------------------------------------------
// R-STACK-EMPTY

var rStackEmpty = &Rule{
	Name: "R-STACK-EMPTY",
	Doc: "an empty printed stack is no stack: every caller of withstack.parsePrintedStackEntry (the parsers of the printed-stack wire slot and of locally printed traces) reaches that call only on a path where the text being parsed was tested non-empty (a dominating `s != \"\"` / `len(s) > 0` on the string that is split, or a len(st) > 0 test of the StackTrace that is printed). " +
		"strings.Split never returns an empty list, so without that test the empty text - which is exactly what a layer with zero captured frames sends - becomes one all-empty frame and the source location \".:0\", different from what the same error reports before the hop",
	Run: func(c *core.Ctx) {
		p := c.P
		entry := p.Func("withstack", "parsePrintedStackEntry")
		if entry == nil {
			c.InternalErr("withstack.parsePrintedStackEntry", "anchor not found")
			return
		}
		n := 0
		// decide(fn, site, lines): the lines value handed over at `site` (in fn) comes from splitting a text that was
		// tested non-empty on the way to the site; a parameter of an unexported function is followed to its callers
		var decide func(fn *ssa.Function, site *ssa.Call, lines ssa.Value, depth int) (bool, string)
		decide = func(fn *ssa.Function, site *ssa.Call, lines ssa.Value, depth int) (bool, string) {
			if prm, isParam := lines.(*ssa.Parameter); isParam && depth < 3 && !sx.Exported(fn) {
				pi := paramIndex(fn, prm)
				sites := 0
				for _, caller := range p.HandFuncs() {
					var bad string
					sx.EachInstr(caller, func(in ssa.Instruction) {
						cs, ok := in.(*ssa.Call)
						if !ok || sx.Callee(cs) != fn || pi >= len(cs.Call.Args) {
							return
						}
						sites++
						if ok2, why := decide(caller, cs, cs.Call.Args[pi], depth+1); !ok2 {
							bad = why
						}
					})
					if bad != "" {
						return false, bad
					}
				}
				if sites == 0 {
					return false, "undecided: no caller found"
				}
				return true, ""
			}
			var text ssa.Value
			if sp, ok := lines.(*ssa.Call); ok {
				if f := sx.Callee(sp); f != nil && strings.HasPrefix(f.Name(), "Split") && len(sp.Call.Args) >= 1 {
					text = sp.Call.Args[0]
				}
			}
			if text == nil {
				return false, "undecided: the lines argument is not the direct result of strings.Split*"
			}
			for _, l := range dominatingLits(site.Block()) {
				if nonEmptyTestOf(l, text) {
					return true, ""
				}
			}
			return false, "the text is split and parsed without having been tested non-empty: the empty printed stack of a layer that captured no frames yields one all-empty frame / the location \".:0\" after a hop, while the sender reports no stack"
		}
		for _, fn := range p.HandFuncs() {
			sx.EachInstr(fn, func(in ssa.Instruction) {
				call, ok := in.(*ssa.Call)
				if !ok || sx.Callee(call) != entry {
					return
				}
				n++
				construct := load.FnName(fn) + ": parse of a printed stack"
				ok, why := decide(fn, call, call.Call.Args[0], 0)
				if !ok && strings.HasPrefix(why, "undecided: ") {
					c.Undecided(construct, call.Pos(), strings.TrimPrefix(why, "undecided: "))
					return
				}
				c.Check(ok, construct, call.Pos(), "only for a non-empty text", why)
			})
		}
		c.Min("callers of parsePrintedStackEntry", n, 2)
	},
}

// nonEmptyTestOf: literal l establishes that the string value s (or the value it was trimmed from... no: s itself) is
// non-empty: s != "" true, s == "" false, len(s) > 0 / != 0 true, len(s) == 0 false.
func nonEmptyTestOf(l lit, s ssa.Value) bool {
	bin, ok := l.V.(*ssa.BinOp)
	if !ok {
		return false
	}
	isLen := func(v ssa.Value) bool {
		call, ok := v.(*ssa.Call)
		if !ok {
			return false
		}
		b, ok := call.Call.Value.(*ssa.Builtin)
		return ok && b.Name() == "len" && call.Call.Args[0] == s
	}
	isEmptyStr := func(v ssa.Value) bool { k, ok := sx.ConstString(v); return ok && k == "" }
	isZero := func(v ssa.Value) bool { k, ok := sx.ConstInt(v); return ok && k == 0 }
	switch {
	case (bin.X == s && isEmptyStr(bin.Y)) || (bin.Y == s && isEmptyStr(bin.X)):
		return (bin.Op == token.NEQ && !l.Neg) || (bin.Op == token.EQL && l.Neg)
	case isLen(bin.X) && isZero(bin.Y):
		return ((bin.Op == token.GTR || bin.Op == token.NEQ) && !l.Neg) || ((bin.Op == token.EQL || bin.Op == token.LEQ) && l.Neg)
	case isLen(bin.Y) && isZero(bin.X):
		return ((bin.Op == token.LSS || bin.Op == token.NEQ) && !l.Neg) || ((bin.Op == token.EQL || bin.Op == token.GEQ) && l.Neg)
	}
	return false
}

// ---------------------------------------------------------------------------
// R-FUNCNAME

var rFuncName = &Rule{
	Name: "R-FUNCNAME",
	Doc:  "withstack.functionName splits the runtime's function name into package and function without losing or misplacing anything: (1) the two results are name[:idx] and name[idx+1:] of the parameter ITSELF for one and the same idx (the split is a partition - nothing is cut off before or after), and (2) idx is not simply strings.LastIndex(name, \".\") of the whole name: the runtime prints the type arguments of instantiated generic functions as \"[...]\", so the last period of pkg.Map[...] lies inside the argument list (the function would be reported as \"]\")",
	Run: func(c *core.Ctx) {
		fn := c.P.Func("withstack", "functionName")
		if fn == nil {
			c.InternalErr("withstack.functionName", "anchor not found")
			return
		}
		name := "withstack.functionName"
		param := fn.Params[0]
		// slices of the parameter
		var lows, highs []ssa.Value
		okSlices := true
		sx.EachInstr(fn, func(in ssa.Instruction) {
			sl, ok := in.(*ssa.Slice)
			if !ok || !isStringType(sl.X.Type()) {
				return
			}
			if sl.X != ssa.Value(param) {
				okSlices = false
				return
			}
			switch {
			case sl.Low == nil && sl.High != nil:
				highs = append(highs, sl.High)
			case sl.Low != nil && sl.High == nil:
				lows = append(lows, sl.Low)
			default:
				okSlices = false
			}
		})
		part := okSlices && len(lows) == 1 && len(highs) == 1
		var idx ssa.Value
		if part {
			idx = highs[0]
			bin, ok := lows[0].(*ssa.BinOp)
			k, isK := int64(0), false
			if ok && bin.Op == token.ADD && bin.X == idx {
				k, isK = sx.ConstInt(bin.Y)
			}
			part = isK && k == 1
		}
		c.Check(part, name+": partition", fn.Pos(), "package = name[:idx], function = name[idx+1:] of the parameter itself",
			"the results are not the two sides of one split position of the full runtime name: a part of the name (e.g. everything from the first '[' on, which contains the method name of methods on generic types) is cut off")
		if !part {
			return
		}
		plain := false
		if call, ok := idx.(*ssa.Call); ok {
			if f := sx.Callee(call); f != nil && load.FnPkg(f) != nil && load.FnPkg(f).Path() == "strings" && strings.HasPrefix(f.Name(), "LastIndex") && len(call.Call.Args) == 2 && call.Call.Args[0] == ssa.Value(param) {
				plain = true
			}
		}
		c.Check(!plain, name+": split position", fn.Pos(), "not the plain last period of the whole name (type-argument lists are skipped)",
			"the name is split at strings.LastIndex(name, \".\"): for an instantiated generic function (pkg.Map[...]) that period is inside the type-argument list, so the function is reported as \"]\" and the package as \"pkg.Map[..\"")
	},
}

func isStringType(t types.Type) bool {
	b, ok := types.Unalias(t).Underlying().(*types.Basic)
	return ok && b.Info()&types.IsString != 0
}

// ---------------------------------------------------------------------------
// R-REGISTRY-KEY

var rRegistryKey = &Rule{
	Name: "R-REGISTRY-KEY",
	Doc:  "the encoder/decoder registries are consulted under the key they are filled with: GetTypeKey(x), i.e. the (migrated) FAMILY name. Every lookup in a package-level map keyed by errbase.TypeKey inside errbase's encode/decode paths uses the FamilyName member of the type mark (result #2 of getTypeDetails on the sending side, Details.ErrorTypeMark.FamilyName on the receiving side) - never OriginalTypeName, which differs from the family name exactly for types renamed with RegisterTypeMigration (their registered encoder would be skipped and they would travel without payload)",
	Run: func(c *core.Ctx) {
		p := c.P
		n := 0
		for _, fn := range p.HandFuncs() {
			pk := load.FnPkg(fn)
			if pk == nil || !strings.HasSuffix(pk.Path(), "/errbase") {
				continue
			}
			sx.EachInstr(fn, func(in ssa.Instruction) {
				lk, ok := in.(*ssa.Lookup)
				if !ok {
					return
				}
				g := globalOfLoad(lk.X)
				if g == nil {
					return
				}
				mt, ok := types.Unalias(lk.X.Type()).Underlying().(*types.Map)
				if !ok || !sx.IsNamed(mt.Key(), load.ModPath+"/errbase", "TypeKey") {
					return
				}
				n++
				construct := load.FnName(fn) + ": lookup in " + g.Name()
				var verdict func(v ssa.Value, d int) string // "" ok, otherwise reason; "?" unknown
				verdict = func(v ssa.Value, d int) string {
					if d > 8 {
						return "?"
					}
					switch x := v.(type) {
					case *ssa.Convert:
						return verdict(x.X, d+1)
					case *ssa.ChangeType:
						return verdict(x.X, d+1)
					case *ssa.Parameter:
						return ""
					case *ssa.Phi:
						for _, e := range x.Edges {
							if r := verdict(e, d+1); r != "" {
								return r
							}
						}
						return ""
					case *ssa.UnOp:
						if x.Op != token.MUL {
							return "?"
						}
						switch a := x.X.(type) {
						case *ssa.FieldAddr:
							switch fieldNameOf(a) {
							case "FamilyName":
								return ""
							case "OriginalTypeName":
								return "the key is built from OriginalTypeName"
							}
							return "?"
						case *ssa.Alloc:
							// a local: what was stored
							for _, r := range *a.Referrers() {
								if st, ok := r.(*ssa.Store); ok && st.Addr == ssa.Value(a) {
									if rr := verdict(st.Val, d+1); rr != "" {
										return rr
									}
								}
							}
							return ""
						}
						return "?"
					case *ssa.Extract:
						if call, ok := x.Tuple.(*ssa.Call); ok && sx.Callee(call) != nil && sx.Callee(call).Name() == "getTypeDetails" {
							if x.Index == 1 {
								return ""
							}
							if x.Index == 0 {
								return "the key is the original type name returned by getTypeDetails"
							}
							return "?"
						}
						// a result of a same-package helper: what the helper returns at that position
						if call, ok := x.Tuple.(*ssa.Call); ok {
							if h := sx.Callee(call); h != nil && h.Blocks != nil && h.Pkg == fn.Pkg && d < 6 {
								for _, ret := range sx.Returns(h) {
									if x.Index >= len(ret.Results) {
										return "?"
									}
									if rr := verdict(ret.Results[x.Index], d+2); rr != "" {
										return rr
									}
								}
								return ""
							}
						}
						return "?"
					case *ssa.Call:
						if f := sx.Callee(x); f != nil && (f.Name() == "GetTypeKey" || f.Name() == "getFullTypeName" || f.Name() == "makeTypeKey") {
							return ""
						}
						if h := sx.Callee(x); h != nil && h.Blocks != nil && h.Pkg == fn.Pkg && d < 6 {
							for _, ret := range sx.Returns(h) {
								if len(ret.Results) != 1 {
									return "?"
								}
								if rr := verdict(ret.Results[0], d+2); rr != "" {
									return rr
								}
							}
							return ""
						}
						return "?"
					case *ssa.Const:
						return ""
					}
					return "?"
				}
				r := verdict(lk.Index, 0)
				switch r {
				case "":
					c.Ob(construct, lk.Pos(), true, "keyed by the family name / a registration key")
				case "?":
					c.Undecided(construct, lk.Pos(), "the provenance of the registry key ("+describeVal(lk.Index)+") is not recognised")
				default:
					c.Fail(construct, lk.Pos(), r+": registries are filled under GetTypeKey (the migrated family name); for a type renamed with RegisterTypeMigration the two names differ, its registered encoder/decoder is not found, and it travels without payload and safe details")
				}
			})
		}
		c.Min("registry lookups in errbase", n, 6)
	},
}

// ---------------------------------------------------------------------------
// R-STATE-FLAGS

var rStateFlags = &Rule{
	Name: "R-STATE-FLAGS",
	Doc:  "the formatting state reports the caller's flags: errbase.state embeds the fmt.State of the original Format call and is (a) handed as fmt.State to foreign Format methods and (b) the source from which finishDisplay rebuilds the verb (%q, %x, width, precision, flags) applied to the collected text. Its Flag / Width / Precision methods are therefore the promoted ones of the embedded fmt.State, or pure forwarders to them - an override that answers differently for some flag changes what %+q, %-20q, %#x … print relative to fmt's rendering of Error()",
	Run: func(c *core.Ctx) {
		p := c.P
		st := p.Named("errbase", "state")
		if st == nil {
			c.InternalErr("errbase.state", "anchor type not found")
			return
		}
		str, ok := st.Underlying().(*types.Struct)
		embedsState := false
		if ok {
			for i := 0; i < str.NumFields(); i++ {
				f := str.Field(i)
				if f.Embedded() && sx.IsNamed(f.Type(), "fmt", "State") {
					embedsState = true
				}
			}
		}
		c.Check(embedsState, "errbase.state: embedded fmt.State", token.NoPos, "the caller's fmt.State is embedded", "errbase.state no longer embeds the caller's fmt.State")
		for _, m := range []string{"Flag", "Width", "Precision"} {
			construct := "(*errbase.state)." + m
			// declared on the type itself?
			var declared *ssa.Function
			for _, fn := range p.HandFuncs() {
				if fn.Name() == m && fn.Signature.Recv() != nil && sx.NamedOf(fn.Signature.Recv().Type()) == st && fn.Synthetic == "" {
					declared = fn
				}
			}
			if declared == nil {
				c.Ob(construct, token.NoPos, true, "promoted from the embedded fmt.State")
				continue
			}
			// pure forwarder: every return is the invoke of the same method on the embedded State with the own arguments
			pure := true
			for _, ret := range sx.Returns(declared) {
				for _, r := range ret.Results {
					v := r
					if ex, ok := v.(*ssa.Extract); ok {
						v = ex.Tuple
					}
					call, ok := v.(*ssa.Call)
					if !ok || !call.Call.IsInvoke() || call.Call.Method.Name() != m {
						pure = false
						continue
					}
					ld, ok := call.Call.Value.(*ssa.UnOp)
					if !ok {
						pure = false
						continue
					}
					fa, ok := ld.X.(*ssa.FieldAddr)
					if !ok || fa.X != ssa.Value(declared.Params[0]) || fieldNameOf(fa) != "State" {
						pure = false
					}
					for i, a := range call.Call.Args {
						if i+1 >= len(declared.Params) || a != ssa.Value(declared.Params[i+1]) {
							pure = false
						}
					}
				}
			}
			c.Check(pure, construct, declared.Pos(), "a pure forwarder to the embedded fmt.State",
				"the formatting state overrides "+m+" and does not simply forward to the caller's fmt.State: the flags seen by foreign Format methods and by the final verb application (redact.MakeFormat in finishDisplay) differ from those of the original call, so flag variants of %q/%x/%s no longer print what fmt prints for Error()")
		}
	},
}

// ---------------------------------------------------------------------------
// R-PAYLOAD-DECODER

var rPayloadDecoder = &Rule{
	Name: "R-PAYLOAD-DECODER",
	Doc:  "a payload that is sent is a payload that is read: every type key with a registered encoder that returns a non-nil protobuf payload also has a registered decoder. An encoder-only key is legitimate when nothing but the message and the safe details travel (the stack-carrying types arrive as opaque values by design); a key that sends a payload which no decoder ever reads loses, from the SECOND hop on, whatever that payload carries - the first hop may rebuild the value through another key's decoder (a foreign-platform errno becomes an OpaqueErrno), but re-encoding it files the payload under a key nobody decodes",
	Run: func(c *core.Ctx) {
		n := 0
		for _, cp := range codecPairs(c) {
			if cp.Enc == nil || cp.Enc.Blocks == nil {
				continue
			}
			sends := false
			for _, r := range sx.Returns(cp.Enc) {
				if len(r.Results) >= 3 && !sx.IsNil(r.Results[2]) {
					sends = true
				}
			}
			if !sends {
				continue
			}
			n++
			c.Check(cp.Dec != nil, load.FnName(cp.Enc)+": payload for "+cp.Name, cp.Enc.Pos(), "a decoder is registered under the same key",
				"the encoder sends a payload but no decoder is registered for "+cp.Name+": a value of this type is rebuilt as an opaque leaf/wrapper after its next hop and everything the payload carries (and the type's own methods answer from) is lost")
		}
		c.Min("encoders that send a payload", n, 15)
	},
}

// ---------------------------------------------------------------------------
// R-JOIN-NODE

var rJoinNode = &Rule{
	Name: "R-JOIN-NODE",
	Doc: "joining always yields a multi-cause node: (a) every return of errutil.JoinWithDepth is withstack.WithStackDepth(join.Join(errs...), …) applied to its own variadic parameter - no shortcut returns one of the errors (or a wrapper around it) without the join node, whatever the number of non-nil arguments; " +
		"(b) in join.Join the only returns are nil - on the edge where the count of non-nil arguments is zero - and the freshly allocated *joinError whose errs field receives the arguments by append in a forward range over the parameter. A one-error fast path makes errors.Join(err, f.Close()) a plain chain: UnwrapAll/Cause walk through it, the tree sent over the wire has no branch, and the top-level API disagrees with join.Join",
	Run: func(c *core.Ctx) {
		p := c.P
		jwd, join := p.Func("errutil", "JoinWithDepth"), p.Func("join", "Join")
		if jwd == nil || join == nil {
			c.InternalErr("errutil.JoinWithDepth / join.Join", "anchor functions not found")
			return
		}
		// (a)
		for _, ret := range sx.Returns(jwd) {
			ok := false
			isJoinOfAll := func(v ssa.Value) bool {
				inner, isCall := v.(*ssa.Call)
				return isCall && sx.Callee(inner) == join && len(inner.Call.Args) == 1 && inner.Call.Args[0] == ssa.Value(jwd.Params[len(jwd.Params)-1])
			}
			if call, isCall := ret.Results[0].(*ssa.Call); isCall && sx.Callee(call) != nil && sx.Callee(call).Name() == "WithStackDepth" && len(call.Call.Args) == 2 {
				if isJoinOfAll(call.Call.Args[0]) {
					ok = true
				}
			}
			if sx.IsNil(ret.Results[0]) {
				// nil where the join of all arguments is nil (what WithStackDepth gives for it anyway)
				for _, l := range dominatingLits(ret.Block()) {
					if bin, isBin := l.V.(*ssa.BinOp); isBin && ((bin.Op == token.EQL && !l.Neg) || (bin.Op == token.NEQ && l.Neg)) {
						if (sx.IsNil(bin.Y) && isJoinOfAll(bin.X)) || (sx.IsNil(bin.X) && isJoinOfAll(bin.Y)) {
							ok = true
						}
					}
				}
			}
			c.Check(ok, "errutil.JoinWithDepth: result", ret.Pos(), "WithStackDepth(join.Join(errs...), depth+1)",
				"JoinWithDepth can return something other than the stack-annotated join of all its arguments (a shortcut for particular argument counts): the result is not a multi-cause node, so shape, Unwrap/Cause behaviour and the encoded tree differ from join.Join and from the standard library")
		}
		// (b)
		nFresh := 0
		for _, ret := range sx.Returns(join) {
			v := ret.Results[0]
			if sx.IsNil(v) {
				// must be on the n == 0 edge
				ok := false
				for _, l := range dominatingLits(ret.Block()) {
					if bin, isBin := l.V.(*ssa.BinOp); isBin {
						if k, isK := sx.ConstInt(bin.Y); isK && k == 0 && ((bin.Op == token.EQL && !l.Neg) || (bin.Op == token.NEQ && l.Neg) || (bin.Op == token.GTR && l.Neg)) {
							if _, isPhi := bin.X.(*ssa.Phi); isPhi {
								ok = true // the counter of the counting loop
							} else if call, isCall := bin.X.(*ssa.Call); isCall && derivesFromValue(call, join.Params[len(join.Params)-1], 0) {
								ok = true // a counting helper applied to the arguments
							}
						}
					}
				}
				c.Check(ok, "join.Join: nil result", ret.Pos(), "only when no argument is non-nil (count == 0)", "join.Join returns nil on an edge that is not 'no non-nil argument'")
				continue
			}
			mi, isMI := v.(*ssa.MakeInterface)
			fresh := false
			if isMI {
				if al, isAl := mi.X.(*ssa.Alloc); isAl && sx.IsNamed(al.Type(), load.ModPath+"/join", "joinError") {
					fresh = true
					nFresh++
				}
			}
			c.Check(fresh, "join.Join: non-nil result", ret.Pos(), "a freshly allocated *joinError", "join.Join returns something other than a new join node (e.g. its single non-nil argument)")
		}
		c.Check(nFresh >= 1, "join.Join: join node", join.Pos(), "built on some path", "join.Join never builds a join node")
	},
}

// ---------------------------------------------------------------------------
// R-STACK-WHOLE

var rStackWhole = &Rule{
	Name: "R-STACK-WHOLE",
	Doc:  "the printed stack that travels is the whole stack: in (*withstack.withStack).SafeDetails the value formatted into the first safe detail is the result of the receiver's StackTrace() itself - not a slice of it. GetReportableStackTrace converts the full StackTrace() of a local error but re-parses the printed form after a hop, so a truncated printout makes the reportable frames differ before and after transfer",
	Run: func(c *core.Ctx) {
		p := c.P
		ws := p.Named("withstack", "withStack")
		if ws == nil {
			c.InternalErr("withstack.withStack", "type not found")
			return
		}
		sd := p.Method(ws, "SafeDetails")
		if sd == nil {
			c.InternalErr("(*withstack.withStack).SafeDetails", "method not found")
			return
		}
		n := 0
		// (the printing may sit in an unexported helper that receives the stack trace)
		sdreg := regionOf(sd)
		sdreg.each(func(in ssa.Instruction) {
			call, ok := in.(*ssa.Call)
			if !ok {
				return
			}
			f := sx.Callee(call)
			if f == nil || f.Name() != "Sprintf" || len(call.Call.Args) != 2 {
				return
			}
			for _, a := range varargs(call.Call.Args[1]) {
				v := stripIface(a)
				if !strings.Contains(v.Type().String(), "StackTrace") {
					continue
				}
				n++
				v = stripIface(sdreg.resolve(v))
				st, isCall := v.(*ssa.Call)
				whole := false
				if isCall && sx.Callee(st) != nil && sx.Callee(st).Name() == "StackTrace" && len(st.Call.Args) == 1 {
					arg := st.Call.Args[0]
					if arg == ssa.Value(sd.Params[0]) {
						whole = true
					} else if ld, isLd := arg.(*ssa.UnOp); isLd && ld.Op == token.MUL { // promoted from an embedded field of the receiver
						if fa, isFA := ld.X.(*ssa.FieldAddr); isFA && fa.X == ssa.Value(sd.Params[0]) {
							whole = true
						}
					}
				}
				c.Check(whole, "(*withstack.withStack).SafeDetails: printed stack", call.Pos(), "the receiver's whole StackTrace()",
					"the stack printed into the safe details is not the receiver's StackTrace() itself ("+describeVal(v)+"): frames are dropped or altered in the form that travels, so reportable frames differ before and after a hop")
			}
		})
		c.Check(n >= 1, "(*withstack.withStack).SafeDetails: printed stack present", sd.Pos(), "a StackTrace is formatted", "SafeDetails no longer prints a stack trace")
		// the adapters for the stack-carrying types of github.com/pkg/errors send the printed stack the same way: the
		// value printed is what the error's StackTrace() returns, not a part of it
		nAd := 0
		for _, name := range []string{"encodePkgWithStack", "encodePkgFundamental"} {
			fn := p.Func("errbase", name)
			if fn == nil {
				continue
			}
			regionOf(fn).each(func(in ssa.Instruction) {
				call, ok := in.(*ssa.Call)
				if !ok {
					return
				}
				f := sx.Callee(call)
				if f == nil || f.Name() != "Sprintf" || len(call.Call.Args) != 2 {
					return
				}
				for _, a := range varargs(call.Call.Args[1]) {
					v := stripIface(a)
					if !strings.Contains(v.Type().String(), "StackTrace") {
						continue
					}
					nAd++
					st, isCall := v.(*ssa.Call)
					whole := isCall && st.Call.IsInvoke() && st.Call.Method.Name() == "StackTrace"
					c.Check(whole, "errbase."+name+": printed stack", call.Pos(), "the error's whole StackTrace()",
						"the stack printed into the safe details of a github.com/pkg/errors stack layer is not what its StackTrace() returns ("+describeVal(v)+"): frames are dropped or altered in the form that travels, so the layer's reportable frames differ before and after a hop")
				}
			})
		}
		c.Min("printed stacks in the pkg/errors adapters", nAd, 2)
	},
}

// ---------------------------------------------------------------------------
// R-INDEX-FOUND

var rIndexFound = &Rule{
	Name: "R-INDEX-FOUND",
	Doc:  "a search result is used exactly when something was found: wherever hand-written code cuts a string at the position returned by strings.Index / IndexByte / IndexRune / LastIndex* (the result is a bound of a slice expression of the searched string), the cut is guarded by the 'found' test of that result - r >= 0, r != -1, r > -1, or the negation of r == -1 / r < 0 - and not by r > 0 (or r >= 1), which treats a match at position 0 as 'not found' (a text that starts with the separator is then not cut at all)",
	Run: func(c *core.Ctx) {
		n := 0
		for _, fn := range c.P.HandFuncs() {
			sx.EachInstr(fn, func(in ssa.Instruction) {
				sl, ok := in.(*ssa.Slice)
				if !ok || !isStringType(sl.X.Type()) {
					return
				}
				for _, bound := range []ssa.Value{sl.Low, sl.High} {
					if bound == nil {
						continue
					}
					// bound is r, or r + k
					r := bound
					if bin, ok := r.(*ssa.BinOp); ok && bin.Op == token.ADD {
						if _, isK := sx.ConstInt(bin.Y); isK {
							r = bin.X
						}
					}
					call, ok := r.(*ssa.Call)
					if !ok {
						continue
					}
					f := sx.Callee(call)
					if f == nil || load.FnPkg(f) == nil || (load.FnPkg(f).Path() != "strings" && load.FnPkg(f).Path() != "bytes") || !(strings.HasPrefix(f.Name(), "Index") || strings.HasPrefix(f.Name(), "LastIndex")) {
						continue
					}
					if len(call.Call.Args) < 1 || call.Call.Args[0] != sl.X {
						continue // the position refers to another string
					}
					n++
					construct := load.FnName(fn) + ": cut at " + sx.TrimMod(sx.CalleeName(call))
					verdict := "unguarded"
					for _, l := range dominatingLits(sl.Block()) {
						bin, isBin := l.V.(*ssa.BinOp)
						if !isBin || bin.X != ssa.Value(call) {
							continue
						}
						k, isK := sx.ConstInt(bin.Y)
						if !isK {
							continue
						}
						holds := !l.Neg
						switch {
						case bin.Op == token.GEQ && k == 0 && holds, bin.Op == token.NEQ && k == -1 && holds, bin.Op == token.GTR && k == -1 && holds,
							bin.Op == token.EQL && k == -1 && !holds, bin.Op == token.LSS && k == 0 && !holds, bin.Op == token.LEQ && k == -1 && !holds:
							verdict = "found"
						case bin.Op == token.GTR && k == 0 && holds, bin.Op == token.GEQ && k == 1 && holds, bin.Op == token.LEQ && k == 0 && !holds, bin.Op == token.LSS && k == 1 && !holds:
							if verdict != "found" {
								verdict = "positive"
							}
						}
					}
					switch verdict {
					case "found":
						c.Ob(construct, sl.Pos(), true, "cut exactly when the search found a position")
					case "positive":
						c.Fail(construct, sl.Pos(), "the cut is guarded by 'position > 0' instead of 'found' (position >= 0): when the match is at position 0 - the text starts with the separator - the text is not cut at all")
					default:
						// no guard on the result: the slice would panic for -1 unless the search cannot fail; R-BOUNDS territory
						c.Ob(construct, sl.Pos(), true, "no guard relating to 'found' dominates the cut (not decided here)")
					}
				}
			})
		}
		c.Min("string cuts at a search result", n, 5)
	},
}

// ---------------------------------------------------------------------------
// R-FORMAT-STORED

var rFormatStored = &Rule{
	Name: "R-FORMAT-STORED",
	Doc:  "a format string is always formatted: in every hand-written function with a (format string, args ...interface{}) tail, the format parameter itself is never stored into a struct field and never passed to a module function in a position that is not a format parameter. A shortcut for 'no arguments' stores the unformatted text - \"80%%\" stays \"80%%\" - so the ...f variant disagrees with the plain variant for the same text (hints are no longer de-duplicated, details carry raw verbs)",
	Run: func(c *core.Ctx) {
		n := 0
		for _, fn := range c.P.HandFuncs() {
			if pk := load.FnPkg(fn); pk != nil && strings.HasSuffix(pk.Path(), "/testutils") {
				continue
			}
			fi := formatParamIndex(fn)
			if fi < 0 || fi >= len(fn.Params) {
				continue
			}
			n++
			fp := fn.Params[fi]
			name := load.FnName(fn)
			isFormat := func(v ssa.Value) bool {
				for i := 0; i < 4; i++ {
					switch x := v.(type) {
					case *ssa.Convert:
						v = x.X
						continue
					case *ssa.ChangeType:
						v = x.X
						continue
					case *ssa.MakeInterface:
						v = x.X
						continue
					}
					break
				}
				if v == ssa.Value(fp) {
					return true
				}
				if ph, ok := v.(*ssa.Phi); ok {
					for _, e := range ph.Edges {
						if e == ssa.Value(fp) {
							return true
						}
					}
				}
				return false
			}
			bad := false
			sx.EachInstr(fn, func(in ssa.Instruction) {
				switch x := in.(type) {
				case *ssa.Store:
					if _, isField := x.Addr.(*ssa.FieldAddr); isField && isFormat(x.Val) {
						bad = true
						c.Fail(name+": format stored verbatim", x.Pos(), "the format string is stored into a field without having been formatted (a shortcut path): verbs such as %% keep their raw form, unlike in the plain variant of the same API")
					}
				case *ssa.Call:
					callee := sx.Callee(x)
					if callee == nil || !c.P.InModule(callee) {
						return
					}
					cfi := formatParamIndex(callee)
					for i, a := range x.Call.Args {
						if !isFormat(a) || i == cfi {
							continue
						}
						if i < len(callee.Params) && callee.Params[i].Name() == "format" {
							continue
						}
						bad = true
						c.Fail(name+": format passed as a plain string", x.Pos(), "the format string is handed to "+load.FnName(callee)+" in a position that is not a format parameter: it is used as a message without being formatted")
					}
				}
			})
			if !bad {
				c.Ob(name+": format parameter", fn.Pos(), true, "only ever formatted or forwarded as a format")
			}
		}
		c.Min("printf-like functions of the module", n, 25)
	},
}

// ---------------------------------------------------------------------------
// R-GENERIC-PATH

var rGenericPath = &Rule{
	Name: "R-GENERIC-PATH",
	Doc:  "types without an encoder of their own travel unaltered: in errbase.encodeLeaf and encodeWrapper every value stored into the outgoing ReportablePayload is (a) the second result of the registered encoder, (b) the result of err.SafeDetails() itself, or (c) part of the details an opaque value stored when it was received - never a transformed copy. The decoders of such types (telemetry keys, domains, issue links, …) rebuild the annotation from exactly these strings, so escaping, trimming or truncating them on the way out changes the annotation after the first hop",
	Run: func(c *core.Ctx) {
		p := c.P
		n := 0
		for _, name := range []string{"encodeLeaf", "encodeWrapper"} {
			fn := p.Func("errbase", name)
			if fn == nil {
				c.InternalErr("errbase."+name, "anchor not found")
				continue
			}
			sx.EachInstr(fn, func(in ssa.Instruction) {
				st, ok := in.(*ssa.Store)
				if !ok {
					return
				}
				fa, ok := st.Addr.(*ssa.FieldAddr)
				if !ok || fieldNameOf(fa) != "ReportablePayload" {
					return
				}
				n++
				why := describeVal(st.Val)
				// untransformed: the registered encoder's second result, err.SafeDetails() itself, nil, a phi of such, or
				// the corresponding result of a same-package helper every return of which yields such a value
				var untransformed func(v ssa.Value, d int) bool
				untransformed = func(v ssa.Value, d int) bool {
					if d > 6 {
						return false
					}
					helperResult := func(call *ssa.Call, idx int) bool {
						h := sx.Callee(call)
						if h == nil || h.Blocks == nil || h.Pkg != fn.Pkg {
							if h != nil {
								why = "result of " + load.FnName(h)
							}
							return false
						}
						rets := sx.Returns(h)
						for _, ret := range rets {
							if idx >= len(ret.Results) || !untransformed(ret.Results[idx], d+1) {
								why = "result of " + load.FnName(h)
								return false
							}
						}
						return len(rets) > 0
					}
					switch x := v.(type) {
					case *ssa.Const:
						return x.IsNil()
					case *ssa.Phi:
						for _, e := range x.Edges {
							if !untransformed(e, d+1) {
								return false
							}
						}
						return true
					case *ssa.UnOp:
						// a named result / local: what was stored into it
						if al, isAl := x.X.(*ssa.Alloc); isAl && x.Op == token.MUL {
							nst := 0
							for _, r := range *al.Referrers() {
								if st2, isSt := r.(*ssa.Store); isSt && st2.Addr == ssa.Value(al) {
									nst++
									if !untransformed(st2.Val, d+1) {
										return false
									}
								}
							}
							return nst > 0
						}
					case *ssa.Extract:
						if call, isCall := x.Tuple.(*ssa.Call); isCall {
							if sx.Callee(call) == nil && !call.Call.IsInvoke() {
								return x.Index == 1 // registered encoder's details
							}
							return helperResult(call, x.Index)
						}
					case *ssa.Call:
						if x.Call.IsInvoke() {
							return x.Call.Method.Name() == "SafeDetails" && len(x.Call.Args) == 0
						}
						return helperResult(x, 0)
					}
					return false
				}
				okv := untransformed(st.Val, 0)
				c.Check(okv, "errbase."+name+": outgoing ReportablePayload", st.Pos(), "the registered encoder's details or err.SafeDetails() itself",
					"the safe details put on the wire are a transformed copy ("+why+") of what the error reports: decoders rebuild annotations from these strings, so the annotation differs after a hop")
			})
		}
		c.Min("stores into the outgoing ReportablePayload", n, 4)
	},
}

// ---------------------------------------------------------------------------
// R-WRITE-FAITHFUL

var rWriteFaithful = &Rule{
	Name: "R-WRITE-FAITHFUL",
	Doc:  "the formatter state's Write passes bytes through: in (*errbase.state).Write the only byte value the input is compared with is '\\n' (the one character the state machine re-lays out), and nothing already buffered is taken back (no Truncate / Reset / Next on the buffers). The text reaching Write has already been escaped and enclosed by redact for redactable output and is the text Error() returns for plain output: dropping or re-interpreting any other byte (a carriage return, say) makes %v differ from Error(), makes texts differ between a node that renders itself and one that is re-assembled after a hop, and can even re-assemble a redaction marker out of bytes that redact had kept apart",
	Run: func(c *core.Ctx) {
		p := c.P
		st := p.Named("errbase", "state")
		if st == nil {
			c.InternalErr("errbase.state", "type not found")
			return
		}
		w := p.Method(st, "Write")
		if w == nil || len(w.Params) < 2 {
			c.InternalErr("(*errbase.state).Write", "method not found")
			return
		}
		b := w.Params[1]
		// values that are bytes of b: b[i] loads, range values
		isInputByte := func(v ssa.Value) bool {
			switch x := v.(type) {
			case *ssa.UnOp:
				if ia, ok := x.X.(*ssa.IndexAddr); ok {
					return ia.X == ssa.Value(b)
				}
			case *ssa.Index:
				return x.X == ssa.Value(b)
			case *ssa.Extract:
				// value of `for i, c := range b` (Next over a range iterator is used for strings/maps only; slices use IndexAddr)
			}
			return false
		}
		nCmp := 0
		var other []string
		var takeBack []string
		sx.EachInstr(w, func(in ssa.Instruction) {
			switch x := in.(type) {
			case *ssa.BinOp:
				if x.Op != token.EQL && x.Op != token.NEQ {
					return
				}
				var k *ssa.Const
				var v ssa.Value
				if cst, ok := x.Y.(*ssa.Const); ok {
					k, v = cst, x.X
				} else if cst, ok := x.X.(*ssa.Const); ok {
					k, v = cst, x.Y
				}
				if k == nil || !isInputByte(v) {
					return
				}
				nCmp++
				if n, ok := sx.ConstInt(k); !ok || n != '\n' {
					other = append(other, fmt.Sprintf("%q", rune(n)))
				}
			case *ssa.Call:
				f := sx.Callee(x)
				if f == nil || f.Signature.Recv() == nil || len(x.Call.Args) == 0 {
					return
				}
				if !sx.IsNamed(f.Signature.Recv().Type(), "bytes", "Buffer") {
					return
				}
				switch f.Name() {
				case "Truncate", "Reset", "Next", "ReadByte", "ReadRune", "UnreadByte", "UnreadRune", "ReadBytes", "ReadString":
					takeBack = append(takeBack, f.Name())
				}
			}
		})
		sort.Strings(other)
		sort.Strings(takeBack)
		c.Check(nCmp >= 1, "(*errbase.state).Write: newline handling", w.Pos(), "the input bytes are compared with '\\n'", "Write no longer looks for newlines in its input")
		c.Check(len(other) == 0, "(*errbase.state).Write: bytes treated specially", w.Pos(), "only '\\n'",
			"Write compares its input with "+strings.Join(dedupStr(other), ", ")+" besides '\\n': bytes other than the newline are dropped or re-interpreted, so the rendering differs from Error() / from the text redact produced (markers can be re-assembled or split across lines)")
		c.Check(len(takeBack) == 0, "(*errbase.state).Write: buffered text", w.Pos(), "never taken back",
			"Write removes text it has already buffered ("+strings.Join(dedupStr(takeBack), ", ")+"): bytes of the message disappear from the rendering")
		// every newline taken out of the input is given back: whatever Write puts into the buffer that is not a
		// piece of its input is a separator standing for a pending newline, and a separator is never empty, in
		// either mode (the lengths are those of the package-level separator and of the literals it is swapped for)
		nSep := 0
		// (the replay may sit in an unexported method of the state that Write calls: a parameter stands for its argument)
		wreg := regionOf(w)
		minLenParamResolver = func(prm *ssa.Parameter) ssa.Value {
			if r := wreg.resolve(prm); r != ssa.Value(prm) {
				return r
			}
			return nil
		}
		defer func() { minLenParamResolver = nil }()
		wreg.each(func(in ssa.Instruction) {
			call, ok := in.(*ssa.Call)
			if !ok {
				return
			}
			f := sx.Callee(call)
			if f == nil || f.Name() != "Write" || f.Signature.Recv() == nil || !sx.IsNamed(f.Signature.Recv().Type(), "bytes", "Buffer") || len(call.Call.Args) != 2 {
				return
			}
			arg := call.Call.Args[1]
			if dependsOnValue(arg, b, map[ssa.Value]bool{}, 0) || dependsOnValue(wreg.resolve(arg), b, map[ssa.Value]bool{}, 0) {
				return // a piece of the input
			}
			nSep++
			lo, known := minLenOf(p, arg, 0)
			c.Check(known && lo >= 1, fmt.Sprintf("(*errbase.state).Write: separator write #%d", nSep), call.Pos(), "a separator written for a pending newline is never empty",
				fmt.Sprintf("a separator written in place of a pending newline can be empty (minimal length %d over the two modes, known=%v): in that mode consecutive newlines collapse into one, so a message with an empty line renders differently from its Error() text (and a barrier around it no longer keeps the text exactly)", lo, known))
		})
		c.Min("separator writes in Write", nSep, 2)
		// newlines are held back in the detail mode only: the deferral ('avoid terminating error details with excess
		// newline characters') gives a held-back newline back when a later byte arrives, so a newline that is the
		// last - or, before anything was written, the first - thing a layer prints is lost. Outside the detail mode
		// the text is the error message itself and %v / %s must render exactly Error()
		nDefer := 0
		wreg.each(func(in ssa.Instruction) {
			st, ok := in.(*ssa.Store)
			if !ok {
				return
			}
			fa, ok := st.Addr.(*ssa.FieldAddr)
			if !ok || sx.FieldOf(fa).Name() != "needNewline" {
				return
			}
			inc, ok := st.Val.(*ssa.BinOp)
			if !ok || inc.Op != token.ADD {
				return
			}
			nDefer++
			inDetail := false
			for _, l := range wreg.lits(st.Block()) {
				v, neg := l.V, l.Neg
				if not, isNot := v.(*ssa.UnOp); isNot && not.Op == token.NOT {
					v, neg = not.X, !neg
				}
				if ld, isLd := v.(*ssa.UnOp); isLd && ld.Op == token.MUL && !neg {
					if f2, isFA := ld.X.(*ssa.FieldAddr); isFA && sx.FieldOf(f2).Name() == "wantDetail" {
						inDetail = true
					}
				}
			}
			if !inDetail {
				// not a dominating test: decide path-sensitively (`if c == '\n' && !s.wantDetail { …; continue }` followed by
				// a second `if c == '\n'` is the same thing spelled flat)
				fn := st.Parent()
				var wd *ssa.UnOp
				stored := false
				sx.EachInstr(fn, func(in2 ssa.Instruction) {
					switch y := in2.(type) {
					case *ssa.UnOp:
						if f2, isFA := y.X.(*ssa.FieldAddr); isFA && y.Op == token.MUL && sx.FieldOf(f2).Name() == "wantDetail" {
							if _, isParam := f2.X.(*ssa.Parameter); isParam {
								wd = y
							}
						}
					case *ssa.Store:
						if f2, isFA := y.Addr.(*ssa.FieldAddr); isFA && sx.FieldOf(f2).Name() == "wantDetail" {
							stored = true
						}
					}
				})
				if wd != nil && !stored {
					inDetail = !reachableWithout(fn, st.Block(), canonCond(wd, 0), true)
				}
			}
			c.Check(inDetail, "(*errbase.state).Write: newlines held back", st.Pos(), "only in the detail mode",
				"Write holds a newline back (and gives it back only when a later byte arrives) outside the detail mode too: a message that ends - or starts - with a newline is rendered without it by %v / %s, so they differ from Error(), and a wrapper above it that an unknowing process renders through the formatter changes its text in transit")
		})
		c.Min("newline deferrals in Write", nDefer, 1)
	},
}

// minLenOf: a lower bound of len(v) for byte-slice / string values built from constants, package-level
// byte slices initialised from constants, their merges and their re-slicings.
// minLenParamResolver, when set, maps a helper's parameter to the argument it stands for.
var minLenParamResolver func(*ssa.Parameter) ssa.Value

func minLenOf(p *load.Program, v ssa.Value, d int) (int64, bool) {
	if d > 8 {
		return 0, false
	}
	switch x := v.(type) {
	case *ssa.Parameter:
		if minLenParamResolver != nil {
			if r := minLenParamResolver(x); r != nil {
				return minLenOf(p, r, d+1)
			}
		}
	case *ssa.Const:
		if s, ok := sx.ConstString(x); ok {
			return int64(len(s)), true
		}
		if x.IsNil() {
			return 0, true
		}
	case *ssa.Convert:
		return minLenOf(p, x.X, d+1)
	case *ssa.ChangeType:
		return minLenOf(p, x.X, d+1)
	case *ssa.Phi:
		var lo int64 = 1 << 40
		for _, e := range x.Edges {
			n, ok := minLenOf(p, e, d+1)
			if !ok {
				return 0, false
			}
			if n < lo {
				lo = n
			}
		}
		return lo, true
	case *ssa.UnOp:
		if x.Op != token.MUL {
			return 0, false
		}
		g, ok := x.X.(*ssa.Global)
		if !ok || g.Pkg == nil {
			return 0, false
		}
		// every store to the global, anywhere in the module, is in an initialiser and stores a constant-length value
		var lo int64 = 1 << 40
		n := 0
		okAll := true
		for _, fn := range p.ModFuncs() {
			sx.EachInstr(fn, func(in ssa.Instruction) {
				st, isSt := in.(*ssa.Store)
				if !isSt || st.Addr != ssa.Value(g) {
					return
				}
				n++
				if !strings.HasPrefix(fn.Name(), "init") {
					okAll = false
					return
				}
				k, ok := minLenOf(p, st.Val, d+1)
				if !ok {
					okAll = false
					return
				}
				if k < lo {
					lo = k
				}
			})
		}
		if n == 0 || !okAll {
			return 0, false
		}
		return lo, true
	case *ssa.Slice:
		base, ok := minLenOf(p, x.X, d+1)
		if !ok {
			return 0, false
		}
		var low int64
		if x.Low != nil {
			k, isK := sx.ConstInt(x.Low)
			if !isK {
				return 0, false
			}
			low = k
		}
		if x.High == nil {
			return base - low, true
		}
		hi, ok := minIntOf(p, x.High, d+1)
		if !ok {
			return 0, false
		}
		return hi - low, true
	}
	return 0, false
}

// minIntOf: a lower bound of an integer built from constants, len() of values minLenOf understands, and +/-.
func minIntOf(p *load.Program, v ssa.Value, d int) (int64, bool) {
	if d > 8 {
		return 0, false
	}
	switch x := v.(type) {
	case *ssa.Const:
		return sx.ConstInt(x)
	case *ssa.Call:
		if b, ok := x.Call.Value.(*ssa.Builtin); ok && b.Name() == "len" && len(x.Call.Args) == 1 {
			return minLenOf(p, x.Call.Args[0], d+1)
		}
	case *ssa.BinOp:
		if k, ok := sx.ConstInt(x.Y); ok {
			a, okA := minIntOf(p, x.X, d+1)
			if !okA {
				return 0, false
			}
			switch x.Op {
			case token.SUB:
				return a - k, true
			case token.ADD:
				return a + k, true
			}
		}
	case *ssa.Phi:
		var lo int64 = 1 << 40
		for _, e := range x.Edges {
			n, ok := minIntOf(p, e, d+1)
			if !ok {
				return 0, false
			}
			if n < lo {
				lo = n
			}
		}
		return lo, true
	}
	return 0, false
}

// ---------------------------------------------------------------------------
// R-PB-NILPTR

var rPbNilPtr = &Rule{
	Name: "R-PB-NILPTR",
	Doc:  "an absent sub-message is not dereferenced: wherever hand-written code reads a member THROUGH a pointer-typed field of a received protobuf message (x.Details.FullDetails.TypeUrl - FullDetails is nil when the sender attached no payload), the access is dominated by a non-nil test of that very field. (Calling a generated Get* accessor on the nil pointer is fine - they are nil-safe - and passing the pointer on is not a dereference.)",
	Run: func(c *core.Ctx) {
		n := 0
		for _, fn := range c.P.HandFuncs() {
			sx.EachInstr(fn, func(in ssa.Instruction) {
				fa, ok := in.(*ssa.FieldAddr)
				if !ok {
					return
				}
				// fa.X must be the loaded value of a pointer-typed field of an errorspb message
				ld, ok := fa.X.(*ssa.UnOp)
				if !ok || ld.Op != token.MUL {
					return
				}
				inner, ok := ld.X.(*ssa.FieldAddr)
				if !ok {
					return
				}
				owner := sx.NamedOf(inner.X.Type())
				if owner == nil || owner.Obj().Pkg() == nil || !strings.HasSuffix(owner.Obj().Pkg().Path(), "/errorspb") {
					return
				}
				if _, isPtr := types.Unalias(ld.Type()).Underlying().(*types.Pointer); !isPtr {
					return
				}
				n++
				fname := owner.Obj().Name() + "." + fieldNameOf(inner)
				construct := load.FnName(fn) + ": member read through " + fname
				guarded := false
				for _, l := range dominatingLits(fa.Block()) {
					bin, isBin := l.V.(*ssa.BinOp)
					if !isBin || (bin.Op != token.EQL && bin.Op != token.NEQ) {
						continue
					}
					var other ssa.Value
					if sx.IsNil(bin.Y) {
						other = bin.X
					} else if sx.IsNil(bin.X) {
						other = bin.Y
					}
					if other == nil || !sameExpr(other, ld, 0) {
						continue
					}
					if (bin.Op == token.NEQ && !l.Neg) || (bin.Op == token.EQL && l.Neg) {
						guarded = true
					}
				}
				c.Check(guarded, construct, fa.Pos(), "only under a non-nil test of "+fname,
					"a member is read through the pointer field "+fname+" of a received message without a dominating non-nil test: when the sender attached no such sub-message (e.g. no payload) decoding panics instead of falling back")
			})
		}
		c.Ob("all hand-written functions", token.NoPos, true, fmt.Sprintf("%d member reads through pointer fields of received messages", n))
	},
}

// ---------------------------------------------------------------------------
// R-IS-METHOD

var rIsMethod = &Rule{
	Name: "R-IS-METHOD",
	Doc:  "a layer's own Is method is always asked: in markers.Is and markers.IsAny the probe of the current layer's Is(error) bool method (tryDelegateToIsMethod) happens for every (layer, reference) pair - it is not control-dependent on the comparability of the reference (or on anything else computed from the reference's type). Is and IsAny are siblings: a layer that 'says so through its own Is method' must be heard by both, for comparable sentinels as well",
	Run: func(c *core.Ctx) {
		p := c.P
		n := 0
		for _, name := range []string{"Is", "IsAny"} {
			fn := p.Func("markers", name)
			if fn == nil {
				c.InternalErr("markers."+name, "anchor not found")
				continue
			}
			found := false
			// (tryDelegateToIsMethod itself is not entered: its body is the probe)
			isReg := regionOf(fn, p.Func("markers", "tryDelegateToIsMethod"))
			isReg.each(func(in ssa.Instruction) {
				call, ok := in.(*ssa.Call)
				if !ok || sx.Callee(call) == nil || sx.Callee(call).Name() != "tryDelegateToIsMethod" {
					return
				}
				found = true
				n++
				bad := ""
				for _, l := range isReg.lits(call.Block()) {
					if dependsOnCall(l.V, "Comparable", map[ssa.Value]bool{}, 0) {
						bad = "the comparability of the reference"
					}
				}
				c.Check(bad == "", "markers."+name+": probe of the layer's Is method", call.Pos(), "reached for every pair, whatever the reference's comparability",
					"the layer's own Is method is consulted only under a condition on "+bad+": for an ordinary (comparable) sentinel a layer that answers through Is(error) bool is no longer recognised by this function, while its sibling still recognises it")
			})
			c.Check(found, "markers."+name+": probe of the layer's Is method present", fn.Pos(), "tryDelegateToIsMethod is called", "the function no longer consults the layers' own Is methods")
		}
		c.Min("Is-method probes", n, 2)
	},
}

// dependsOnCall: the computation of v uses the result of a call to a function / method with the given name.
func dependsOnCall(v ssa.Value, name string, seen map[ssa.Value]bool, d int) bool {
	if v == nil || seen[v] || d > 30 {
		return false
	}
	seen[v] = true
	if call, ok := v.(*ssa.Call); ok {
		if call.Call.IsInvoke() && call.Call.Method.Name() == name {
			return true
		}
		if f := sx.Callee(call); f != nil && f.Name() == name {
			return true
		}
	}
	in, ok := v.(ssa.Instruction)
	if !ok {
		return false
	}
	for _, op := range in.Operands(nil) {
		if *op != nil && dependsOnCall(*op, name, seen, d+1) {
			return true
		}
	}
	if ld, ok := v.(*ssa.UnOp); ok && ld.Op == token.MUL {
		if al, ok := ld.X.(*ssa.Alloc); ok {
			for _, r := range *al.Referrers() {
				if st, ok := r.(*ssa.Store); ok && st.Addr == ssa.Value(al) && dependsOnCall(st.Val, name, seen, d+1) {
					return true
				}
			}
		}
	}
	return false
}

// ---------------------------------------------------------------------------
// R-AS-TARGET

var rAsTarget = &Rule{
	Name: "R-AS-TARGET",
	Doc:  "errutil.As validates its target like the standard library: the target's type must be a pointer (Kind() == reflect.Ptr tested on the target's own type), and the 'must be an interface or implement error' test applies Kind() != reflect.Interface and Implements(errorType) to one and the same reflect.Type - the pointer's ELEMENT type, the same value later used for AssignableTo. Testing the kind of the pointer type instead makes the interface exemption unreachable: As panics for interface targets that do not embed error, where errors.As succeeds or returns false",
	Run: func(c *core.Ctx) {
		fn := c.P.Func("errutil", "As")
		if fn == nil {
			c.InternalErr("errutil.As", "anchor not found")
			return
		}
		// reflect.Kind constants: Interface = 20, Ptr = 22
		var ifaceRecv, implRecv, assignArg []ssa.Value
		// (the chain walk may sit in a helper that receives the element type: a helper's parameter stands for its argument)
		asReg := regionOf(fn)
		asReg.each(func(in ssa.Instruction) {
			switch x := in.(type) {
			case *ssa.BinOp:
				if x.Op != token.EQL && x.Op != token.NEQ {
					return
				}
				call, ok := x.X.(*ssa.Call)
				k, isK := sx.ConstInt(x.Y)
				if !ok || !isK || !call.Call.IsInvoke() || call.Call.Method.Name() != "Kind" {
					return
				}
				if k == 20 {
					ifaceRecv = append(ifaceRecv, asReg.resolve(call.Call.Value))
				}
			case *ssa.Call:
				if x.Call.IsInvoke() && x.Call.Method.Name() == "Implements" {
					implRecv = append(implRecv, asReg.resolve(x.Call.Value))
				}
				if x.Call.IsInvoke() && x.Call.Method.Name() == "AssignableTo" && len(x.Call.Args) == 1 {
					assignArg = append(assignArg, asReg.resolve(x.Call.Args[0]))
				}
			}
		})
		if len(ifaceRecv) != 1 || len(implRecv) != 1 || len(assignArg) < 1 {
			c.Undecided("errutil.As: target validation", fn.Pos(), fmt.Sprintf("expected one Kind()==Interface test, one Implements call and an AssignableTo call (found %d, %d, %d)", len(ifaceRecv), len(implRecv), len(assignArg)))
			return
		}
		isElemOf := func(v ssa.Value) ssa.Value {
			if call, ok := v.(*ssa.Call); ok && call.Call.IsInvoke() && call.Call.Method.Name() == "Elem" {
				return call.Call.Value
			}
			return nil
		}
		same := sameTypeExpr(ifaceRecv[0], implRecv[0]) && isElemOf(ifaceRecv[0]) != nil && isElemOf(assignArg[0]) != nil && isElemOf(ifaceRecv[0]) == isElemOf(assignArg[0])
		c.Check(same, "errutil.As: target validation", fn.Pos(), "Kind() != Interface and Implements(errorType) are applied to the target's element type (the type used for AssignableTo)",
			"the interface-kind test and the Implements test of the target validation are not applied to the same type (the element type of the target pointer): interface targets that do not embed error make As panic where the standard errors.As answers")
	},
}

// sameTypeExpr: the same SSA value, or two calls x.Elem() of the same receiver.
func sameTypeExpr(a, b ssa.Value) bool {
	if a == b {
		return true
	}
	ca, ok1 := a.(*ssa.Call)
	cb, ok2 := b.(*ssa.Call)
	if ok1 && ok2 && ca.Call.IsInvoke() && cb.Call.IsInvoke() && ca.Call.Method.Name() == "Elem" && cb.Call.Method.Name() == "Elem" {
		return ca.Call.Value == cb.Call.Value
	}
	return false
}

// ---------------------------------------------------------------------------
// R-PER-LAYER

// perLayerCarried: string variables of BuildSentryReport that are meant to survive from one layer to the next.
var perLayerCarried = map[string]string{
	"leafErrorType":   "the type name of the innermost layer, set in the first iteration and used as the fallback exception type after the loop",
	"firstDetailLine": "the first line of the verbose rendering, computed before the loop and consumed by the first layer that needs a headline",
}

var rPerLayer = &Rule{
	Name: "R-PER-LAYER",
	Doc:  "what the report says about a layer is computed from that layer: in report.BuildSentryReport no string value is carried from one iteration of a loop over the layers to the next - there is no string-typed phi in the header of a loop other than pure separators (phis all of whose incoming values are constants) and the two variables that are carried by design (tabled: leafErrorType, firstDetailLine). A per-layer variable declared outside its loop and assigned only on some paths keeps the value of an earlier layer: e.g. every ordinary wrapper above a renamed type would be listed with that type's family name",
	Run: func(c *core.Ctx) {
		fn := c.P.Func("report", "BuildSentryReport")
		if fn == nil {
			c.InternalErr("report.BuildSentryReport", "anchor not found")
			return
		}
		nLoops := 0
		for _, l := range naturalLoops(fn) {
			nLoops++
			for _, in := range l.Header.Instrs {
				ph, ok := in.(*ssa.Phi)
				if !ok {
					break
				}
				if !isStringType(ph.Type()) {
					continue
				}
				allConst := true
				var visit func(v ssa.Value, d int)
				seen := map[ssa.Value]bool{}
				visit = func(v ssa.Value, d int) {
					if seen[v] || d > 6 {
						return
					}
					seen[v] = true
					switch x := v.(type) {
					case *ssa.Const:
					case *ssa.Phi:
						for _, e := range x.Edges {
							visit(e, d+1)
						}
					default:
						allConst = false
					}
				}
				visit(ph, 0)
				name := ph.Comment
				if name == "" {
					name = ph.Name()
				}
				if why, tabled := perLayerCarried[name]; tabled {
					c.Ob("report.BuildSentryReport: string carried across iterations ("+name+")", ph.Pos(), true, "carried by design: "+why)
					continue
				}
				c.Check(allConst, "report.BuildSentryReport: string carried across iterations ("+name+")", ph.Pos(), "only constant separators are carried from one iteration to the next",
					"the string variable "+name+" keeps, on some paths, the value computed for an earlier layer: a per-layer text (type name, family, detail) of one layer is printed for the layers processed after it")
			}
		}
		c.Min("loops of BuildSentryReport", nLoops, 1)
	},
}

// isStructField: fa addresses the named field of the struct type named.
func isStructField(fa *ssa.FieldAddr, named *types.Named, field string) bool {
	return types.Identical(sx.Deref(fa.X.Type()), named) && sx.FieldOf(fa).Name() == field
}

// isChainPosition: v is a position of a walk that starts at the parameter and
// advances only by errbase.UnwrapOnce (of a chain position).
func isChainPosition(v ssa.Value, p *ssa.Parameter, seen map[ssa.Value]bool, d int) bool {
	if d > 8 {
		return false
	}
	if seen[v] {
		return true
	}
	seen[v] = true
	switch x := v.(type) {
	case *ssa.Parameter:
		return x == p
	case *ssa.Phi:
		for _, e := range x.Edges {
			if !isChainPosition(e, p, seen, d+1) {
				return false
			}
		}
		return true
	case *ssa.Call:
		f := sx.Callee(x)
		return f != nil && f.Name() == "UnwrapOnce" && len(x.Call.Args) == 1 && isChainPosition(x.Call.Args[0], p, seen, d+1)
	}
	return false
}

// blockReachesItself: b lies on a cycle of the control-flow graph.
func blockReachesItself(b *ssa.BasicBlock) bool {
	seen := map[*ssa.BasicBlock]bool{}
	work := append([]*ssa.BasicBlock{}, b.Succs...)
	for len(work) > 0 {
		x := work[len(work)-1]
		work = work[:len(work)-1]
		if x == b {
			return true
		}
		if seen[x] {
			continue
		}
		seen[x] = true
		work = append(work, x.Succs...)
	}
	return false
}

// isLenOf: v is len(x) (the builtin applied to x itself).
func isLenOf(v ssa.Value, x ssa.Value) bool {
	call, ok := v.(*ssa.Call)
	if !ok {
		return false
	}
	b, ok := call.Call.Value.(*ssa.Builtin)
	return ok && b.Name() == "len" && len(call.Call.Args) == 1 && call.Call.Args[0] == x
}
