package rules

import (
	"fmt"
	"go/constant"
	"go/token"
	"go/types"
	"strings"

	"golang.org/x/tools/go/ssa"

	"verif/checker/internal/core"
	"verif/checker/internal/load"
	"verif/checker/internal/sx"
)

// Rules added after the third round of independently seeded changes.

// ---------------------------------------------------------------------------
// R-CODE-GETTER

// codeGetter describes one "innermost/outermost attached code" accessor.
type codeGetter struct {
	pkg, fn   string
	wrapper   string // the wrapper type whose field carries the code
	constsOK  map[int64]string
	nilConst  int64 // constant returned on the err == nil edge (-1: none)
	paramIdx  int   // parameter that may be returned as the default (-1: none)
	wantConst []int64
}

var codeGetters = []codeGetter{
	{pkg: "extgrpc", fn: "GetGrpcCode", wrapper: "withGrpcCode", constsOK: map[int64]string{0: "codes.OK", 2: "codes.Unknown"}, nilConst: 0, paramIdx: -1, wantConst: []int64{0, 2}},
	{pkg: "exthttp", fn: "GetHTTPCode", wrapper: "withHTTPCode", constsOK: map[int64]string{}, nilConst: -1, paramIdx: 1},
}

var rCodeGetter = &Rule{
	Name: "R-CODE-GETTER",
	Doc: "the code accessors return only what the contract names. extgrpc.GetGrpcCode: the constant codes.OK on (and only on) the err == nil edge, the code field of the *withGrpcCode layer that markers.If found (its visitor returns that field and true, or nil and false, nothing else), and the constant codes.Unknown otherwise - no value computed from the error in any other way (e.g. a mapping of context errors). " +
		"exthttp.GetHTTPCode: the found layer's code field or the defaultCode parameter itself",
	Run: runCodeGetter,
}

func runCodeGetter(c *core.Ctx) {
	for _, g := range codeGetters {
		fn := c.P.Func(g.pkg, g.fn)
		if fn == nil {
			c.InternalErr(g.pkg+"."+g.fn, "anchor function not found")
			continue
		}
		name := load.FnName(fn)
		seenConst := map[int64]bool{}
		nIf := 0
		for _, ret := range sx.Returns(fn) {
			if len(ret.Results) != 1 {
				continue
			}
			var visit func(v ssa.Value, from *ssa.BasicBlock, d int)
			visit = func(v ssa.Value, from *ssa.BasicBlock, d int) {
				if d > 6 {
					c.Undecided(name, ret.Pos(), "returned value too deep to classify")
					return
				}
				switch x := v.(type) {
				case *ssa.Phi:
					for i, e := range x.Edges {
						visit(e, x.Block().Preds[i], d+1)
					}
				case *ssa.Const:
					k, ok := constant.Int64Val(constant.ToInt(x.Value))
					if x.Value == nil || !ok {
						c.Fail(name+": returned constant", ret.Pos(), "a non-integer constant is returned as the code")
						return
					}
					seenConst[k] = true
					label, allowed := g.constsOK[k]
					c.Check(allowed, fmt.Sprintf("%s: returned constant %d", name, k), ret.Pos(), "one of the constants the contract names ("+label+")",
						fmt.Sprintf("the accessor returns the constant %d, which the contract does not name (only OK for nil and Unknown when no code is attached)", k))
					if allowed && g.nilConst >= 0 {
						// OK exactly on the nil edge, everything else on non-nil edges.
						onNil := edgeIsNilParam(fn, from, fn.Params[0])
						if k == g.nilConst {
							c.Check(onNil, name+": "+label+" edge", ret.Pos(), "returned only when err == nil", label+" is returned on an edge where the error is not known to be nil: a failing call would be reported as success")
						} else {
							c.Check(!onNil, name+": "+label+" edge", ret.Pos(), "returned only for a non-nil error", label+" is returned for the nil error")
						}
					}
				case *ssa.Parameter:
					ok := g.paramIdx >= 0 && g.paramIdx < len(fn.Params) && x == fn.Params[g.paramIdx]
					c.Check(ok, name+": returned parameter "+x.Name(), ret.Pos(), "the caller's default", "a parameter other than the documented default is returned as the code")
				case *ssa.TypeAssert:
					ex, _ := x.X.(*ssa.Extract)
					var call *ssa.Call
					if ex != nil {
						call, _ = ex.Tuple.(*ssa.Call)
					}
					ok := call != nil && ex.Index == 0 && sx.Callee(call) != nil && sx.Callee(call).Name() == "If" && len(call.Call.Args) == 2 && call.Call.Args[0] == ssa.Value(fn.Params[0])
					c.Check(ok, name+": returned found value", ret.Pos(), "the value markers.If found in the error given by the caller", "the returned code is asserted out of something other than markers.If(err, ...) applied to the caller's error")
					if ok {
						nIf++
						checkCodeVisitor(c, name, g, call.Call.Args[1])
					}
				default:
					c.Fail(name+": returned value "+describeVal(v), ret.Pos(), "the accessor returns a value that is neither a contract constant, the default, nor the code field found in the chain ("+fmt.Sprintf("%T", v)+"): codes are computed from the error in a way the contract does not describe")
				}
			}
			visit(ret.Results[0], ret.Block(), 0)
		}
		c.Check(nIf >= 1, name+": lookup", fn.Pos(), "returns the code found by markers.If", "no return path yields the code found in the chain")
		for _, k := range g.wantConst {
			c.Check(seenConst[k], fmt.Sprintf("%s: constant %s", name, g.constsOK[k]), fn.Pos(), "returned on some path", "the accessor no longer returns "+g.constsOK[k]+" on any path")
		}
	}
}

// edgeIsNilParam: is block b (or the unique chain of predecessors leading to it) entered only on the true edge
// of `p == nil`?
func edgeIsNilParam(fn *ssa.Function, b *ssa.BasicBlock, p *ssa.Parameter) bool {
	for d := 0; b != nil && d < 4; d++ {
		if len(b.Preds) != 1 {
			return false
		}
		pred := b.Preds[0]
		if iff, ok := pred.Instrs[len(pred.Instrs)-1].(*ssa.If); ok {
			if bin, ok := iff.Cond.(*ssa.BinOp); ok && (bin.Op == token.EQL || bin.Op == token.NEQ) {
				var other ssa.Value
				if bin.X == ssa.Value(p) {
					other = bin.Y
				} else if bin.Y == ssa.Value(p) {
					other = bin.X
				}
				if other != nil && sx.IsNil(other) {
					trueEdge := pred.Succs[0] == b
					return (bin.Op == token.EQL) == trueEdge
				}
			}
		}
		b = pred
	}
	return false
}

// checkCodeVisitor: the closure given to markers.If returns (w.code, true) for a successfully asserted *wrapper and
// (nil, false) otherwise.
func checkCodeVisitor(c *core.Ctx, name string, g codeGetter, v ssa.Value) {
	var cl *ssa.Function
	switch x := v.(type) {
	case *ssa.MakeClosure:
		cl, _ = x.Fn.(*ssa.Function)
	case *ssa.Function:
		cl = x
	}
	if cl == nil || cl.Blocks == nil {
		c.Undecided(name+": visitor", v.Pos(), "the visitor passed to markers.If is not a function literal")
		return
	}
	nField := 0
	for _, ret := range sx.Returns(cl) {
		if len(ret.Results) != 2 {
			continue
		}
		val, okv := ret.Results[0], ret.Results[1]
		okConst, isConst := okv.(*ssa.Const)
		if !isConst || okConst.Value == nil {
			c.Undecided(name+": visitor", ret.Pos(), "the visitor's ok result is not a constant")
			continue
		}
		found := constant.BoolVal(okConst.Value)
		if !found {
			continue
		}
		mi, _ := val.(*ssa.MakeInterface)
		var fieldOK bool
		if mi != nil {
			if ld, ok := mi.X.(*ssa.UnOp); ok && ld.Op == token.MUL {
				if fa, ok := ld.X.(*ssa.FieldAddr); ok {
					st := sx.NamedOf(fa.X.Type())
					fname := ""
					if ptr, ok := types.Unalias(fa.X.Type()).Underlying().(*types.Pointer); ok {
						if s, ok := ptr.Elem().Underlying().(*types.Struct); ok {
							fname = s.Field(fa.Field).Name()
						}
					}
					if st != nil && st.Obj().Name() == g.wrapper && fname == "code" {
						// the struct must be the comma-ok assertion of the visitor's own parameter
						if ex, ok := fa.X.(*ssa.Extract); ok {
							if ta, ok := ex.Tuple.(*ssa.TypeAssert); ok && ta.CommaOk && len(cl.Params) > 0 && ta.X == ssa.Value(cl.Params[len(cl.Params)-1]) {
								fieldOK = true
							}
						}
					}
				}
			}
		}
		nField++
		c.Check(fieldOK, name+": visitor found-result", ret.Pos(), "the code field of the *"+g.wrapper+" layer being visited", "the visitor reports 'found' with a value other than the visited *"+g.wrapper+" layer's code field")
	}
	c.Check(nField >= 1, name+": visitor", cl.Pos(), "reports the code of a "+g.wrapper+" layer", "the visitor never reports a found code")
	_ = strings.Contains
}

// ---------------------------------------------------------------------------
// R-STD-IDENTITY

var rStdIdentity = &Rule{
	Name: "R-STD-IDENTITY",
	Doc: "who-may-call: hand-written library code never applies the standard library's errors.Is / errors.As / errors.Unwrap to an error. Those compare by pointer identity and follow Unwrap() only; the library's contract (equivalence by network mark, traversal through Cause()-only layers, multi-cause awareness) is implemented by markers.Is/IsAny/As and errbase.UnwrapOnce/UnwrapMulti, and every internal consumer goes through them",
	Run: func(c *core.Ctx) {
		n := 0
		for _, fn := range c.P.HandFuncs() {
			sx.EachInstr(fn, func(in ssa.Instruction) {
				call, ok := in.(ssa.CallInstruction)
				if !ok {
					return
				}
				f := sx.Callee(call)
				if f == nil {
					return
				}
				n++
				if f.Pkg == nil || f.Pkg.Pkg.Path() != "errors" {
					return
				}
				switch f.Name() {
				case "Is", "As", "Unwrap":
					c.Fail(load.FnName(fn)+": stdlib errors."+f.Name(), sx.InstrPos(in), "the standard library's errors."+f.Name()+" is applied inside the library: it matches by pointer identity / follows Unwrap() only, so errors that crossed the network, marks, and Cause()-only layers are not seen the way markers.Is / errbase.UnwrapOnce see them")
				}
			})
		}
		c.Ob("all hand-written functions", token.NoPos, true, fmt.Sprintf("no call of stdlib errors.Is/As/Unwrap (%d static calls inspected)", n))
		c.Min("static calls inspected", n, 1500)
	},
}

// ---------------------------------------------------------------------------
// R-LOOP-ALIAS

var rLoopAlias = &Rule{
	Name: "R-LOOP-ALIAS",
	Doc: "no collection of per-iteration results aliases one variable: inside a loop, the address of a variable that is allocated outside the loop and re-assigned inside it is never stored into a slice/array element, a map, a field, or passed to append. (Every element would point to the value of the last iteration: e.g. every encoded branch of a multi-cause error would be the last branch.)",
	Run: func(c *core.Ctx) {
		nLoops, nStores := 0, 0
		for _, fn := range c.P.HandFuncs() {
			for _, l := range naturalLoops(fn) {
				nLoops++
				// variables allocated outside the loop and assigned inside it
				assigned := map[*ssa.Alloc]bool{}
				for b := range l.Body {
					for _, in := range b.Instrs {
						if st, ok := in.(*ssa.Store); ok {
							if al, ok := st.Addr.(*ssa.Alloc); ok && !l.Body[al.Block()] {
								assigned[al] = true
							}
						}
					}
				}
				if len(assigned) == 0 {
					continue
				}
				for b := range l.Body {
					for _, in := range b.Instrs {
						var val ssa.Value
						var where string
						switch x := in.(type) {
						case *ssa.Store:
							switch x.Addr.(type) {
							case *ssa.IndexAddr:
								where = "a slice/array element"
							case *ssa.FieldAddr:
								where = "a field"
							default:
								continue
							}
							val = x.Val
						case *ssa.MapUpdate:
							val, where = x.Value, "a map"
						default:
							continue
						}
						nStores++
						if mi, ok := val.(*ssa.MakeInterface); ok {
							val = mi.X
						}
						al, ok := val.(*ssa.Alloc)
						if !ok || !assigned[al] {
							continue
						}
						// a varargs slice element that feeds a non-append call is a use, not a retention
						if st, ok := in.(*ssa.Store); ok {
							if ia, ok := st.Addr.(*ssa.IndexAddr); ok && isVarargsOfNonAppend(ia) {
								continue
							}
						}
						c.Fail(load.FnName(fn)+": &"+al.Comment+" stored into "+where+" inside a loop", sx.InstrPos(in),
							"the address of variable "+al.Comment+", which is declared outside the loop and re-assigned on every iteration, is stored into "+where+": all stored pointers alias the value of the last iteration")
					}
				}
			}
		}
		c.Ob("all loops of hand-written functions", token.NoPos, true, fmt.Sprintf("no per-iteration pointer aliases a loop-invariant variable (%d loops, %d element/field/map stores inside loops)", nLoops, nStores))
		c.Min("loops inspected", nLoops, 60)
	},
}

// isVarargsOfNonAppend: the IndexAddr addresses the implicit varargs array of a call other than append
// (e.g. fmt.Fprintf(w, "...", &x)): the pointer is consumed during the iteration, not retained.
func isVarargsOfNonAppend(ia *ssa.IndexAddr) bool {
	al, ok := ia.X.(*ssa.Alloc)
	if !ok || al.Comment != "varargs" {
		return false
	}
	for _, r := range *al.Referrers() {
		if sl, ok := r.(*ssa.Slice); ok {
			for _, u := range *sl.Referrers() {
				if call, ok := u.(ssa.CallInstruction); ok {
					if b, ok := call.Common().Value.(*ssa.Builtin); ok && b.Name() == "append" {
						return false
					}
				}
			}
		}
	}
	return true
}
