package rules

import (
	"go/token"
	"go/types"

	"golang.org/x/tools/go/ssa"

	"verif/checker/internal/core"
	"verif/checker/internal/load"
	"verif/checker/internal/sx"
)

// ---------------------------------------------------------------------------
// R-ENC-VERBATIM

var lossyStringFns = map[string]bool{"ToValidUTF8": true, "ToUpper": true, "ToLower": true, "ToTitle": true, "Title": true, "TrimSpace": true, "Trim": true, "TrimLeft": true, "TrimRight": true, "TrimFunc": true, "Replace": true, "ReplaceAll": true, "Map": true}

var rEncVerbatim = &Rule{
	Name: "R-ENC-VERBATIM",
	Doc: "what an encoder puts on the wire is what the error holds: in every registered encoder (and its helpers) the message, the reportable strings and the payload do not depend on a lossy string transformation (strings.ToValidUTF8 / ToLower / ToUpper / Trim* / Replace* / Map) of the error's data. " +
		"The decoder restores what it receives; a value that is normalised on the way out (invalid UTF-8 replaced, case folded, blanks trimmed) is another value after the first hop, and two values that differ only in what the transformation erases collapse into one",
	Run: func(c *core.Ctx) {
		n := 0
		seenEnc := map[*ssa.Function]bool{}
		for _, cp := range codecPairs(c) {
			enc := cp.Enc
			if enc == nil || enc.Blocks == nil || seenEnc[enc] {
				continue
			}
			seenEnc[enc] = true
			n++
			reg := regionOf(enc)
			var lossy []*ssa.Call
			reg.each(func(in ssa.Instruction) {
				call, ok := in.(*ssa.Call)
				if !ok {
					return
				}
				f := sx.Callee(call)
				if f != nil && load.FnPkg(f) != nil && load.FnPkg(f).Path() == "strings" && lossyStringFns[f.Name()] {
					lossy = append(lossy, call)
				}
			})
			bad := ""
			for _, r := range sx.Returns(enc) {
				for _, res := range r.Results {
					for _, lc := range lossy {
						if valueUses(res, lc, map[ssa.Value]bool{}, 0) {
							bad = load.FnName(sx.Callee(lc))
						}
						// through a helper of the region that applies the transformation to its argument
						if lc.Parent() != enc {
							for _, site := range reg.sites[lc.Parent()] {
								if valueUses(res, site, map[ssa.Value]bool{}, 0) {
									bad = load.FnName(sx.Callee(lc)) + " (in " + load.FnName(lc.Parent()) + ")"
								}
							}
						}
					}
				}
			}
			c.Check(bad == "", load.FnName(enc)+": what is sent is what the error holds", enc.Pos(), "no lossy string transformation on the way out",
				"the encoder passes the error's data through "+bad+" before sending it: the decoder restores the transformed value, so the annotation is not identical after the first hop (and values that differ only in what the transformation erases collapse into one)")
		}
		c.Min("registered encoders", n, 20)
	},
}

// ---------------------------------------------------------------------------
// R-FMT-PROBE-ORDER

var rFmtProbeOrder = &Rule{
	Name: "R-FMT-PROBE-ORDER",
	Doc: "a layer that can print itself safely is printed safely: in errbase.(*state).formatRecursive (and its helpers) the probe for errbase.SafeFormatter comes before the probe for errbase.Formatter. " +
		"A type implementing both is otherwise rendered through the plain printer: its whole text - constant format strings and Safe() arguments included - counts as unsafe, so everything the library declared PII-free in that layer is missing from the redacted rendering and from the Sentry report",
	Run: func(c *core.Ctx) {
		p := c.P
		st := p.Named("errbase", "state")
		if st == nil {
			c.InternalErr("errbase.state", "anchor type not found")
			return
		}
		fr := p.Method(st, "formatRecursive")
		if fr == nil {
			c.InternalErr("(*errbase.state).formatRecursive", "anchor method not found")
			return
		}
		var order []string
		var firstPos token.Pos
		for _, b := range fr.DomPreorder() {
			for _, in := range b.Instrs {
				ta, ok := in.(*ssa.TypeAssert)
				if !ok {
					continue
				}
				switch {
				case sx.IsNamed(ta.AssertedType, errbasePath, "SafeFormatter"):
					order = append(order, "SafeFormatter")
				case sx.IsNamed(ta.AssertedType, errbasePath, "Formatter"):
					order = append(order, "Formatter")
				default:
					continue
				}
				if firstPos == token.NoPos {
					firstPos = ta.Pos()
				}
			}
		}
		iS, iF := -1, -1
		for i, o := range order {
			if o == "SafeFormatter" && iS < 0 {
				iS = i
			}
			if o == "Formatter" && iF < 0 {
				iF = i
			}
		}
		if iS < 0 || iF < 0 {
			c.Undecided("(*errbase.state).formatRecursive: probe order", fr.Pos(), "the probes for SafeFormatter and Formatter were not both found")
			return
		}
		c.Check(iS < iF, "(*errbase.state).formatRecursive: probe order", firstPos, "SafeFormatter before Formatter",
			"formatRecursive asks a layer for errbase.Formatter before errbase.SafeFormatter: a type that implements both is rendered by the plain printer, so its constant format strings and Safe() arguments are treated as unsafe and disappear from the redacted rendering and the report")
	},
}

// ---------------------------------------------------------------------------
// R-BARRIER-FRESH

var rBarrierFresh = &Rule{
	Name: "R-BARRIER-FRESH",
	Doc: "a barrier is put AROUND the error it is given: every non-nil return of barriers.HandledWithSafeMessage (the sink of Handled*, Opaque, HandledInDomain*, HandleAsAssertionFailure*) is a freshly allocated barrierErr whose hidden-error field holds the function's own error parameter - " +
		"never a copy of a barrier found inside that parameter. Re-labelling an inner barrier instead of nesting drops that barrier's own message from %+v, from the safe details and from what travels on",
	Run: func(c *core.Ctx) {
		p := c.P
		fn := p.Func("barriers", "HandledWithSafeMessage")
		be := p.Named("barriers", "barrierErr")
		if fn == nil || be == nil || len(fn.Params) == 0 {
			c.InternalErr("barriers.HandledWithSafeMessage", "anchors not found")
			return
		}
		errP := fn.Params[0]
		reg := regionOf(fn)
		n := 0
		for _, ret := range sx.Returns(fn) {
			if len(ret.Results) != 1 || sx.IsNil(ret.Results[0]) {
				continue
			}
			var visit func(v ssa.Value, d int) string
			visit = func(v ssa.Value, d int) string {
				if d > 6 {
					return "undecided value"
				}
				switch x := v.(type) {
				case *ssa.Const:
					return ""
				case *ssa.MakeInterface:
					return visit(x.X, d+1)
				case *ssa.Phi:
					for _, e := range x.Edges {
						if why := visit(e, d+1); why != "" {
							return why
						}
					}
					return ""
				case *ssa.Alloc:
					if !types.Identical(sx.Deref(x.Type()), be) {
						return "a value of type " + load.TypeName(x.Type())
					}
					// the hidden field: stored from the error parameter
					stored := false
					for _, r := range *x.Referrers() {
						switch y := r.(type) {
						case *ssa.FieldAddr:
							if sx.FieldOf(y).Name() != "maskedErr" {
								continue
							}
							for _, u := range *y.Referrers() {
								if st, ok := u.(*ssa.Store); ok && st.Addr == ssa.Value(y) {
									if identity(reg.resolve(identity(st.Val))) == ssa.Value(errP) {
										stored = true
									} else {
										return "a barrier whose hidden error is " + describeVal(st.Val) + ", not the error it was given"
									}
								}
							}
						case *ssa.Store:
							if y.Addr == ssa.Value(x) {
								return "a copy of another barrier (" + describeVal(y.Val) + ")"
							}
						}
					}
					if !stored {
						return "a barrier whose hidden error is never set from the parameter"
					}
					return ""
				case *ssa.Call:
					if h := sx.Callee(x); h != nil && reg.in[h] && h != fn {
						for _, hr := range sx.Returns(h) {
							if len(hr.Results) == 1 {
								if why := visit(hr.Results[0], d+1); why != "" {
									return why
								}
							}
						}
						return ""
					}
				}
				return "not a fresh barrier (" + describeVal(v) + ")"
			}
			n++
			why := visit(ret.Results[0], 0)
			c.Check(why == "", "barriers.HandledWithSafeMessage: returned barrier", ret.Pos(), "a fresh barrier around the error parameter",
				"the barrier constructor returns "+why+": the error it was given is not nested as a whole behind the new barrier, so a layer of it (an inner barrier's own message) is missing from %+v, from the safe details and from the encoded form")
		}
		c.Min("non-nil returns of the barrier sink", n, 1)
	},
}

// ---------------------------------------------------------------------------
// R-WALK-FULL

var rWalkFull = &Rule{
	Name: "R-WALK-FULL",
	Doc: "a branch gets the whole comparison: in markers.Is and markers.IsAny (and their helpers) the recursion into the branches of a multi-cause error is a call of a function that also runs the mark-based phase (it reaches markers.equalMarks) - the exported function itself, or a helper that contains both phases. " +
		"A helper that only repeats the identity / Is-method phase finds in a branch only what is the same object: a reference that is merely equivalent (same message and type marks) to a layer inside a branch matches through Is but not through IsAny",
	Run: func(c *core.Ctx) {
		p := c.P
		em := p.Func("markers", "equalMarks")
		um := p.Func("errbase", "UnwrapMulti")
		if em == nil || um == nil {
			c.InternalErr("markers.equalMarks", "anchor functions not found")
			return
		}
		n := 0
		for _, name := range []string{"Is", "IsAny"} {
			fn := p.Func("markers", name)
			if fn == nil {
				c.InternalErr("markers."+name, "anchor function not found")
				continue
			}
			reg := regionOf(fn)
			// functions of the region from which equalMarks is reached
			reaches := map[*ssa.Function]bool{}
			for changed := true; changed; {
				changed = false
				for _, f := range reg.funcs {
					if reaches[f] {
						continue
					}
					sx.EachInstr(f, func(in ssa.Instruction) {
						if call, ok := in.(*ssa.Call); ok {
							if g := sx.Callee(call); g != nil && (g == em || reaches[g]) {
								if !reaches[f] {
									reaches[f] = true
									changed = true
								}
							}
						}
					})
				}
			}
			reg.each(func(in ssa.Instruction) {
				call, ok := in.(*ssa.Call)
				if !ok || len(call.Call.Args) == 0 {
					return
				}
				g := sx.Callee(call)
				if g == nil || !reg.in[g] {
					return
				}
				// the argument is an element of an UnwrapMulti result
				ld, isLd := identity(call.Call.Args[0]).(*ssa.UnOp)
				if !isLd || ld.Op != token.MUL {
					return
				}
				ia, isIA := ld.X.(*ssa.IndexAddr)
				if !isIA {
					return
				}
				src, isCall := identity(reg.resolve(identity(ia.X))).(*ssa.Call)
				if !isCall || sx.Callee(src) != um {
					return
				}
				n++
				c.Check(reaches[g], "markers."+name+": what a branch is handed to", call.Pos(), "a function that runs both phases (reaches equalMarks)",
					"the branches of a multi-cause error are searched by "+load.FnName(g)+", which never compares marks: a reference that is equivalent (same message and type marks) to a layer inside a branch, but not the same object, is not found there - while the single-cause chain above it is still compared by marks")
			})
		}
		c.Min("recursions into branches in Is / IsAny", n, 2)
	},
}

// ---------------------------------------------------------------------------
// R-IS-DELEGATE

var rIsDelegate = &Rule{
	Name: "R-IS-DELEGATE",
	Doc: "a layer that has an Is(error) bool method is always asked: in markers.tryDelegateToIsMethod every return that is not the method's own answer lies on the edge where the interface assertion failed. " +
		"The standard library calls the method whatever the receiver is (a nil pointer included - many Is methods look at the target only); answering false without calling it makes errors.Is of the standard library true where the library's Is is false",
	Run: func(c *core.Ctx) {
		p := c.P
		fn := p.Func("markers", "tryDelegateToIsMethod")
		if fn == nil {
			c.InternalErr("markers.tryDelegateToIsMethod", "anchor function not found")
			return
		}
		var okV ssa.Value
		var isCall *ssa.Call
		sx.EachInstr(fn, func(in ssa.Instruction) {
			switch x := in.(type) {
			case *ssa.TypeAssert:
				if x.CommaOk {
					for _, r := range *x.Referrers() {
						if ex, ok := r.(*ssa.Extract); ok && ex.Index == 1 {
							okV = ex
						}
					}
				}
			case *ssa.Call:
				if x.Call.IsInvoke() && x.Call.Method.Name() == "Is" {
					isCall = x
				}
			}
		})
		if okV == nil || isCall == nil {
			c.Undecided("markers.tryDelegateToIsMethod", fn.Pos(), "the interface assertion or the call of the Is method was not found")
			return
		}
		n := 0
		var curBlock *ssa.BasicBlock
		for _, ret := range sx.Returns(fn) {
			if len(ret.Results) != 1 {
				continue
			}
			var visit func(v ssa.Value, lits []lit, d int) string
			visit = func(v ssa.Value, lits []lit, d int) string {
				if d > 5 {
					return "undecided"
				}
				switch x := v.(type) {
				case *ssa.Phi:
					for i, e := range x.Edges {
						saved := curBlock
						curBlock = nil
						why := visit(e, edgeLits(x.Block().Preds[i], x.Block()), d+1)
						curBlock = saved
						if why != "" {
							return why
						}
					}
					return ""
				case *ssa.Call:
					if x == isCall {
						return ""
					}
				case *ssa.Const:
					// a constant answer: where the assertion failed, or where it repeats the method's own answer
					truth := x.Value != nil && x.Value.String() == "true"
					sat := func(ls []lit) bool {
						for _, l := range ls {
							if l.V == okV && l.Neg && !truth {
								return true
							}
							if l.V == ssa.Value(isCall) && l.Neg == !truth {
								return true
							}
						}
						return false
					}
					if sat(lits) {
						return ""
					}
					if blk := curBlock; blk != nil && len(blk.Preds) > 0 {
						all := true
						for _, pr := range blk.Preds {
							if !sat(edgeLits(pr, blk)) {
								all = false
							}
						}
						if all {
							return ""
						}
					}
					return "a constant answer on a path where the layer does have an Is method that was not asked"
				}
				return "something else than the method's answer (" + describeVal(v) + ")"
			}
			n++
			curBlock = ret.Block()
			why := visit(ret.Results[0], dominatingLits(ret.Block()), 0)
			c.Check(why == "", "markers.tryDelegateToIsMethod: returned answer", ret.Pos(), "the Is method's own answer, or false where the layer has no such method",
				"tryDelegateToIsMethod returns "+why+": the layer's Is(error) bool method is not asked for some receivers (a nil pointer, a particular kind), so a reference that only that method declares equivalent is not matched - the standard library's errors.Is calls the method in every case")
		}
		c.Min("returns of tryDelegateToIsMethod", n, 1)
	},
}

// ---------------------------------------------------------------------------
// R-STACK-RAW

var rStackRaw = &Rule{
	Name: "R-STACK-RAW",
	Doc: "the recorded stack is the captured one: in withstack.WithStackDepth (and its helpers) the value stored into withStack.stack is the result of withstack.callers itself - not a function of it. " +
		"Trimming or re-basing the captured frames (dropping the frames of a recovered panic, say) makes the first frame something else than the constructor's caller for the call sites the trimming recognises",
	Run: func(c *core.Ctx) {
		p := c.P
		fn := p.Func("withstack", "WithStackDepth")
		callers := p.Func("withstack", "callers")
		if fn == nil || callers == nil {
			c.InternalErr("withstack.WithStackDepth / callers", "anchor functions not found")
			return
		}
		reg := regionOf(fn, callers)
		n := 0
		reg.each(func(in ssa.Instruction) {
			st, ok := in.(*ssa.Store)
			if !ok {
				return
			}
			fa, ok := st.Addr.(*ssa.FieldAddr)
			if !ok || sx.FieldOf(fa).Name() != "stack" {
				return
			}
			n++
			v := identity(reg.resolve(identity(st.Val)))
			call, isCall := v.(*ssa.Call)
			c.Check(isCall && sx.Callee(call) == callers, "withstack.WithStackDepth: the stack that is recorded", st.Pos(), "the result of callers(depth+1) itself",
				"the stack stored in the new withStack is "+describeVal(st.Val)+", not the captured stack itself: frames are dropped or re-based after the capture, so for some call sites the first recorded frame is not the function that called the constructor")
		})
		c.Min("stores of the captured stack", n, 1)
	},
}

// ---------------------------------------------------------------------------
// R-RESULT-FRESH

var rResultFresh = &Rule{
	Name: "R-RESULT-FRESH",
	Doc: "what an aggregating accessor hands out belongs to the caller: every slice returned by GetTelemetryKeys, GetAllHints, GetAllDetails, GetAllIssueLinks, GetContextTags and GetAllSafeDetails is freshly built by the call (nil, make, or appends onto such a slice) - never a slice that an error object holds. " +
		"The callers are invited to sort the result; a result that aliases the error's own storage lets them rewrite the error, and concurrent observers race with them",
	Run: func(c *core.Ctx) {
		p := c.P
		n := 0
		for _, a := range [][2]string{{"telemetrykeys", "GetTelemetryKeys"}, {"hintdetail", "GetAllHints"}, {"hintdetail", "GetAllDetails"}, {"issuelink", "GetAllIssueLinks"}, {"contexttags", "GetContextTags"}, {"errbase", "GetAllSafeDetails"}} {
			fn := p.Func(a[0], a[1])
			if fn == nil {
				c.InternalErr(a[0]+"."+a[1], "anchor function not found")
				continue
			}
			for _, ret := range sx.Returns(fn) {
				for _, res := range ret.Results {
					if _, isSlice := types.Unalias(res.Type()).Underlying().(*types.Slice); !isSlice {
						continue
					}
					n++
					c.Check(sx.IsNil(res) || freshSlice(res, 0), a[0]+"."+a[1]+": returned slice", ret.Pos(), "built by this call",
						"the accessor returns a slice that was not built by the call ("+describeVal(res)+"): it aliases storage that an error object holds, so a caller that sorts or edits the result rewrites the error, and concurrent observers race")
				}
			}
		}
		c.Min("slice results of the aggregating accessors", n, 6)
	},
}

// ---------------------------------------------------------------------------
// R-ENC-DISPATCH

var rEncDispatch = &Rule{
	Name: "R-ENC-DISPATCH",
	Doc: "the shape of a node decides how it travels: in errbase.EncodeError (and its helpers) the cause handed to encodeWrapper is the result of UnwrapOnce(err) itself - never a branch taken out of UnwrapMulti(err). " +
		"A multi-cause node encoded as a wrapper (because it happens to have one branch) comes back as a single-cause chain link: the visible tree has another shape after the first hop",
	Run: func(c *core.Ctx) {
		p := c.P
		ee, ew, uo := p.Func("errbase", "EncodeError"), p.Func("errbase", "encodeWrapper"), p.Func("errbase", "UnwrapOnce")
		if ee == nil || ew == nil || uo == nil || len(ee.Params) < 2 {
			c.InternalErr("errbase.EncodeError / encodeWrapper / UnwrapOnce", "anchor functions not found")
			return
		}
		reg := regionOf(ee, ew, p.Func("errbase", "encodeLeaf"))
		n := 0
		reg.each(func(in ssa.Instruction) {
			call, ok := in.(*ssa.Call)
			if !ok || sx.Callee(call) != ew || len(call.Call.Args) < 3 {
				return
			}
			n++
			v := identity(reg.resolve(identity(call.Call.Args[2])))
			src, isCall := v.(*ssa.Call)
			good := isCall && sx.Callee(src) == uo && len(src.Call.Args) == 1 && identity(reg.resolve(identity(src.Call.Args[0]))) == ssa.Value(ee.Params[1])
			c.Check(good, "errbase.EncodeError: the cause handed to encodeWrapper", call.Pos(), "UnwrapOnce(err) itself",
				"EncodeError encodes a node as a wrapper around "+describeVal(call.Call.Args[2])+", which is not the node's UnwrapOnce() cause: a multi-cause node with one branch travels as a wrapper and comes back as a single-cause chain link, so the visible cause tree changes shape after the first hop")
		})
		c.Min("calls of encodeWrapper from the dispatcher", n, 1)
	},
}

// ---------------------------------------------------------------------------
// R-MARK-EQUALS

var rMarkEquals = &Rule{
	Name: "R-MARK-EQUALS",
	Doc: "two type marks are equal when both parts are: in errorspb.ErrorTypeMark.Equals every way of answering true has passed the equality test of the two FamilyName fields AND the equality test of the two Extension fields (each comparing the receiver's field with the argument's). " +
		"A shortcut that accepts on the family name alone when one side's extension is empty makes an error without a domain (or with an empty one) match references of any domain, and makes the comparison asymmetric",
	Run: func(c *core.Ctx) {
		p := c.P
		etm := p.Named("errorspb", "ErrorTypeMark")
		if etm == nil {
			c.InternalErr("errorspb.ErrorTypeMark", "anchor type not found")
			return
		}
		fn := p.DeclaredMethod(etm, "Equals")
		if fn == nil || len(fn.Params) < 2 {
			c.InternalErr("errorspb.ErrorTypeMark.Equals", "anchor method not found")
			return
		}
		// which field of which parameter a value is
		fieldOf := func(v ssa.Value) (string, int) {
			switch x := v.(type) {
			case *ssa.Field:
				if prm, ok := x.X.(*ssa.Parameter); ok {
					if st, isSt := types.Unalias(prm.Type()).Underlying().(*types.Struct); isSt {
						return st.Field(x.Field).Name(), paramIndex(fn, prm)
					}
				}
			case *ssa.UnOp:
				if fa, ok := x.X.(*ssa.FieldAddr); ok && x.Op == token.MUL {
					root := fa.X
					if al, isAl := root.(*ssa.Alloc); isAl {
						// a spilled struct parameter
						for _, r := range *al.Referrers() {
							if st, isSt := r.(*ssa.Store); isSt && st.Addr == ssa.Value(al) {
								root = st.Val
							}
						}
					}
					if prm, isP := root.(*ssa.Parameter); isP {
						return sx.FieldOf(fa).Name(), paramIndex(fn, prm)
					}
				}
			}
			return "", -1
		}
		cmpOf := func(l lit) string {
			bin, ok := l.V.(*ssa.BinOp)
			if !ok || !((bin.Op == token.EQL && !l.Neg) || (bin.Op == token.NEQ && l.Neg)) {
				return ""
			}
			fx, ix := fieldOf(bin.X)
			fy, iy := fieldOf(bin.Y)
			if fx != "" && fx == fy && ix >= 0 && iy >= 0 && ix != iy {
				return fx
			}
			return ""
		}
		n := 0
		for _, ret := range sx.Returns(fn) {
			if len(ret.Results) != 1 {
				continue
			}
			var visit func(v ssa.Value, lits []lit, d int) string
			visit = func(v ssa.Value, lits []lit, d int) string {
				if d > 5 {
					return "undecided"
				}
				have := map[string]bool{}
				for _, l := range lits {
					if f := cmpOf(l); f != "" {
						have[f] = true
					}
				}
				switch x := v.(type) {
				case *ssa.Const:
					if x.Value != nil && x.Value.String() == "false" {
						return ""
					}
					if have["FamilyName"] && have["Extension"] {
						return ""
					}
					return "true is answered without both field comparisons having succeeded"
				case *ssa.Phi:
					for i, e := range x.Edges {
						if why := visit(e, edgeLits(x.Block().Preds[i], x.Block()), d+1); why != "" {
							return why
						}
					}
					return ""
				case *ssa.BinOp:
					// the last conjunct as a value: it is one of the comparisons, the other one holds on the way here
					if f := cmpOf(lit{V: x}); f != "" {
						have[f] = true
						if have["FamilyName"] && have["Extension"] {
							return ""
						}
					}
					return "the answer is a comparison that does not complete both field comparisons"
				}
				return "the answer is not built from the two field comparisons (" + describeVal(v) + ")"
			}
			n++
			why := visit(ret.Results[0], dominatingLits(ret.Block()), 0)
			c.Check(why == "", "errorspb.ErrorTypeMark.Equals: when the answer is true", ret.Pos(), "FamilyName and Extension of both marks compared equal",
				"ErrorTypeMark.Equals: "+why+": marks that differ in their extension (the domain of an error) or family name can compare equal, so errors of different domains match each other in Is / IsAny")
		}
		c.Min("returns of ErrorTypeMark.Equals", n, 1)
	},
}

// ---------------------------------------------------------------------------
// R-DETAILS-ORDER

var rDetailsOrder = &Rule{
	Name: "R-DETAILS-ORDER",
	Doc: "a layer's own safe details come first: errbase.getDetails (behind GetSafeDetails / GetAllSafeDetails and the safe-detail walks of barriers and secondary errors) probes errbase.SafeDetailer before it falls back to a pkg/errors-style StackTrace(). " +
		"A layer that has both otherwise reports only its printed stack: the strings it declares PII-free disappear from GetAllSafeDetails and from the details a barrier or secondary-error wrapper relays",
	Run: func(c *core.Ctx) {
		fn := c.P.Func("errbase", "getDetails")
		if fn == nil {
			c.InternalErr("errbase.getDetails", "anchor function not found")
			return
		}
		var order []string
		var pos token.Pos
		for _, f := range regionOf(fn).funcs {
			for _, b := range f.DomPreorder() {
				for _, in := range b.Instrs {
					ta, ok := in.(*ssa.TypeAssert)
					if !ok {
						continue
					}
					if sx.IsNamed(ta.AssertedType, errbasePath, "SafeDetailer") {
						order = append(order, "SafeDetailer")
					} else if it, isI := types.Unalias(ta.AssertedType).Underlying().(*types.Interface); isI {
						for i := 0; i < it.NumMethods(); i++ {
							if it.Method(i).Name() == "StackTrace" {
								order = append(order, "StackTrace")
							}
						}
					}
					if pos == token.NoPos {
						pos = ta.Pos()
					}
				}
			}
		}
		iS, iT := -1, -1
		for i, o := range order {
			if o == "SafeDetailer" && iS < 0 {
				iS = i
			}
			if o == "StackTrace" && iT < 0 {
				iT = i
			}
		}
		if iS < 0 {
			c.Fail("errbase.getDetails: probe order", fn.Pos(), "getDetails no longer asks a layer for its SafeDetails()")
			return
		}
		c.Check(iT < 0 || iS < iT, "errbase.getDetails: probe order", pos, "SafeDetailer before the StackTrace() fallback",
			"getDetails asks a layer for a pkg/errors-style StackTrace() before errbase.SafeDetailer: a layer that has both reports only its printed stack, so the strings it declares safe are missing from GetAllSafeDetails and from what barriers and secondary-error wrappers relay")
	},
}
