package rules

import (
	"fmt"
	"go/token"
	"go/types"
	"strings"

	"golang.org/x/tools/go/ssa"

	"verif/checker/internal/core"
	"verif/checker/internal/load"
	"verif/checker/internal/sx"
)

// ---------------------------------------------------------------------------
// R-HINT-PROVIDERS

var rHintProviders = &Rule{
	Name: "R-HINT-PROVIDERS",
	Doc:  "the census of ErrorHint() implementers contains withHint, withIssueLink, unimplementedError and withAssertionFailure, and ErrorDetail() is implemented by withDetail; the standard hints are built from the exported constants (AssertionErrorHint, UnimplementedErrorHint, stdstrings.IssueReferral)",
	Run: func(c *core.Ctx) {
		cs := GetCensus(c)
		want := map[string]string{"hintdetail.withHint": "ErrorHint", "issuelink.withIssueLink": "ErrorHint", "issuelink.unimplementedError": "ErrorHint", "assert.withAssertionFailure": "ErrorHint", "hintdetail.withDetail": "ErrorDetail"}
		for _, et := range cs.ErrTypes {
			m, ok := want[et.Name()]
			if !ok {
				continue
			}
			fn := et.Methods[m]
			good := fn != nil && fn.Signature.Params().Len() == 0 && fn.Signature.Results().Len() == 1
			c.Check(good, et.Name()+"."+m+"()", et.Named.Obj().Pos(), "implements the provider interface", "the type no longer contributes its "+strings.TrimPrefix(m, "Error")+" to GetAll"+strings.TrimPrefix(m, "Error")+"s")
			delete(want, et.Name())
		}
		for k := range want {
			c.Fail(k, token.NoPos, "provider type not found")
		}
		// ... and nobody else: a method promoted from an embedded struct counts (the accessors ask by interface)
		wantAll := map[string]string{"hintdetail.withHint": "ErrorHint", "issuelink.withIssueLink": "ErrorHint", "issuelink.unimplementedError": "ErrorHint", "assert.withAssertionFailure": "ErrorHint", "hintdetail.withDetail": "ErrorDetail"}
		for _, et := range cs.ErrTypes {
			ms := types.NewMethodSet(types.NewPointer(et.Named))
			for _, m := range []string{"ErrorHint", "ErrorDetail"} {
				sel := ms.Lookup(nil, m)
				if sel == nil {
					sel = ms.Lookup(et.Named.Obj().Pkg(), m)
				}
				if sel == nil {
					continue
				}
				sig, isSig := sel.Type().(*types.Signature)
				if !isSig || sig.Params().Len() != 0 || sig.Results().Len() != 1 {
					continue
				}
				if wantAll[et.Name()] == m {
					continue
				}
				c.Fail(et.Name()+" also provides "+m+"()", et.Named.Obj().Pos(), "the type has a method "+m+"() string in its method set (possibly promoted from an embedded struct) although it is not one of the documented providers: GetAll"+strings.TrimPrefix(m, "Error")+"s / Flatten"+strings.TrimPrefix(m, "Error")+"s now list an entry for each such layer")
			}
		}
		// constants used by the standard hints
		uses := func(fn *ssa.Function, constName string) bool {
			found := false
			var walk func(f *ssa.Function, d int)
			walk = func(f *ssa.Function, d int) {
				if f == nil || f.Blocks == nil || d > 2 {
					return
				}
				sx.EachInstr(f, func(in ssa.Instruction) {
					var ops []*ssa.Value
					for _, op := range in.Operands(ops) {
						if cst, ok := (*op).(*ssa.Const); ok {
							if s, ok := sx.ConstString(cst); ok && len(s) > 10 && (strings.Contains(constValue(c, constName), s) || strings.Contains(s, constValue(c, constName))) {
								found = true
							}
						}
					}
					if call, ok := in.(*ssa.Call); ok {
						if cal := sx.Callee(call); cal != nil && c.P.InModule(cal) {
							walk(cal, d+1)
						}
					}
				})
			}
			walk(fn, 0)
			return found
		}
		for _, x := range []struct{ typ, rel, cst string }{
			{"withAssertionFailure", "assert", "assert.AssertionErrorHint"},
			{"withAssertionFailure", "assert", "stdstrings.IssueReferral"},
			{"unimplementedError", "issuelink", "issuelink.UnimplementedErrorHint"},
			{"unimplementedError", "issuelink", "stdstrings.IssueReferral"},
			{"withIssueLink", "issuelink", "stdstrings.IssueReferral"},
		} {
			fn := c.P.Method(c.P.Named(x.rel, x.typ), "ErrorHint")
			c.Check(fn != nil && uses(fn, x.cst), x.rel+"."+x.typ+".ErrorHint uses "+x.cst, token.NoPos, "standard hint text built from the exported constant", "the standard hint no longer includes "+x.cst)
		}
	},
}

func constValue(c *core.Ctx, qualified string) string {
	i := strings.Index(qualified, ".")
	pk := c.P.Pkg(qualified[:i])
	if pk == nil {
		return "\x00"
	}
	if k, ok := pk.Types.Scope().Lookup(qualified[i+1:]).(*types.Const); ok {
		s := k.Val().ExactString()
		if len(s) >= 2 {
			return strings.ReplaceAll(s[1:len(s)-1], "\\n", "\n")
		}
	}
	return "\x00"
}

// ---------------------------------------------------------------------------
// R-ORDER

var rOrder = &Rule{
	Name: "R-ORDER",
	Doc: "aggregation order: getAllHintsInternal and getAllDetailsInternal descend (recursive call on UnwrapOnce(err)) before they emit - no path leads from an append back to the recursive call - so lists are innermost-first; GetAllIssueLinks, GetContextTags and GetAllSafeDetails append inside a loop stepped by UnwrapOnce with no later reversal, so they are outermost-first; " +
		"GetOneLineSource descends before it inspects its own layer (innermost frame wins)",
	Run: func(c *core.Ctx) { runOrderOnly(c, "") },
}

func runOrderOnly(c *core.Ctx, only string) {
	{
		p := c.P
		uo := p.Func("errbase", "UnwrapOnce")
		reachable := func(from, to *ssa.BasicBlock) bool {
			seen := map[*ssa.BasicBlock]bool{}
			stack := []*ssa.BasicBlock{from}
			for len(stack) > 0 {
				b := stack[len(stack)-1]
				stack = stack[:len(stack)-1]
				if b == to {
					return true
				}
				if seen[b] {
					continue
				}
				seen[b] = true
				stack = append(stack, b.Succs...)
			}
			return false
		}
		recs := []struct{ rel, fn string }{{"hintdetail", "getAllHintsInternal"}, {"hintdetail", "getAllDetailsInternal"}, {"withstack", "GetOneLineSource"}}
		if only != "" {
			recs = []struct{ rel, fn string }{{"withstack", only}}
		}
		for _, x := range recs {
			fn := p.Func(x.rel, x.fn)
			name := x.rel + "." + x.fn
			if fn == nil {
				c.Fail(name, token.NoPos, "accessor not found")
				continue
			}
			var rec *ssa.Call
			var emits []ssa.Instruction
			reg := regionOf(fn)
			appendsIn := func(h *ssa.Function) bool {
				found := false
				sub := regionOf(h)
				sub.each(func(in ssa.Instruction) {
					if call, ok := in.(*ssa.Call); ok {
						if b, ok := call.Call.Value.(*ssa.Builtin); ok && b.Name() == "append" {
							found = true
						}
						// looking at the layer's own stack / details is the emit of GetOneLineSource
						if call.Call.IsInvoke() && (call.Call.Method.Name() == "StackTrace" || call.Call.Method.Name() == "SafeDetails") {
							found = true
						}
					}
				})
				return found
			}
			sx.EachInstr(fn, func(in ssa.Instruction) {
				call, ok := in.(*ssa.Call)
				if !ok {
					return
				}
				if sx.Callee(call) == fn {
					rec = call
				}
				// a helper of the accessor that does the appending emits at its call site
				if h := sx.Callee(call); h != nil && h != fn && reg.in[h] && appendsIn(h) {
					emits = append(emits, call)
				}
				if b, ok := call.Call.Value.(*ssa.Builtin); ok && b.Name() == "append" {
					emits = append(emits, call)
				}
				if call.Call.IsInvoke() && (call.Call.Method.Name() == "StackTrace" || call.Call.Method.Name() == "SafeDetails") {
					emits = append(emits, call)
				}
			})
			if rec == nil {
				c.Undecided(name, fn.Pos(), "no recursive descent found (idiom not recognised)")
				continue
			}
			arg, _ := rec.Call.Args[0].(*ssa.Call)
			argOK := arg != nil && sx.Callee(arg) == uo
			okOrder := len(emits) > 0
			for _, e := range emits {
				if e.Block() == rec.Block() {
					// same block: the emit must come after the call
					after := false
					for _, in := range e.Block().Instrs {
						if in == ssa.Instruction(rec) {
							after = true
						}
						if in == e && !after {
							okOrder = false
						}
					}
					continue
				}
				if reachable(e.Block(), rec.Block()) {
					okOrder = false
				}
			}
			c.Check(argOK && okOrder, name+": innermost first", fn.Pos(), "recursive descent on UnwrapOnce(err) precedes every emit",
				"the accessor emits its own layer before (or without) descending into the cause: the documented innermost-first order is lost")
		}
		if only != "" {
			return
		}
		for _, x := range []struct{ rel, fn string }{{"issuelink", "GetAllIssueLinks"}, {"contexttags", "GetContextTags"}, {"errbase", "GetAllSafeDetails"}} {
			fn := p.Func(x.rel, x.fn)
			name := x.rel + "." + x.fn
			if fn == nil {
				c.Fail(name, token.NoPos, "accessor not found")
				continue
			}
			loops := naturalLoops(fn)
			okLoop := false
			for _, l := range loops {
				hasStep, hasAppend := false, false
				for b := range l.Body {
					for _, in := range b.Instrs {
						if call, ok := in.(*ssa.Call); ok {
							if sx.Callee(call) == uo {
								hasStep = true
							}
							if bi, ok := call.Call.Value.(*ssa.Builtin); ok && bi.Name() == "append" {
								hasAppend = true
							}
						}
					}
				}
				if hasStep && hasAppend {
					okLoop = true
				}
			}
			// no reversal: no second loop, no call whose name contains "everse"
			reversal := len(loops) > 1
			sx.EachInstr(fn, func(in ssa.Instruction) {
				if call, ok := in.(*ssa.Call); ok {
					if cal := sx.Callee(call); cal != nil && strings.Contains(strings.ToLower(cal.Name()), "revers") {
						reversal = true
					}
				}
			})
			c.Check(okLoop && !reversal, name+": outermost first", fn.Pos(), "appends inside the UnwrapOnce-stepped loop, no reversal",
				"the accessor no longer appends layer by layer from the outermost error inwards")
		}
	}
}

// ---------------------------------------------------------------------------
// R-DEDUP

var rDedup = &Rule{
	Name: "R-DEDUP",
	Doc:  "in the hints accessor the append happens only on the not-found edge of a lookup in the 'seen' set keyed by the hint, and that edge inserts the key (first occurrence wins, each distinct text once); the details accessor has no such set (no de-duplication); empty texts are skipped by a test on the same value",
	Run: func(c *core.Ctx) {
		p := c.P
		hf, df := p.Func("hintdetail", "getAllHintsInternal"), p.Func("hintdetail", "getAllDetailsInternal")
		if hf == nil || df == nil {
			c.InternalErr("hintdetail accessors", "anchor functions not found")
			return
		}
		var app *ssa.Call
		hreg := regionOf(hf)
		hreg.each(func(in ssa.Instruction) {
			if call, ok := in.(*ssa.Call); ok {
				if b, ok := call.Call.Value.(*ssa.Builtin); ok && b.Name() == "append" {
					app = call
				}
			}
		})
		if app == nil {
			c.Fail("hintdetail.getAllHintsInternal: append", hf.Pos(), "no append of the hint found")
			return
		}
		// the appended value
		els := varargs(app.Call.Args[1])
		var hint ssa.Value
		if len(els) == 1 {
			hint = els[0]
		}
		lits := hreg.lits(app.Block())
		guardOK := false
		for _, l := range lits {
			ex, ok := l.V.(*ssa.Extract)
			if !ok || ex.Index != 1 || !l.Neg {
				continue
			}
			if lk, ok := ex.Tuple.(*ssa.Lookup); ok && lk.CommaOk && lk.Index == hint {
				guardOK = true
			}
		}
		insertOK := false
		for _, in := range app.Block().Instrs {
			if mu, ok := in.(*ssa.MapUpdate); ok && mu.Key == hint {
				insertOK = true
			}
		}
		c.Check(guardOK && insertOK && hint != nil, "hintdetail.getAllHintsInternal: de-duplication", app.Pos(), "append only when the hint is not yet in the seen set; the same block records it",
			"hints are appended without the first-occurrence-wins guard on the seen set keyed by the hint text (or the key is not recorded)")
		// non-empty test on the same value
		nonEmpty := false
		for _, l := range lits {
			if bo, ok := l.V.(*ssa.BinOp); ok {
				if s, isC := sx.ConstString(bo.Y); isC && s == "" && bo.X == hint && ((bo.Op == token.NEQ && !l.Neg) || (bo.Op == token.EQL && l.Neg)) {
					nonEmpty = true
				}
			}
		}
		c.Check(nonEmpty, "hintdetail.getAllHintsInternal: empty hints skipped", app.Pos(), "append under hint != \"\"", "empty hints are not skipped by a test on the appended value")
		// details: no map at all
		hasMap := false
		sx.EachInstr(df, func(in ssa.Instruction) {
			switch in.(type) {
			case *ssa.MapUpdate, *ssa.Lookup, *ssa.MakeMap:
				hasMap = true
			}
		})
		c.Check(!hasMap, "hintdetail.getAllDetailsInternal: no de-duplication", df.Pos(), "no set is consulted", "details are de-duplicated although the documentation says every non-empty detail is listed")
	},
}

// ---------------------------------------------------------------------------
// R-FLATTEN-SEP

var rFlattenSep = &Rule{
	Name: "R-FLATTEN-SEP",
	Doc:  "FlattenHints and FlattenDetails join with the same separator constant \"\\n--\\n\" (a line containing only --), written between elements only (the first separator is empty)",
	Run: func(c *core.Ctx) {
		seps := map[string][]string{}
		for _, n := range []string{"FlattenHints", "FlattenDetails"} {
			fn := c.P.Func("hintdetail", n)
			if fn == nil {
				c.Fail("hintdetail."+n, token.NoPos, "function not found")
				continue
			}
			// the joining may live in a helper that receives the list
			worker := fn
			for _, ret := range sx.Returns(fn) {
				if call, ok := ret.Results[0].(*ssa.Call); ok {
					if f := sx.Callee(call); f != nil && c.P.InModule(f) && f.Blocks != nil && len(call.Call.Args) == 1 {
						if inner, ok := call.Call.Args[0].(*ssa.Call); ok && sx.Callee(inner) != nil && strings.HasPrefix(sx.Callee(inner).Name(), "GetAll") {
							worker = f
						}
					}
				}
			}
			// form 1: strings.Join(list, sep)
			joined := ""
			isJoin := false
			sx.EachInstr(worker, func(in ssa.Instruction) {
				if call, ok := in.(*ssa.Call); ok {
					if f := sx.Callee(call); f != nil && f.Name() == "Join" && load.FnPkg(f) != nil && load.FnPkg(f).Path() == "strings" && len(call.Call.Args) == 2 {
						if sp, ok := sx.ConstString(call.Call.Args[1]); ok {
							isJoin, joined = true, sp
						}
					}
				}
			})
			if isJoin {
				c.Check(joined == "\n--\n", "hintdetail."+n+": separator", fn.Pos(), "strings.Join with \"\\n--\\n\"", fmt.Sprintf("the list is joined with %q, not the documented \"\\n--\\n\"", joined))
				continue
			}
			// form 2: a loop writing a separator variable that is "" first and the separator afterwards
			sx.EachInstr(worker, func(in ssa.Instruction) {
				if ph, ok := in.(*ssa.Phi); ok {
					for _, e := range ph.Edges {
						if s, ok := sx.ConstString(e); ok {
							seps[n] = append(seps[n], s)
						}
					}
				}
			})
			got := strings.Join(seps[n], "|")
			c.Check(got == "|\n--\n" || got == "\n--\n|", "hintdetail."+n+": separator", fn.Pos(), "\"\" before the first element, \"\\n--\\n\" afterwards", fmt.Sprintf("separator values %q differ from the documented \"\\n--\\n\"", seps[n]))
		}
	},
}

// ---------------------------------------------------------------------------
// R-GUARD-FIELD

var rGuardField = &Rule{
	Name: "R-GUARD-FIELD",
	Doc: "when a text member of an issue link / hint / detail is printed, appended or formatted conditionally, the condition tests THAT member (f != \"\"), not a sibling member or the whole struct: " +
		"for every use of a string field X.f as an argument inside a branch whose dominating conditions read members of the same object X, those members are f itself",
	Run: runGuardField,
}

func runGuardField(c *core.Ctx) {
	p := c.P
	n := 0
	scope := map[string]bool{load.ModPath + "/issuelink": true, load.ModPath + "/hintdetail": true}
	for _, fn := range p.HandFuncs() {
		if pk := load.FnPkg(fn); pk == nil || !scope[pk.Path()] {
			continue
		}
		sx.EachInstr(fn, func(in ssa.Instruction) {
			call, ok := in.(*ssa.Call)
			if !ok {
				return
			}
			// string field values used as arguments (through varargs / redact.Safe)
			var used []ssa.Value
			for _, a := range call.Call.Args {
				vals := []ssa.Value{a}
				if els, ok := varargsVals(a); ok {
					vals = els
				}
				for _, v := range vals {
					v = unwrapSafe(v)
					if fieldPathOf(v) != nil {
						used = append(used, v)
					}
				}
			}
			for _, v := range used {
				fp := fieldPathOf(v)
				if b, ok := types.Unalias(v.Type()).Underlying().(*types.Basic); !ok || b.Info()&types.IsString == 0 {
					continue
				}
				base, path := fp.base, fp.path
				lits := dominatingLits(call.Block())
				for _, l := range lits {
					for _, cv := range condOperands(l.V) {
						other := fieldPathOf(cv)
						var wholeStruct bool
						if other == nil {
							// comparison of the whole struct value
							if ld, ok := cv.(*ssa.UnOp); ok && ld.Op == token.MUL {
								if _, isStruct := types.Unalias(ld.Type()).Underlying().(*types.Struct); isStruct {
									if sameBase(ld.X, base) || isPrefixAddr(ld.X, base, path) {
										wholeStruct = true
									}
								}
							}
							if !wholeStruct {
								continue
							}
						}
						n++
						construct := fmt.Sprintf("%s: use of %s under a condition", load.FnName(fn), strings.Join(path, "."))
						switch {
						case wholeStruct:
							c.Fail(construct, call.Pos(), "the member is used under a condition on the whole struct, not on the member itself: it is emitted (possibly empty) whenever any sibling member is set")
						case other != nil && sameBase(other.base, base) && strings.Join(other.path, ".") != strings.Join(path, "."):
							c.Fail(construct, call.Pos(), "the member is used under a condition on its sibling "+strings.Join(other.path, ".")+": it is dropped (or emitted empty) depending on another member")
						case other != nil && sameBase(other.base, base):
							c.Ob(construct, call.Pos(), true, "guarded by a test of the same member")
						}
					}
				}
			}
		})
	}
	c.Min("conditional uses of text members", n, 6)
}

type fpath struct {
	base ssa.Value
	path []string
}

// fieldPathOf: v is a load of base.f1.f2 (base a parameter or local struct).
func fieldPathOf(v ssa.Value) *fpath {
	ld, ok := v.(*ssa.UnOp)
	if !ok || ld.Op != token.MUL {
		if f, ok := v.(*ssa.Field); ok {
			return &fpath{base: f.X, path: []string{sx.FieldOf(f).Name()}}
		}
		return nil
	}
	addr := ld.X
	var path []string
	for {
		fa, ok := addr.(*ssa.FieldAddr)
		if !ok {
			break
		}
		path = append([]string{sx.FieldOf(fa).Name()}, path...)
		addr = fa.X
	}
	if len(path) == 0 {
		return nil
	}
	return &fpath{base: sx.Unspill(addr), path: path}
}

func sameBase(a, b ssa.Value) bool { return sx.Unspill(a) == sx.Unspill(b) }

func isPrefixAddr(addr ssa.Value, base ssa.Value, path []string) bool {
	// addr = &base.f1 where f1 is a prefix of path
	var p []string
	for {
		fa, ok := addr.(*ssa.FieldAddr)
		if !ok {
			break
		}
		p = append([]string{sx.FieldOf(fa).Name()}, p...)
		addr = fa.X
	}
	if !sameBase(addr, base) || len(p) > len(path) {
		return false
	}
	for i := range p {
		if p[i] != path[i] {
			return false
		}
	}
	return true
}

func condOperands(v ssa.Value) []ssa.Value {
	if bo, ok := v.(*ssa.BinOp); ok {
		return []ssa.Value{bo.X, bo.Y}
	}
	return []ssa.Value{v}
}
