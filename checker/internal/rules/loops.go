package rules

import (
	"fmt"
	"go/token"

	"golang.org/x/tools/go/ssa"

	"verif/checker/internal/core"
	"verif/checker/internal/load"
	"verif/checker/internal/sx"
)

// natLoop is a natural loop of the SSA control-flow graph.
type natLoop struct {
	Header *ssa.BasicBlock
	Body   map[*ssa.BasicBlock]bool
}

func naturalLoops(fn *ssa.Function) []*natLoop {
	byHeader := map[*ssa.BasicBlock]*natLoop{}
	var order []*ssa.BasicBlock
	for _, b := range fn.Blocks {
		for _, s := range b.Succs {
			if s.Dominates(b) { // back edge b -> s
				l := byHeader[s]
				if l == nil {
					l = &natLoop{Header: s, Body: map[*ssa.BasicBlock]bool{s: true}}
					byHeader[s] = l
					order = append(order, s)
				}
				// nodes that reach b without passing s
				stack := []*ssa.BasicBlock{b}
				for len(stack) > 0 {
					x := stack[len(stack)-1]
					stack = stack[:len(stack)-1]
					if l.Body[x] {
						continue
					}
					l.Body[x] = true
					stack = append(stack, x.Preds...)
				}
			}
		}
	}
	var out []*natLoop
	for _, h := range order {
		out = append(out, byHeader[h])
	}
	return out
}

// exitEdges lists the edges leaving the loop.
func (l *natLoop) exitEdges() [][2]*ssa.BasicBlock {
	var out [][2]*ssa.BasicBlock
	for b := range l.Body {
		for _, s := range b.Succs {
			if !l.Body[s] {
				out = append(out, [2]*ssa.BasicBlock{b, s})
			}
		}
	}
	return out
}

// returnsConstTrue: block (or the single-successor chain after it) returns the constant true.
func returnsConstTrue(b *ssa.BasicBlock) bool {
	for i := 0; i < 3 && b != nil; i++ {
		if len(b.Instrs) == 0 {
			return false
		}
		if r, ok := b.Instrs[len(b.Instrs)-1].(*ssa.Return); ok {
			if len(r.Results) == 1 {
				if cst, ok := r.Results[0].(*ssa.Const); ok && cst.Value != nil && cst.Value.String() == "true" {
					return true
				}
			}
			return false
		}
		if len(b.Succs) != 1 {
			return false
		}
		b = b.Succs[0]
	}
	return false
}

// loopPolicy: which early exits a function's loops may have.
type loopPolicy struct {
	rel, fn string
	policy  string // "found": only `return true`; "all": no early exit at all
	why     string
}

var loopPolicies = []loopPolicy{
	{"markers", "Is", "found", "every layer of the chain and every branch must be compared unless a match was found"},
	{"markers", "IsAny", "found", "every layer, reference and branch must be compared unless a match was found"},
	{"errutil", "As", "found", "every layer of the chain is tested itself (assignability, its own As method) and every branch is searched unless a match was found"},
	{"telemetrykeys", "GetTelemetryKeys", "all", "the result is the union of the keys of all layers"},
	{"issuelink", "GetAllIssueLinks", "all", "every layer contributes its link"},
	{"contexttags", "GetContextTags", "all", "every layer contributes its tags"},
	{"errbase", "GetAllSafeDetails", "all", "every layer contributes its details"},
	{"report", "visitAllMulti", "all", "every node of the tree is visited"},
	{"errbase", "UnwrapAll", "all", "walks to the root cause"},
	{"errbase", "RegisterTypeMigration", "all", "every registry entry that points at the renamed key must be re-targeted"},
}

var rLoopExits = &Rule{
	Name: "R-LOOP-EXITS",
	Doc: "the chain / branch / key loops of the walkers that must see every element have no early exit: in Is and IsAny a loop may be left early only through `return true`; in GetTelemetryKeys, GetAllIssueLinks, GetContextTags, GetAllSafeDetails, visitAllMulti and UnwrapAll only through the loop condition " +
		"(natural loops of the SSA CFG, exit edges enumerated) - a break/return-false in the middle silently skips layers, branches or keys",
	Run: func(c *core.Ctx) { runLoopExits(c, nil) },
}

func runLoopExits(c *core.Ctx, only map[string]bool) {
	p := c.P
	n := 0
	for _, lp := range loopPolicies {
		if only != nil && !only[lp.rel+"."+lp.fn] {
			continue
		}
		fn := p.Func(lp.rel, lp.fn)
		name := lp.rel + "." + lp.fn
		if fn == nil {
			c.Fail(name, 0, "walker not found")
			continue
		}
		loops := naturalLoops(fn)
		if len(loops) == 0 {
			// the loop may have been moved into a helper of the same package
			sx.EachInstr(fn, func(in ssa.Instruction) {
				if call, ok := in.(*ssa.Call); ok {
					if g := sx.Callee(call); g != nil && g.Blocks != nil && load.FnPkg(g) != nil && load.FnPkg(g) == load.FnPkg(fn) && g != fn {
						loops = append(loops, naturalLoops(g)...)
					}
				}
			})
		}
		if lp.fn != "visitAllMulti" && len(loops) == 0 {
			c.Undecided(name, fn.Pos(), "no loop found in a walker that is expected to iterate")
			continue
		}
		for i, l := range loops {
			n++
			var bad []string
			for _, e := range l.exitEdges() {
				from, to := e[0], e[1]
				if from == l.Header {
					continue
				}
				if lp.policy == "found" && returnsConstTrue(to) {
					continue
				}
				// an inner loop's header exit lands in the outer loop, not outside: not an exit of the outer loop
				bad = append(bad, fmt.Sprintf("block %d (%s) leaves the loop towards block %d (%s) at %s", from.Index, from.Comment, to.Index, to.Comment, p.Pos(lastPos(from))))
			}
			construct := fmt.Sprintf("%s: loop #%d (%s)", name, i+1, l.Header.Comment)
			if len(bad) == 0 {
				c.Ob(construct, fn.Pos(), true, "exits only through its condition"+map[string]string{"found": " or `return true`", "all": ""}[lp.policy])
			} else {
				c.Fail(construct, fn.Pos(), "the loop has an early exit other than "+map[string]string{"found": "`return true`", "all": "its own condition"}[lp.policy]+": "+lp.why, bad...)
			}
		}
	}
	if only == nil {
		c.Min("walker loops", n, 12)
	}
}

func lastPos(b *ssa.BasicBlock) token.Pos {
	for i := len(b.Instrs) - 1; i >= 0; i-- {
		if p := sx.InstrPos(b.Instrs[i]); p.IsValid() {
			return p
		}
	}
	return 0
}

var _ = load.ModPath
